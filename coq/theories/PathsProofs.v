(* PathsProofs.v — model (Paths.v) = specification (PathsSpec.v), for all strings. *)
From Coq Require Import List NArith Bool Lia Arith.
Import ListNotations.
Require Import OJD.Base OJD.Paths OJD.PathsSpec.

(* ------------------------------------------------------------------ basics *)

Lemma str_eqb_refl : forall s, str_eqb s s = true.
Proof. induction s as [|c s IH]; cbn; [reflexivity|]. rewrite N.eqb_refl, IH. reflexivity. Qed.

Lemma str_eqb_eq : forall a b, str_eqb a b = true <-> a = b.
Proof.
  induction a as [|x a IH]; intros [|y b]; cbn; split; intro H; try reflexivity; try discriminate.
  - apply andb_true_iff in H. destruct H as [H1 H2]. apply N.eqb_eq in H1. apply IH in H2. subst. reflexivity.
  - inversion H; subst. rewrite N.eqb_refl. cbn. apply IH. reflexivity.
Qed.

Lemma is_sep_true : forall c, is_sep c = true -> c = SEP.
Proof. intros c H. apply N.eqb_eq in H. exact H. Qed.

Lemma is_nil_true : forall (A : Type) (l : list A), is_nil l = true -> l = [].
Proof. intros A [|x l] H; [reflexivity|discriminate]. Qed.

Lemma is_nil_false : forall (A : Type) (l : list A), is_nil l = false -> l <> [].
Proof. intros A [|x l] H; [discriminate|intro; discriminate]. Qed.

Lemma is_nil_app : forall (A : Type) (a b : list A), is_nil (a ++ b) = is_nil a && is_nil b.
Proof. intros A [|x a] b; reflexivity. Qed.

Lemma filter_all : forall (A : Type) (f : A -> bool) (l : list A),
  Forall (fun x => f x = true) l -> filter f l = l.
Proof. intros A f l H. induction H as [|x l Hx _ IH]; cbn; [reflexivity|]. rewrite Hx, IH. reflexivity. Qed.

Lemma Forall_removelast : forall (A : Type) (P : A -> Prop) (l : list A),
  Forall P l -> Forall P (removelast l).
Proof.
  intros A P l H. induction H as [|x l Hx Hl IH]; cbn; [constructor|].
  destruct l as [|y l']; [constructor|]. constructor; assumption.
Qed.

Lemma Forall_firstn_ : forall (A : Type) (P : A -> Prop) (k : nat) (l : list A),
  Forall P l -> Forall P (firstn k l).
Proof.
  intros A P k. induction k as [|k IH]; intros l H; cbn; [constructor|].
  destruct H as [|x l Hx Hl]; [constructor|]. constructor; [assumption|apply IH; assumption].
Qed.

Lemma firstn_app_len : forall (A : Type) (a b : list A), firstn (length a) (a ++ b) = a.
Proof. intros A a b. induction a as [|x a IH]; cbn; [destruct b; reflexivity|]. rewrite IH. reflexivity. Qed.

(* ------------------------------------------------------------------ well-formed parsed paths *)

Definition nosep (c : str) : Prop := Forall (fun x => is_sep x = false) c.
Definition wf_comp (c : str) : Prop := nosep c /\ keep_comp c = true.
Definition wf_tail (t : list str) : Prop := Forall wf_comp t.
Definition wf_root (r : str) : Prop := r = [] \/ r = [SEP] \/ r = [SEP; SEP].
Definition nodd (l : list str) : Prop := Forall (fun c => is_dotdot c = false) l.

Lemma wf_comp_start : forall c, wf_comp c -> starts_with_sep c = false /\ c <> [].
Proof.
  intros c [Hn Hk]. destruct c as [|x c]; [discriminate Hk|].
  split; [|intro; discriminate]. cbn. inversion Hn; subst. assumption.
Qed.

(* ------------------------------------------------------------------ split / join *)

Lemma split_sep_nonnil : forall s, split_sep s <> [].
Proof.
  induction s as [|c s IH]; cbn; [intro; discriminate|].
  destruct (is_sep c); [intro; discriminate|].
  destruct (split_sep s); intro; discriminate.
Qed.

Lemma split_sep_nosep : forall s, Forall nosep (split_sep s).
Proof.
  induction s as [|c s IH]; cbn.
  - constructor; constructor.
  - destruct (is_sep c) eqn:E.
    + constructor; [constructor|assumption].
    + destruct (split_sep s) as [|h t]; [constructor; [constructor; [assumption|constructor]|constructor]|].
      inversion IH; subst. constructor; [constructor; assumption|assumption].
Qed.

Lemma split_sep_app : forall a b, split_sep (a ++ SEP :: b) = split_sep a ++ split_sep b.
Proof.
  induction a as [|c a IH]; intro b.
  - reflexivity.
  - cbn [app split_sep]. destruct (is_sep c).
    + rewrite IH. reflexivity.
    + rewrite IH. destruct (split_sep a) as [|h t] eqn:E; [exfalso; eapply split_sep_nonnil; eassumption|].
      reflexivity.
Qed.

Lemma split_nosep : forall x, nosep x -> split_sep x = [x].
Proof.
  intros x H. induction H as [|c x Hc Hx IH]; [reflexivity|].
  cbn. rewrite Hc, IH. reflexivity.
Qed.

Lemma split_join : forall t, Forall nosep t -> t <> [] -> split_sep (join_sep t) = t.
Proof.
  intros t H. induction H as [|x t Hx Ht IH]; intro Hne; [congruence|].
  destruct t as [|y t'].
  - cbn. apply split_nosep. assumption.
  - change (join_sep (x :: y :: t')) with (x ++ SEP :: join_sep (y :: t')).
    rewrite split_sep_app, split_nosep by assumption. rewrite IH by (intro; discriminate). reflexivity.
Qed.

Lemma join_wf_nostart : forall t, wf_tail t -> starts_with_sep (join_sep t) = false.
Proof.
  intros t H. destruct H as [|x t Hx Ht]; [reflexivity|].
  destruct (wf_comp_start x Hx) as [Hs Hne]. destruct x as [|c x]; [congruence|].
  cbn in Hs. destruct t; cbn; assumption.
Qed.

Lemma join_wf_nil : forall t, wf_tail t -> join_sep t = [] -> t = [].
Proof.
  intros t H E. destruct H as [|x t Hx Ht]; [reflexivity|].
  destruct (wf_comp_start x Hx) as [_ Hne]. destruct x as [|c x]; [congruence|].
  destruct t; cbn in E; discriminate.
Qed.

(* ------------------------------------------------------------------ spec_comps *)

Lemma spec_comps_wf : forall s, wf_tail (spec_comps s).
Proof.
  intro s. unfold wf_tail, spec_comps. apply Forall_forall. intros c Hc.
  apply filter_In in Hc. destruct Hc as [Hin Hk]. split; [|assumption].
  pose proof (split_sep_nosep s) as H. rewrite Forall_forall in H. apply H. assumption.
Qed.

Lemma spec_comps_app : forall a b, spec_comps (a ++ SEP :: b) = spec_comps a ++ spec_comps b.
Proof. intros. unfold spec_comps. rewrite split_sep_app, filter_app. reflexivity. Qed.

Lemma spec_comps_nil : spec_comps [] = [].
Proof. reflexivity. Qed.

Lemma spec_comps_sep_cons : forall s, spec_comps (SEP :: s) = spec_comps s.
Proof. intro s. change (SEP :: s) with ([] ++ SEP :: s). rewrite spec_comps_app. reflexivity. Qed.

Lemma spec_comps_snoc_sep : forall a, spec_comps (a ++ [SEP]) = spec_comps a.
Proof. intro a. rewrite spec_comps_app, spec_comps_nil, app_nil_r. reflexivity. Qed.

Lemma spec_comps_join : forall t, wf_tail t -> spec_comps (join_sep t) = t.
Proof.
  intros t H. destruct t as [|x t]; [reflexivity|].
  unfold spec_comps. rewrite split_join.
  - apply filter_all. eapply Forall_impl; [|exact H]. intros c [_ Hk]. exact Hk.
  - eapply Forall_impl; [|exact H]. intros c [Hn _]. exact Hn.
  - intro; discriminate.
Qed.

(* ------------------------------------------------------------------ leading separators, roots *)

Lemma lead_app_nosep : forall a x, starts_with_sep x = false -> lead (a ++ x) = lead a.
Proof.
  induction a as [|c a IH]; intros x H; cbn.
  - destruct x as [|d x]; [reflexivity|]. cbn in H. cbn. rewrite H. reflexivity.
  - destruct (is_sep c); [rewrite IH by assumption|]; reflexivity.
Qed.

Lemma starts_lead : forall p, starts_with_sep p = negb (Nat.eqb (lead p) 0).
Proof. intros [|c p]; cbn; [reflexivity|]. destruct (is_sep c); reflexivity. Qed.

Lemma is_absolute_spec : forall p, is_absolute p = spec_abs p.
Proof. intro p. apply starts_lead. Qed.

Lemma spec_root_wf : forall p, wf_root (spec_root p).
Proof.
  intro p. unfold spec_root, wf_root. destruct (lead p) as [|[|[|n]]]; cbn; auto.
Qed.

Lemma spec_abs_root : forall p, spec_abs p = negb (is_nil (spec_root p)).
Proof. intro p. unfold spec_abs, spec_root. destruct (lead p) as [|[|[|n]]]; reflexivity. Qed.

Lemma spec_root_rel : forall p, spec_abs p = false -> spec_root p = [].
Proof.
  intros p H. rewrite spec_abs_root in H. apply negb_false_iff in H. apply is_nil_true in H. exact H.
Qed.

Lemma splitroot_spec : forall p,
  fst (splitroot p) = spec_root p /\ spec_comps (snd (splitroot p)) = spec_comps p.
Proof.
  intro p. unfold spec_root.
  destruct p as [|c0 p1]; [split; reflexivity|].
  cbn [splitroot lead]. destruct (is_sep c0) eqn:E0; cbn [negb]; [|split; reflexivity].
  apply is_sep_true in E0. subst c0.
  destruct p1 as [|c1 p2].
  { split; reflexivity. }
  cbn [lead]. destruct (is_sep c1) eqn:E1; cbn [negb].
  2:{ split; cbn [fst snd]; [reflexivity|]. rewrite spec_comps_sep_cons. reflexivity. }
  apply is_sep_true in E1. subst c1.
  destruct p2 as [|c2 p3].
  { split; reflexivity. }
  cbn [lead]. destruct (is_sep c2) eqn:E2.
  - split; cbn [fst snd]; [reflexivity|]. rewrite (spec_comps_sep_cons (SEP :: _)). reflexivity.
  - split; cbn [fst snd]; [reflexivity|]. rewrite !spec_comps_sep_cons. reflexivity.
Qed.

Theorem parse_spec : forall p, parse p = (spec_root p, spec_comps p).
Proof.
  intro p. unfold parse. destruct (is_nil p) eqn:E.
  - apply is_nil_true in E. subst. reflexivity.
  - destruct (splitroot_spec p) as [H1 H2]. destruct (splitroot p) as [root rest].
    cbn [fst snd] in *. unfold spec_comps in H2. rewrite H1, H2. reflexivity.
Qed.

Theorem parts_spec : forall s, parts s = spec_parts s.
Proof. intro s. unfold parts, pparts, spec_parts. rewrite parse_spec. reflexivity. Qed.

Lemma to_str_canon : forall r t, to_str (r, t) = canon r t.
Proof. intros r t. unfold to_str, canon. cbn [fst snd]. destruct r; reflexivity. Qed.

Lemma path_str_spec : forall p, path_str p = canon (spec_root p) (spec_comps p).
Proof. intro p. unfold path_str. rewrite parse_spec. apply to_str_canon. Qed.

(* ------------------------------------------------------------------ join *)

Lemma pjoin_rel_spec : forall a b, starts_with_sep b = false ->
  spec_root (pjoin a b) = spec_root a /\ spec_comps (pjoin a b) = spec_comps a ++ spec_comps b.
Proof.
  intros a b Hb. unfold pjoin. rewrite Hb.
  destruct (is_nil a) eqn:En.
  { apply is_nil_true in En. subst a. cbn [orb app]. split; [|reflexivity].
    unfold spec_root. rewrite starts_lead in Hb. apply negb_false_iff in Hb.
    apply Nat.eqb_eq in Hb. rewrite Hb. reflexivity. }
  apply is_nil_false in En. cbn [orb].
  pose proof (app_removelast_last 0%N En) as Hsplit.
  unfold ends_with_sep. destruct (is_sep (last a 0%N)) eqn:E.
  - split.
    + unfold spec_root. rewrite lead_app_nosep by assumption. reflexivity.
    + apply is_sep_true in E. rewrite E in Hsplit.
      rewrite Hsplit at 1. rewrite <- app_assoc. cbn [app].
      rewrite spec_comps_app. rewrite Hsplit at 2. rewrite spec_comps_snoc_sep. reflexivity.
  - split.
    + unfold spec_root. rewrite Hsplit. rewrite <- app_assoc. cbn [app].
      rewrite lead_app_nosep by (cbn; assumption).
      rewrite lead_app_nosep by (cbn; assumption). reflexivity.
    + apply spec_comps_app.
Qed.

(* ------------------------------------------------------------------ str() round trip *)

Lemma canon_nonnil : forall r t, canon r t <> [].
Proof.
  intros r t. unfold canon. destruct (is_nil (r ++ join_sep t)) eqn:E.
  - intro; discriminate.
  - apply is_nil_false. assumption.
Qed.

Lemma canon_spec : forall r t, wf_root r -> wf_tail t ->
  spec_root (canon r t) = r /\ spec_comps (canon r t) = t.
Proof.
  intros r t Hr Ht. unfold canon.
  pose proof (join_wf_nostart t Ht) as Hs.
  destruct Hr as [Hr|[Hr|Hr]]; subst r.
  - cbn [app]. destruct (is_nil (join_sep t)) eqn:E.
    + apply is_nil_true in E. apply join_wf_nil in E; [|assumption]. subst t. split; reflexivity.
    + split; [|apply spec_comps_join; assumption].
      unfold spec_root. rewrite starts_lead in Hs. apply negb_false_iff in Hs.
      apply Nat.eqb_eq in Hs. rewrite Hs. reflexivity.
  - cbn [app is_nil]. split.
    + unfold spec_root. change (SEP :: join_sep t) with ([SEP] ++ join_sep t).
      rewrite lead_app_nosep by assumption. reflexivity.
    + rewrite spec_comps_sep_cons. apply spec_comps_join. assumption.
  - cbn [app is_nil]. split.
    + unfold spec_root. change (SEP :: SEP :: join_sep t) with ([SEP; SEP] ++ join_sep t).
      rewrite lead_app_nosep by assumption. reflexivity.
    + rewrite !spec_comps_sep_cons. apply spec_comps_join. assumption.
Qed.

Lemma canon_inj : forall r t r' t', wf_root r -> wf_tail t -> wf_root r' -> wf_tail t' ->
  canon r t = canon r' t' -> r = r' /\ t = t'.
Proof.
  intros r t r' t' Hr Ht Hr' Ht' E.
  destruct (canon_spec r t Hr Ht) as [A B]. destruct (canon_spec r' t' Hr' Ht') as [A' B'].
  rewrite E in A, B. split; congruence.
Qed.

(* ------------------------------------------------------------------ normpath *)

Lemma norm_loop_resolve : forall cs stk, nodd stk ->
  norm_loop true cs stk = fold_left resolve_step (filter keep_comp cs) (rev stk).
Proof.
  induction cs as [|c cs IH]; intros stk Hs; cbn [norm_loop filter]; [reflexivity|].
  unfold keep_comp at 1. destruct (is_nil c) eqn:En; cbn [orb negb andb].
  { apply IH. assumption. }
  destruct (is_dot c) eqn:Ed; cbn [orb negb andb].
  { apply IH. assumption. }
  assert (Hhd : match stk with h :: _ => is_dotdot h | [] => false end = false).
  { destruct Hs as [|h s Hh _]; [reflexivity|assumption]. }
  rewrite Hhd, orb_false_r. cbn [fold_left]. unfold resolve_step at 2.
  destruct (is_dotdot c) eqn:Edd; cbn [negb andb orb].
  - destruct stk as [|h s']; cbn [is_nil andb orb].
    + rewrite IH by assumption. reflexivity.
    + rewrite IH by (inversion Hs; assumption). cbn [rev]. rewrite removelast_last. reflexivity.
  - rewrite IH by (constructor; assumption). reflexivity.
Qed.

Lemma resolve_fold_nodd : forall cs st, nodd st -> nodd (fold_left resolve_step cs st).
Proof.
  induction cs as [|c cs IH]; intros st H; cbn [fold_left]; [assumption|].
  apply IH. unfold resolve_step. destruct (is_dotdot c) eqn:E.
  - apply Forall_removelast. assumption.
  - apply Forall_app. split; [assumption|]. constructor; [assumption|constructor].
Qed.

Lemma resolve_fold_wf : forall cs st, wf_tail st -> wf_tail cs -> wf_tail (fold_left resolve_step cs st).
Proof.
  induction cs as [|c cs IH]; intros st H Hc; cbn [fold_left]; [assumption|].
  inversion Hc; subst. apply IH; [|assumption]. unfold resolve_step. destruct (is_dotdot c).
  - apply Forall_removelast. assumption.
  - apply Forall_app. split; [assumption|]. constructor; [assumption|constructor].
Qed.

Lemma resolve_nodd : forall cs, nodd (resolve cs).
Proof. intro cs. apply resolve_fold_nodd. constructor. Qed.

Lemma resolve_wf : forall cs, wf_tail cs -> wf_tail (resolve cs).
Proof. intros cs H. apply resolve_fold_wf; [constructor|assumption]. Qed.

(* key lemma: normpath of an absolute path is root + lexically resolved components; in
   particular it has no ".." component *)
Theorem normpath_abs : forall s, spec_abs s = true ->
  normpath s = canon (spec_root s) (resolve (spec_comps s)).
Proof.
  intros s Ha. unfold normpath.
  destruct (is_nil s) eqn:En.
  { apply is_nil_true in En. subst s. discriminate Ha. }
  destruct (splitroot_spec s) as [H1 H2]. destruct (splitroot s) as [root rest]. cbn [fst snd] in *.
  subst root. rewrite spec_abs_root in Ha. rewrite Ha.
  rewrite norm_loop_resolve by constructor. cbn [rev].
  fold (spec_comps rest). rewrite H2. reflexivity.
Qed.

Theorem normpath_abs_no_dotdot : forall s, spec_abs s = true ->
  spec_abs (normpath s) = true /\ ~ In s_dotdot (spec_parts (normpath s)).
Proof.
  intros s Ha. rewrite normpath_abs by assumption.
  pose proof (spec_root_wf s) as Hr.
  pose proof (resolve_wf _ (spec_comps_wf s)) as Ht.
  destruct (canon_spec _ _ Hr Ht) as [A B].
  split.
  - rewrite spec_abs_root, A, <- spec_abs_root. assumption.
  - unfold spec_parts. rewrite A, B.
    assert (Hn : ~ In s_dotdot (resolve (spec_comps s))).
    { intro Hin. pose proof (resolve_nodd (spec_comps s)) as Hd. unfold nodd in Hd.
      rewrite Forall_forall in Hd. apply Hd in Hin. discriminate Hin. }
    destruct (is_nil (spec_root s)); [assumption|].
    intros [E|Hin]; [|contradiction].
    destruct Hr as [Hr|[Hr|Hr]]; rewrite Hr in E; discriminate E.
Qed.

(* ------------------------------------------------------------------ prefix, is_relative_to *)

Lemma prefixb_prefix : forall l1 l2, prefixb l1 l2 = true <-> prefix l1 l2.
Proof.
  induction l1 as [|x l1 IH]; intros l2; cbn.
  - split; [intros _; exists l2; reflexivity|reflexivity].
  - destruct l2 as [|y l2].
    + split; [discriminate|]. intros [r E]. discriminate E.
    + rewrite andb_true_iff, str_eqb_eq, IH. split.
      * intros [E [r Hr]]. subst. exists r. reflexivity.
      * intros [r E]. inversion E; subst. split; [reflexivity|exists r; reflexivity].
Qed.

Lemma is_relative_to_spec : forall r1 t1 r2 t2,
  wf_root r1 -> wf_tail t1 -> wf_root r2 -> wf_tail t2 ->
  (is_relative_to (r1, t1) (r2, t2) = true <-> r2 = r1 /\ prefix t2 t1).
Proof.
  intros r1 t1 r2 t2 Hr1 Ht1 Hr2 Ht2. unfold is_relative_to. cbn [fst snd].
  rewrite !to_str_canon. rewrite orb_true_iff, str_eqb_eq, existsb_exists. split.
  - intros [E|[t [Hin E]]].
    + apply canon_inj in E; try assumption. destruct E; subst. split; [reflexivity|].
      exists []. rewrite app_nil_r. reflexivity.
    + rewrite to_str_canon in E. apply str_eqb_eq in E.
      unfold parent_tails in Hin. apply in_map_iff in Hin. destruct Hin as [k [Hk _]]. subst t.
      apply canon_inj in E; try assumption; [|apply Forall_firstn_; assumption].
      destruct E; subst. split; [reflexivity|]. exists (skipn k t1). symmetry. apply firstn_skipn.
  - intros [Er [rr Ep]]. subst r2 t1. destruct rr as [|x rr].
    + left. rewrite app_nil_r. reflexivity.
    + right. exists t2. split.
      * unfold parent_tails. apply in_map_iff. exists (length t2). split; [apply firstn_app_len|].
        apply -> in_rev. apply in_seq. rewrite app_length. cbn. lia.
      * rewrite to_str_canon. apply str_eqb_refl.
Qed.

(* ------------------------------------------------------------------ _collect_defaults_2023_09 *)

(* what dir / default normalises to, for a relative non-empty default and an absolute dir *)
Lemma joined_normalised : forall dir default,
  spec_abs dir = true -> spec_abs default = false ->
  normpath (path_str (join dir default)) = canon (spec_root dir) (lex_target dir default).
Proof.
  intros dir default Hd Hr. unfold join.
  assert (Hb : starts_with_sep default = false) by (rewrite <- Hr; apply is_absolute_spec).
  destruct (pjoin_rel_spec dir default Hb) as [J1 J2].
  rewrite path_str_spec, J1, J2.
  pose proof (spec_root_wf dir) as Hrw.
  assert (Htw : wf_tail (spec_comps dir ++ spec_comps default)).
  { apply Forall_app. split; apply spec_comps_wf. }
  destruct (canon_spec _ _ Hrw Htw) as [A B].
  rewrite normpath_abs.
  - rewrite A, B. reflexivity.
  - rewrite spec_abs_root, A, <- spec_abs_root. assumption.
Qed.

Lemma default_body_char : forall dir walkup default,
  default_body dir walkup default =
  if is_nil default then Ok default
  else if spec_abs default then (if negb walkup then Raise ValueError else Ok default)
  else if spec_abs dir then
    (if negb walkup && negb (prefixb (spec_comps dir) (lex_target dir default))
     then Raise ValueError
     else Ok (canon (spec_root dir) (lex_target dir default)))
  else Ok default.
Proof.
  intros dir walkup default. unfold default_body. rewrite !is_absolute_spec.
  destruct (is_nil default); [reflexivity|].
  destruct (spec_abs default) eqn:Ea; [reflexivity|].
  destruct (spec_abs dir) eqn:Ed; [|reflexivity].
  rewrite joined_normalised by assumption.
  rewrite !parse_spec.
  pose proof (spec_root_wf dir) as Hrw.
  assert (Htw : wf_tail (lex_target dir default)).
  { unfold lex_target. apply resolve_wf. apply Forall_app. split; apply spec_comps_wf. }
  destruct (canon_spec _ _ Hrw Htw) as [A B]. rewrite A, B, to_str_canon.
  assert (E : is_relative_to (spec_root dir, lex_target dir default) (spec_root dir, spec_comps dir)
              = prefixb (spec_comps dir) (lex_target dir default)).
  { pose proof (is_relative_to_spec (spec_root dir) (lex_target dir default) (spec_root dir) (spec_comps dir)
                  Hrw Htw Hrw (spec_comps_wf dir)) as H1.
    pose proof (prefixb_prefix (spec_comps dir) (lex_target dir default)) as H2.
    destruct (is_relative_to _ _) eqn:E1; destruct (prefixb _ _) eqn:E2; try reflexivity.
    - destruct H1 as [H1 _]. destruct (H1 eq_refl) as [_ P]. apply H2 in P. discriminate P.
    - destruct H2 as [H2 _]. specialize (H2 eq_refl). destruct H1 as [_ H1].
      assert (F : false = true) by (apply H1; split; [reflexivity|assumption]). discriminate F. }
  rewrite E. reflexivity.
Qed.

(* the whole behaviour for a defaulted PATH parameter, walk-up disallowed *)
Theorem default_exact : forall dir default,
  collect_path_default dir false default = spec_default dir default.
Proof.
  intros dir default. unfold collect_path_default, dir_check, spec_default.
  rewrite is_absolute_spec. cbn [negb andb].
  destruct (spec_abs dir) eqn:Ed; cbn [negb]; [|reflexivity].
  rewrite default_body_char, Ed. cbn [negb andb].
  destruct (is_nil default) eqn:En.
  { apply is_nil_true in En. subst. reflexivity. }
  destruct (spec_abs default); [reflexivity|].
  destruct (prefixb _ _); reflexivity.
Qed.

(* walk-up allowed: nothing is rejected; a relative default under an absolute directory is
   still normalised, everything else is returned verbatim *)
Theorem default_walkup : forall dir default,
  collect_path_default dir true default =
  Ok (if negb (is_nil default) && negb (spec_abs default) && spec_abs dir
      then canon (spec_root dir) (lex_target dir default) else default).
Proof.
  intros dir default. unfold collect_path_default, dir_check. cbn [negb andb].
  rewrite default_body_char. cbn [negb andb].
  destruct (is_nil default); [reflexivity|]. destruct (spec_abs default); [reflexivity|].
  destruct (spec_abs dir); reflexivity.
Qed.

Lemma spec_default_ok : forall dir default v, spec_default dir default = Ok v ->
  spec_abs dir = true /\
  (v = [] \/ (spec_abs default = false /\ prefix (spec_comps dir) (lex_target dir default)
              /\ v = canon (spec_root dir) (lex_target dir default))).
Proof.
  intros dir default v H. unfold spec_default in H.
  destruct (spec_abs dir) eqn:Ed; cbn [negb] in H; [|discriminate H]. split; [reflexivity|].
  destruct (is_nil default); [left; inversion H; reflexivity|].
  destruct (spec_abs default); [discriminate H|].
  destruct (prefixb _ _) eqn:Ep; [|discriminate H].
  right. inversion H. split; [reflexivity|]. split; [apply prefixb_prefix; assumption|reflexivity].
Qed.

Lemma spec_parts_canon : forall r t, wf_root r -> wf_tail t ->
  spec_parts (canon r t) = if is_nil r then t else r :: t.
Proof.
  intros r t Hr Ht. destruct (canon_spec r t Hr Ht) as [A B]. unfold spec_parts. rewrite A, B. reflexivity.
Qed.

Theorem contained_thm : forall dir default v,
  collect_path_default dir false default = Ok v -> v <> [] -> contained dir v.
Proof.
  intros dir default v H Hne. rewrite default_exact in H.
  apply spec_default_ok in H. destruct H as [Hd [E|[Hr [Hp E]]]]; [contradiction|].
  pose proof (spec_root_wf dir) as Hrw.
  assert (Htw : wf_tail (lex_target dir default)).
  { unfold lex_target. apply resolve_wf. apply Forall_app. split; apply spec_comps_wf. }
  destruct (canon_spec _ _ Hrw Htw) as [A B].
  assert (Hnn : is_nil (spec_root dir) = false).
  { rewrite spec_abs_root in Hd. apply negb_true_iff in Hd. assumption. }
  subst v. unfold contained. split; [|split].
  - rewrite spec_abs_root, A, <- spec_abs_root. assumption.
  - rewrite spec_parts_canon by assumption. unfold spec_parts. rewrite Hnn.
    destruct Hp as [rr Hp]. exists rr. rewrite Hp. reflexivity.
  - rewrite spec_parts_canon by assumption. rewrite Hnn.
    intros [E|Hin].
    + destruct Hrw as [Hr0|[Hr0|Hr0]]; rewrite Hr0 in E; discriminate E.
    + pose proof (resolve_nodd (spec_comps dir ++ spec_comps default)) as Hdd. unfold nodd in Hdd.
      rewrite Forall_forall in Hdd. apply Hdd in Hin. discriminate Hin.
Qed.

Theorem containedb_contained : forall dir v, containedb dir v = true <-> contained dir v.
Proof.
  intros dir v. unfold containedb, contained. rewrite !andb_true_iff, prefixb_prefix, negb_true_iff.
  assert (M : forall x l, mem_str x l = false <-> ~ In x l).
  { intros x l. induction l as [|y l IH]; cbn.
    - split; [intros _ []|reflexivity].
    - rewrite orb_false_iff, IH. split.
      + intros [E N] [F|F]; [|contradiction]. subst. rewrite str_eqb_refl in E. discriminate E.
      + intro N. split.
        * destruct (str_eqb x y) eqn:E; [|reflexivity]. apply str_eqb_eq in E. subst. exfalso. apply N. left. reflexivity.
        * intro F. apply N. right. assumption. }
  rewrite M. tauto.
Qed.

Theorem reject_abs : forall dir default, spec_abs default = true ->
  collect_path_default dir false default = Raise ValueError.
Proof.
  intros dir default H. rewrite default_exact. unfold spec_default.
  destruct (spec_abs dir); cbn [negb]; [|reflexivity].
  destruct default as [|c d]; [discriminate H|]. cbn [is_nil]. rewrite H. reflexivity.
Qed.

Theorem reject_climb : forall dir default, default <> [] -> ~ lex_inside dir default ->
  collect_path_default dir false default = Raise ValueError.
Proof.
  intros dir default Hne Hout. rewrite default_exact. unfold spec_default.
  destruct (spec_abs dir); cbn [negb]; [|reflexivity].
  destruct default as [|c d]; [congruence|]. cbn [is_nil].
  destruct (spec_abs (c :: d)); [reflexivity|].
  destruct (prefixb _ _) eqn:E; [|reflexivity].
  exfalso. apply Hout. apply prefixb_prefix. assumption.
Qed.

(* no false rejection *)
Theorem accept_inside : forall dir default,
  spec_abs dir = true -> default <> [] -> spec_abs default = false -> lex_inside dir default ->
  collect_path_default dir false default = Ok (canon (spec_root dir) (lex_target dir default)).
Proof.
  intros dir default Hd Hne Hr Hin. rewrite default_exact. unfold spec_default.
  rewrite Hd, Hr. cbn [negb]. destruct default; [congruence|]. cbn [is_nil].
  apply prefixb_prefix in Hin. unfold lex_inside in Hin. rewrite Hin. reflexivity.
Qed.

Theorem reldir_default : forall dir default, spec_abs dir = false ->
  collect_path_default dir false default = Raise ValueError.
Proof. intros dir default H. rewrite default_exact. unfold spec_default. rewrite H. reflexivity. Qed.

(* ------------------------------------------------------------------ supplied values, server mode *)

Theorem supplied_exact : forall cwd v, path_supplied cwd v = spec_supplied cwd v.
Proof.
  intros cwd v. unfold path_supplied, spec_supplied. rewrite is_absolute_spec.
  destruct (is_nil v); [reflexivity|]. cbn [negb andb orb].
  destruct (spec_abs v) eqn:Ea; [reflexivity|]. cbn [negb].
  assert (Hb : starts_with_sep v = false) by (rewrite <- Ea; apply is_absolute_spec).
  destruct (pjoin_rel_spec cwd v Hb) as [J1 J2]. unfold join. rewrite path_str_spec, J1, J2. reflexivity.
Qed.

Theorem supplied_parts : forall cwd v, v <> [] -> spec_abs v = false ->
  spec_parts (path_supplied cwd v) = spec_parts cwd ++ spec_parts v
  /\ spec_abs (path_supplied cwd v) = spec_abs cwd.
Proof.
  intros cwd v Hne Hr. rewrite supplied_exact. unfold spec_supplied.
  destruct v as [|c v']; [congruence|]. cbn [is_nil orb]. rewrite Hr.
  pose proof (spec_root_wf cwd) as Hrw.
  assert (Htw : wf_tail (spec_comps cwd ++ spec_comps (c :: v'))).
  { apply Forall_app. split; apply spec_comps_wf. }
  destruct (canon_spec _ _ Hrw Htw) as [A B]. split.
  - rewrite spec_parts_canon by assumption. unfold spec_parts.
    rewrite (spec_root_rel _ Hr). cbn [is_nil]. destruct (is_nil (spec_root cwd)); reflexivity.
  - rewrite !spec_abs_root, A. reflexivity.
Qed.

Theorem server_exact : forall v, server_value v = spec_server v.
Proof.
  intro v. unfold server_value. rewrite supplied_exact. unfold spec_supplied, spec_server. reflexivity.
Qed.

Theorem server_default_verbatim : forall d, server_default d = Ok d.
Proof.
  intro d. unfold server_default. rewrite default_walkup.
  replace (spec_abs []) with false by reflexivity. rewrite andb_false_r. reflexivity.
Qed.

Lemma spec_server_fix_abs : forall v, is_nil v || spec_abs v = true -> spec_server v = v.
Proof. intros v H. unfold spec_server. rewrite H. reflexivity. Qed.

Theorem server_parts : forall v, v <> [] -> spec_parts (server_value v) = spec_parts v.
Proof.
  intros v Hne. rewrite server_exact. unfold spec_server.
  destruct v as [|c v']; [congruence|]. cbn [is_nil orb].
  destruct (spec_abs (c :: v')) eqn:Ea; [reflexivity|].
  rewrite spec_parts_canon; [|left; reflexivity|apply spec_comps_wf]. cbn [is_nil].
  unfold spec_parts. rewrite (spec_root_rel _ Ea). reflexivity.
Qed.

Lemma spec_server_canon : forall r t, wf_root r -> wf_tail t -> spec_server (canon r t) = canon r t.
Proof.
  intros r t Hr Ht. destruct (canon_spec r t Hr Ht) as [A B]. unfold spec_server.
  destruct (is_nil (canon r t)) eqn:En.
  { apply is_nil_true in En. exfalso. eapply canon_nonnil. eassumption. }
  cbn [orb]. destruct (spec_abs (canon r t)) eqn:Ea; [reflexivity|].
  rewrite B. pose proof (spec_root_rel _ Ea) as R. rewrite A in R. subst r. reflexivity.
Qed.

Theorem server_idempotent : forall v, server_value (server_value v) = server_value v.
Proof.
  intro v. rewrite !server_exact. unfold spec_server at 2 3.
  destruct (is_nil v || spec_abs v) eqn:E.
  - apply spec_server_fix_abs. assumption.
  - apply spec_server_canon; [left; reflexivity|apply spec_comps_wf].
Qed.

Theorem server_fix_supplied : forall cwd v, server_value (path_supplied cwd v) = path_supplied cwd v.
Proof.
  intros cwd v. rewrite server_exact, supplied_exact. unfold spec_supplied.
  destruct (is_nil v || spec_abs v) eqn:E.
  - apply spec_server_fix_abs. assumption.
  - apply spec_server_canon; [apply spec_root_wf|apply Forall_app; split; apply spec_comps_wf].
Qed.

Theorem server_fix_default : forall dir walkup default w,
  collect_path_default dir walkup default = Ok w ->
  spec_abs dir = true \/ walkup = false -> server_value w = w.
Proof.
  intros dir walkup default w H Hc. rewrite server_exact.
  assert (Hd : walkup = false -> spec_abs dir = true).
  { intro; subst. rewrite default_exact in H. apply spec_default_ok in H. tauto. }
  assert (Hdir : spec_abs dir = true) by (destruct Hc; auto). clear Hc Hd.
  assert (K : w = default /\ (is_nil default || spec_abs default = true)
              \/ w = canon (spec_root dir) (lex_target dir default)).
  { unfold collect_path_default in H. destruct (dir_check dir walkup); [discriminate H|].
    rewrite default_body_char, Hdir in H.
    destruct (is_nil default) eqn:En; [inversion H; left; split; reflexivity|].
    destruct (spec_abs default) eqn:Ea.
    - destruct (negb walkup); [discriminate H|]. inversion H. left. split; reflexivity.
    - destruct (negb walkup && _); [discriminate H|]. inversion H. right. reflexivity. }
  destruct K as [[E F]|E]; subst w.
  - apply spec_server_fix_abs. assumption.
  - apply spec_server_canon; [apply spec_root_wf|].
    unfold lex_target. apply resolve_wf. apply Forall_app. split; apply spec_comps_wf.
Qed.

(* ------------------------------------------------------------------ list level *)

Lemma default_body_only_ValueError : forall dir walkup d e,
  default_body dir walkup d = Raise e -> e = ValueError.
Proof.
  intros dir walkup d e H. unfold default_body in H.
  destruct (is_nil d); [discriminate H|].
  destruct (is_absolute d).
  - destruct (negb walkup); [inversion H; reflexivity|discriminate H].
  - destruct (is_absolute dir); [|discriminate H].
    destruct (negb walkup && _); [inversion H; reflexivity|discriminate H].
Qed.

Lemma mapM_collect_only_ValueError : forall dir cwd walkup ps e,
  mapM (collect_one dir cwd walkup) ps = Raise e -> e = ValueError.
Proof.
  intros dir cwd walkup ps e. induction ps as [|p ps IH]; cbn [mapM]; intro H; [discriminate H|].
  unfold bind in H. destruct (collect_one dir cwd walkup p) as [o|e1] eqn:E1.
  - destruct (mapM (collect_one dir cwd walkup) ps) as [os|e2]; [discriminate H|].
    inversion H; subst. apply IH. reflexivity.
  - inversion H; subst. destruct p as [v|d|]; cbn in E1; try discriminate E1.
    unfold bind in E1. destruct (default_body dir walkup d) as [x|e3] eqn:E3; [discriminate E1|].
    inversion E1; subst. eapply default_body_only_ValueError. eassumption.
Qed.

Theorem preprocess_only_ValueError : forall dir cwd walkup ps e,
  preprocess_paths dir cwd walkup ps = Raise e -> e = ValueError.
Proof.
  intros dir cwd walkup ps e H. unfold preprocess_paths in H.
  destruct ps as [|p ps']; [discriminate H|].
  destruct (collect_defaults dir cwd walkup (p :: ps')) as [vs|e1] eqn:E1.
  - destruct (all_some vs); [discriminate H|]. inversion H; reflexivity.
  - assert (e1 = ValueError).
    { unfold collect_defaults in E1. destruct (dir_check dir walkup); [inversion E1; reflexivity|].
      eapply mapM_collect_only_ValueError. eassumption. }
    subst e1. inversion H; reflexivity.
Qed.

Definition param_result (dir cwd : str) (walkup : bool) (p : pparam) (v : str) : Prop :=
  match p with
  | PSupplied x => v = path_supplied cwd x
  | PDefault d => collect_path_default dir walkup d = Ok v
  | PRequired => False
  end.

Lemma mapM_collect_ok : forall dir cwd walkup, dir_check dir walkup = false ->
  forall ps vs l, mapM (collect_one dir cwd walkup) ps = Ok vs -> all_some vs = Some l ->
  Forall2 (param_result dir cwd walkup) ps l.
Proof.
  intros dir cwd walkup Hc. induction ps as [|p ps IH]; intros vs l H A; cbn [mapM] in H.
  - inversion H; subst. cbn in A. inversion A. constructor.
  - unfold bind in H. destruct (collect_one dir cwd walkup p) as [o|e1] eqn:E1; [|discriminate H].
    destruct (mapM (collect_one dir cwd walkup) ps) as [os|e2] eqn:E2; [|discriminate H].
    inversion H; subst vs. cbn [all_some] in A. destruct o as [x|]; [|discriminate A].
    destruct (all_some os) as [xs|] eqn:E3; [|discriminate A]. inversion A; subst l.
    constructor; [|eapply IH; [reflexivity|assumption]].
    destruct p as [v|d|]; cbn in E1.
    + inversion E1. reflexivity.
    + unfold bind in E1. destruct (default_body dir walkup d) as [y|e3] eqn:E4; [|discriminate E1].
      inversion E1; subst. cbn. unfold collect_path_default. rewrite Hc. assumption.
    + discriminate E1.
Qed.

(* every value returned by the wrapper is the per-parameter result *)
Theorem preprocess_ok : forall dir cwd walkup ps l,
  preprocess_paths dir cwd walkup ps = Ok l -> Forall2 (param_result dir cwd walkup) ps l.
Proof.
  intros dir cwd walkup ps l H. unfold preprocess_paths in H.
  destruct ps as [|p ps']; [inversion H; constructor|].
  destruct (collect_defaults dir cwd walkup (p :: ps')) as [vs|e1] eqn:E1.
  - destruct (all_some vs) as [xs|] eqn:E2; [|discriminate H]. inversion H; subst xs.
    unfold collect_defaults in E1. destruct (dir_check dir walkup) eqn:Hc; [discriminate E1|].
    eapply mapM_collect_ok; eassumption.
  - destruct e1; discriminate H.
Qed.

Theorem reldir_preprocess : forall dir cwd ps, spec_abs dir = false -> ps <> [] ->
  preprocess_paths dir cwd false ps = Raise ValueError.
Proof.
  intros dir cwd ps H Hne. unfold preprocess_paths. destruct ps as [|p ps']; [congruence|].
  unfold collect_defaults, dir_check. rewrite is_absolute_spec, H. reflexivity.
Qed.

(* ------------------------------------------------------------------ the oracle equals the model *)

Theorem default_w_exact : forall dir walkup default,
  collect_path_default dir walkup default = spec_default_w dir walkup default.
Proof.
  intros dir [|] default; unfold spec_default_w; [apply default_walkup|apply default_exact].
Qed.

Definition fin (m : outcome (list (option str))) : outcome (list str) :=
  match m with
  | Raise ValueError => Raise ValueError
  | Raise e => Raise e
  | Ok vs => match all_some vs with Some l => Ok l | None => Raise ValueError end
  end.

Definition fin_spec (m : outcome (list str)) : outcome (list str) :=
  match m with Ok l => Ok l | Raise _ => Raise ValueError end.

Lemma fin_mapM : forall dir cwd walkup, dir_check dir walkup = false -> forall ps,
  fin (mapM (collect_one dir cwd walkup) ps) = fin_spec (mapM (spec_one dir cwd walkup) ps).
Proof.
  intros dir cwd walkup Hc. induction ps as [|p ps IH]; [reflexivity|].
  cbn [mapM]. unfold bind at 1 3.
  assert (HR : forall e, mapM (collect_one dir cwd walkup) ps = Raise e -> e = ValueError)
    by (intros e; apply mapM_collect_only_ValueError).
  destruct p as [v|d|]; cbn [collect_one spec_one].
  - rewrite supplied_exact. unfold bind.
    destruct (mapM (collect_one dir cwd walkup) ps) as [os|e] eqn:E1;
    destruct (mapM (spec_one dir cwd walkup) ps) as [l|e'] eqn:E2; cbn [fin fin_spec all_some] in *.
    + destruct (all_some os); [inversion IH; reflexivity|discriminate IH].
    + destruct (all_some os); [discriminate IH|reflexivity].
    + rewrite (HR e eq_refl) in IH. discriminate IH.
    + rewrite (HR e eq_refl). reflexivity.
  - assert (Hd : default_body dir walkup d = spec_default_w dir walkup d).
    { rewrite <- default_w_exact. unfold collect_path_default. rewrite Hc. reflexivity. }
    rewrite Hd. unfold bind.
    destruct (spec_default_w dir walkup d) as [x|e0] eqn:E0.
    + destruct (mapM (collect_one dir cwd walkup) ps) as [os|e] eqn:E1;
      destruct (mapM (spec_one dir cwd walkup) ps) as [l|e'] eqn:E2; cbn [fin fin_spec all_some] in *.
      * destruct (all_some os); [inversion IH; reflexivity|discriminate IH].
      * destruct (all_some os); [discriminate IH|reflexivity].
      * rewrite (HR e eq_refl) in IH. discriminate IH.
      * rewrite (HR e eq_refl). reflexivity.
    + assert (e0 = ValueError).
      { apply (default_body_only_ValueError dir walkup d). exact Hd. }
      subst e0. reflexivity.
  - unfold bind. destruct (mapM (collect_one dir cwd walkup) ps) as [os|e] eqn:E1; cbn [fin fin_spec all_some].
    + reflexivity.
    + rewrite (HR e eq_refl). reflexivity.
Qed.

Theorem preprocess_spec : forall dir cwd walkup ps,
  preprocess_paths dir cwd walkup ps = spec_preprocess dir cwd walkup ps.
Proof.
  intros dir cwd walkup ps. unfold preprocess_paths, spec_preprocess.
  destruct ps as [|p ps']; [reflexivity|].
  unfold collect_defaults. change (negb walkup && negb (spec_abs dir)) with
    (negb walkup && negb (spec_abs dir)). rewrite <- is_absolute_spec. fold (dir_check dir walkup).
  destruct (dir_check dir walkup) eqn:Hc; [reflexivity|].
  pose proof (fin_mapM dir cwd walkup Hc (p :: ps')) as H. unfold fin, fin_spec in H. exact H.
Qed.
