(* ExportCreatedCarried.v — p17j: the parts of a Job that create_job carries over from the template unchanged
   (scripts, actions, cancelation methods, embedded files, environments, step dependencies: CreateJobProofs.carried_classes).

   For a WELL-TYPED instance y of one of these classes (ConformTyped.tc, what the decoder builds):
     - every successful re-parse of its export as that class is equal to it ([SEMC], ExportCreatedSem.v);
     - its nodes are instances of the carried classes (so instantiate_model returns it unchanged,
       CreateJobProofs.carried_unchanged) and the job-side coercion leaves it alone (no field is called "range").
   By induction on the depth of the tree; the schema facts are checked on Generated.schema ([carried_schema_ok]). *)
From Coq Require Import List NArith ZArith Bool String Lia.
Import ListNotations.
Require Import OJD.Base OJD.Lexer OJD.Json OJD.Schema OJD.Generated OJD.Charsets OJD.Numerals OJD.NumPrint
               OJD.CreateJob OJD.CreateJobProofs OJD.Parse OJD.Export OJD.ExportProofs OJD.JsonEquiv
               OJD.CreateJobExactLib OJD.ConformLib OJD.ConformTyped OJD.ConformInst
               OJD.ExportCreatedRel OJD.ExportCreatedSem.
Local Open Scope string_scope.
Local Open Scope list_scope.

Definition cancel_mp : list (string * string) :=
  [("NOTIFY_THEN_TERMINATE", "CancelationMethodNotifyThenTerminate"); ("TERMINATE", "CancelationMethodTerminate")].

Fixpoint mp_eqb (a b : list (string * string)) : bool :=
  match a, b with
  | [], [] => true
  | (x, y) :: a', (x', y') :: b' => String.eqb x x' && String.eqb y y' && mp_eqb a' b'
  | _, _ => false
  end.

Lemma mp_eqb_eq : forall a b, mp_eqb a b = true -> a = b.
Proof.
  induction a as [|[x y] a IH]; intros [|[x' y'] b] H; try discriminate H; [reflexivity|].
  cbn [mp_eqb] in H. apply andb_true_iff in H. destruct H as [H H3]. apply andb_true_iff in H. destruct H as [H1 H2].
  apply String.eqb_eq in H1. apply String.eqb_eq in H2. rewrite (IH b H3). subst. reflexivity.
Qed.

(* the kinds of the fields of the carried classes: scalars, carried classes, the cancelation union *)
Definition kind_carried (k : kind) : bool :=
  match k with
  | KModel c => mem_s c carried_classes
  | KDisc key mp => String.eqb key "mode" && mp_eqb mp cancel_mp
  | KUnion _ => false
  | _ => true
  end.

Definition carried_cls_ok (c : string) : bool :=
  match lookup_cls G c with
  | Some k => fields_ok c k (map f_name (c_fields k))
              && forallb (fun fl => kind_carried (f_kind fl) && negb (String.eqb (f_name fl) "range")) (c_fields k)
  | None => false
  end.

Lemma carried_schema_ok : forallb carried_cls_ok carried_classes = true.
Proof. vm_compute. reflexivity. Qed.

Lemma carried_cls : forall c k, In c carried_classes -> lookup_cls G c = Some k ->
  fields_ok c k (map f_name (c_fields k)) = true /\
  forall fl, In fl (c_fields k) -> kind_carried (f_kind fl) = true /\ f_name fl <> "range".
Proof.
  intros c k Hc Hl. pose proof carried_schema_ok as H. rewrite forallb_forall in H. specialize (H c Hc).
  unfold carried_cls_ok in H. rewrite Hl in H. apply andb_true_iff in H. destruct H as [H1 H2].
  split; [exact H1|]. intros fl Hfl. rewrite forallb_forall in H2. specialize (H2 fl Hfl).
  apply andb_true_iff in H2. destruct H2 as [Ha Hb]. split; [exact Ha|].
  apply negb_true_iff in Hb. apply String.eqb_neq in Hb. exact Hb.
Qed.

Lemma tf_names : forall fields fs, Forall2 (tf G) fields fs -> map fst fs = map f_name fields.
Proof.
  intros fields fs H. induction H as [|fl fv fields fs Hf _ IH]; [reflexivity|].
  apply tf_inv in Hf. destruct Hf as [Hn _]. cbn [map]. rewrite Hn, IH. reflexivity.
Qed.

Lemma tf_mfield : forall fields fs fl, Forall2 (tf G) fields fs -> NoDup (map f_name fields) -> In fl fields ->
  tv G fl (mfield (f_name fl) fs) /\ In (f_name fl, mfield (f_name fl) fs) fs.
Proof.
  intros fields fs fl H. induction H as [|g fv fields fs Hf _ IH]; intros Hnd Hin; [destruct Hin|].
  cbn [map] in Hnd. inversion Hnd as [|? ? Hnotin Hnd']. subst.
  apply tf_inv in Hf. destruct fv as [n x]. destruct Hf as [Hn Hx]. cbn [fst snd] in Hn, Hx. subst n.
  rewrite mfield_cons. destruct Hin as [->|Hin].
  - rewrite String.eqb_refl. split; [exact Hx|left; reflexivity].
  - destruct (String.eqb (f_name g) (f_name fl)) eqn:E.
    + apply String.eqb_eq in E. exfalso. apply Hnotin. rewrite E. apply in_map. exact Hin.
    + destruct (IH Hnd' Hin) as [H1 H2]. split; [exact H1|right; exact H2].
Qed.

Section Carried.
  Variable classify : N -> cclass.
  Variable pre : string -> json -> bool.
  Variable post : string -> json -> list (string * mval) -> bool.
  Notation SEMK := (SEMK classify pre post).
  Notation SEMC := (SEMC classify pre post).
  Notation SEMV := (SEMV classify pre post).

  (* what is shown of a value of a carried kind / class / field *)
  Definition KP (k : kind) (y : mval) : Prop :=
    SEMK k y /\ incl (classes_in y) carried_classes /\ coerce y = y /\ mnone y = false.
  Definition CP (c : string) (y : mval) : Prop :=
    SEMC c y /\ incl (classes_in y) carried_classes /\ coerce y = y.
  Definition VP (fl : field) (y : mval) : Prop :=
    SEMV fl y /\ incl (classes_in y) carried_classes /\ coerce y = y.

  Lemma incl_nil_l' : forall (l : list string), incl [] l.
  Proof. intros l x []. Qed.

  Ltac scalar_kp := split; [|split; [apply incl_nil_l'|split; reflexivity]].

  Lemma map_id_in : forall (A : Type) (g : A -> A) l, (forall x, In x l -> g x = x) -> map g l = l.
  Proof.
    induction l as [|a r IH]; intros H; [reflexivity|]. cbn [map]. rewrite (H a (or_introl eq_refl)).
    rewrite IH; [reflexivity|]. intros x Hx. apply H. right. exact Hx.
  Qed.

  (* fields, given the kinds for smaller values *)
  Lemma tv_vp : forall n,
    (forall k y, mval_depth y <= n -> kind_carried k = true -> tk G k y -> KP k y) ->
    forall fl x, mval_depth x <= n -> kind_carried (f_kind fl) = true -> tv G fl x -> VP fl x.
  Proof.
    intros n HK fl x Hd Hk Ht. inversion Ht as [fl0 Hreq|fl0 x0 Hs Hx|fl0 lo hi l Hs Hl|fl0 kk l Hs Hl]; subst.
    - split; [apply semv_none|split; [apply incl_nil_l'|reflexivity]].
    - destruct (HK _ _ Hd Hk Hx) as [H1 [H2 [H3 _]]]. split; [apply semv_single; assumption|split; assumption].
    - assert (Hi : forall y, In y l -> KP (f_kind fl) y).
      { intros y Hy. rewrite Forall_forall in Hl. apply HK; [|exact Hk|apply Hl; exact Hy].
        pose proof (item_depth l y Hy). lia. }
      split; [eapply semv_list; [exact Hs|intros y Hy; apply (Hi y Hy)]|]. split.
      + cbn [classes_in]. intros c Hc. apply in_flat_map in Hc. destruct Hc as [y [Hy Hc]].
        destruct (Hi y Hy) as [_ [H2 _]]. apply H2. exact Hc.
      + cbn [coerce]. f_equal. apply map_id_in. intros y Hy. destruct (Hi y Hy) as [_ [_ [H3 _]]]. exact H3.
    - assert (Hi : forall kv, In kv l -> KP (f_kind fl) (snd kv)).
      { intros kv Hkv. rewrite Forall_forall in Hl. apply HK; [|exact Hk|apply Hl; exact Hkv].
        pose proof (member_depth l kv Hkv). lia. }
      split; [eapply semv_dict; [exact Hs|intros kv Hkv; destruct (Hi kv Hkv) as [H1 [_ [_ H4]]]; split; assumption]|]. split.
      + cbn [classes_in]. intros c Hc. apply in_flat_map in Hc. destruct Hc as [kv [Hkv Hc]].
        destruct (Hi kv Hkv) as [_ [H2 _]]. apply H2. exact Hc.
      + cbn [coerce]. f_equal. apply map_id_in. intros [k y] Hkv. cbn [fst snd].
        destruct (Hi _ Hkv) as [_ [_ [H3 _]]]. cbn [snd] in H3. rewrite H3. reflexivity.
  Qed.

  (* a model node, given its fields *)
  Lemma tc_cp : forall n,
    (forall k y, mval_depth y <= n -> kind_carried k = true -> tk G k y -> KP k y) ->
    forall c y, mval_depth y <= S n -> In c carried_classes -> tc G c y -> CP c y.
  Proof.
    intros n HK c y Hd Hc Ht. apply tc_inv in Ht. destruct Ht as [c0 [fs [Hl [-> HF]]]].
    destruct (carried_cls c c0 Hc Hl) as [Hok Hkinds].
    destruct (generated_names_distinct c c0 Hl) as [Hn1 _].
    assert (Hfv : forall fv, In fv fs -> exists fl, In fl (c_fields c0) /\ fst fv = f_name fl /\ VP fl (snd fv)).
    { intros fv Hfv. destruct (Forall2_in_r _ _ _ _ _ _ HF Hfv) as [fl [Hfl Htf]].
      apply tf_inv in Htf. destruct Htf as [Hn Hx]. exists fl. split; [exact Hfl|]. split; [exact Hn|].
      apply (tv_vp n HK); [|apply (Hkinds fl Hfl)|exact Hx].
      pose proof (field_depth c fs fv Hfv). lia. }
    split; [|split].
    - eapply sem_cls; [exact Hl|rewrite (tf_names _ _ HF); exact Hok|].
      intros fl Hfl. destruct (tf_mfield _ _ fl HF Hn1 Hfl) as [_ Hin].
      destruct (Hfv _ Hin) as [fl2 [Hfl2 [Hn [Hv _]]]]. cbn [fst snd] in Hn, Hv.
      assert (fl2 = fl) by (apply (NoDup_map_inj _ _ f_name (c_fields c0)); [exact Hn1|exact Hfl2|exact Hfl|symmetry; exact Hn]).
      subst fl2. exact Hv.
    - cbn [classes_in]. intros c1 [<-|Hc1]; [exact Hc|]. apply in_flat_map in Hc1. destruct Hc1 as [fv [Hin Hc1]].
      destruct (Hfv fv Hin) as [fl [_ [_ [_ [H2 _]]]]]. apply H2. exact Hc1.
    - cbn [coerce]. f_equal. apply map_id_in. intros [m x] Hin.
      destruct (Hfv _ Hin) as [fl [Hfl [Hn [_ [_ H3]]]]]. cbn [fst snd] in Hn, H3 |- *.
      destruct (Hkinds fl Hfl) as [_ Hnr]. subst m. apply String.eqb_neq in Hnr. rewrite Hnr. rewrite H3. reflexivity.
  Qed.

  (* the cancelation union of Action: the discriminator is re-read from the export *)
  Lemma cancel_disc : forall kk c y, In (kk, c) cancel_mp -> tc G c y ->
    exists ms, T y = JObj ms /\ assoc (str_of_string "mode") ms = Some (JStr (str_of_string kk)).
  Proof.
    intros kk c y Hin Ht. destruct Hin as [E|[E|[]]]; injection E as <- <-; open_tc Ht;
      match goal with Hx : tv G (mkField "mode" _ _ _ _) ?x |- _ =>
        apply tv_req_single in Hx; [|reflexivity|reflexivity]; cbn [f_kind] in Hx; apply tk_lit_inv in Hx; subst x end;
      rewrite T_model, mems_cons; cbn [mnone app assoc]; eexists; (split; [reflexivity|]);
      cbn [assoc]; vm_compute; reflexivity.
  Qed.

  Lemma tk_kp_step : forall n,
    (forall c y, mval_depth y <= n -> In c carried_classes -> tc G c y -> CP c y) ->
    forall k y, mval_depth y <= n -> kind_carried k = true -> tk G k y -> KP k y.
  Proof.
    intros n HC k y Hd Hk Ht.
    destruct k as [lit|members|strict minl maxl cs|fc minl maxl cs|strict|strict ge le gt|gt| |c|key mp|alts];
      cbn [kind_carried] in Hk; try discriminate Hk.
    - apply tk_lit_inv in Ht. subst y. scalar_kp. eapply sem_text; reflexivity.
    - apply tk_enum_inv in Ht. destruct Ht as [s ->]. scalar_kp. eapply sem_text; reflexivity.
    - apply tk_str_inv in Ht. destruct Ht as [s [-> _]]. scalar_kp. eapply sem_text; reflexivity.
    - apply tk_fmt_inv in Ht. destruct Ht as [s ->]. scalar_kp. eapply sem_text; reflexivity.
    - inversion Ht; subst. scalar_kp. apply sem_bool.
    - apply tk_int_inv in Ht. destruct Ht as [z ->]. scalar_kp. apply sem_int.
    - inversion Ht; subst. scalar_kp. apply sem_float.
    - apply tk_dec_inv in Ht. destruct Ht as [a [e ->]]. scalar_kp. apply sem_dec.
    - apply mem_s_In in Hk. apply tk_model_inv in Ht. destruct (HC c y Hd Hk Ht) as [H1 [H2 H3]].
      split; [apply sem_model; exact H1|]. split; [exact H2|]. split; [exact H3|].
      apply tc_inv in Ht. destruct Ht as [c0 [fs [_ [-> _]]]]. reflexivity.
    - apply andb_true_iff in Hk. destruct Hk as [Hkey Hmp]. apply String.eqb_eq in Hkey. apply mp_eqb_eq in Hmp. subst key mp.
      apply tk_disc_inv in Ht. destruct Ht as [kk [c [Hin Htc]]].
      assert (Hc : In c carried_classes) by (destruct Hin as [E|[E|[]]]; injection E as _ <-; cbn; tauto).
      destruct (HC c y Hd Hc Htc) as [H1 [H2 H3]].
      destruct (cancel_disc kk c y Hin Htc) as [ms [Ey Ea]].
      split; [|split; [exact H2|split; [exact H3|]]].
      + eapply sem_disc; try eassumption. repeat constructor; cbn; intuition discriminate.
      + apply tc_inv in Htc. destruct Htc as [c0 [fs [_ [-> _]]]]. reflexivity.
  Qed.

  Theorem carried_all : forall n,
    (forall c y, mval_depth y <= n -> In c carried_classes -> tc G c y -> CP c y) /\
    (forall k y, mval_depth y <= n -> kind_carried k = true -> tk G k y -> KP k y).
  Proof.
    induction n as [|n [IHc IHk]].
    - assert (HC0 : forall c y, mval_depth y <= 0 -> In c carried_classes -> tc G c y -> CP c y).
      { intros c y Hd _ Ht. apply tc_inv in Ht. destruct Ht as [c0 [fs [_ [-> _]]]]. cbn [mval_depth] in Hd. lia. }
      split; [exact HC0|apply tk_kp_step; exact HC0].
    - assert (HC : forall c y, mval_depth y <= S n -> In c carried_classes -> tc G c y -> CP c y)
        by (apply tc_cp; exact IHk).
      split; [exact HC|apply tk_kp_step; exact HC].
  Qed.

  Theorem carried_cp : forall c y, In c carried_classes -> tc G c y -> CP c y.
  Proof. intros c y Hc Ht. destruct (carried_all (mval_depth y)) as [H _]. apply H; [lia|exact Hc|exact Ht]. Qed.

  (* an optional list of instances of a carried class *)
  Theorem carried_items : forall c l, In c carried_classes -> Forall (tk G (KModel c)) l ->
    forall y, In y l -> CP c y.
  Proof.
    intros c l Hc Hl y Hy. rewrite Forall_forall in Hl. apply carried_cp; [exact Hc|]. apply tk_model_inv. apply Hl. exact Hy.
  Qed.
End Carried.
