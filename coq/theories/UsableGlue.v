(* UsableGlue.v — reading a Job instance (the [mval] create_job_full returns) into the inputs of the
   models of its two consumers:

     StepParameterSpaceIterator(space=step.parameterSpace)      ParamSpace.v  ([space], [sps_init])
     StepDependencyGraph(job=job)                               DepGraph.v    ([job], [build], [topo])

   Definitions only.  These are the attribute reads of the two constructors:

   * _step_param_space_iter.py, __init__ / _create_expr_tree:
       space is None                       -> the one-element list [{}]
       space.combination (None | str)      -> CombinationExpressionParser().parse (Comb.parse_str), the parse tree
                                              is copied node by node ([conv]); None = "*".join(names), which
                                              ParamSpace.default_comb models
       space.taskParameterDefinitions      -> a dict name -> definition, in order
       parameter.type                      -> ParameterValueType(parameter.type)  (ValueError on a non-member)
       parameter.range, a list             -> RangeListIdentifierNode: the items (str) as they are
       parameter.range, a str              -> RangeExpressionIdentifierNode: IntRangeExpr.from_str(range), iterated,
                                              each int printed with str()  (more than 2^63-1 values: the parser
                                              raises, see Validators.range_expr_ok)
     ParamSpace.v works on expanded value lists, so every definition is expanded here (the code expands
     the ones the combination mentions, i.e. all of them in a Job that template validation let through).
     A value of a shape a Job cannot hold (pydantic coerced it) is [Raise RuntimeError], never a default.

   * _step_dependency_graph.py, __init__: one node per step, keyed by step.name (a repeated name
     overwrites its key: both steps get the number of the FIRST step so named); for every step and every
     entry of step.dependencies an edge from self._nodes[dep.dependsOn] (a name that is no step: the
     number [length steps], which is no node -> KeyError in DepGraph.build).  DepGraph.v names steps by
     numbers: a step's number is its position in job.steps. *)
From Coq Require Import List NArith ZArith Bool String.
Import ListNotations.
Require Import OJD.Base OJD.Lexer OJD.Json OJD.NumPrint OJD.CreateJob OJD.RangeExpr OJD.Comb OJD.ParamSpace
               OJD.DepGraph OJD.Validators OJD.WF.
Local Open Scope string_scope.
Local Open Scope list_scope.

(* ParameterValueType(value) *)
Definition pty_of_str (s : str) : option pty :=
  if str_eqb s $"INT" then Some TInt
  else if str_eqb s $"FLOAT" then Some TFloat
  else if str_eqb s $"STRING" then Some TString
  else if str_eqb s $"PATH" then Some TPath
  else None.

(* the parser's tree, copied into the iterator's own node classes *)
Fixpoint conv (t : Comb.ctree) : ParamSpace.ctree :=
  match t with
  | Comb.Id s => CId s
  | Comb.Prod cs => CProd (map conv cs)
  | Comb.Assoc cs => CAssoc (map conv cs)
  end.

Section Glue.
  Variable classify : N -> cclass.

  (* RangeListIdentifierNode.range : list[str] *)
  Definition read_items (l : list mval) : outcome (list value) :=
    mapM (fun it => match it with MStr s => Ok s | _ => Raise RuntimeError end) l.

  (* the values a leaf node hands out, in order *)
  Definition read_range (r : mval) : outcome (list value) :=
    match r with
    | MList items => read_items items
    | MStr s | MFmt s =>
      do e <- RangeExpr.from_str false false classify s;
      if Z.ltb (RangeExpr.elen e) (2 ^ 63) then Ok (map print_Z (RangeExpr.elems e))
      else Raise ExpressionError
    | _ => Raise RuntimeError
    end.

  (* one entry of space.taskParameterDefinitions *)
  Definition read_param (kv : str * mval) : outcome param :=
    match snd kv with
    | MModel _ fs =>
      match mfield "type" fs with
      | MStr ts =>
        match pty_of_str ts with
        | Some ty => do vs <- read_range (mfield "range" fs); Ok (fst kv, ty, vs)
        | None => Raise ValueError
        end
      | _ => Raise RuntimeError
      end
    | _ => Raise RuntimeError
    end.

  (* space.combination *)
  Definition read_comb (c : mval) : outcome (option ParamSpace.ctree) :=
    match c with
    | MNone => Ok None
    | MStr s => do t <- Comb.parse_str classify s; Ok (Some (conv t))
    | _ => Raise RuntimeError
    end.

  (* step.parameterSpace -> the argument of StepParameterSpaceIterator *)
  Definition read_space (psv : mval) : outcome space :=
    match psv with
    | MNone => Ok None
    | MModel _ fs =>
      match mfield "taskParameterDefinitions" fs with
      | MDict l =>
        do ps <- mapM read_param l;
        do c <- read_comb (mfield "combination" fs);
        Ok (Some (ps, c))
      | _ => Raise RuntimeError
      end
    | _ => Raise RuntimeError
    end.
End Glue.

(* job.steps, step.parameterSpace *)
Definition job_steps_val (job : mval) : mval := mfield "steps" (model_fields job).
Definition job_steps (job : mval) : list mval := mitems (job_steps_val job).
Definition step_space (st : mval) : mval := mfield "parameterSpace" (model_fields st).

(* the number of a step name: position of the first step so named; [length steps] for no step *)
Definition step_number (steps : mval) (d : str) : N :=
  match index_of d (names_of steps) 0 with
  | Some k => k
  | None => N.of_nat (List.length (names_of steps))
  end.

(* the Job as StepDependencyGraph reads it *)
Definition job_graph (job : mval) : DepGraph.job :=
  let steps := job_steps_val job in
  map (fun st => (step_number steps (step_name st), map (step_number steps) (dep_names st))) (mitems steps).
