(* NoMissingVar.v — lemmas behind props/C06.v, part 1: the names visible to creation-time
   (TEMPLATE-scope) format strings are exactly the names create_job binds; hence, for a document
   that passes the reference check, resolving those strings never fails for a missing variable. *)
From Coq Require Import List NArith ZArith Bool String Lia.
Import ListNotations.
Require Import OJD.Base OJD.Lexer OJD.Json OJD.Schema OJD.Generated OJD.FormatStr OJD.FormatStrSpec
               OJD.FormatStrProofs OJD.FsRefs OJD.CreateJob OJD.CreateJobProofs OJD.ScopeWalk OJD.ScopeSpec
               OJD.ScopeProofs OJD.GlueLib.
Local Open Scope string_scope.
Local Open Scope list_scope.

(* ------------------------------------------------------------------ the symbol table's domain *)

Lemma symtab_keys_intro : forall vals e, In e vals ->
  In (p_raw ++ v_name e) (map fst (symtab_of vals)) /\
  (is_path e = false -> In (p_param ++ v_name e) (map fst (symtab_of vals))).
Proof.
  induction vals as [|[[n t] v] r IH]; intros e Hin; [destruct Hin|].
  rewrite symtab_of_cons. rewrite !map_app.
  destruct Hin as [<-|Hin].
  - unfold v_name, is_path, v_type. cbn [fst snd]. split.
    + apply in_or_app. right. apply in_or_app. left. left. reflexivity.
    + intros Hp. rewrite Hp. apply in_or_app. left. left. reflexivity.
  - destruct (IH e Hin) as [H1 H2]. split.
    + apply in_or_app. right. apply in_or_app. right. exact H1.
    + intros Hp. apply in_or_app. right. apply in_or_app. right. apply H2. exact Hp.
Qed.

Lemma symtab_keys : forall vals k,
  In k (map fst (symtab_of vals)) <->
  (exists n, k = p_raw ++ n /\ In n (map v_name vals)) \/
  (exists n, k = p_param ++ n /\ In n (map v_name (filter (fun e => negb (is_path e)) vals))).
Proof.
  intros vals k. split.
  - intros H. apply symtab_names in H. destruct H as [e [He [->|[-> Hp]]]].
    + left. exists (v_name e). split; [reflexivity|]. apply in_map. exact He.
    + right. exists (v_name e). split; [reflexivity|]. apply in_map. apply filter_In.
      split; [exact He|]. rewrite Hp. reflexivity.
  - intros [[n [-> Hn]]|[n [-> Hn]]].
    + apply in_map_iff in Hn. destruct Hn as [e [<- He]]. apply (symtab_keys_intro vals e He).
    + apply in_map_iff in Hn. destruct Hn as [e [<- He]]. apply filter_In in He. destruct He as [He Hp].
      apply (symtab_keys_intro vals e He). destruct (is_path e); [discriminate Hp|reflexivity].
Qed.

(* ------------------------------------------------------------------ visibility at TEMPLATE scope *)

Lemma named_spec : forall prefix names n,
  named prefix names n = true <-> exists p, n = str_of_string prefix ++ p /\ In p names.
Proof.
  intros prefix names n. unfold named. rewrite existsb_exists. split.
  - intros [p [Hin He]]. apply gl_str_eqb_eq in He. exists p. split; assumption.
  - intros [p [-> Hin]]. exists p. split; [exact Hin|apply gl_str_eqb_refl].
Qed.

(* [vals] (the preprocessed values create_job receives: name, type, value) covers the declared job
   parameters: same names, and the same names among the non-PATH ones *)
Definition covers (pdefs : json) (vals : list (str * str * str)) : Prop :=
  (forall x, In x (all_params pdefs) <-> In x (map v_name vals)) /\
  (forall x, In x (nonpath_params pdefs) <-> In x (map v_name (filter (fun e => negb (is_path e)) vals))).

Theorem vis_template_iff : forall pdefs vals, covers pdefs vals ->
  forall n, vis_template pdefs n = true <-> In n (map fst (symtab_of vals)).
Proof.
  intros pdefs vals [C1 C2] n. unfold vis_template. rewrite orb_true_iff. rewrite !named_spec.
  rewrite symtab_keys. change (str_of_string "RawParam.") with p_raw. change (str_of_string "Param.") with p_param.
  split.
  - intros [[p [-> Hp]]|[p [-> Hp]]].
    + left. exists p. split; [reflexivity|]. apply C1. exact Hp.
    + right. exists p. split; [reflexivity|]. apply C2. exact Hp.
  - intros [[p [-> Hp]]|[p [-> Hp]]].
    + left. exists p. split; [reflexivity|]. apply C1. exact Hp.
    + right. exists p. split; [reflexivity|]. apply C2. exact Hp.
Qed.

(* the (name, type) pairs a parameterDefinitions list declares, in order *)
Definition type_text (o : json) : str := match jget "type" o with JStr s => s | _ => [] end.

Definition decl_pairs (pdefs : json) : list (str * str) :=
  flat_map (fun o => if has_param_type o
                     then match decl_name o with Some n => [(n, type_text o)] | None => [] end
                     else [])
           (obj_list pdefs).

Lemma type_is_text : forall o, type_is o "PATH" = str_eqb (type_text o) $"PATH".
Proof. intros o. unfold type_is, type_text. destruct (jget "type" o); reflexivity. Qed.

Lemma decl_pairs_all : forall pdefs, map fst (decl_pairs pdefs) = all_params pdefs.
Proof.
  intros pdefs. unfold decl_pairs, all_params, declared.
  induction (obj_list pdefs) as [|o r IH]; [reflexivity|].
  cbn [flat_map]. rewrite map_app, IH. f_equal.
  destruct (has_param_type o); [|reflexivity]. destruct (decl_name o); reflexivity.
Qed.

Lemma decl_pairs_nonpath : forall pdefs,
  map fst (filter (fun p => negb (str_eqb (snd p) $"PATH")) (decl_pairs pdefs)) = nonpath_params pdefs.
Proof.
  intros pdefs. unfold decl_pairs, nonpath_params, declared.
  induction (obj_list pdefs) as [|o r IH]; [reflexivity|].
  cbn [flat_map]. rewrite filter_app, map_app, IH. f_equal.
  rewrite type_is_text.
  destruct (has_param_type o); cbn [andb]; [|reflexivity].
  destruct (decl_name o) as [n|]; cbn [filter snd].
  - destruct (str_eqb (type_text o) $"PATH"); reflexivity.
  - destruct (negb (str_eqb (type_text o) $"PATH")); reflexivity.
Qed.

Lemma filter_map_fst : forall (vals : list (str * str * str)),
  map fst (filter (fun e => negb (is_path e)) vals)
  = filter (fun p => negb (str_eqb (snd p) $"PATH")) (map fst vals).
Proof.
  induction vals as [|[[n t] v] r IH]; [reflexivity|].
  cbn [map filter fst]. unfold is_path at 1, v_type at 1. cbn [fst snd].
  destruct (negb (str_eqb t $"PATH")); cbn [map fst]; rewrite IH; reflexivity.
Qed.

(* the values create_job receives after preprocessing: one per declared parameter, typed as declared *)
Theorem decl_pairs_covers : forall pdefs vals, map fst vals = decl_pairs pdefs -> covers pdefs vals.
Proof.
  intros pdefs vals H. split; intros x.
  - rewrite <- decl_pairs_all, <- H. unfold v_name. rewrite map_map. tauto.
  - rewrite <- decl_pairs_nonpath, <- H, <- filter_map_fst. unfold v_name. rewrite map_map. tauto.
Qed.

(* ------------------------------------------------------------------ resolve with every name bound *)

Lemma mem_str_In : forall x l, mem_str x l = true <-> In x l.
Proof.
  intros x l. induction l as [|y r IH]; simpl; [split; [discriminate|tauto]|].
  rewrite orb_true_iff, IH, gl_str_eqb_eq. split; intros [H|H]; auto.
Qed.

Lemma lookup_bound : forall (sigma : FormatStr.symtab) n, In n (map fst sigma) -> FormatStr.lookup sigma n <> None.
Proof.
  intros sigma n Hin Hn. apply lookup_dom in Hn. apply mem_str_In in Hin. unfold dom in Hn.
  rewrite Hin in Hn. discriminate Hn.
Qed.

Lemma resolve_items_bound : forall sigma its,
  (forall a b t n, In (IExpr a b t n) its -> In n (map fst sigma)) ->
  exists r, resolve_items sigma its = Ok r.
Proof.
  intros sigma its. induction its as [|it r IH]; intros H; [exists []; reflexivity|].
  destruct IH as [t' Ht'].
  { intros a b t n Hin. apply (H a b t n). right. exact Hin. }
  destruct it as [l|a b t n]; cbn [resolve_items].
  - rewrite Ht'. cbn [bind]. eexists. reflexivity.
  - specialize (H a b t n (or_introl eq_refl)). apply lookup_bound in H.
    unfold expr_evaluate, node_evaluate.
    destruct (FormatStr.lookup sigma n) as [v|]; [|contradiction].
    rewrite Ht'. cbn [bind]. eexists. reflexivity.
Qed.

Lemma names_items : forall f a b t n, In (IExpr a b t n) (items f) -> In n (names f).
Proof.
  intros f a b t n H. unfold names, expressions.
  apply in_map_iff. exists (n, a, b). split; [reflexivity|].
  apply in_flat_map. exists (IExpr a b t n). split; [exact H|left; reflexivity].
Qed.

Theorem resolve_bound : forall sigma f,
  (forall n, In n (names f) -> In n (map fst sigma)) -> exists r, resolve sigma f = Ok r.
Proof.
  intros sigma f H. unfold resolve. apply resolve_items_bound.
  intros a b t n Hin. apply H. eapply names_items. exact Hin.
Qed.

(* FormatString(s).resolve(symtab) as create_job runs it (Export.fs_resolve, CreateJobProofs.fs_resolve) *)
Theorem fs_resolve_bound_names : forall classify sigma s names,
  fs_refs classify s = Some names -> (forall n, In n names -> In n (map fst sigma)) ->
  exists r, fs_resolve classify sigma s = Ok r.
Proof.
  intros classify sigma s nm Hr Hb. unfold fs_refs in Hr. unfold fs_resolve.
  destruct (mk classify s) as [f|e]; [|discriminate Hr]. injection Hr as <-.
  apply resolve_bound. exact Hb.
Qed.

(* ------------------------------------------------------------------ reference sites of the spec *)
Section Sites.
  Variable refs : str -> option (list str).

  (* every name referenced by a (well-formed) format string value is visible *)
  Definition site_ok (vis : str -> bool) (v : json) : Prop :=
    forall s names, v = JStr s -> refs s = Some names -> forall n, In n names -> vis n = true.

  Lemma chk_nil : forall vis l v, chk refs vis l v = [] -> site_ok vis v.
  Proof.
    intros vis l v H s names -> Hr n Hn. cbn [chk] in H. rewrite Hr in H.
    pose proof (gl_flat_map_nil _ _ _ _ H n Hn) as E. cbv beta in E.
    destruct (vis n); [reflexivity|discriminate E].
  Qed.

  Lemma indexed_concat_nil : forall (A B : Type) (F : nat -> A -> list B) (items : list A),
    List.concat (List.map (fun iv => F (fst iv) (snd iv)) (indexed items)) = [] ->
    forall x, In x items -> exists i, F i x = [].
  Proof.
    intros A B F items H x Hin. unfold indexed in H.
    destruct (gl_in_combine_seq A items x 0 Hin) as [i Hi]. exists i.
    apply (gl_concat_nil _ _ H). apply in_map_iff. exists (i, x). split; [reflexivity|exact Hi].
  Qed.

  Lemma chk_list_nil : forall vis l v, chk_list refs vis l v = [] ->
    forall x, In x (obj_list v) -> site_ok vis x.
  Proof.
    intros vis l v H x Hin. unfold chk_list in H. destruct v; try (exfalso; exact Hin).
    cbn [obj_list] in Hin.
    destruct (indexed_concat_nil _ _ (fun i y => chk refs vis (l ++ [LIdx i]) y) _ H x Hin) as [i Hi].
    eapply chk_nil. exact Hi.
  Qed.

  (* the TEMPLATE-scope format-string values of a job template document: the job name, every item
     (or the range string) of every task parameter range, every host requirement name and value *)
  Definition task_param_sites (tp : json) : list json :=
    if is_obj tp then
      if type_is tp "INT" then
        match jget "range" tp with
        | JArr items => items
        | JStr s => [JStr s]
        | _ => []
        end
      else if type_is tp "FLOAT" || type_is tp "STRING" || type_is tp "PATH" then obj_list (jget "range" tp)
      else []
    else [].

  Definition param_space_sites (ps : json) : list json :=
    if is_obj ps then flat_map task_param_sites (obj_list (jget "taskParameterDefinitions" ps)) else [].

  Definition host_req_sites (h : json) : list json :=
    if is_obj h then
      flat_map (fun a => if is_obj a then [jget "name" a] else []) (obj_list (jget "amounts" h))
      ++ flat_map (fun a => if is_obj a
                            then jget "name" a :: obj_list (jget "anyOf" a) ++ obj_list (jget "allOf" a)
                            else [])
                  (obj_list (jget "attributes" h))
    else [].

  Definition step_sites (st : json) : list json :=
    if is_obj st then param_space_sites (jget "parameterSpace" st) ++ host_req_sites (jget "hostRequirements" st)
    else [].

  Definition template_sites (j : json) : list json :=
    jget "name" j :: flat_map step_sites (obj_list (jget "steps" j)).

  Lemma task_param_nil : forall vis l tp, spec_task_param refs vis l tp = [] ->
    forall v, In v (task_param_sites tp) -> site_ok vis v.
  Proof.
    intros vis l tp H v Hin. unfold spec_task_param in H. unfold task_param_sites in Hin.
    destruct (is_obj tp); [|destruct Hin].
    destruct (type_is tp "INT").
    - destruct (jget "range" tp) as [| | | |s|items|]; try (exfalso; exact Hin).
      + destruct Hin as [<-|[]]. eapply chk_nil. exact H.
      + eapply chk_nil. apply (gl_flat_map_nil _ _ _ _ H v Hin).
    - destruct (type_is tp "FLOAT" || type_is tp "STRING" || type_is tp "PATH"); [|destruct Hin].
      eapply chk_list_nil; eassumption.
  Qed.

  Lemma param_space_nil : forall vis l ps, spec_param_space refs vis l ps = [] ->
    forall v, In v (param_space_sites ps) -> site_ok vis v.
  Proof.
    intros vis l ps H v Hin. unfold spec_param_space in H. unfold param_space_sites in Hin.
    destruct (is_obj ps); [|destruct Hin].
    apply in_flat_map in Hin. destruct Hin as [tp [Htp Hv]].
    destruct (jget "taskParameterDefinitions" ps) as [| | | | |items|]; try (exfalso; exact Htp).
    cbn [obj_list] in Htp.
    destruct (indexed_concat_nil _ _
                (fun i y => spec_task_param refs vis (l ++ [key "taskParameterDefinitions"; LIdx i]) y)
                _ H tp Htp) as [i Hi].
    eapply task_param_nil; eassumption.
  Qed.

  Lemma host_req_nil : forall vis l h, spec_host_req refs vis l h = [] ->
    forall v, In v (host_req_sites h) -> site_ok vis v.
  Proof.
    intros vis l h H v Hin. unfold spec_host_req in H. unfold host_req_sites in Hin.
    destruct (is_obj h); [|destruct Hin].
    apply app_eq_nil in H. destruct H as [Ham Hat].
    apply in_app_or in Hin. destruct Hin as [Hin|Hin].
    - apply in_flat_map in Hin. destruct Hin as [a [Ha Hv]].
      destruct (jget "amounts" h) as [| | | | |items|]; try (exfalso; exact Ha).
      cbn [obj_list] in Ha.
      destruct (indexed_concat_nil _ _
                  (fun i y => if is_obj y
                              then chk refs vis (l ++ [key "amounts"; LIdx i; key "name"]) (jget "name" y)
                              else [])
                  _ Ham a Ha) as [i Hi].
      cbv beta in Hi. destruct (is_obj a); [|destruct Hv].
      destruct Hv as [<-|[]]. eapply chk_nil. exact Hi.
    - apply in_flat_map in Hin. destruct Hin as [a [Ha Hv]].
      destruct (jget "attributes" h) as [| | | | |items|]; try (exfalso; exact Ha).
      cbn [obj_list] in Ha.
      destruct (indexed_concat_nil _ _
                  (fun i y =>
                     if is_obj y then
                       chk refs vis ((l ++ [key "attributes"; LIdx i]) ++ [key "name"]) (jget "name" y)
                       ++ chk_list refs vis ((l ++ [key "attributes"; LIdx i]) ++ [key "anyOf"]) (jget "anyOf" y)
                       ++ chk_list refs vis ((l ++ [key "attributes"; LIdx i]) ++ [key "allOf"]) (jget "allOf" y)
                     else [])
                  _ Hat a Ha) as [i Hi].
      cbv beta in Hi. destruct (is_obj a); [|destruct Hv].
      apply app_eq_nil in Hi. destruct Hi as [H1 H23]. apply app_eq_nil in H23. destruct H23 as [H2 H3].
      destruct Hv as [<-|Hv]; [eapply chk_nil; exact H1|].
      apply in_app_or in Hv. destruct Hv as [Hv|Hv].
      + exact (chk_list_nil vis _ _ H2 v Hv).
      + exact (chk_list_nil vis _ _ H3 v Hv).
  Qed.

  Lemma step_nil : forall pdefs l st, spec_step refs pdefs l st = [] ->
    forall v, In v (step_sites st) -> site_ok (vis_template pdefs) v.
  Proof.
    intros pdefs l st H v Hin. unfold spec_step in H. unfold step_sites in Hin.
    destruct (is_obj st); [|destruct Hin].
    apply app_eq_nil in H. destruct H as [_ H]. apply app_eq_nil in H. destruct H as [_ H].
    apply app_eq_nil in H. destruct H as [Hps Hhr].
    apply in_app_or in Hin. destruct Hin as [Hin|Hin].
    - eapply param_space_nil; eassumption.
    - eapply host_req_nil; eassumption.
  Qed.

  Theorem job_template_sites_ok : forall j, spec_job_template refs j = [] ->
    forall v, In v (template_sites j) -> site_ok (vis_template (jget "parameterDefinitions" j)) v.
  Proof.
    intros j H v Hin. unfold spec_job_template in H. cbv zeta in H.
    apply app_eq_nil in H. destruct H as [Hname H]. apply app_eq_nil in H. destruct H as [Hsteps _].
    unfold template_sites in Hin. destruct Hin as [<-|Hin].
    - eapply chk_nil. exact Hname.
    - apply in_flat_map in Hin. destruct Hin as [st [Hst Hv]].
      destruct (jget "steps" j) as [| | | | |items|]; try (exfalso; exact Hst).
      cbn [obj_list] in Hst.
      destruct (indexed_concat_nil _ _
                  (fun i y => spec_step refs (jget "parameterDefinitions" j) [key "steps"; LIdx i] y)
                  _ Hsteps st Hst) as [i Hi].
      eapply step_nil; eassumption.
  Qed.
End Sites.

(* ------------------------------------------------------------------ the corollary chain *)

(* a document that passes the pre-validation walk: every name referenced at a creation-time site
   is bound by create_job's symbol table, and resolving the string succeeds *)
Theorem sites_bound : forall classify j vals,
  covers (jget "parameterDefinitions" j) vals ->
  prevalidate Generated.schema (fs_refs classify) "JobTemplate" j = [] ->
  forall s, In (JStr s) (template_sites j) ->
  forall names, fs_refs classify s = Some names ->
  (forall n, In n names -> In n (map fst (symtab_of vals))) /\
  (exists r, fs_resolve classify (symtab_of vals) s = Ok r).
Proof.
  intros classify j vals Hc Hp s Hs names Hr.
  rewrite exact_job in Hp.
  pose proof (job_template_sites_ok (fs_refs classify) j Hp (JStr s) Hs s names eq_refl Hr) as Hv.
  assert (Hb : forall n, In n names -> In n (map fst (symtab_of vals))).
  { intros n Hn. apply (vis_template_iff _ _ Hc). apply Hv. exact Hn. }
  split; [exact Hb|]. eapply fs_resolve_bound_names; eassumption.
Qed.

(* ... in particular the job name *)
Theorem name_bound : forall classify j vals s,
  covers (jget "parameterDefinitions" j) vals ->
  prevalidate Generated.schema (fs_refs classify) "JobTemplate" j = [] ->
  jget "name" j = JStr s ->
  (forall f, mk classify s = Ok f -> forall n, In n (FormatStrProofs.names f) -> In n (map fst (symtab_of vals))) /\
  (forall e, fs_resolve classify (symtab_of vals) s = Raise e ->
             e = FormatStringError /\ mk classify s = Raise FormatStringError).
Proof.
  intros classify j vals s Hc Hp Hn.
  assert (Hs : In (JStr s) (template_sites j)) by (unfold template_sites; left; exact Hn).
  split.
  - intros f Hf n Hin.
    assert (Hr : fs_refs classify s = Some (FormatStrProofs.names f)).
    { unfold fs_refs. rewrite Hf. reflexivity. }
    destruct (sites_bound classify j vals Hc Hp s Hs _ Hr) as [Hb _]. apply Hb. exact Hin.
  - intros e He. destruct (mk classify s) as [f|e0] eqn:Hf.
    + assert (Hr : fs_refs classify s = Some (FormatStrProofs.names f)).
      { unfold fs_refs. rewrite Hf. reflexivity. }
      destruct (sites_bound classify j vals Hc Hp s Hs _ Hr) as [_ [r Hok]]. rewrite Hok in He. discriminate He.
    + unfold fs_resolve in He. rewrite Hf in He. injection He as <-.
      pose proof (mk_errors classify s e0 Hf) as ->. split; reflexivity.
Qed.

(* which fields create_job resolves, per class, in the live metadata: exactly the sites above *)
Definition resolve_table (s : schema_t) : list (string * list string) :=
  flat_map (fun nc => match j_resolve (c_jcm (snd nc)) with [] => [] | l => [(fst nc, l)] end) s.

Lemma resolve_table_ok :
  resolve_table Generated.schema =
  [("IntTaskParameterDefinition", ["range"]);
   ("FloatTaskParameterDefinition", ["range"]);
   ("StringTaskParameterDefinition", ["range"]);
   ("PathTaskParameterDefinition", ["range"]);
   ("AmountRequirementTemplate", ["name"]);
   ("AttributeRequirementTemplate", ["allOf"; "anyOf"; "name"]);
   ("JobTemplate", ["name"])].
Proof. vm_compute. reflexivity. Qed.
