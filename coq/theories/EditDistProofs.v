(* EditDistProofs.v — C20: the two-row dynamic programme IS the Levenshtein distance, `closest`
   IS the (capped) arg-min set, suggestions are arg-min sets below the threshold.
   All statements are for all strings / symbol lists (induction; nothing bounded). *)
From Coq Require Import List NArith Arith Bool Lia Permutation.
Import ListNotations.
Require Import OJD.Base OJD.Generated OJD.EditDist OJD.EditDistSpec.

(* ------------------------------------------------------------------ 1. Levenshtein *)
Definition delta (x y : N) : nat := if N.eqb x y then 0 else 1.

Lemma lev_nil_l : forall b, lev [] b = length b.
Proof. reflexivity. Qed.

Lemma lev_nil_r : forall a, lev a [] = length a.
Proof. destruct a; reflexivity. Qed.

Lemma lev_cons : forall x a y b,
  lev (x :: a) (y :: b) = min3 (lev a (y :: b) + 1) (lev (x :: a) b + 1) (lev a b + delta x y).
Proof. reflexivity. Qed.

Global Opaque lev.

Lemma min3_cases : forall p q r, (min3 p q r = p /\ p <= q /\ p <= r) \/
                                 (min3 p q r = q /\ q <= p /\ q <= r) \/
                                 (min3 p q r = r /\ r <= p /\ r <= q).
Proof. intros p q r. unfold min3. lia. Qed.

Lemma script_nil_l : forall b, script [] b (length b).
Proof. induction b as [|y b IH]; [constructor | simpl; constructor; exact IH]. Qed.

Lemma script_nil_r : forall a, script a [] (length a).
Proof. induction a as [|x a IH]; [constructor | simpl; constructor; exact IH]. Qed.

(* lev is the cost of some edit script ... *)
Lemma lev_script : forall a b, script a b (lev a b).
Proof.
  induction a as [|x a IHa]; intro b.
  - rewrite lev_nil_l. apply script_nil_l.
  - induction b as [|y b IHb].
    + rewrite lev_nil_r. apply script_nil_r.
    + rewrite lev_cons.
      destruct (min3_cases (lev a (y :: b) + 1) (lev (x :: a) b + 1) (lev a b + delta x y))
        as [[E _]|[[E _]|[E _]]]; rewrite E.
      * rewrite Nat.add_1_r. apply sc_del. apply IHa.
      * rewrite Nat.add_1_r. apply sc_ins. exact IHb.
      * apply sc_sub. apply IHa.
Qed.

Lemma lev_del_le : forall x a b, lev (x :: a) b <= S (lev a b).
Proof.
  intros x a [|y b].
  - rewrite !lev_nil_r. simpl. lia.
  - rewrite lev_cons. unfold min3. lia.
Qed.

Lemma lev_ins_le : forall y a b, lev a (y :: b) <= S (lev a b).
Proof.
  intros y [|x a] b.
  - rewrite !lev_nil_l. simpl. lia.
  - rewrite lev_cons. unfold min3. lia.
Qed.

Lemma lev_sub_le : forall x y a b, lev (x :: a) (y :: b) <= lev a b + delta x y.
Proof. intros. rewrite lev_cons. unfold min3. lia. Qed.

(* ... and no edit script is cheaper *)
Lemma lev_least : forall a b n, script a b n -> lev a b <= n.
Proof.
  intros a b n H. induction H as [|x a b n H IH|y a b n H IH|x y a b n H IH].
  - rewrite lev_nil_l. simpl. lia.
  - pose proof (lev_del_le x a b). lia.
  - pose proof (lev_ins_le y a b). lia.
  - pose proof (lev_sub_le x y a b). unfold delta in *. lia.
Qed.

(* edit scripts can be extended at the right end, hence reversed *)
Lemma script_snoc_del : forall a b n x, script a b n -> script (a ++ [x]) b (S n).
Proof.
  intros a b n x H. induction H as [|x0 a b n H IH|y a b n H IH|x0 y a b n H IH]; simpl.
  - apply sc_del. constructor.
  - apply sc_del. exact IH.
  - apply sc_ins. exact IH.
  - change (S (n + (if N.eqb x0 y then 0 else 1))) with (S n + (if N.eqb x0 y then 0 else 1)).
    apply sc_sub. exact IH.
Qed.

Lemma script_snoc_ins : forall a b n y, script a b n -> script a (b ++ [y]) (S n).
Proof.
  intros a b n y0 H. induction H as [|x a b n H IH|y a b n H IH|x y a b n H IH]; simpl.
  - apply sc_ins. constructor.
  - apply sc_del. exact IH.
  - apply sc_ins. exact IH.
  - change (S (n + (if N.eqb x y then 0 else 1))) with (S n + (if N.eqb x y then 0 else 1)).
    apply sc_sub. exact IH.
Qed.

Lemma script_snoc_sub : forall a b n x y, script a b n ->
  script (a ++ [x]) (b ++ [y]) (n + (if N.eqb x y then 0 else 1)).
Proof.
  intros a b n x1 y1 H. induction H as [|x a b n H IH|y a b n H IH|x y a b n H IH]; simpl.
  - apply (sc_sub x1 y1 [] [] 0). constructor.
  - apply sc_del. exact IH.
  - apply sc_ins. exact IH.
  - replace (n + (if N.eqb x y then 0 else 1) + (if N.eqb x1 y1 then 0 else 1))
      with (n + (if N.eqb x1 y1 then 0 else 1) + (if N.eqb x y then 0 else 1)) by lia.
    apply sc_sub. exact IH.
Qed.

Lemma script_rev : forall a b n, script a b n -> script (rev a) (rev b) n.
Proof.
  intros a b n H. induction H as [|x a b n H IH|y a b n H IH|x y a b n H IH]; simpl.
  - constructor.
  - apply script_snoc_del. exact IH.
  - apply script_snoc_ins. exact IH.
  - apply script_snoc_sub. exact IH.
Qed.

Lemma script_sym : forall a b n, script a b n -> script b a n.
Proof.
  intros a b n H. induction H as [|x a b n H IH|y a b n H IH|x y a b n H IH].
  - constructor.
  - apply sc_ins. exact IH.
  - apply sc_del. exact IH.
  - rewrite N.eqb_sym. apply sc_sub. exact IH.
Qed.

Lemma script_length : forall a b n, script a b n -> length a <= length b + n /\ length b <= length a + n.
Proof.
  intros a b n H. induction H as [|x a b n H IH|y a b n H IH|x y a b n H IH]; simpl; lia.
Qed.

Lemma lev_rev : forall a b, lev (rev a) (rev b) = lev a b.
Proof.
  intros a b. apply Nat.le_antisymm.
  - apply lev_least. apply script_rev. apply lev_script.
  - rewrite <- (rev_involutive a) at 1. rewrite <- (rev_involutive b) at 1.
    apply lev_least. apply script_rev. apply lev_script.
Qed.

Lemma lev_sym : forall a b, lev a b = lev b a.
Proof.
  intros a b. apply Nat.le_antisymm; apply lev_least; apply script_sym; apply lev_script.
Qed.

Lemma lev_length_diff : forall a b, length a <= length b + lev a b /\ length b <= length a + lev a b.
Proof. intros a b. apply script_length. apply lev_script. Qed.

(* the recursion on LAST characters, which is what a prefix-indexed DP table uses *)
Lemma lev_snoc : forall a x b y,
  lev (a ++ [x]) (b ++ [y]) =
  min3 (lev a (b ++ [y]) + 1) (lev (a ++ [x]) b + 1) (lev a b + delta x y).
Proof.
  intros a x b y.
  rewrite <- (lev_rev (a ++ [x]) (b ++ [y])), <- (lev_rev a (b ++ [y])),
          <- (lev_rev (a ++ [x]) b), <- (lev_rev a b).
  rewrite !rev_unit. apply lev_cons.
Qed.

(* ------------------------------------------------------------------ 2. rows: get / set_at / foldM *)
Lemma get_some : forall (A : Type) (r : list A) i v, nth_error r i = Some v -> get r i = Ok v.
Proof. intros A r i v H. unfold get. rewrite H. reflexivity. Qed.

Lemma set_at_ok : forall r i v, i < length r ->
  exists r', set_at r i v = Ok r' /\ length r' = length r /\ nth_error r' i = Some v /\
             forall k, k <> i -> nth_error r' k = nth_error r k.
Proof.
  induction r as [|x r IH]; intros i v Hi; simpl in Hi; [lia|].
  destruct i as [|i].
  - exists (v :: r). simpl. repeat split; try reflexivity.
    intros k Hk. destruct k as [|k]; [lia | reflexivity].
  - destruct (IH i v) as (r' & E & L & G & O); [lia|].
    exists (x :: r'). simpl. rewrite E. simpl. repeat split; try assumption.
    + now rewrite L.
    + intros k Hk. destruct k as [|k]; [reflexivity|]. simpl. apply O. lia.
Qed.

Lemma foldM_app : forall (A S : Type) (f : S -> A -> outcome S) l1 l2 s,
  foldM f (l1 ++ l2) s = bind (foldM f l1 s) (foldM f l2).
Proof.
  intros A S f l1. induction l1 as [|x l1 IH]; intros l2 s; simpl; [reflexivity|].
  destruct (f s x) as [s'|e]; simpl; [apply IH | reflexivity].
Qed.

(* a loop invariant indexed by the list of items already processed *)
Lemma foldM_inv : forall (A S : Type) (f : S -> A -> outcome S) (I : list A -> S -> Prop),
  (forall P s x, I P s -> exists s', f s x = Ok s' /\ I (P ++ [x]) s') ->
  forall l P s, I P s -> exists s', foldM f l s = Ok s' /\ I (P ++ l) s'.
Proof.
  intros A S f I Hstep. induction l as [|x l IH]; intros P s HI; simpl.
  - exists s. rewrite app_nil_r. auto.
  - destruct (Hstep P s x HI) as (s1 & E1 & I1). rewrite E1. simpl.
    destruct (IH (P ++ [x]) s1 I1) as (s2 & E2 & I2). exists s2. split; [exact E2|].
    rewrite <- app_assoc in I2. exact I2.
Qed.

Lemma nth_error_seq : forall len start i, i < len -> nth_error (seq start len) i = Some (start + i).
Proof.
  induction len as [|len IH]; intros start i Hi; [lia|].
  destruct i as [|i]; simpl.
  - f_equal. lia.
  - rewrite IH by lia. f_equal. lia.
Qed.

Lemma list_ext_nth_error : forall (A : Type) (l l' : list A),
  (forall k, nth_error l k = nth_error l' k) -> l = l'.
Proof.
  induction l as [|x l IH]; intros [|y l'] H.
  - reflexivity.
  - specialize (H 0). discriminate.
  - specialize (H 0). discriminate.
  - pose proof (H 0) as H0. simpl in H0. injection H0 as ->. f_equal.
    apply IH. intro k. exact (H (S k)).
Qed.

Lemma firstn_snoc : forall (A : Type) (l : list A) i x,
  nth_error l i = Some x -> firstn (S i) l = firstn i l ++ [x].
Proof.
  induction l as [|y l IH]; intros i x H.
  - destruct i; discriminate.
  - destruct i as [|i].
    + simpl in H. injection H as ->. reflexivity.
    + simpl in H. change (firstn (S (S i)) (y :: l)) with (y :: firstn (S i) l).
      rewrite (IH i x H). reflexivity.
Qed.

(* ------------------------------------------------------------------ 3. the two-row DP *)
Section DP.
  Variables a b : str.    (* a = s1 (one DP row per prefix of a), b = s2 (one column per prefix of b) *)
  Let n := length b.

  (* cell i j of the full DP matrix, and row i *)
  Definition cell (i j : nat) : nat := lev (firstn i a) (firstn j b).
  Definition row (i : nat) : list nat := map (cell i) (seq 0 (S n)).

  Lemma row_length : forall i, length (row i) = S n.
  Proof. intro i. unfold row. rewrite map_length, seq_length. reflexivity. Qed.

  Lemma row_nth : forall i j, j <= n -> nth_error (row i) j = Some (cell i j).
  Proof.
    intros i j Hj. unfold row. apply map_nth_error.
    rewrite nth_error_seq by lia. reflexivity.
  Qed.

  Lemma cell_0_l : forall j, j <= n -> cell 0 j = j.
  Proof.
    intros j Hj. unfold cell. simpl. rewrite lev_nil_l. apply firstn_length_le. exact Hj.
  Qed.

  Lemma cell_0_r : forall i, i <= length a -> cell i 0 = i.
  Proof.
    intros i Hi. unfold cell. simpl. rewrite lev_nil_r. apply firstn_length_le. exact Hi.
  Qed.

  Lemma cell_step : forall i j x y,
    nth_error a i = Some x -> nth_error b j = Some y ->
    cell (S i) (S j) = min3 (cell i (S j) + 1) (cell (S i) j + 1) (cell i j + delta x y).
  Proof.
    intros i j x y Hx Hy. unfold cell.
    rewrite (firstn_snoc _ a i x Hx), (firstn_snoc _ b j y Hy). apply lev_snoc.
  Qed.

  Lemma row_0 : seq 0 (length b + 1) = row 0.
  Proof.
    unfold row. rewrite Nat.add_1_r. fold n.
    rewrite <- (map_id (seq 0 (S n))) at 1.
    apply map_ext_in. intros j Hj. apply in_seq in Hj. symmetry. apply cell_0_l. lia.
  Qed.

  (* inner loop, outer index S i: after the iterations s2_idx = 1..j the cells 0..j of a1 are
     those of row (S i); the cells beyond j still hold stale values *)
  Lemma inner_loop : forall i x a1,
    nth_error a i = Some x -> length a1 = S n -> nth_error a1 0 = Some (S i) ->
    forall j, j <= n ->
    exists r, foldM (inner_step a b (S i) (row i)) (seq 1 j) a1 = Ok r /\ length r = S n /\
              forall k, k <= j -> nth_error r k = Some (cell (S i) k).
  Proof.
    intros i x a1 Hx La1 H0.
    assert (Hi : i < length a) by (apply nth_error_Some; rewrite Hx; discriminate).
    induction j as [|j IH]; intro Hj.
    - exists a1. simpl. repeat split; try assumption.
      intros k Hk. assert (k = 0) as -> by lia. rewrite cell_0_r by lia. exact H0.
    - destruct IH as (r & E & Lr & Hr); [lia|].
      rewrite seq_S, foldM_app, E. simpl.
      assert (Hjb : j < length b) by (fold n; lia).
      destruct (nth_error b j) as [y|] eqn:Hy; [|apply nth_error_None in Hy; lia].
      unfold inner_step.
      rewrite (get_some _ (row i) (S j) _ (row_nth i (S j) Hj)). simpl.
      rewrite !Nat.sub_0_r.
      rewrite (get_some _ r j _ (Hr j (le_n j))). simpl.
      rewrite (get_some _ (row i) j _ (row_nth i j (Nat.lt_le_incl _ _ Hj))). simpl.
      rewrite (get_some _ a i _ Hx). simpl.
      rewrite (get_some _ b j _ Hy). simpl.
      destruct (set_at_ok r (S j)
                  (min3 (cell i (S j) + 1) (cell (S i) j + 1)
                        (cell i j + (if N.eqb x y then 0 else 1)))) as (r' & E' & L' & G' & O');
        [lia|].
      exists r'. split; [rewrite E'; reflexivity|]. split; [lia|].
      intros k Hk. destruct (Nat.eq_dec k (S j)) as [->|Hne].
      + rewrite G'. f_equal. symmetry. apply cell_step; assumption.
      + rewrite O' by exact Hne. apply Hr. lia.
  Qed.

  (* outer loop: after the iterations s1_idx = 1..i, a0 is row i of the matrix *)
  Lemma outer_loop : forall i, i <= length a ->
    exists a1, foldM (outer_step a b) (seq 1 i) (row 0, row 0) = Ok (row i, a1) /\ length a1 = S n.
  Proof.
    induction i as [|i IH]; intro Hi.
    - exists (row 0). simpl. split; [reflexivity | apply row_length].
    - destruct IH as (a1 & E & La1); [lia|].
      rewrite seq_S, foldM_app, E. simpl.
      destruct (nth_error a i) as [x|] eqn:Hx; [|apply nth_error_None in Hx; lia].
      destruct (set_at_ok a1 0 (S i)) as (a1' & E1 & L1 & G1 & _); [lia|].
      rewrite E1. simpl.
      destruct (inner_loop i x a1' Hx) with (j := n) as (r & E2 & Lr & Hr);
        [lia | exact G1 | lia |].
      fold n. rewrite E2. simpl.
      assert (r = row (S i)) as ->.
      { apply list_ext_nth_error. intro k. destruct (le_lt_dec k n) as [Hk|Hk].
        - rewrite Hr by exact Hk. symmetry. apply row_nth. exact Hk.
        - assert (nth_error r k = None) as -> by (apply nth_error_None; lia).
          symmetry. apply nth_error_None. rewrite row_length. lia. }
      exists (row i). split; [reflexivity | apply row_length].
  Qed.
End DP.

(* C20_lev: the two-row dynamic programme never raises and returns the Levenshtein distance *)
Theorem edit_distance_lev : forall a b, edit_distance a b = Ok (lev a b).
Proof.
  intros a b. unfold edit_distance.
  destruct (length a =? 0) eqn:Ea.
  - apply Nat.eqb_eq, length_zero_iff_nil in Ea. subst a. rewrite lev_nil_l. reflexivity.
  - destruct (length b =? 0) eqn:Eb.
    + apply Nat.eqb_eq, length_zero_iff_nil in Eb. subst b. rewrite lev_nil_r. reflexivity.
    + rewrite (row_0 a b).
      destruct (outer_loop a b (length a) (le_n _)) as (a1 & E & _).
      rewrite E. simpl.
      rewrite (get_some _ _ _ _ (row_nth a b (length a) (length b) (le_n _))).
      unfold cell. rewrite !firstn_all. reflexivity.
Qed.

(* ------------------------------------------------------------------ 4. closest *)
Lemma str_eqb_eq : forall a b, str_eqb a b = true <-> a = b.
Proof.
  induction a as [|x a IH]; intros [|y b]; simpl; split; intro H;
    try reflexivity; try discriminate.
  - apply andb_true_iff in H. destruct H as [H1 H2].
    apply N.eqb_eq in H1. apply IH in H2. now subst.
  - injection H as -> ->. apply andb_true_iff. split; [apply N.eqb_refl | now apply IH].
Qed.

Lemma mem_str_In : forall x l, mem_str x l = true <-> In x l.
Proof.
  intros x l. induction l as [|y l IH]; simpl.
  - split; [discriminate | tauto].
  - rewrite orb_true_iff, IH, str_eqb_eq. split; intros [H|H]; auto.
Qed.

Lemma set_add_In : forall x s t, In t (set_add x s) <-> t = x \/ In t s.
Proof.
  intros x s t. unfold set_add. destruct (mem_str x s) eqn:E.
  - apply mem_str_In in E. split; [auto | intros [->|H]; assumption].
  - simpl. split; intros [H|H]; auto.
Qed.

Lemma set_add_NoDup : forall x s, NoDup s -> NoDup (set_add x s).
Proof.
  intros x s H. unfold set_add. destruct (mem_str x s) eqn:E; [exact H|].
  constructor; [|exact H]. intro HI. apply mem_str_In in HI. congruence.
Qed.

Lemma min_cost_snoc : forall bound P m s,
  min_cost bound (P ++ [s]) m = Nat.min (min_cost bound P m) (dist m s).
Proof.
  intros bound P m s. unfold min_cost. induction P as [|p P IH]; simpl.
  - lia.
  - fold (min_cost bound (P ++ [s]) m) in *. fold (min_cost bound P m) in *. lia.
Qed.

(* what [min_cost] is: a lower bound of bound and of every distance, attained *)
Lemma min_cost_spec : forall bound S m,
  min_cost bound S m <= bound /\
  (forall s, In s S -> min_cost bound S m <= dist m s) /\
  (min_cost bound S m = bound \/ exists s, In s S /\ dist m s = min_cost bound S m).
Proof.
  intros bound S m. unfold min_cost. induction S as [|p S (IH1 & IH2 & IH3)]; simpl.
  - repeat split; [lia | tauto | left; reflexivity].
  - split; [lia|]. split.
    + intros s [->|H]; [lia | specialize (IH2 s H); lia].
    + destruct (Nat.min_spec (dist m p) (fold_right Nat.min bound (map (dist m) S)))
        as [[_ ->]|[_ ->]].
      * right. exists p. auto.
      * destruct IH3 as [E|(s & Hs & E)]; [left; exact E | right; exists s; auto].
Qed.

Lemma min_cost_unique : forall bound S m d,
  d <= bound -> (forall s, In s S -> d <= dist m s) ->
  (d = bound \/ exists s, In s S /\ dist m s = d) -> d = min_cost bound S m.
Proof.
  intros bound S m d H1 H2 H3. destruct (min_cost_spec bound S m) as (M1 & M2 & M3).
  apply Nat.le_antisymm.
  - destruct M3 as [E|(s & Hs & E)]; [rewrite E; exact H1 | rewrite <- E; apply H2; exact Hs].
  - destruct H3 as [E|(s & Hs & E)]; [rewrite E; exact M1 | rewrite <- E; apply M2; exact Hs].
Qed.

Lemma min_cost_same_set : forall bound S S' m,
  same_set S S' -> min_cost bound S m = min_cost bound S' m.
Proof.
  intros bound S S' m H. destruct (min_cost_spec bound S m) as (M1 & M2 & M3).
  apply min_cost_unique; [exact M1 | |].
  - intros s Hs. apply M2. apply H. exact Hs.
  - destruct M3 as [E|(s & Hs & E)]; [left; exact E | right; exists s; split; [apply H; exact Hs | exact E]].
Qed.

(* loop invariant of `for sym in symbols` *)
Definition closest_inv (m : str) (P : list str) (st : nat * list str) : Prop :=
  fst st = min_cost (length m + 1) P m /\ NoDup (snd st) /\
  forall t, In t (snd st) <-> In t P /\ dist m t = fst st.

Lemma closest_step_inv : forall m P st s, closest_inv m P st ->
  exists st', closest_step m st s = Ok st' /\ closest_inv m (P ++ [s]) st'.
Proof.
  intros m P [d T] s (Hd & HN & HT). simpl in Hd, HN, HT.
  unfold closest_step. rewrite edit_distance_lev. simpl. fold (dist m s).
  pose proof (min_cost_spec (length m + 1) P m) as (_ & Hle & _). rewrite <- Hd in Hle.
  destruct (dist m s <? d) eqn:E1; [|destruct (dist m s =? d) eqn:E2].
  - apply Nat.ltb_lt in E1. eexists. split; [reflexivity|].
    unfold closest_inv. simpl. rewrite min_cost_snoc, <- Hd.
    split; [lia|]. split; [constructor; [simpl; tauto | constructor]|].
    intro t. rewrite in_app_iff. simpl. split.
    + intros [<-|[]]. auto.
    + intros [[Ht|[<-|[]]] Hdt]; [|auto]. specialize (Hle t Ht). lia.
  - apply Nat.eqb_eq in E2. eexists. split; [reflexivity|].
    unfold closest_inv. simpl. rewrite min_cost_snoc, <- Hd.
    split; [lia|]. split; [apply set_add_NoDup; exact HN|].
    intro t. rewrite set_add_In, in_app_iff, HT. simpl. split.
    + intros [->|[Ht Hdt]]; auto.
    + intros [[Ht|[<-|[]]] Hdt]; auto.
  - apply Nat.ltb_ge in E1. apply Nat.eqb_neq in E2. eexists. split; [reflexivity|].
    unfold closest_inv. simpl. rewrite min_cost_snoc, <- Hd.
    split; [lia|]. split; [exact HN|].
    intro t. rewrite in_app_iff, HT. simpl. split.
    + intros [Ht Hdt]. auto.
    + intros [[Ht|[<-|[]]] Hdt]; [auto | lia].
Qed.

(* closest never raises; its result is the capped minimum and exactly the members at that distance *)
Theorem closest_spec : forall S m, exists d T,
  closest S m = Ok (d, T) /\ d = min_cost (length m + 1) S m /\ NoDup T /\
  forall t, In t T <-> In t S /\ dist m t = d.
Proof.
  intros S m. unfold closest.
  destruct (foldM_inv _ _ (closest_step m) (closest_inv m) (closest_step_inv m) S []
                      (length m + 1, [])) as ([d T] & E & (Hd & HN & HT)).
  - unfold closest_inv. simpl. split; [reflexivity|]. split; [apply NoDup_nil|]. intro t. tauto.
  - exists d, T. simpl in *. auto.
Qed.

Lemma closest_empty : forall m, closest [] m = Ok (length m + 1, []).
Proof. reflexivity. Qed.

Lemma is_min_unique : forall S m d d', is_min S m d -> is_min S m d' -> d = d'.
Proof.
  intros S m d d' [(t & Ht & Et) Hl] [(t' & Ht' & Et') Hl'].
  specialize (Hl t' Ht'). specialize (Hl' t Ht). lia.
Qed.

(* regime 1: some symbol is within len(match)+1 -> distance = true minimum, set = arg-min set *)
Lemma closest_near : forall S m d T d0,
  closest S m = Ok (d, T) -> is_min S m d0 -> d0 <= length m + 1 ->
  d = d0 /\ T <> [] /\ forall t, In t T <-> argmin S m t.
Proof.
  intros S m d T d0 E [(t0 & Ht0 & Et0) Hl] Hb.
  destruct (closest_spec S m) as (d' & T' & E' & Hd & HN & HT).
  rewrite E in E'. injection E' as <- <-.
  assert (d = d0) as ->.
  { rewrite Hd. symmetry. apply min_cost_unique; [exact Hb | exact Hl | right; exists t0; auto]. }
  split; [reflexivity|]. split.
  - intro HE. assert (In t0 T) as HI by (apply HT; auto). rewrite HE in HI. exact HI.
  - intro t. rewrite HT. unfold argmin. split.
    + intros [Ht Hdt]. split; [exact Ht|]. intros s Hs. rewrite Hdt. apply Hl. exact Hs.
    + intros [Ht Hmin]. split; [exact Ht|].
      specialize (Hmin t0 Ht0). specialize (Hl t Ht). lia.
Qed.

(* regime 2: no symbol within len(match)+1 (in particular the empty symbol set):
   the initial values are returned unchanged *)
Lemma closest_far : forall S m d T,
  closest S m = Ok (d, T) -> (forall s, In s S -> length m + 1 < dist m s) ->
  d = length m + 1 /\ T = [].
Proof.
  intros S m d T E Hfar.
  destruct (closest_spec S m) as (d' & T' & E' & Hd & HN & HT).
  rewrite E in E'. injection E' as <- <-.
  assert (d = length m + 1) as Hd'.
  { rewrite Hd. symmetry. apply min_cost_unique; [lia | | left; reflexivity].
    intros s Hs. specialize (Hfar s Hs). lia. }
  split; [exact Hd'|].
  destruct T as [|t T]; [reflexivity|]. exfalso.
  destruct (HT t) as [HI _]. destruct HI as [Ht Hdt]; [left; reflexivity|].
  specialize (Hfar t Ht). lia.
Qed.

(* the iteration order of the Python set, and duplicates, do not matter *)
Theorem closest_set_invariant : forall S S' m d T,
  same_set S S' -> closest S m = Ok (d, T) ->
  exists T', closest S' m = Ok (d, T') /\ same_set T T' /\ Permutation T T'.
Proof.
  intros S S' m d T HS E.
  destruct (closest_spec S m) as (d1 & T1 & E1 & Hd1 & HN1 & HT1).
  rewrite E in E1. injection E1 as <- <-.
  destruct (closest_spec S' m) as (d2 & T2 & E2 & Hd2 & HN2 & HT2).
  assert (d2 = d) as -> by (rewrite Hd1, Hd2; symmetry; apply min_cost_same_set; exact HS).
  exists T2. split; [exact E2|].
  assert (same_set T T2) as HTT.
  { intro t. rewrite HT1, HT2. rewrite (HS t). tauto. }
  split; [exact HTT | apply NoDup_Permutation; assumption].
Qed.

Lemma nearest_oracle_spec : forall S m d T,
  closest S m = Ok (d, T) -> fst (nearest_oracle S m) = d /\ same_set T (snd (nearest_oracle S m)).
Proof.
  intros S m d T E.
  destruct (closest_spec S m) as (d' & T' & E' & Hd & HN & HT).
  rewrite E in E'. injection E' as <- <-.
  unfold nearest_oracle. simpl. rewrite <- Hd. split; [reflexivity|].
  intro t. rewrite HT, filter_In, Nat.eqb_eq. tauto.
Qed.

(* ------------------------------------------------------------------ 5. suggestions *)
Lemma suggest_eq : forall S m d T, closest S m = Ok (d, T) ->
  suggest S m = Ok (if d <? max_match_distance then T else []).
Proof.
  intros S m d T E. unfold suggest. rewrite E. simpl.
  destruct (d <? max_match_distance); [|reflexivity].
  destruct T as [|t1 [|t2 T]]; reflexivity.
Qed.

Lemma suggest_total : forall S m, exists T, suggest S m = Ok T.
Proof.
  intros S m. destruct (closest_spec S m) as (d & T & E & _).
  rewrite (suggest_eq S m d T E). eauto.
Qed.

(* a suggestion, when made, is the complete set of nearest in-scope names and the distance is
   below the threshold (the code's comparison is `distance < MAX_MATCH_DISTANCE_THRESHOLD`) *)
Theorem suggest_sound : forall S m T, suggest S m = Ok T -> T <> [] ->
  NoDup T /\
  (forall t, In t T -> In t S) /\
  (forall t, In t T <-> argmin S m t) /\
  exists d, is_min S m d /\ d < max_match_distance /\ forall t, In t T -> dist m t = d.
Proof.
  intros S m T E HT0.
  destruct (closest_spec S m) as (d & T' & E' & Hd & HN & HT).
  rewrite (suggest_eq S m d T' E') in E.
  destruct (d <? max_match_distance) eqn:Elt; injection E as <-; [|congruence].
  apply Nat.ltb_lt in Elt.
  destruct T' as [|t0 Tr] eqn:ET; [congruence|]. rewrite <- ET in *.
  assert (In t0 T') as Ht0 by (rewrite ET; left; reflexivity).
  apply HT in Ht0. destruct Ht0 as [Ht0 Hd0].
  destruct (min_cost_spec (length m + 1) S m) as (M1 & M2 & _). rewrite <- Hd in M1, M2.
  assert (is_min S m d) as Hmin by (split; [exists t0; auto | exact M2]).
  split; [exact HN|]. split; [intros t Ht; apply HT; exact Ht|]. split.
  - apply (closest_near S m d T' d E' Hmin M1).
  - exists d. split; [exact Hmin|]. split; [exact Elt|]. intros t Ht. apply HT. exact Ht.
Qed.

(* exactly when a suggestion is made *)
Theorem suggest_iff : forall S m, exists T, suggest S m = Ok T /\
  (T <> [] <-> exists d, is_min S m d /\ d < max_match_distance /\ d <= length m + 1).
Proof.
  intros S m.
  destruct (closest_spec S m) as (d & T & E & Hd & HN & HT).
  rewrite (suggest_eq S m d T E).
  destruct (min_cost_spec (length m + 1) S m) as (M1 & M2 & M3). rewrite <- Hd in M1, M2, M3.
  eexists. split; [reflexivity|]. split.
  - intro HT0. destruct (d <? max_match_distance) eqn:Elt; [|congruence].
    apply Nat.ltb_lt in Elt. destruct T as [|t0 T'] eqn:ET; [congruence|]. rewrite <- ET in *.
    assert (In t0 T) as Ht0 by (rewrite ET; left; reflexivity).
    apply HT in Ht0. destruct Ht0 as [Ht0 Hd0].
    exists d. split; [split; [exists t0; auto | exact M2]|]. auto.
  - intros (d0 & Hmin & Hlt & Hb).
    destruct (closest_near S m d T d0 E Hmin Hb) as (-> & HT0 & _).
    apply Nat.ltb_lt in Hlt. rewrite Hlt. exact HT0.
Qed.

(* converse: minimum below the threshold (and within the initial bound of `closest`) ->
   the suggestion is exactly the arg-min set *)
Theorem suggest_complete : forall S m d,
  is_min S m d -> d < max_match_distance -> d <= length m + 1 ->
  exists T, suggest S m = Ok T /\ T <> [] /\ forall t, In t T <-> argmin S m t.
Proof.
  intros S m d Hmin Hlt Hb.
  destruct (closest_spec S m) as (d' & T & E & _).
  destruct (closest_near S m d' T d E Hmin Hb) as (-> & HT0 & HA).
  rewrite (suggest_eq S m d T E). apply Nat.ltb_lt in Hlt. rewrite Hlt.
  exists T. auto.
Qed.

(* the side condition d <= len(match)+1 is automatic when every visible name has at least
   2*threshold - 3 (= 7) code points -- true of every template variable name: the shortest are
   "Param.x" (7) *)
Theorem suggest_complete_long_names : forall S m d,
  is_min S m d -> d < max_match_distance ->
  (forall s, In s S -> 2 * max_match_distance <= length s + 3) ->
  exists T, suggest S m = Ok T /\ T <> [] /\ forall t, In t T <-> argmin S m t.
Proof.
  intros S m d Hmin Hlt Hlong. apply (suggest_complete S m d Hmin Hlt).
  destruct Hmin as [(t & Ht & Et) _]. specialize (Hlong t Ht).
  unfold dist in Et. pose proof (lev_length_diff t m) as [L1 _]. lia.
Qed.

Theorem validate_symbol_refs_spec : forall S name,
  (In name S -> validate_symbol_refs S name = Ok None) /\
  (~ In name S -> exists T, validate_symbol_refs S name = Ok (Some T) /\ suggest S name = Ok T).
Proof.
  intros S name. unfold validate_symbol_refs. split; intro H.
  - apply mem_str_In in H. rewrite H. reflexivity.
  - destruct (mem_str name S) eqn:E; [apply mem_str_In in E; contradiction|].
    destruct (suggest_total S name) as (T & ET). rewrite ET. simpl. eauto.
Qed.

(* ------------------------------------------------------------------ 6. statements as used in props/C20.v *)
Theorem lev_is_least_script : forall a b : str,
  script a b (lev a b) /\ (forall n, script a b n -> lev a b <= n) /\ lev a b = lev b a.
Proof. intros a b. split; [apply lev_script | split; [apply lev_least | apply lev_sym]]. Qed.

Theorem closest_full : forall (S : list str) (m : str), exists d T,
  closest S m = Ok (d, T) /\ NoDup T /\
  d = min_cost (length m + 1) S m /\
  (forall t, In t T <-> In t S /\ dist m t = d) /\
  (forall d0, is_min S m d0 -> d0 <= length m + 1 ->
              d = d0 /\ T <> [] /\ forall t, In t T <-> argmin S m t) /\
  ((forall s, In s S -> length m + 1 < dist m s) -> d = length m + 1 /\ T = []) /\
  (forall S', same_set S S' ->
              exists T', closest S' m = Ok (d, T') /\ same_set T T' /\ Permutation T T').
Proof.
  intros S m. destruct (closest_spec S m) as (d & T & E & Hd & HN & HT).
  exists d, T. split; [exact E|]. split; [exact HN|]. split; [exact Hd|]. split; [exact HT|].
  split; [|split].
  - intros d0 Hmin Hb. exact (closest_near S m d T d0 E Hmin Hb).
  - intro Hfar. exact (closest_far S m d T E Hfar).
  - intros S' HS. exact (closest_set_invariant S S' m d T HS E).
Qed.

(* to evaluate [lev] on concrete strings in polynomial time (examples in props/C20.v) *)
Lemma lev_dp_eq : forall a b, lev a b = match edit_distance a b with Ok d => d | Raise _ => 0 end.
Proof. intros a b. rewrite edit_distance_lev. reflexivity. Qed.
