(* Extraction of the export / round-trip model (C17) and job-side validation (C06, C09). ExtrOcamlBasic only. *)
From Coq Require Import Extraction ExtrOcamlBasic List NArith ZArith String.
Require Import OJD.Base OJD.Lexer OJD.Json OJD.Schema OJD.Generated OJD.CreateJob OJD.Parse OJD.Validators OJD.Accept OJD.Export OJD.ExportFaithful.
Extraction Language OCaml.
Local Open Scope string_scope.
Definition rt_job_template (classify : N -> cclass) (j : json) := roundtrip_doc classify "JobTemplate" j.
Definition rt_env_template (classify : N -> cclass) (j : json) := roundtrip_doc classify "EnvironmentTemplate" j.
(* round trip + the faithfulness verdict of the proved decision function (C17_faithful_decided): is the source
   document reproduced by the export up to numeric formatting? *)
Definition rtf (classify : N -> cclass) (root : string) (j : json) : outcome (json * bool * bool) :=
  match roundtrip_doc classify root j with
  | Ok (o, ok) => Ok (o, ok, jequivb j o)
  | Raise e => Raise e
  end.
Definition rtf_job_template (classify : N -> cclass) (j : json) := rtf classify "JobTemplate" j.
Definition rtf_env_template (classify : N -> cclass) (j : json) := rtf classify "EnvironmentTemplate" j.
Definition rt_job (classify : N -> cclass) (v : mval) := roundtrip classify "Job" v.
Definition parse_job_ok (classify : N -> cclass) (j : json) : outcome bool :=
  match parse_any classify "Job" j with Ok _ => Ok true | Raise ValueError => Ok false | Raise e => Raise e end.
Extraction "Model.ml" exn_eqb ascii_ok ascii_class rt_job_template rt_env_template rtf_job_template rtf_env_template jequivb rt_job parse_job_ok export create_job_verdict sumZ.
