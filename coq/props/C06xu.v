(* props/C06xu.v — the last clause of C06: "... and every Job that is returned can be iterated and graphed
   without error".

   [usable_job classify job] (theories/UsableSpec.v, written from the property text; the glue that reads a Job
   instance into the inputs of the two consumers is theories/UsableGlue.v):

     is_job job                the value is a Job instance with a list of steps;
     for every step of job.steps, [usable_space classify step.parameterSpace]:
         read_space = Ok sp        the combination parses (Comb.parse_str), every range is a list of strings or a
                                   range expression that parses (RangeExpr.from_str);
         sps_init sp = Ok tp       StepParameterSpaceIterator(space=...) returns: every leaf of the combination
                                   names a declared task parameter (no KeyError); no combination = the product
                                   of all parameters in declaration order; no space = [{}];
         space_ok tp               the tree is C07-valid: ranges non-empty, each parameter named once, the operands
                                   of every association have the same number of elements (dimensions balanced);
         iterates tp               len() = n >= 1 is defined, obj[i] is defined for -n <= i < n, and iteration hands
                                   out exactly n task parameter sets (those of C07's denotation, in order) and then
                                   raises StopIteration;
     usable_graph job          StepDependencyGraph(job=job): step names pairwise distinct, no edge to an unknown step,
                               the constructor returns, and topo_sorted returns every step once, each after its
                               dependencies — the documented stable order (C15).

   Proofs: theories/UsableTree.v (dimension check passed ==> the iterator's tree is valid), UsableParse.v (what
   the job-side re-validation of a StepParameterSpace / RangeExpression node says), UsableSpace.v, UsableTrace.v
   (names, dependencies, combination and parameter names are carried from the accepted template into the Job),
   UsableProofs.v. *)
From Coq Require Import List NArith ZArith Bool String Permutation.
Import ListNotations.
Require Import OJD.Base OJD.Lexer OJD.Json OJD.Schema OJD.Generated OJD.CreateJob OJD.Parse OJD.Validators OJD.Accept
               OJD.Export OJD.Comb OJD.ParamSpace OJD.ParamSpaceSpec OJD.DepGraph OJD.DepGraphSpec
               OJD.CreateJobFull OJD.CreateJobFullProofs
               OJD.UsableGlue OJD.UsableSpec OJD.UsableTree OJD.UsableShape OJD.UsableSpace OJD.UsableProofs.
Local Open Scope string_scope.
Local Open Scope list_scope.

(* ------------------------------------------------------------------ THE THEOREM *)

(* for every job template accepted by decode_job, all environment templates accepted by decode_env and
   every list of caller values: a Job that create_job_full returns is usable *)
Theorem C06_full_usable : forall classify j t envs vals job,
  decode_job classify j = Ok t -> accepted_envs classify envs ->
  create_job_full classify envs t vals = Ok job ->
  usable_job classify job.
Proof. exact create_job_full_usable. Qed.
Print Assumptions C06_full_usable.

(* with C06_full_total: create_job returns a usable Job or raises DecodeValidationError — nothing else *)
Theorem C06_full_total_usable : forall classify j t envs vals,
  decode_job classify j = Ok t -> accepted_envs classify envs ->
  (exists job, create_job_full classify envs t vals = Ok job /\ usable_job classify job) \/
  create_job_full classify envs t vals = Raise DecodeValidationError.
Proof. exact create_job_full_total_usable. Qed.
Print Assumptions C06_full_total_usable.

(* the same from the raw documents *)
Theorem C06_full_docs_usable : forall classify env_docs doc vals out,
  create_job_docs classify env_docs doc vals = Ok (Ok out) ->
  exists job, usable_job classify job /\ out = export job.
Proof. exact create_job_docs_usable. Qed.
Print Assumptions C06_full_docs_usable.

(* ------------------------------------------------------------------ the parts *)

(* (a), on the Job alone (no template): a StepParameterSpace instance of the shape instantiate_model
   produces — definitions keyed by pairwise distinct names, each a RangeExpression... node or a
   *RangeList... node with a non-empty list of strings, the combination absent or a string that parses
   and names every key once — all of whose nodes are accepted by their own classes (the job-side
   re-validation, Export.nodes_ok) is usable *)
Theorem C06xu_space : forall classify psn,
  space_shape classify is_mstr psn ->
  (forall w, subnode psn w -> node_accepted classify w) ->
  usable_space classify psn.
Proof. exact shape_usable. Qed.
Print Assumptions C06xu_space.

(* Export.nodes_ok = Ok true is "every model node of the tree is accepted by its own class" *)
Theorem C06xu_nodes_accepted : forall classify F v, nodes_ok classify F v = Ok true ->
  forall w, subnode v w -> node_accepted classify w.
Proof. exact nodes_ok_accepted. Qed.
Print Assumptions C06xu_nodes_accepted.

(* the dimension check of the job-side validator returned ==> _create_expr_tree builds a C07-valid tree
   (for a combination: canonical = parsed, naming each parameter once; lengths = those of the parameters) *)
Theorem C06xu_tree : forall (ps : list param) (comb : option Comb.ctree) (al : list (str * N)),
  ps <> [] -> NoDup (map ParamSpaceProofs.pname ps) -> (forall p, In p ps -> snd p <> []) ->
  Forall2 (fun a p => fst a = ParamSpaceProofs.pname p /\ snd a = N.of_nat (List.length (snd p))) al ps ->
  (forall c, comb = Some c ->
     CombSpec.Canonical c /\ Permutation (collect_ids c) (map ParamSpaceProofs.pname ps) /\
     exists n, dims (lookup_len al) c = Ok n) ->
  exists t, sps_init (Some (ps, option_map conv comb)) = Ok (TopNode t) /\ valid t.
Proof. exact space_built. Qed.
Print Assumptions C06xu_tree.

(* C07 packaged: a well-formed top can be used *)
Theorem C06xu_iterates : forall tp, space_ok tp -> iterates tp.
Proof. exact ok_iterates. Qed.
Print Assumptions C06xu_iterates.

(* (b): a step list that satisfies the template's dependency rule (unique names, known dependencies, no
   cycle) has a graph that builds and sorts; and with unique names the Job's graph is that graph *)
Theorem C06xu_graph : forall steps, WF.DepsRule steps ->
  let g := dep_job steps in
  well_named g /\
  exists gr order,
    build g = Ok gr /\ topo gr = Ok order /\
    Permutation order (DepGraphSpec.names g) /\
    (forall n d, In d (deps_of g n) -> before d n order) /\
    order = stable_order g.
Proof. exact deps_rule_graph. Qed.
Print Assumptions C06xu_graph.

Theorem C06xu_graph_glue : forall steps, NoDup (names_of steps) -> steps_graph steps = dep_job steps.
Proof. exact steps_graph_dep_job. Qed.
Print Assumptions C06xu_graph_glue.

(* ------------------------------------------------------------------ non-vacuity *)
Definition js (x : string) : json := JStr (str_of_string x).
Definition jo (l : list (string * json)) : json := JObj (map (fun kv => (str_of_string (fst kv), snd kv)) l).
Definition vs (l : list (string * string)) : list (str * str) := map (fun kv => ($(fst kv), $(snd kv))) l.
Definition uscript : json := jo [("actions", jo [("onRun", jo [("command", js "c")])])].

(* two steps; B depends on A; A has a parameter space with an association (X, Y), a product with Z, a range
   expression that refers to a job parameter, a string list with a reference and a FLOAT list of numbers *)
Definition udoc : json :=
  jo [("specificationVersion", js "jobtemplate-2023-09");
      ("name", js "J");
      ("parameterDefinitions", JArr [jo [("name", js "N"); ("type", js "INT"); ("default", js "3")]]);
      ("steps",
       JArr [jo [("name", js "A");
                 ("parameterSpace",
                  jo [("taskParameterDefinitions",
                       JArr [jo [("name", js "X"); ("type", js "INT"); ("range", js "1-{{Param.N}}")];
                             jo [("name", js "Y"); ("type", js "STRING"); ("range", JArr [js "a"; js "b{{Param.N}}"; js "c"])];
                             jo [("name", js "Z"); ("type", js "FLOAT"); ("range", JArr [JInt 1; JDec 25 (-1)])]]);
                      ("combination", js "(X, Y) * Z")]);
                 ("script", uscript)];
             jo [("name", js "B"); ("script", uscript); ("dependencies", JArr [jo [("dependsOn", js "A")]])]])].

(* the decoded template and the Job create_job_full returns for N = 3, as closed values *)
Definition ut : mval := match decode_job ascii_class udoc with Ok t => t | Raise _ => MNone end.
Definition ujob : mval := match create_job_full ascii_class [] ut (vs [("N", "3")]) with Ok j => j | Raise _ => MNone end.

Example ut_ok : decode_job ascii_class udoc = Ok ut.
Proof. vm_compute. reflexivity. Qed.
Example ujob_ok : create_job_full ascii_class [] ut (vs [("N", "3")]) = Ok ujob.
Proof. vm_compute. reflexivity. Qed.

(* the hypotheses are met (the template is accepted, a Job is returned for N = 3), the glue reads the real
   Job — X = 1,2,3 expanded from the substituted expression "1-3", Y's reference resolved, Z's numbers
   printed; the graph of the two steps — and [usable_job] holds BY THE THEOREM, not by computation *)
Example C06_full_usable_nonvacuous :
  exists t job,
    decode_job ascii_class udoc = Ok t /\ accepted_envs ascii_class [] /\
    create_job_full ascii_class [] t (vs [("N", "3")]) = Ok job /\
    usable_job ascii_class job /\
    map (fun st => read_space ascii_class (step_space st)) (job_steps job)
    = [Ok (Some ([($"X", TInt, [$"1"; $"2"; $"3"]);
                  ($"Y", TString, [$"a"; $"b3"; $"c"]);
                  ($"Z", TFloat, [$"1"; $"2.5"])],
                 Some (CProd [CAssoc [CId $"X"; CId $"Y"]; CId $"Z"])));
       Ok None] /\
    job_graph job = [(0%N, []); (1%N, [0%N])] /\
    topo_job (job_graph job) = Ok [0%N; 1%N].
Proof.
  exists ut, ujob. split; [exact ut_ok|]. split; [constructor|]. split; [exact ujob_ok|].
  split; [exact (C06_full_usable ascii_class udoc ut [] (vs [("N", "3")]) ujob ut_ok (Forall_nil _) ujob_ok)|].
  split; [vm_compute; reflexivity|]. split; vm_compute; reflexivity.
Qed.

(* ... and what usable_job says there: the space of step A has 3 * 2 = 6 task parameter sets, the space of
   step B (none) has one *)
Example C06_full_usable_len_nonvacuous :
  map (fun st => match read_space ascii_class (step_space st) with
                 | Ok sp => match sps_init sp with Ok tp => top_len tp | Raise e => Raise e end
                 | Raise e => Raise e
                 end) (job_steps ujob) = [Ok 6%Z; Ok 1%Z].
Proof. vm_compute. reflexivity. Qed.

(* a value that makes the substituted range invalid ("1-0"): no Job, DecodeValidationError (C06_full_total_usable's
   other branch) *)
Example C06_full_usable_refused_nonvacuous :
  create_job_docs ascii_class [] udoc (vs [("N", "0")]) = Ok (Raise DecodeValidationError).
Proof. vm_compute. reflexivity. Qed.

(* unbalanced after substitution: (X, Y) with |X| = 2, |Y| = 3 — the dimension check refuses the Job *)
Example C06_full_usable_unbalanced_nonvacuous :
  create_job_docs ascii_class [] udoc (vs [("N", "2")]) = Ok (Raise DecodeValidationError).
Proof. vm_compute. reflexivity. Qed.

(* the hypotheses of C06xu_space / C06xu_iterates are met by a hand-written space *)
Example C06xu_iterates_nonvacuous :
  space_ok (TopList none_denote) /\
  space_ok (TopNode (ParamSpace.Prod [Leaf $"A" TInt [$"1"; $"2"]; Leaf $"B" TString [$"x"]])).
Proof.
  split; [reflexivity|]. split.
  - cbn. constructor; [cbn; intros [E|[]]; discriminate E|]. constructor; [intros []|constructor].
  - apply WfProd; [discriminate|]. repeat constructor; discriminate.
Qed.

(* the hypotheses of C06xu_space are met by the parameter space of step A of the Job above: it has the shape,
   and all its nodes are accepted (nodes_ok on the whole Job, by computation, then C06xu_nodes_accepted) *)
Definition upsn : mval := step_space (hd MNone (job_steps ujob)).

Example C06xu_space_nonvacuous :
  space_shape ascii_class is_mstr upsn /\ (forall w, subnode upsn w -> node_accepted ascii_class w).
Proof.
  split.
  - unfold space_shape. eexists. eexists. split; [vm_compute; reflexivity|].
    split; [discriminate|]. split.
    + cbn [map fst]. repeat (constructor; [cbn [In]; intros H; repeat (destruct H as [H|H]; [discriminate H|]); exact H|]).
      constructor.
    + split.
      * constructor; [apply DS_expr; discriminate|].
        constructor; [apply DS_list; [right; right; left; reflexivity|discriminate|discriminate|
                                      repeat (constructor; [eexists; reflexivity|]); constructor]|].
        constructor; [apply DS_list; [right; left; reflexivity|discriminate|discriminate|
                                      repeat (constructor; [eexists; reflexivity|]); constructor]|].
        constructor.
      * right. eexists. eexists. split; [reflexivity|]. split; vm_compute; reflexivity.
  - intros w Hw. apply (C06xu_nodes_accepted ascii_class 20 ujob); [vm_compute; reflexivity|].
    apply (subnode_trans _ upsn); [|exact Hw].
    apply (subnode_trans _ (job_steps_val ujob)).
    + apply (subnode_mfield ujob "steps"); [reflexivity|vm_compute; discriminate].
    + apply (subnode_trans _ (hd MNone (job_steps ujob))).
      * apply subnode_mitems. vm_compute. left. reflexivity.
      * apply (subnode_mfield _ "parameterSpace"); [reflexivity|vm_compute; discriminate].
Qed.

(* C06xu_tree: (A, B) with two values each; the lengths are those the validator would look up *)
Example C06xu_tree_nonvacuous :
  let ps : list param := [($"A", TInt, [$"1"; $"2"]); ($"B", TString, [$"x"; $"y"])] in
  let al : list (str * N) := [($"A", 2%N); ($"B", 2%N)] in
  let c := Comb.Assoc [Comb.Id $"A"; Comb.Id $"B"] in
  ps <> [] /\ NoDup (map ParamSpaceProofs.pname ps) /\ (forall p, In p ps -> snd p <> []) /\
  Forall2 (fun a p => fst a = ParamSpaceProofs.pname p /\ snd a = N.of_nat (List.length (snd p))) al ps /\
  CombSpec.Canonical c /\ Permutation (collect_ids c) (map ParamSpaceProofs.pname ps) /\
  dims (lookup_len al) c = Ok 2%N.
Proof.
  cbv zeta. split; [discriminate|]. split.
  { cbn [map]. repeat (constructor; [cbn [In]; intros H; repeat (destruct H as [H|H]; [discriminate H|]); exact H|]). constructor. }
  split; [intros p [<-|[<-|[]]]; discriminate|].
  split; [repeat constructor|].
  split; [apply CombSpec.Can_assoc; [cbn; auto|repeat constructor]|].
  split; [apply Permutation_refl|vm_compute; reflexivity].
Qed.

(* C06xu_graph / C06xu_graph_glue: the steps of the Job above satisfy the dependency rule *)
Example C06xu_graph_nonvacuous :
  WF.DepsRule (job_steps_val ujob) /\ NoDup (names_of (job_steps_val ujob)) /\
  dep_job (job_steps_val ujob) = [(0%N, []); (1%N, [0%N])].
Proof.
  assert (H : WF.DepsRule (job_steps_val ujob)) by (apply AcceptRules.deps_rule_iff; vm_compute; reflexivity).
  split; [exact H|]. split; [exact (proj1 H)|vm_compute; reflexivity].
Qed.
