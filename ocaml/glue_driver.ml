(* glue_driver.ml — serves conformance (C09) and the resolve-with-slots history model (C18). *)
open Sx
open Model
open Conv

let table : (int, cclass) Hashtbl.t = Hashtbl.create 64
let class_of_name = function
  | "space" -> CSpace | "namestart" -> CNameStart | "digit" -> CDigit | "udigit" -> CUDigit
  | "dot" -> CDot | "star" -> CStar | "lparen" -> CLParen | "rparen" -> CRParen
  | "comma" -> CComma | "hyphen" -> CHyphen | "colon" -> CColon | "other" -> COther
  | s -> failwith ("class " ^ s)
let classify (c : n) : cclass =
  let i = match c with N0 -> 0 | Npos p -> (match int_of_pos p with Some v -> v | None -> -1) in
  match Hashtbl.find_opt table i with
  | Some cl -> cl
  | None -> if i >= 0 && i < 128 then ascii_class c else COther

let symtab_of_sx x = list_of_sx (function L [k; v] -> (str_of_sx k, str_of_sx v) | _ -> failwith "symtab") x

let handle (req : Sx.t) : Sx.t =
  match req with
  | L (A "table" :: entries) ->
    Hashtbl.reset table;
    List.iter (function L [A cp; A cl] -> Hashtbl.replace table (int_of_string cp) (class_of_name cl) | _ -> failwith "table") entries;
    L [A "table-ok"; sx_of_bool (ascii_ok classify)]
  | L [A "conforms_job"; ty; v] -> sx_of_bool (conforms_job (str_of_sx ty) (str_of_sx v))
  | L [A "conforms_task"; ty; v] -> sx_of_bool (conforms_task (str_of_sx ty) (str_of_sx v))
  | L [A "history"; s; init; sigmas] ->
    sx_of_outcome (sx_of_list (sx_of_outcome sx_of_str))
      (history classify (str_of_sx s) (list_of_sx (opt_of_sx str_of_sx) init) (list_of_sx symtab_of_sx sigmas))
  | L [A "isolated"; s; sigma] -> sx_of_outcome sx_of_str (isolated classify (str_of_sx s) (symtab_of_sx sigma))
  | _ -> failwith "unknown-request"

let () = serve handle
