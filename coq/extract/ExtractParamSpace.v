(* Extraction of the parameter-space model and its spec oracle (C07).  ExtrOcamlBasic only. *)
From Coq Require Import Extraction ExtrOcamlBasic List NArith ZArith.
Require Import OJD.Base OJD.ParamSpace OJD.ParamSpaceSpec.
Extraction Language OCaml.
Extraction "Model.ml"
  exn_eqb sps_init top_len top_getitem top_iter top_next new_world run drain
  node_len getitem denote default_denote none_denote height.
