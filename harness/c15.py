"""C15 — dependency graph mirrors the Job; topological order is valid and stable.

Real code: Jobs assembled by hand through the public model constructors (no template
validation, so self-edges, cycles, repeated dependencies, repeated step names and unknown
targets all reach StepDependencyGraph), and Jobs obtained from decode_job_template +
create_job.  Observed: per step the in-/out-edges as (origin, dependent) name pairs,
max_indegree, max_outdegree, topo_sorted() as names or the exception family; for templates
also the decode verdict.  Compared with the extracted Coq model (DepGraph.v)."""
import itertools
import random
import sys
from pathlib import Path

sys.path.insert(0, str(Path(__file__).resolve().parent))
import core  # noqa: E402

from openjd.model import StepDependencyGraph, create_job, decode_job_template  # noqa: E402
from openjd.model import DecodeValidationError  # noqa: E402
from openjd.model.v2023_09 import Action, Job, Step, StepActions, StepScript  # noqa: E402
from openjd.model.v2023_09._model import StepDependency  # noqa: E402

SCRIPT = StepScript(actions=StepActions(onRun=Action(command="x")))


# how a step number is spelled as a step name: the graph is about the steps, whatever they are called — names that are
# format templates themselves ('render {shot}', '{}', '{0}', '%s'), names with dots, colons, blanks
STYLES = ["s", "render {shot} ", "{} ", "{0}{1} ", "%s %d ", "a.b:", "{{Param.X}} ", "{", "}} "]
_style = [0]


def sname(k: int) -> str:
    return f"{STYLES[_style[0]]}{k}"


def unname(s: str) -> int:
    import re as _re
    return int(_re.search(r"(\d+)\Z", s).group(1))


def exn_family(e: BaseException) -> str:
    if isinstance(e, DecodeValidationError):
        return "DecodeValidationError"
    return type(e).__name__


# ---------------------------------------------------------------- observation of the real code
def outcome(f):
    try:
        return ["ok", f()]
    except BaseException as e:  # noqa: BLE001
        return ["raise", exn_family(e)]


def observe_job(job):
    try:
        g = StepDependencyGraph(job=job)
    except BaseException as e:  # noqa: BLE001
        return ["raise", exn_family(e)]
    seen = []
    for st in job.steps:
        if st.name not in seen:
            seen.append(st.name)
    nodes = []
    for nm in seen:
        node = g.step_node(stepname=nm)
        nodes.append([
            unname(node.step.name),
            [[unname(e.origin.step.name), unname(e.dependent.step.name)] for e in node.in_edges],
            [[unname(e.origin.step.name), unname(e.dependent.step.name)] for e in node.out_edges],
        ])
    def topo():
        l = g.topo_sorted()
        names = [unname(s.name) for s in l]
        l.reverse()          # the caller owns the list it was given: the next call must not notice
        del l[:1]
        return names

    first = [outcome(lambda: g.max_indegree), outcome(lambda: g.max_outdegree), outcome(topo)]
    # the graph object answers the same question the same way every time (a failed call leaves nothing behind)
    for rep in range(2):
        again = [outcome(lambda: g.max_indegree), outcome(lambda: g.max_outdegree), outcome(topo)]
        if again != first:
            return ["unstable", f"call {rep + 2} on the same graph object", first, again]
    return ["ok", nodes] + first


def hand_job(steps):
    sts = []
    for nm, ds in steps:
        deps = [StepDependency(dependsOn=sname(d)) for d in ds]
        sts.append(Step(name=sname(nm), script=SCRIPT, dependencies=deps or None))
    return Job(name="J", steps=sts)


def template_of(steps):
    out = []
    for nm, ds in steps:
        st = {"name": sname(nm), "script": {"actions": {"onRun": {"command": "x"}}}}
        if ds:
            st["dependencies"] = [{"dependsOn": sname(d)} for d in ds]
        out.append(st)
    return {"specificationVersion": "jobtemplate-2023-09", "name": "J", "steps": out}


def observe_template(steps):
    try:
        jt = decode_job_template(template=template_of(steps))
    except DecodeValidationError:
        return ["reject"]
    except BaseException as e:  # noqa: BLE001
        return ["decode-raise", exn_family(e)]
    try:
        job = create_job(job_template=jt, job_parameter_values={})
    except BaseException as e:  # noqa: BLE001
        return ["create-raise", exn_family(e)]
    return ["accept", observe_job(job)]


# ---------------------------------------------------------------- model replies -> same shape
def conv_outcome(r):
    return ["ok", r[1]] if r[0] == "ok" else ["raise", r[1]]


def conv_graph(r):
    if r[0] == "raise":
        return ["raise", r[1]]
    if r[0] != "ok":
        return ["driver", r]
    nodes = []
    for nm, ins, outs in r[1]:
        if ins[0] != "ok" or outs[0] != "ok":
            return ["driver", r]
        nodes.append([nm, [list(e) for e in ins[1]], [list(e) for e in outs[1]]])
    return ["ok", nodes, conv_outcome(r[2]), conv_outcome(r[3]), conv_outcome(r[4])]


# ---------------------------------------------------------------- generators
def digraph_steps(n, mask, slots, rng=None, relabel=None):
    """steps of the digraph whose edge set is `mask` over `slots` = [(a, b)]: a depends on b;
    `relabel` maps template position -> step label."""
    deps = [[] for _ in range(n)]
    for k, (a, b) in enumerate(slots):
        if mask >> k & 1:
            deps[a].append(b)
    if rng is not None:
        for d in deps:
            if len(d) > 1 and rng.random() < 0.5:
                rng.shuffle(d)
    lab = relabel or list(range(n))
    return [[lab[i], [lab[b] for b in deps[i]]] for i in range(n)]


def all_digraphs(n, self_loops, rng, kind):
    slots = [(a, b) for a in range(n) for b in range(n) if self_loops or a != b]
    for mask in range(1 << len(slots)):
        lab = list(range(n))
        if mask % 3 == 1:
            rng.shuffle(lab)
        yield {"kind": kind, "steps": digraph_steps(n, mask, slots, rng, lab)}


def sampled_digraphs(n, count, rng, kind):
    slots = [(a, b) for a in range(n) for b in range(n)]
    for _ in range(count):
        dens = rng.choice([0.1, 0.2, 0.3, 0.5, 0.7])
        mask = 0
        for k in range(len(slots)):
            if rng.random() < dens:
                mask |= 1 << k
        lab = list(range(n))
        rng.shuffle(lab)
        yield {"kind": kind, "steps": digraph_steps(n, mask, slots, rng, lab)}


def random_dag(rng, nmax, dup=False, back=0, kind="hand"):
    n = rng.randint(1, nmax)
    order = list(range(n))          # hidden topological order: order[i] may depend on order[<i]
    rng.shuffle(order)
    dens = rng.choice([0.05, 0.1, 0.2, 0.4, 0.8]) if n > 6 else rng.choice([0.2, 0.5, 0.8])
    deps = {x: [] for x in range(n)}
    for i in range(n):
        for k in range(i):
            if rng.random() < dens:
                deps[order[i]].append(order[k])
    for _ in range(back):          # edges against the hidden order (maybe closing a cycle)
        i = rng.randrange(n)
        k = rng.randrange(i, n)
        deps[order[i]].append(order[k])
    for x in deps:
        rng.shuffle(deps[x])
        if dup and deps[x] and rng.random() < 0.4:
            for _ in range(rng.randint(1, 3)):
                deps[x].insert(rng.randrange(len(deps[x]) + 1), rng.choice(deps[x]))
    decl = list(range(n))           # declaration (template) order
    rng.shuffle(decl)
    return {"kind": kind, "steps": [[x, deps[x]] for x in decl]}


def malformed(rng, kind="hand"):
    c = random_dag(rng, 6, dup=rng.random() < 0.3, back=rng.choice([0, 0, 1]), kind=kind)
    steps = c["steps"]
    k = rng.random()
    if k < 0.35 and steps:          # dependency on a name that is no step
        i = rng.randrange(len(steps))
        steps[i][1].insert(rng.randrange(len(steps[i][1]) + 1), rng.choice([len(steps), 97, 98]))
    elif k < 0.7 and steps:         # repeated step name
        i = rng.randrange(len(steps))
        steps.insert(rng.randrange(len(steps) + 1), [steps[i][0], list(rng.choice(steps)[1])])
    elif k < 0.8:
        c["steps"] = []             # a Job without steps (hand-assembled only)
    else:                           # self dependency
        i = rng.randrange(len(steps))
        steps[i][1].append(steps[i][0])
    return c


CORPUS = [
    # the eight graphs of test_step_dependency_graph.py, by shape
    [[0, []], [1, []], [2, []]],
    [[0, [2]], [1, [0, 2]], [2, []]],
    [[0, [1]], [1, [2]], [2, []]],
    [[0, [1]], [1, [2]], [2, [0]]],
    [[0, [0]]],
    [[0, [1, 1]], [1, []]],
    [[0, [2, 1]], [1, [2]], [2, []], [3, [0, 1, 2]]],
    [[3, [2]], [2, [1]], [1, [0]], [0, []]],
    [[0, [1]], [0, [2]], [1, []], [2, []]],          # repeated step name: edges are merged
    [[0, [5]]],                                       # unknown target: KeyError
    [],                                               # no steps: max() of nothing
    [[0, [1, 2]], [1, [2]], [2, [1]]],
    [[2, [0, 1]], [0, [1]], [1, []]],
    [[1, [2, 0, 2, 0]], [2, []], [0, [2]]],
]


class C15(core.PropBase):
    id = "C15"
    component = "depgraph"
    extract_file = "ExtractDepGraph.v"
    chunk_size = 300
    theorem_for_mismatch = "C15_edges / C15_valid / C15_stable / C15_cyclic (model = implementation correspondence)"
    assumptions = [
        "step names are observed as strings 's<k>' and compared as the numbers k",
        "Python dict preserves insertion order; sorted(..., reverse=True) is a stable descending sort",
        "CPython 3.12 / pydantic as installed in /venv",
    ]

    def corpus_cases(self):
        out = []
        for st in CORPUS:
            out.append({"kind": "hand", "steps": st})
            if st:
                out.append({"kind": "tmpl", "steps": st})
        return out

    def cases(self, tier, seed):
        rng = random.Random(seed * 7919 + 15)
        thorough = tier == "thorough"
        # 1. exhaustive small digraphs, hand-assembled
        for n in (1, 2, 3):
            yield from all_digraphs(n, True, rng, "hand")
        yield from all_digraphs(4, False, rng, "hand")
        if thorough:
            yield from all_digraphs(4, True, rng, "hand")
            yield from sampled_digraphs(5, 50000, rng, "hand")
        else:
            yield from sampled_digraphs(4, 1500, rng, "hand")
            yield from sampled_digraphs(5, 1500, rng, "hand")
        # 2. random DAGs / cyclic graphs / duplicate dependency entries, up to 40 steps
        for _ in range(30000 if thorough else 4000):
            yield random_dag(rng, 40)
        for _ in range(15000 if thorough else 2000):
            yield random_dag(rng, rng.choice([5, 12, 40]), dup=True)
        for _ in range(15000 if thorough else 2000):
            yield random_dag(rng, rng.choice([5, 12, 40]), dup=rng.random() < 0.3, back=rng.randint(1, 3))
        # 3. malformed stream: unknown targets, repeated step names, no steps, self edges
        for _ in range(15000 if thorough else 2000):
            yield malformed(rng)
        # 3b. the same graphs under other spellings of the step names (hand-assembled Jobs only: a template's name rules
        #     are C01's): cyclic ones entered from outside the cycle included
        for _ in range(15000 if thorough else 1500):
            c = random_dag(rng, rng.choice([3, 5, 8, 12]), dup=rng.random() < 0.2, back=rng.randint(0, 3))
            c["style"] = rng.randrange(1, len(STYLES))
            yield c
        for c in sampled_digraphs(4, 4000 if thorough else 500, rng, "hand"):
            c["style"] = rng.randrange(1, len(STYLES))
            yield c
        # 4. decoded templates: verdict + graph of the created Job
        for n in (1, 2, 3):
            yield from all_digraphs(n, True, rng, "tmpl")
        if thorough:
            yield from all_digraphs(4, False, rng, "tmpl")
            yield from sampled_digraphs(5, 5000, rng, "tmpl")
        else:
            yield from sampled_digraphs(4, 300, rng, "tmpl")
        for _ in range(8000 if thorough else 1200):
            yield random_dag(rng, rng.choice([4, 8, 20, 40]), kind="tmpl")
        for _ in range(4000 if thorough else 600):
            yield random_dag(rng, rng.choice([4, 8, 20]), dup=rng.random() < 0.3, back=rng.randint(0, 2), kind="tmpl")
        for _ in range(4000 if thorough else 600):
            c = malformed(rng, kind="tmpl")
            if c["steps"]:
                yield c

    def rule(self, tier):
        return ("corpus; hand-assembled Jobs: every digraph on <=3 steps with self-loops (530) and on 4 steps without (4096), exhaustive; "
                + ("every digraph on 4 steps with self-loops (65536), 50k sampled digraphs on 5 steps; " if tier == "thorough" else "3k sampled digraphs on 4-5 steps with self-loops; ")
                + "random DAGs up to 40 steps in random declaration order and random dependency-list order; the same with repeated dependency entries; "
                "with 1-3 edges against the hidden order (mostly cyclic); malformed stream (unknown target, repeated step name, no steps, self edge); "
                "decoded templates (decode_job_template + create_job): every digraph on <=3 steps"
                + (", every loop-free digraph on 4 steps, 5k sampled on 5" if tier == "thorough" else "")
                + ", random DAGs/cyclic/duplicate/unknown/repeated-name templates: verdict and graph. "
                "distinct = by (kind, steps); non-trivial = at least one dependency")

    def exhaustive(self, tier):
        return False

    def samples(self, tier, seed):
        rng = random.Random(seed)
        return [{"kind": "hand", "steps": s} for s in CORPUS[1:4]] + [random_dag(rng, 8) for _ in range(3)] + [random_dag(rng, 6, back=2) for _ in range(2)] + [malformed(rng, "tmpl")]

    def nontrivial(self, case):
        return any(ds for _, ds in case["steps"])

    def impl(self, case):
        _style[0] = case.get("style", 0)
        try:
            if case["kind"] == "hand":
                return observe_job(hand_job(case["steps"]))
            return observe_template(case["steps"])
        finally:
            _style[0] = 0

    def requests(self, case):
        if case["kind"] == "hand":
            return [["graph", case["steps"]]]
        return [["template", case["steps"]], ["graph", case["steps"]]]

    def model_obs(self, case, replies):
        if case["kind"] == "hand":
            return conv_graph(replies[0])
        flags = replies[0]
        if not isinstance(flags, list) or len(flags) != 5:
            return ["driver", flags]
        if any(f == "true" for f in flags):
            return ["reject"]
        if flags[4] != "false":
            return ["driver", flags]
        return ["accept", conv_graph(replies[1])]

    def classify_case(self, case, obs):
        ks = [case["kind"]]
        n = len(case["steps"])
        ks.append("steps=" + (str(n) if n <= 5 else "6-12" if n <= 12 else "13-40"))
        o = obs
        if case["kind"] == "tmpl":
            ks.append("tmpl:" + obs[0])
            o = obs[1] if obs[0] == "accept" else None
        if o is not None:
            if o[0] == "raise":
                ks.append("ctor-raise:" + o[1])
            else:
                ks.append("topo:" + (o[4][0] if o[4][0] == "ok" else o[4][1]))
                if o[2][0] == "raise":
                    ks.append("max-raise:" + o[2][1])
        if any(len(set(ds)) != len(ds) for _, ds in case["steps"]):
            ks.append("dup-deps")
        if len({nm for nm, _ in case["steps"]}) != n:
            ks.append("dup-names")
        return ks

    def spec_obs(self, case):
        drv = core.Driver(self.component)
        replies, _ = drv.ask([["spec", case["steps"]]], self.prelude())
        return ["stable_order (meaningful when names are distinct, targets exist and the graph is acyclic; otherwise ValueError/KeyError is expected)", replies[0]]

    def shrink_candidates(self, case):
        steps = case["steps"]
        for i in range(len(steps)):
            yield {"kind": case["kind"], "steps": steps[:i] + steps[i + 1:]}
        for i, (nm, ds) in enumerate(steps):
            for k in range(len(ds)):
                yield {"kind": case["kind"], "steps": steps[:i] + [[nm, ds[:k] + ds[k + 1:]]] + steps[i + 1:]}


PROP = C15()

if __name__ == "__main__":
    sys.exit(core.main(PROP, sys.argv[1:]))
