"""C07 — parameter-space iteration enumerates exactly the combination's denotation.

Implementation side: a one-step job template is decoded and instantiated through the public
API (decode_job_template + create_job) and StepParameterSpaceIterator is built on the Job's
parameter space.  Model side: the extracted Coq model (coq/theories/ParamSpace.v) gets the
combination *tree* and, for every parameter, the value list of the Job's own space (a range
expression is expanded with list(IntRangeExpr) — the C08/C13 checks own that expansion).
Compared: construction outcome, len(), list() as sorted (name, type, value) triples, obj[i] for
i in [-len-1, len], and a scripted history over several iterators of one object.
"""
import itertools
import json
import random
import sys
from collections import Counter
from pathlib import Path

sys.path.insert(0, str(Path(__file__).resolve().parent))
import core  # noqa: E402

from openjd.model import (  # noqa: E402
    IntRangeExpr,
    StepParameterSpaceIterator,
    create_job,
    decode_job_template,
)

NAMES = ["A", "B", "C_1", "Dd", "_e", "F", "G7", "H", "Ii", "J", "K", "L_", "M", "N0", "O", "P", "Q", "R"]
MAX_TOTAL = 400          # cap on len() of a generated space
WORDS = ["x", "", "", "y z", "été", "q-1", "日本", "a,b", "(p)", "w*", "0", "-1", "1.50", "{r}", "T t"]
PATHS = ["/a/b", "rel/x", "c:\\d", "../up", "/tmp/é", ".", "/"]


# ------------------------------------------------------------------ trees
def compositions(n, kmin=2):
    """ordered tuples of positive ints summing to n with at least kmin parts"""
    def rec(rem, parts):
        if rem == 0:
            if len(parts) >= kmin:
                yield tuple(parts)
            return
        for p in range(1, rem + 1):
            yield from rec(rem - p, parts + [p])
    yield from rec(n, [])


def shapes(n, allow_prod=True):
    """every canonical (parser-producible) shape with exactly n leaves; leaves are ["id", None]"""
    if n == 1:
        yield ["id", None]
        return
    for comp in compositions(n):
        if allow_prod:
            for kids in itertools.product(*[list(shapes(p, allow_prod=False)) for p in comp]):
                yield ["prod", [json.loads(json.dumps(k)) for k in kids]]
        for kids in itertools.product(*[list(shapes(p, allow_prod=True)) for p in comp]):
            yield ["assoc", [json.loads(json.dumps(k)) for k in kids]]


def name_leaves(t, names):
    """assign names left to right (in place); returns the names used"""
    used = []

    def rec(u):
        if u[0] == "id":
            u[1] = names[len(used)]
            used.append(u[1])
        else:
            for c in u[1]:
                rec(c)
    rec(t)
    return used


def leaf_names(t):
    return [t[1]] if t[0] == "id" else [n for c in t[1] for n in leaf_names(c)]


def comb_text(t, rng=None):
    sp = (lambda: rng.choice(["", " ", "  "])) if rng else (lambda: " ")
    if t[0] == "id":
        return t[1]
    if t[0] == "prod":
        return (sp() + "*" + sp()).join(comb_text(c, rng) for c in t[1])
    return "(" + ("," + sp()).join(comb_text(c, rng) for c in t[1]) + ")"


def factorizations(w, k):
    if k == 1:
        yield (w,)
        return
    for d in range(1, w + 1):
        if w % d == 0:
            for rest in factorizations(w // d, k - 1):
                yield (d,) + rest


def assignments(t, want=None, free=(1, 2, 3), assoc_lens=(1, 2, 3, 4, 6)):
    """every assignment leaf-name -> length with balanced associations; `want` forces len(t)"""
    if t[0] == "id":
        if want is None:
            for n in free:
                yield {t[1]: n}
        elif want <= 9:
            yield {t[1]: want}
        return
    kids = t[1]
    if t[0] == "prod":
        if want is None:
            for combo in itertools.product(*[list(assignments(c, None, free, assoc_lens)) for c in kids]):
                out = {}
                for d in combo:
                    out.update(d)
                yield out
        else:
            for fac in factorizations(want, len(kids)):
                for combo in itertools.product(*[list(assignments(c, f, free, assoc_lens)) for c, f in zip(kids, fac)]):
                    out = {}
                    for d in combo:
                        out.update(d)
                    yield out
        return
    lens = assoc_lens if want is None else (want,)
    for n in lens:
        for combo in itertools.product(*[list(assignments(c, n, free, assoc_lens)) for c in kids]):
            out = {}
            for d in combo:
                out.update(d)
            yield out


def tree_len(t, lens):
    if t[0] == "id":
        return lens[t[1]]
    if t[0] == "prod":
        r = 1
        for c in t[1]:
            r *= tree_len(c, lens)
        return r
    return tree_len(t[1][0], lens)


def rand_tree(rng, names, depth=0, allow_prod=True):
    """random canonical tree over exactly `names`, depth <= 5"""
    if len(names) == 1:
        return ["id", names[0]]
    kind = rng.choice(["assoc", "prod", "prod"]) if allow_prod else "assoc"
    if depth >= 4:
        return [kind, [["id", n] for n in names]]
    k = rng.randint(2, min(4, len(names)))
    cuts = sorted(rng.sample(range(1, len(names)), k - 1))
    parts = [names[i:j] for i, j in zip([0] + cuts, cuts + [len(names)])]
    kids = [rand_tree(rng, p, depth + 1, allow_prod=(kind == "assoc")) for p in parts]
    return [kind, kids]


def rand_lengths(rng, t, want=None):
    """one random balanced assignment (None when `want` cannot be met)"""
    if t[0] == "id":
        return {t[1]: want if want else rng.choice([1, 1, 2, 2, 3, 4, 5])}
    if t[0] == "prod":
        out = {}
        if want is None:
            for c in t[1]:
                out.update(rand_lengths(rng, c))
            return out
        rem = want
        for i, c in enumerate(t[1]):
            if i == len(t[1]) - 1:
                f = rem
            else:
                f = rng.choice([d for d in range(1, rem + 1) if rem % d == 0])
            rem //= f
            out.update(rand_lengths(rng, c, f))
        return out
    n = want if want else rng.choice([1, 2, 2, 3, 4, 6, 8, 12])
    out = {}
    for c in t[1]:
        out.update(rand_lengths(rng, c, n))
    return out


# ------------------------------------------------------------------ leaves
def gen_expr(rng, L):
    """a range-expression string with exactly L values"""
    def seg(a, n, s):
        if n == 1:
            return (f"{a}" if rng.random() < 0.7 else f"{a}-{a}"), a
        b = a + (n - 1) * s
        off = rng.randrange(s) if s > 1 and rng.random() < 0.4 else 0
        if s == 1 and rng.random() < 0.6:
            return f"{a}-{b}", b
        return f"{a}-{b + off}:{s}", b + off
    mode = rng.random()
    a = rng.randint(-9, 20)
    if mode < 0.45 or L == 1:
        s, _ = seg(a, L, rng.choice([1, 1, 2, 3, 5]))
    elif mode < 0.6:
        st = rng.choice([1, 2, 3])
        s = f"{a + (L - 1) * st}-{a}:-{st}"
    else:
        k = rng.randint(2, min(3, L))
        cuts = sorted(rng.sample(range(1, L), k - 1))
        sizes = [j - i for i, j in zip([0] + cuts, cuts + [L])]
        parts = []
        cur = a
        for n in sizes:
            txt, hi = seg(cur, n, rng.choice([1, 1, 2, 3]))
            parts.append(txt)
            cur = hi + rng.randint(2, 5)
        if rng.random() < 0.5:
            rng.shuffle(parts)
        s = rng.choice([",", ", ", " , "]).join(parts)
    try:
        if len(IntRangeExpr.from_str(s)) == L:
            return s
    except Exception:  # noqa: BLE001
        pass
    return f"{a}-{a + L - 1}" if L > 1 else f"{a}"


def gen_leaf(rng, name, L, kind=None):
    kind = kind or rng.choice(["INTLIST", "INTEXPR", "FLOAT", "STRING", "PATH", "STRING", "INTEXPR"])
    if kind == "INTLIST":
        vals = []
        for _ in range(L):
            v = rng.randint(-30, 30)
            vals.append(str(v) if rng.random() < 0.3 else v)
        return {"name": name, "type": "INT", "range": vals}
    if kind == "INTEXPR":
        return {"name": name, "type": "INT", "range": gen_expr(rng, L)}
    if kind == "FLOAT":
        pool = [1.5, "2", 3, -0.25, "1e3", "0.10", 7, "-4", 2.0, "12.125"]
        return {"name": name, "type": "FLOAT", "range": [rng.choice(pool) for _ in range(L)]}
    if kind == "PATH":
        return {"name": name, "type": "PATH", "range": [("" if rng.random() < 0.08 else rng.choice(PATHS) + (str(i) if rng.random() < 0.7 else "")) for i in range(L)]}
    return {"name": name, "type": "STRING", "range": [(f"{name}{i}" if rng.random() < 0.6 else rng.choice(WORDS)) for i in range(L)]}


# ------------------------------------------------------------------ scripts
def gen_ops(rng, L, can_reset):
    """k1 next() on iterator 0, k2 on iterator 1, an index access, len, more next(), three extra
    next() after exhaustion, a late third iterator; optionally reset_iter on the root."""
    ops = [["iter"], ["iter"]]
    k1 = rng.randint(0, min(L, 6))
    k2 = rng.randint(0, min(L + 2, 5))
    ops += [["next", 0]] * k1
    ops += [["next", 1]] * k2
    ops.append(["get", rng.randint(-L - 1, L)])
    if rng.random() < 0.7:
        ops.append(["len"])
    rest = max(0, L - k1)
    if rest <= 40 or rng.random() < 0.3:
        ops += [["next", 0]] * rest          # exhausts iterator 0 exactly ...
        ops += [["next", 0]] * 3             # ... and three more
    else:
        ops += [["next", 0]] * rng.randint(0, 10)
    ops.append(["iter"])
    tail = []
    for _ in range(rng.randint(0, 8)):
        tail.append(["next", rng.choice([0, 1, 2, 2])])
    if rng.random() < 0.5:
        tail.insert(rng.randint(0, len(tail)), ["get", rng.randint(-L, L - 1) if L else 0])
    ops += tail
    if can_reset and rng.random() < 0.35:
        ops.append(["reset", rng.choice([0, 1])])
        ops += [["next", 0], ["next", 1], ["next", 0]]
    if rng.random() < 0.3:
        # a long interleaving that runs both remaining iterators dry
        n = min(2 * L + 6, 60)
        ops += [["next", rng.choice([1, 2])] for _ in range(n)]
    return ops


def fixed_ops(L, extra=3):
    return [["iter"]] + [["next", 0]] * (L + extra) + [["iter"], ["next", 1], ["len"], ["get", -1], ["next", 0], ["next", 1]]


# ------------------------------------------------------------------ implementation side
def template_of(case):
    step = {"name": "S", "script": {"actions": {"onRun": {"command": "x"}}}}
    if case["kind"] != "none":
        ps = {"taskParameterDefinitions": case["params"]}
        if case.get("comb_text") is not None:
            ps["combination"] = case["comb_text"]
        step["parameterSpace"] = ps
    return {"specificationVersion": "jobtemplate-2023-09", "name": "J", "steps": [step]}


def race_observe(case):
    """One iterator object, two users.  A's call (len / indexing / a full iteration) runs on a FRESH object and is
    interrupted at ONE instruction boundary inside the package's own code — a place where the interpreter may switch
    threads — where B asks the same object for its length and its first and last sets; then A continues.  This is
    repeated for every instruction boundary of A's call (a fresh object each time).  What B is told is what a fresh
    iterator says, whatever A is in the middle of; and A's answer is that too.  (Deterministic: no scheduler is
    waited for.  B at EVERY boundary of one run would show nothing: its first call would fill every cache.)"""
    import openjd.model as _pkg
    root = str(Path(_pkg.__file__).resolve().parent)
    space = build_space(case["base"])
    if space is None:
        return ["race", []]
    try:
        fresh = StepParameterSpaceIterator(space=space)
        n = len(fresh)
        first, last = (fresh[0], fresh[-1]) if n else (None, None)
        every = list(StepParameterSpaceIterator(space=space)) if n <= 24 else None
    except BaseException as e:  # noqa: BLE001
        return ["race", []] if isinstance(e, (ValueError, IndexError)) else ["race", [["construction", type(e).__name__]]]
    mon = getattr(sys, "monitoring", None)
    if mon is None:
        return ["race", [["HARNESS", "sys.monitoring (CPython >= 3.12) is needed for per-instruction events"]]]
    problems = []

    def run(target, at):
        """A's call on a fresh object; B's probe at instruction number `at` (0: never) -> (A's answer, instructions seen)"""
        x = StepParameterSpaceIterator(space=space)
        seen = [0]
        busy = [False]

        def on_instruction(code, offset):
            if busy[0] or not code.co_filename.startswith(root):
                return
            seen[0] += 1
            if seen[0] != at:
                return
            busy[0] = True
            try:
                m = len(x)
                if m != n:
                    problems.append([target, f"at instruction {at} of A: len() says {m}, a fresh iterator says {n}"])
                elif n and (x[0] != first or x[-1] != last):
                    problems.append([target, f"at instruction {at} of A: x[0] / x[-1] differ from a fresh iterator's"])
            except BaseException as e:  # noqa: BLE001
                problems.append([target, f"at instruction {at} of A: {type(e).__name__}"])
            finally:
                busy[0] = False

        mon.use_tool_id(mon.DEBUGGER_ID, "c07race")
        mon.register_callback(mon.DEBUGGER_ID, mon.events.INSTRUCTION, on_instruction)
        mon.set_events(mon.DEBUGGER_ID, mon.events.INSTRUCTION)
        try:
            if target == "len":
                a = len(x)
            elif target == "getitem":
                a = x[n // 2] if n else None
            elif target == "list":
                a = list(x)
            else:
                a = (len(x), x[n - 1] if n else None)
        except BaseException as e:  # noqa: BLE001
            a = "raise:" + type(e).__name__
        finally:
            mon.set_events(mon.DEBUGGER_ID, 0)
            mon.register_callback(mon.DEBUGGER_ID, mon.events.INSTRUCTION, None)
            mon.free_tool_id(mon.DEBUGGER_ID)
        return a, seen[0]

    for target in ("len", "getitem", "list", "len-then-getitem"):
        if target == "list" and every is None:
            continue
        want = n if target == "len" else (fresh[n // 2] if n else None) if target == "getitem" else every if target == "list" else (n, last)
        a, total = run(target, 0)
        if total == 0:
            problems.append([target, "HARNESS: no instruction of the package was observed"])
        if a != want:
            problems.append([target, "A's own answer (undisturbed) differs from a fresh iterator's"])
        points = range(1, total + 1) if total <= 400 else sorted(set(range(1, 201)) | set(range(201, total + 1, max(1, (total - 200) // 200))))
        for at in points:
            a, _ = run(target, at)
            if a != want:
                problems.append([target, f"A's own answer differs from a fresh iterator's after B ran at instruction {at}"])
            if len(problems) >= 3:
                break
        if len(problems) >= 3:
            break
    return ["race", problems[:3]]


def build_space(case):
    """-> the Job's parameter space (None for a step without one)"""
    if case["kind"] == "raw":
        from openjd.model.v2023_09 import (
            RangeExpressionTaskParameterDefinition,
            RangeListTaskParameterDefinition,
            StepParameterSpace,
        )
        defs = {}
        for p in case["params"]:
            if isinstance(p["range"], list):
                defs[p["name"]] = RangeListTaskParameterDefinition(type=p["type"], range=[str(v) for v in p["range"]])
            else:
                defs[p["name"]] = RangeExpressionTaskParameterDefinition(type=p["type"], range=p["range"])
        return StepParameterSpace.construct(taskParameterDefinitions=defs, combination=case.get("comb_text"))
    if case["kind"] == "jspace":
        from openjd.model.v2023_09 import (
            RangeExpressionTaskParameterDefinition,
            RangeListTaskParameterDefinition,
            StepParameterSpace,
        )
        defs = {}
        for p in case["params"]:
            if isinstance(p["range"], list):
                defs[p["name"]] = RangeListTaskParameterDefinition(type=p["type"], range=[str(v) for v in p["range"]])
            else:
                defs[p["name"]] = RangeExpressionTaskParameterDefinition(type=p["type"], range=p["range"])
        return StepParameterSpace(taskParameterDefinitions=defs, combination=case.get("comb_text"))
    jt = decode_job_template(template=template_of(case))
    job = create_job(job_template=jt, job_parameter_values={})
    return job.steps[0].parameterSpace


_ELEM = __import__("re").compile(r"\s*(-?\s*\d+)\s*(?:-\s*(-?\s*\d+)\s*(?::\s*(-?\s*\d+)\s*)?)?\s*$")


def expand_range_text(text):
    """the values a range expression SPELLS OUT, computed from its text by this harness (no parser of the package,
    no merging): elements in order of (start, end, step), each an inclusive arithmetic progression in its written
    direction.  Falls back to the implementation's own expansion for text this reader does not understand."""
    elems = []
    for part in str(text).split(","):
        m = _ELEM.match(part)
        if not m:
            return list(IntRangeExpr.from_str(text))
        a = int(m.group(1).replace(" ", ""))
        b = int(m.group(2).replace(" ", "")) if m.group(2) else a
        st = int(m.group(3).replace(" ", "")) if m.group(3) else 1
        if st == 0:
            return list(IntRangeExpr.from_str(text))
        elems.append((a, b, st))
    out = []
    for a, b, st in sorted(elems):
        out.extend(range(a, b + (1 if st > 0 else -1), st))
    return out


def space_params(space):
    """declared parameters of the Job's space with expanded value lists"""
    out = []
    for name, d in space.taskParameterDefinitions.items():
        ty = getattr(d.type, "value", d.type)
        if isinstance(d.range, list):
            vals = [str(v) for v in d.range]
        else:
            vals = [str(v) for v in expand_range_text(d.range)]
        out.append((str(name), str(ty), vals))
    return out


def canon_env(ts):
    return sorted([str(k), str(getattr(v.type, "value", v.type)), str(v.value)] for k, v in ts.items())


def exn_family(e):
    for cls in (StopIteration, IndexError, KeyError):
        if isinstance(e, cls):
            return cls.__name__
    return type(e).__name__


def _probe_reset():
    try:
        sp = build_space({"kind": "space", "params": [{"name": "A", "type": "INT", "range": [1, 2]}], "comb_text": None})
        i = iter(StepParameterSpaceIterator(space=sp))
        return hasattr(i, "_root") and hasattr(i._root, "reset_iter")
    except Exception:  # noqa: BLE001
        return False


CAN_RESET = _probe_reset()


def observe(space, idxs, ops):
    try:
        obj = StepParameterSpaceIterator(space=space)
    except BaseException as e:  # noqa: BLE001
        return ["raise", exn_family(e)]
    try:
        ln = ["ok", len(obj)]
    except BaseException as e:  # noqa: BLE001
        ln = ["raise", exn_family(e)]
    items, end = [], "bound"
    it = iter(obj)
    for _ in range(20000):
        try:
            items.append(canon_env(next(it)))
        except BaseException as e:  # noqa: BLE001
            end = exn_family(e)
            break
    gets = []
    for i in idxs:
        try:
            gets.append(["ok", canon_env(obj[i])])
        except BaseException as e:  # noqa: BLE001
            gets.append(["raise", exn_family(e)])
    # scripted history on a FRESH object (empty _len memos)
    obj2 = StepParameterSpaceIterator(space=space)
    its, hist = [], []
    for o in ops:
        try:
            if o[0] == "iter":
                its.append(iter(obj2))
                hist.append("unit")
            elif o[0] == "next":
                hist.append(["env", canon_env(next(its[o[1]]))])
            elif o[0] == "get":
                hist.append(["env", canon_env(obj2[o[1]])])
            elif o[0] == "len":
                hist.append(["len", len(obj2)])
            elif o[0] == "reset":
                its[o[1]]._root.reset_iter()
                hist.append("unit")
        except BaseException as e:  # noqa: BLE001
            hist.append(["raise", exn_family(e)])
    return ["ok", ln, items, end, gets, hist]


# ------------------------------------------------------------------ model side
def sx_tree(t):
    if t[0] == "id":
        return ["id", core.cps(t[1])]
    return [t[0]] + [sx_tree(c) for c in t[1]]


def de_env(e):
    return sorted([core.uncps(n), ty, core.uncps(v)] for n, ty, v in e)


def de_outcome(r, f):
    return ["ok", f(r[1])] if r[0] == "ok" else ["raise", r[1]]


def de_obs(o):
    if o == "unit" or o == "bad":
        return o
    if o[0] == "env":
        return ["env", de_env(o[1])]
    if o[0] == "len":
        return ["len", o[1]]
    return ["raise", o[1]]


def de_reply(r):
    if r[0] == "raise":
        return ["raise", r[1]]
    if r[0] != "ok":
        return ["driver", r]
    return ["ok", de_outcome(r[1], lambda z: z), [de_env(e) for e in r[2]], r[3],
            [de_outcome(g, de_env) for g in r[4]], [de_obs(o) for o in r[5]]]


def idx_list(L, extra=()):
    return list(range(-L - 1, L + 1)) + list(extra)


# ------------------------------------------------------------------ cases
def mk_case(kind, params, comb, ops, L, rng=None, note=None):
    c = {"kind": kind, "params": params, "comb": comb,
         "comb_text": None if comb is None else comb_text(comb, rng),
         "idx": idx_list(L, (-(L + 7), L + 5)), "ops": ops}
    if note:
        c["note"] = note
    return c


def P(name, ty, rng_):
    return {"name": name, "type": ty, "range": rng_}


def corpus():
    out = []
    A2 = P("A", "INT", [1, 2])
    B2 = P("B", "INT", [10, 20])
    # historical defect (fix 8169558): A*B 2x2, next() after exhaustion
    ab = ["prod", [["id", "A"], ["id", "B"]]]
    out.append(mk_case("space", [A2, B2], ab, [["iter"]] + [["next", 0]] * 10, 4, note="A*B 2x2, six next() after exhaustion"))
    out.append(mk_case("space", [A2, B2], None, fixed_ops(4, 5), 4, note="default combination A*B"))
    C4 = P("C", "STRING", ["a", "b", "c", "d"])
    out.append(mk_case("space", [A2, B2, C4], ["assoc", [ab, ["id", "C"]]], fixed_ops(4, 6), 4, note="(A*B, C)"))
    D2 = P("D", "STRING", ["x", "y"])
    C2 = P("C", "STRING", ["a", "b"])
    out.append(mk_case("space", [A2, B2, C2, D2], ["assoc", [ab, ["prod", [["id", "C"], ["id", "D"]]]]], fixed_ops(4, 6), 4, note="(A*B, C*D)"))
    B3 = P("B", "INT", "1-5:2")
    C3 = P("C", "FLOAT", [1.5, "2", 3])
    out.append(mk_case("space", [A2, B3, C3, D2], ["prod", [["id", "A"], ["assoc", [["id", "B"], ["id", "C"]]], ["id", "D"]]], fixed_ops(12, 4), 12, note="A*(B,C)*D"))
    # the examples of the class docstring
    A3 = P("A", "INT", [1, 2, 3])
    Bd = P("B", "INT", [1, 2])
    Cd = P("C", "INT", [10, 11])
    out.append(mk_case("space", [A3, Bd, Cd], ["prod", [["id", "A"], ["assoc", [["id", "B"], ["id", "C"]]]]], fixed_ops(6), 6))
    out.append(mk_case("space", [A3, Bd, Cd], ["prod", [["assoc", [["id", "B"], ["id", "C"]]], ["id", "A"]]], fixed_ops(6), 6))
    out.append(mk_case("space", [P("A", "INT", [3, 2, 1]), Bd, Cd], ["prod", [["id", "A"], ["assoc", [["id", "B"], ["id", "C"]]]]], fixed_ops(6), 6))
    # single parameter, with and without expression; declaration order != expression order
    out.append(mk_case("space", [P("A", "INT", "10-1:-3")], None, fixed_ops(4), 4))
    out.append(mk_case("space", [P("A", "PATH", ["/a", "b"])], ["id", "A"], fixed_ops(2), 2))
    out.append(mk_case("space", [C2, A2, B2], None, fixed_ops(8), 8, note="default combination, declaration order C,A,B"))
    out.append(mk_case("space", [C2, A2, B2], ["prod", [["id", "B"], ["id", "C"], ["id", "A"]]], fixed_ops(8), 8))
    # nested products below associations below products, all of length one
    out.append(mk_case("space", [P("A", "INT", [5]), P("B", "INT", "7"), P("C", "STRING", ["z"])],
                       ["assoc", [["id", "A"], ["prod", [["id", "B"], ["id", "C"]]]]], fixed_ops(1, 4), 1))
    # no parameter space
    out.append({"kind": "none", "params": [], "comb": None, "comb_text": None, "idx": [-3, -2, -1, 0, 1, 2],
                "ops": [["iter"], ["next", 0], ["next", 0], ["next", 0], ["iter"], ["len"], ["get", 0], ["get", -1], ["get", 1], ["next", 1], ["next", 1], ["next", 0]]})
    return out


def exhaustive_cases(max_leaves, rng, per_assignment_cap=None):
    kinds = ["INTLIST", "INTEXPR", "FLOAT", "STRING", "PATH"]
    ctr = 0
    for n in range(1, max_leaves + 1):
        for shp in shapes(n):
            t = json.loads(json.dumps(shp))
            used = name_leaves(t, NAMES)
            for lens in assignments(t):
                L = tree_len(t, lens)
                if L > MAX_TOTAL:
                    continue
                ctr += 1
                params = [gen_leaf(rng, nm, lens[nm], kinds[(ctr + i) % len(kinds)]) for i, nm in enumerate(used)]
                if ctr % 3 == 0:
                    rng.shuffle(params)            # declaration order is irrelevant when an expression is given
                yield mk_case("space", params, t, gen_ops(rng, L, CAN_RESET), L, rng if ctr % 5 == 0 else None)


def random_cases(n, rng):
    made = 0
    while made < n:
        k = rng.choice([1, 2, 3, 4, 5, 6, 7, 8, 9, 10, 12, 14, 16, 16])
        names = NAMES[:k] if rng.random() < 0.5 else rng.sample(NAMES, k)
        t = rand_tree(rng, names)
        lens = None
        for _ in range(8):
            cand = rand_lengths(rng, t)
            if cand is not None and tree_len(t, cand) <= MAX_TOTAL and all(1 <= v <= 24 for v in cand.values()):
                lens = cand
                break
        if lens is None:
            lens = {nm: 1 for nm in names}
            # shrink: keep one or two leaves longer when the tree allows it (pure products)
        L = tree_len(t, lens)
        params = [gen_leaf(rng, nm, lens[nm]) for nm in names]
        rng.shuffle(params)
        made += 1
        yield mk_case("space", params, t, gen_ops(rng, L, CAN_RESET), L, rng)


def default_cases(n, rng):
    for _ in range(n):
        k = rng.randint(1, 5)
        names = rng.sample(NAMES, k)
        lens = [rng.choice([1, 2, 3, 4]) for _ in names]
        L = 1
        for x in lens:
            L *= x
        params = [gen_leaf(rng, nm, ln) for nm, ln in zip(names, lens)]
        yield mk_case("space", params, None, gen_ops(rng, L, CAN_RESET), L)


def joblevel_cases(n, rng):
    """IN the property's domain: spaces assembled from the job-side model classes WITH validation (no template):
    there a parameter given as a range expression may be declared FLOAT / STRING / PATH as well as INT, and every
    task parameter set must carry the declared type"""
    for c in random_cases(n, rng):
        for p_ in c["params"]:
            if isinstance(p_["range"], str) and rng.random() < 0.6:
                p_["type"] = rng.choice(["FLOAT", "STRING", "PATH"])
        c["kind"] = "jspace"
        yield c


def vast_cases(n, rng):
    """spaces with more sets than a double has integers (2**53) and fewer than a container can hold: nothing can be
    enumerated; len() and space[i] at chosen indices are compared, in harness/c07vast.py, with the extracted and proved
    index arithmetic over the tree of operand LENGTHS (coq/theories/ParamSpaceIdx.v, props/C07xv.v) — the value-list
    model cannot hold such ranges"""
    for _ in range(n):
        k = rng.choice([2, 2, 3])
        target = rng.choice([2 ** 53 + 1, 2 ** 54, 2 ** 56 + 12345, 2 ** 60, 2 ** 62, 3 * 10 ** 16, 9 * 10 ** 18])
        lens, rest = [], target
        for j in range(k - 1):
            x = rng.choice([3, 7, 10 ** 3, 10 ** 7, 2 ** 20 + 1, 3 * 10 ** 9])
            lens.append(x)
            rest = max(2, rest // x)
        lens.append(rest)
        rng.shuffle(lens)
        total = 1
        for x in lens:
            total *= x
        if not (2 ** 53 < total < 2 ** 63):
            continue
        starts = [rng.choice([1, 0, -5, 1000]) for _ in lens]
        names = NAMES[:k]
        idx = sorted({0, 1, -1, -2, total - 1, total - 2, total // 2, total // 3, 2 ** 53, 2 ** 53 + 1, 2 ** 53 + 2, -(2 ** 53) - 1, total, -total, -total - 1, total + 5}
                     | {rng.randrange(total) for _ in range(6)} | {total - 1 - rng.randrange(min(total, 10 ** 6)) for _ in range(6)})
        yield {"kind": "vast", "names": names, "starts": starts, "lens": lens, "idx": idx, "explicit": rng.random() < 0.5}


def vast_observe(case):
    params = [{"name": nm, "type": "INT", "range": f"{st}-{st + ln - 1}"} for nm, st, ln in zip(case["names"], case["starts"], case["lens"])]
    c = {"kind": "space", "params": params, "comb_text": " * ".join(case["names"]) if case["explicit"] else None}
    sp = StepParameterSpaceIterator(space=build_space(c))
    try:
        n = len(sp)
    except BaseException as e:  # noqa: BLE001
        n = "len-raised:" + type(e).__name__
    out = []
    for i in case["idx"]:
        try:
            out.append([i, canon_env(sp[i])])
        except IndexError:
            out.append([i, "IndexError"])
        except BaseException as e:  # noqa: BLE001
            out.append([i, "raised:" + type(e).__name__])
    return ["vast", n, out]


def raw_cases(n, rng):
    """OUTSIDE the property's domain (unbalanced associations, built past validation with
    pydantic construct()): exercises the model's exception paths.  Disagreements here are
    counted in the evidence, never reported as violations."""
    made = 0
    while made < n:
        k = rng.randint(2, 6)
        names = NAMES[:k]
        t = rand_tree(rng, names)
        if "assoc" not in json.dumps(t):
            continue
        lens = {nm: rng.choice([1, 2, 3]) for nm in names}
        params = [gen_leaf(rng, nm, lens[nm], rng.choice(["STRING", "INTEXPR", "INTLIST"])) for nm in names]
        L = 12
        made += 1
        c = mk_case("raw", params, t, gen_ops(rng, L, CAN_RESET), L)
        yield c


class C07(core.PropBase):
    id = "C07"
    component = "pspace"
    extract_file = "ExtractParamSpace.v"
    uses_table = False
    chunk_size = 120
    theorem_for_mismatch = ("C07_len / C07_getitem / C07_iterate / C07_exhausted_stays / C07_histories / "
                            "C07_default_comb / C07_none (model = implementation correspondence)")
    assumptions = [
        "leaf value lists are those of the Job's own parameter space; a range expression is expanded with list(IntRangeExpr.from_str(.)) (C08/C13 own that expansion)",
        "the combination string is produced from the tree by the harness printer; parsing it back is C14's property",
        "parameter names are identifiers (one NAME token each)",
        "CPython 3.12 dict/list semantics as installed",
    ]

    def corpus_cases(self):
        return corpus()

    def cases(self, tier, seed):
        rng = random.Random(seed * 7919 + 7)
        thorough = tier == "thorough"
        yield from exhaustive_cases(5 if thorough else 4, rng)
        yield from random_cases(40000 if thorough else 2500, rng)
        yield from default_cases(5000 if thorough else 300, rng)
        yield from joblevel_cases(3000 if thorough else 300, rng)
        yield from raw_cases(6000 if thorough else 400, rng)
        for _ in range(3):
            yield corpus()[-1]
        # one iterator object used by two parties, pre-empted at every bytecode of the other's call
        for c in random_cases(400 if thorough else 40, rng):
            if len(c["params"]) >= 2:
                yield {"kind": "race", "base": c}
        for c in exhaustive_cases(3, rng):
            if len(c["params"]) >= 2 and rng.random() < (1.0 if thorough else 0.15):
                yield {"kind": "race", "base": c}

    def rule(self, tier):
        n = 5 if tier == "thorough" else 4
        return (f"corpus (A*B 2x2 with next() after exhaustion, (A*B,C), (A*B,C*D), A*(B,C)*D, docstring examples, no space); "
                f"every canonical combination tree with <= {n} leaves x every balanced assignment of leaf lengths "
                "(free leaves 1..3, association lengths 1,2,3,4,6, forced leaves <= 9) (exhaustive over shapes and lengths; leaf "
                "representation INT list / INT range expression / FLOAT / STRING / PATH rotated, history script seeded); products and nested combinations of 2-4 range expressions with 2**53 .. 2**63 sets (len and space[i] at boundary / random indices against the extracted ParamSpaceIdx.llen / lindex of props/C07xv.v: stream pspaceidx, harness/c07vast.py); "
                f"random trees with 1..16 leaves, depth <= 5, len <= {MAX_TOTAL}, list and range-expression leaves mixed; absent "
                "combination with 1..5 parameters; step without a space.  Each case: construction, len, list, obj[i] for i in "
                "[-len-1, len] and two far indices, one scripted history over up to three iterators (next/index/len, three "
                "next() after exhaustion" + (", reset_iter on the private root iterator" if CAN_RESET else "") + ").  "
                "distinct = by (parameters, expression, script); non-trivial = at least two parameters.  An extra stream of "
                "unbalanced spaces built past validation is outside the property's domain: disagreements there are counted "
                "(outside_domain_disagree), not reported.")

    def exhaustive(self, tier):
        return False

    def samples(self, tier, seed):
        rng = random.Random(seed)
        out = [{"params": c["params"], "combination": c["comb_text"]} for c in corpus()[:4]]
        for c in itertools.islice(random_cases(6, rng), 6):
            out.append({"params": c["params"], "combination": c["comb_text"], "ops": c["ops"][:12]})
        return out

    def nontrivial(self, case):
        if case["kind"] in ("vast", "race"):
            return True
        return len(case["params"]) >= 2

    # -- implementation
    def impl(self, case):
        if case["kind"] == "race":
            return race_observe(case)
        if case["kind"] == "vast":
            return vast_observe(case)
        if case["kind"] == "none":
            return observe(None, case["idx"], case["ops"])
        space = build_space(case)
        return observe(space, case["idx"], case["ops"])

    # -- model
    def requests(self, case):
        if case["kind"] == "race":
            return []           # nothing to compute: the answer of a fresh iterator is the reference, and C07's theorems say what that is
        if case["kind"] == "none":
            sp = "none"
        else:
            space = build_space(case)
            params = [[core.cps(n), ty, [core.cps(v) for v in vals]] for n, ty, vals in space_params(space)]
            comb = "none" if case["comb"] is None else ["some", sx_tree(case["comb"])]
            sp = ["some", params, comb]
        return [["run", False, sp, case["idx"], [list(o) for o in case["ops"]]]]

    def model_obs(self, case, replies):
        if case["kind"] == "race":
            return ["race", []]
        return de_reply(replies[0])

    def spec_obs(self, case):
        drv = core.Driver(self.component)
        replies, _ = drv.ask(self.requests(case), self.prelude())
        r = replies[0]
        if r[0] != "ok":
            return ["construction", r]
        out = ["denotation (sorted triples, in order)", [de_env(e) for e in r[6]]]
        # regression documentation only: does the implementation behave like the code before
        # commit 8169558 (model instance pinned_product_iter = true)?  Never used to suppress.
        try:
            req = self.requests(case)[0]
            req[1] = True
            rp, _ = drv.ask([req], self.prelude())
            if de_reply(rp[0]) == self.impl(case):
                out.append("implementation behaves like the pinned code of fixed finding 8169558 (no _exhausted flag)")
        except Exception:  # noqa: BLE001
            pass
        return out

    def classify_case(self, case, obs):
        ks = [case["kind"]]
        if case["kind"] == "race":
            return ks
        if case["kind"] == "vast":
            return ks + ["vast:len>2^53"]
        if obs[0] != "ok":
            return ks + ["construct:" + str(obs[1])]
        L = obs[1][1] if obs[1][0] == "ok" else -1
        ks.append("len=" + ("1" if L == 1 else "2-8" if L <= 8 else "9-64" if L <= 64 else "65+"))
        ks.append(f"leaves={min(len(case['params']), 16)}")
        txt = case.get("comb_text")
        if txt is None:
            ks.append("comb=absent")
        else:
            ks.append("comb=" + ("nested" if "(" in txt and "*" in txt else "assoc" if "(" in txt else "prod" if "*" in txt else "id"))
        if any(not isinstance(p["range"], list) for p in case["params"]):
            ks.append("has_range_expr")
        h = obs[5]
        if any(isinstance(x, list) and x[0] == "raise" and x[1] == "StopIteration" for x in h):
            ks.append("hist_hits_stop")
        if any(o[0] == "reset" for o in case["ops"]):
            ks.append("hist_reset")
        return ks

    def run_chunk(self, chunk):
        res = super().run_chunk(chunk)
        if res.get("error"):
            return res
        keep = []
        st = Counter(res["stats"])
        for m in res["mismatches"]:
            if m["case"]["kind"] == "raw":
                st["outside_domain_disagree"] += 1
            else:
                keep.append(m)
        res["mismatches"] = keep
        res["stats"] = dict(st)
        return res

    def shrink_candidates(self, case):
        if case["kind"] == "race":
            return
        if case["kind"] == "vast":
            for i in range(len(case["idx"])):
                if len(case["idx"]) > 1:
                    yield dict(case, idx=case["idx"][:i] + case["idx"][i + 1:])
            return
        ops = case["ops"]
        for i in range(len(ops) - 1, 0, -1):
            if ops[i][0] != "iter":
                c = dict(case)
                c["ops"] = ops[:i] + ops[i + 1:]
                yield c
        if len(case["idx"]) > 1:
            for i in range(len(case["idx"])):
                c = dict(case)
                c["idx"] = case["idx"][:i] + case["idx"][i + 1:]
                yield c


PROP = C07()

if __name__ == "__main__":
    # second stream: spaces of 2**53 .. 2**63 sets against the extracted length-tree arithmetic (ParamSpaceIdx.v;
    # props/C07xv.v); c07vast imports this module's generators: attach it here, not at import time
    import c07vast  # noqa: E402
    PROP.also = [c07vast.PROP]
    sys.exit(core.main(PROP, sys.argv[1:]))
