"""C18 — API calls are pure: no cross-talk across histories or threads."""
import copy
import itertools
import random
import sys
import threading
import time
from pathlib import Path

sys.path.insert(0, str(Path(__file__).resolve().parent))
import core  # noqa: E402
import gen_template as G  # noqa: E402
import c05  # noqa: E402

from openjd.model import (  # noqa: E402
    DecodeValidationError, ParameterValue, ParameterValueType, StepDependencyGraph, StepParameterSpaceIterator, SymbolTable, create_job,
    decode_environment_template, decode_job_template, model_to_object, preprocess_job_parameters,
)
from openjd.model._format_strings import FormatString  # noqa: E402
from openjd.model._format_strings._format_string import FormatStringError  # noqa: E402

_SRC_CHARS = "".join(sorted({c for c in Path(G.__file__).read_text() if ord(c) > 127}))


def fam(e):
    return "raise:" + type(e).__name__


class Client:
    """one user of a (possibly shared) decoded template: a value map and the objects it derived"""

    def __init__(self, jt, doc, vals, ets=None):
        self.ets = ets or None
        self.jt, self.doc, self.vals = jt, doc, dict(vals)
        self.types = {p["name"]: p["type"] for p in doc.get("parameterDefinitions") or []}
        self.job = None
        self.its = {}
        self.sps = {}
        self.seen = {}
        self.job_export = None
        self.problems = []

    def job_untouched(self, op):
        """the Job a client holds is an input of every later call (iterators, dependency graph, export): no call
        may change it, not even the order of a list inside it"""
        if self.job is not None and self.job_export is not None and op[0] != "create":
            now = repr(model_to_object(model=self.job))
            if now != self.job_export:
                self.problems.append(f"the Job was modified by {list(op)}")
                self.job_export = now

    def pv(self):
        return {k: ParameterValue(type=ParameterValueType(self.types[k]), value=v) for k, v in self.vals.items() if k in self.types}

    def iterations_independent(self):
        """every iteration taken from one StepParameterSpaceIterator object yields a prefix of the space's own
        sequence (then 'stop's), whatever other iterations of the same object did in between"""
        if self.job is None:
            return None
        for (k, kind), got in self.seen.items():
            step = self.job.steps[k % len(self.job.steps)]
            full = [sorted([n, v.type.value, v.value] for n, v in ps.items()) for ps in StepParameterSpaceIterator(space=step.parameterSpace)]
            want = (full + ["stop"] * len(got))[:len(got)]
            if got != want:
                return f"iteration {kind} of step {k} yielded {got} but the space's sequence starts {want}"
        return None

    def run(self, op):
        r = self.run1(op)
        self.job_untouched(op)
        return r

    def run1(self, op):
        kind = op[0]
        try:
            if kind == "preprocess":
                r = preprocess_job_parameters(job_template=self.jt, job_parameter_values=dict(self.vals), job_template_dir=Path("/t"), current_working_dir=Path("/c"),
                                              environment_templates=self.ets)
                return sorted([k, v.type.value, v.value] for k, v in r.items())
            if kind == "create":
                self.job = create_job(job_template=self.jt, job_parameter_values=self.pv(), environment_templates=self.ets)
                self.sps, self.its, self.seen = {}, {}, {}
                self.job_export = repr(model_to_object(model=self.job))
                return model_to_object(model=self.job)
            if kind == "export":
                return model_to_object(model=self.jt)
            if kind == "setattr":
                try:
                    setattr(self.jt, "name", "hacked")
                    return "ASSIGNED"
                except TypeError:
                    return "frozen"
            if self.job is None:
                return "no-job"
            if kind == "graph":
                g = StepDependencyGraph(job=self.job)
                return [[s.name for s in g.topo_sorted()], g.max_indegree, g.max_outdegree,
                        sorted([e.origin.step.name, e.dependent.step.name] for st in self.job.steps for e in g.step_node(stepname=st.name).in_edges)]
            step = self.job.steps[op[1] % len(self.job.steps)]
            if kind in ("iter", "iter2"):
                self.seen[(op[1], "next" if kind == "iter" else "next2")] = []
                # ONE StepParameterSpaceIterator object per (job, step): every __iter__ on it must be independent
                key = op[1] % len(self.job.steps)
                if key not in self.sps:
                    self.sps[key] = StepParameterSpaceIterator(space=step.parameterSpace)
                self.its[(op[1], kind)] = iter(self.sps[key])
                return "iter"
            if kind in ("next", "next2"):
                it = self.its.get((op[1], "iter" if kind == "next" else "iter2"))
                if it is None:
                    return "no-iter"
                try:
                    ps = next(it)
                except StopIteration:
                    self.seen.setdefault((op[1], kind), []).append("stop")
                    return "stop"
                r = sorted([k, v.type.value, v.value] for k, v in ps.items())
                self.seen.setdefault((op[1], kind), []).append(r)
                return r
            if kind == "len":
                return len(StepParameterSpaceIterator(space=step.parameterSpace))
            if kind == "getitem":
                sp = StepParameterSpaceIterator(space=step.parameterSpace)
                try:
                    ps = sp[op[2]]
                except IndexError:
                    return "IndexError"
                return sorted([k, v.type.value, v.value] for k, v in ps.items())
        except DecodeValidationError:
            return "DecodeValidationError"
        except ValueError:
            return "ValueError"
        except BaseException as e:  # noqa: BLE001
            return fam(e)
        return "?"


OPS = [("preprocess",), ("create",), ("export",), ("iter", 0), ("next", 0), ("next", 0), ("iter2", 0), ("next2", 0), ("next2", 0), ("len", 0), ("getitem", 0, 0), ("getitem", 0, -1),
       ("graph",), ("setattr",), ("create",), ("next", 0)]

# programs that interleave two iterations taken from ONE StepParameterSpaceIterator object (run as program A)
ITER_PROGRAMS = [
    [("create",), ("iter", 0), ("next", 0), ("iter2", 0), ("next2", 0), ("next", 0), ("next2", 0), ("next", 0)],
    [("create",), ("iter", 0), ("iter2", 0), ("next", 0), ("next", 0), ("next2", 0), ("next", 0), ("next2", 0)],
    [("create",), ("iter", 0), ("next", 0), ("next", 0), ("iter2", 0), ("next", 0), ("next2", 0), ("len", 0), ("next2", 0)],
]


def interleavings(a, b):
    """all merges of two programs (as lists of (client, op))"""
    if not a:
        yield [("B", o) for o in b]
        return
    if not b:
        yield [("A", o) for o in a]
        return
    for rest in interleavings(a[1:], b):
        yield [("A", a[0])] + rest
    for rest in interleavings(a, b[1:]):
        yield [("B", b[0])] + rest


class C18(core.PropBase):
    id = "C18"
    component = "glue"
    extract_file = "ExtractGlue.v"
    chars = _SRC_CHARS
    uses_table = True
    chunk_size = 12
    theorem_for_mismatch = "C18_resolve_history / C18_all_frozen / C07_histories; every call in a shared-template history returns what it returns in isolation"
    assumptions = [
        "thread interleavings inside one resolve() call depend on CPython's switch points: stress-tested, not modelled (partial, DESIGN.md §9)",
        "FormatString.expressions[i].resolved_value is scratch state by the property's own anchor and is not part of the observable",
    ]

    def cases(self, tier, seed):
        rng = random.Random(seed * 7919 + 18)
        thorough = tier == "thorough"
        # 1. resolve() histories on ONE shared FormatString object vs the Coq slot model
        for i in range(3000 if thorough else 400):
            names = ["A.x", "B", "Param.Frame", "Task.File.f"]
            parts = []
            for _ in range(rng.randint(1, 4)):
                parts.append(rng.choice(["lit ", "", "{ }", "é"]) + "{{" + rng.choice(["", " "]) + rng.choice(names) + rng.choice(["", " "]) + "}}")
            s = "".join(parts) + rng.choice(["", " tail"])
            tabs = []
            for _ in range(rng.randint(2, 5)):
                t = {}
                for n in names:
                    if rng.random() < 0.75:
                        t[n] = rng.choice(["1", "v" + str(rng.randint(0, 9)), "{{B}}", "", "é", "}}"])
                tabs.append(t)
            yield {"kind": "resolve", "s": s, "tabs": tabs}
        # 2. two clients sharing one decoded template: all interleavings of two short programs
        for i in range(120 if thorough else 14):
            doc = G.gen_job_template(rng, full=(i % 3 == 0))
            va, vb = c05.values_with_refs_text(rng, doc), c05.values_with_refs_text(rng, doc)
            pa = [rng.choice(OPS) for _ in range(rng.choice([2, 3]))]
            pb = [rng.choice(OPS) for _ in range(rng.choice([2, 2, 3]))]
            if rng.random() < 0.7:
                pa[0] = ("create",)
                pb[0] = ("create",)
            if i % 2 == 0:
                # a template whose first step certainly has a parameter space, and a program with two live iterations
                comb = rng.choice([None, "A * B", "B * A", "(A, C) * B", "B * (A, C)"])
                ps = {"taskParameterDefinitions": [{"name": "A", "type": "INT", "range": "1-3"}, {"name": "B", "type": "STRING", "range": ["x", "y"]},
                                                   {"name": "C", "type": "FLOAT", "range": [0.5, 1, "2.5"]}]}
                if comb is None or "C" not in comb:
                    del ps["taskParameterDefinitions"][2]
                if comb:
                    ps["combination"] = comb
                doc = {"specificationVersion": "jobtemplate-2023-09", "name": "n {{Param.N}}", "parameterDefinitions": [{"name": "N", "type": "INT", "default": 2}],
                       "steps": [{"name": "s", "parameterSpace": ps, "script": {"actions": {"onRun": {"command": "{{Task.Param.A}} {{Param.N}}"}}}}]}
                va, vb = {"N": "5"}, {}
                pa = list(rng.choice(ITER_PROGRAMS))
                pb = pb[:2]
            yield {"kind": "history", "doc": doc, "va": va, "vb": vb, "pa": [list(o) for o in pa], "pb": [list(o) for o in pb]}
        # 2b. Jobs whose steps list several dependencies out of job order: the dependency graph, the iterators and
        #     the export read the Job and must leave it as it is
        for i in range(40 if thorough else 6):
            names = ["Fetch", "Build", "Test", "Pack", "Publish", "Notify"][:rng.randint(4, 6)]
            steps = []
            for k, nm in enumerate(names):
                st = {"name": nm, "script": {"actions": {"onRun": {"command": "c {{Param.N}}"}}}}
                if k >= 2:
                    deps = rng.sample(names[:k], rng.randint(2, k))
                    rng.shuffle(deps)
                    if deps == sorted(deps, key=names.index):
                        deps.reverse()
                    st["dependencies"] = [{"dependsOn": d} for d in deps]
                steps.append(st)
            doc = {"specificationVersion": "jobtemplate-2023-09", "name": "n", "parameterDefinitions": [{"name": "N", "type": "INT", "default": 2}], "steps": steps}
            pa = [("create",), ("graph",), ("export",), ("graph",)][:rng.randint(2, 4)]
            pb = [("create",), ("graph",)]
            yield {"kind": "history", "doc": doc, "va": {"N": "5"}, "vb": {}, "pa": [list(o) for o in pa], "pb": [list(o) for o in pb]}
        # 2c. clients that also share decoded ENVIRONMENT templates re-defining the job's parameters (merged at every
        #     preprocess / create_job call): the environment templates are inputs too and stay as they are
        for i in range(60 if thorough else 10):
            ty = rng.choice(["STRING", "INT", "FLOAT", "PATH"])
            pool = {"STRING": ["a", "b", "c", "d"], "PATH": ["a", "b", "c", "d"], "INT": [1, 2, 3, 4], "FLOAT": [1, 2.5, 3, 4]}[ty]
            wide, mid = pool[:], rng.sample(pool, 3)
            narrow = rng.sample(mid, 2)
            envs = [{"specificationVersion": "environment-2023-09", "parameterDefinitions": [{"name": "P", "type": ty, "allowedValues": av}],
                     "environment": {"name": f"E{k}", "variables": {"A": "b"}}} for k, av in enumerate([wide, mid][:rng.choice([1, 2])])]
            doc = {"specificationVersion": "jobtemplate-2023-09", "name": "n {{RawParam.P}}", "parameterDefinitions": [{"name": "P", "type": ty, "allowedValues": narrow}],
                   "steps": [{"name": "s", "script": {"actions": {"onRun": {"command": "c"}}}}]}
            va, vb = {"P": str(narrow[0])}, {"P": str(rng.choice(pool))}
            progs = [[("preprocess",), ("create",)], [("create",), ("preprocess",)], [("create",), ("create",)], [("preprocess",), ("preprocess",), ("create",)]]
            case = {"kind": "history", "doc": doc, "envs": envs, "va": va, "vb": vb, "pa": [list(o) for o in rng.choice(progs)], "pb": [list(o) for o in rng.choice(progs)]}
            if i % 2 == 1:
                # B brings environment templates of its own: the same environment NAMES (another revision of them), other
                # definitions, sometimes one template fewer.  What was merged for A's list is not B's.
                envs_b = copy.deepcopy(envs)
                for e in envs_b:
                    d = e["parameterDefinitions"][0]
                    d["allowedValues"] = rng.sample(pool, rng.choice([1, 2, 3]))
                    if rng.random() < 0.5:
                        d["default"] = d["allowedValues"][0]
                if len(envs_b) > 1 and rng.random() < 0.3:
                    envs_b.pop()
                case["envs_b"] = envs_b
                if rng.random() < 0.5:
                    case["vb"] = {}
            yield case
        # 2d. pre-emption made deterministic: client A's call is traced and, at evenly spread points inside the package's
        #     own code (function entries and lines), client B's whole call runs before A continues — every place where a
        #     thread switch could fall, without waiting for the scheduler to pick it.  Whatever B leaves in shared,
        #     non-thread-local state (a module-level parser, scratch slots of the shared template) reaches A.
        for i in range(40 if thorough else 8):
            doc = G.gen_job_template(rng, full=(i % 2 == 0))
            if i % 3 == 0:
                doc = {"specificationVersion": "jobtemplate-2023-09", "name": "n {{Param.N}} {{RawParam.T}} {{Param.N}}",
                       "parameterDefinitions": [{"name": "N", "type": "INT", "default": 2}, {"name": "T", "type": "STRING", "default": "t"}],
                       "steps": [{"name": "s", "parameterSpace": {"taskParameterDefinitions": [{"name": "A", "type": "INT", "range": "1-{{Param.N}}"},
                                                                                                {"name": "B", "type": "STRING", "range": ["{{Param.T}}_{{Param.N}}_{{Param.T}}", "y"]}]},
                                  "hostRequirements": {"attributes": [{"name": "attr.worker.os.family", "anyOf": ["linux", "{{Param.T}}"]}]},
                                  "script": {"actions": {"onRun": {"command": "{{Task.Param.A}} {{Param.N}}"}}}}]}
                va, vb = {"N": "5", "T": "alpha"}, {"N": "7", "T": "beta"}
            else:
                va, vb = c05.values_with_refs_text(rng, doc), c05.values_with_refs_text(rng, doc)
            yield {"kind": "preempt", "doc": doc, "va": va, "vb": vb, "op": rng.choice(["create", "create", "preprocess", "decode"])}
        # 3. threads: the same operations from 2-8 threads on one shared template
        for i in range(6 if thorough else 2):
            doc = G.gen_job_template(rng, full=True)
            yield {"kind": "threads", "doc": doc, "vals": [c05.values_with_refs_text(rng, doc) for _ in range(rng.choice([2, 4, 8]))],
                   "seconds": 8.0 if thorough else 1.0}

    def rule(self, tier):
        return ("(1) histories of 2-5 resolve() calls with different symbol tables on ONE shared FormatString object, against the Coq model that writes and "
                "reads the scratch slots; (2) two clients sharing one decoded template, ALL interleavings of two programs of 2-3 calls each "
                "(preprocess, create_job, model_to_object, iter/next/len/getitem on a created Job, dependency graph, attribute assignment): every call's result "
                "equals the result of the same program run alone on a private copy, the Job a client holds is unchanged by every later call on it (dependency graph over steps with several dependencies listed out of job order included), template export and value maps unchanged afterwards; (3) 2-8 threads "
                "calling create_job with different values on one shared template, each result equal to the isolated one. distinct = by case")

    def samples(self, tier, seed):
        return [{"program A": ["create", "iter 0", "next 0"], "program B": ["create", "next 0", "setattr"], "interleavings": 20}]

    # ------------------------------------------------------------------ implementation
    def impl(self, case):
        if case["kind"] == "resolve":
            try:
                f = FormatString(case["s"])
            except FormatStringError:
                return ["malformed"]
            out = []
            for t in case["tabs"]:
                st = SymbolTable()
                for k, v in t.items():
                    st[k] = v
                try:
                    out.append(f.resolve(symtab=st))
                except FormatStringError:
                    out.append("FormatStringError")
                except BaseException as e:  # noqa: BLE001
                    out.append(fam(e))
            return ["resolve", out]
        if case["kind"] == "history":
            doc = case["doc"]
            pa, pb = [tuple(o) for o in case["pa"]], [tuple(o) for o in case["pb"]]
            # isolated runs: each client alone on a private decoded copy
            iso = {}
            early = []
            env_docs = case.get("envs") or []
            for who, vals, prog in (("A", case["va"], pa), ("B", case["vb"], pb)):
                c = Client(decode_job_template(template=copy.deepcopy(doc)), doc, vals,
                           [decode_environment_template(template=copy.deepcopy(e)) for e in (case["envs_b"] if who == "B" and "envs_b" in case else env_docs)])
                iso[who] = [c.run(o) for o in prog]
                for pr in c.problems:
                    early.append([who, pr])
                prob = c.iterations_independent()
                if prob:
                    iso[who] = ["NOT-INDEPENDENT", prob]
            bad = list(early)
            for who in ("A", "B"):
                if iso[who] and iso[who][0] == "NOT-INDEPENDENT":
                    bad.append([who, iso[who][1][:300]])
            n = 0
            for sched in interleavings(pa, pb):
                n += 1
                jt = decode_job_template(template=copy.deepcopy(doc))
                ets = [decode_environment_template(template=copy.deepcopy(e)) for e in env_docs]
                before = repr(model_to_object(model=jt))
                before_envs = [repr(model_to_object(model=e)) for e in ets]
                ets_b = [decode_environment_template(template=copy.deepcopy(e)) for e in case["envs_b"]] if "envs_b" in case else ets
                cl = {"A": Client(jt, doc, case["va"], ets), "B": Client(jt, doc, case["vb"], ets_b)}
                got = {"A": [], "B": []}
                for who, o in sched:
                    got[who].append(cl[who].run(o))
                if got != iso:
                    bad.append(["".join(w for w, _ in sched), "results differ from isolated runs"])
                if repr(model_to_object(model=jt)) != before:
                    bad.append(["".join(w for w, _ in sched), "template changed"])
                if [repr(model_to_object(model=e)) for e in ets] != before_envs:
                    bad.append(["".join(w for w, _ in sched), "environment template changed"])
                for w in ("A", "B"):
                    for pr in cl[w].problems:
                        bad.append(["".join(x for x, _ in sched), w + ": " + pr])
                if cl["A"].vals != case["va"] or cl["B"].vals != case["vb"]:
                    bad.append(["".join(w for w, _ in sched), "value map changed"])
            return ["history", bad[:3]]
        if case["kind"] == "preempt":
            return ["preempt", self.preempt(case)]
        # threads
        doc = case["doc"]
        jt = decode_job_template(template=copy.deepcopy(doc))
        clients = [Client(jt, doc, v) for v in case["vals"]]
        iso = []
        for v in case["vals"]:
            c = Client(decode_job_template(template=copy.deepcopy(doc)), doc, v)
            iso.append(c.run(("create",)))
        bad = []
        stop = time.time() + case["seconds"]
        old = sys.getswitchinterval()
        sys.setswitchinterval(1e-6)

        def work(i):
            k = 0
            while time.time() < stop and not bad:
                r = clients[i].run(("create",))
                k += 1
                if r != iso[i]:
                    bad.append([i, "create_job result differs from the isolated one"])

        ts = [threading.Thread(target=work, args=(i,)) for i in range(len(clients))]
        try:
            for t in ts:
                t.start()
            for t in ts:
                t.join()
        finally:
            sys.setswitchinterval(old)
        return ["threads", bad[:3]]

    def preempt(self, case):
        import openjd.model as _pkg
        root = str(Path(_pkg.__file__).resolve().parent)
        doc = case["doc"]
        try:
            shared = decode_job_template(template=copy.deepcopy(doc))
        except DecodeValidationError:
            return []

        def call(client_vals, jt, op):
            c = Client(jt, doc, client_vals)
            if op == "decode":
                try:
                    return repr(model_to_object(model=decode_job_template(template=copy.deepcopy(doc))))
                except DecodeValidationError:
                    return "DecodeValidationError"
            return repr(c.run((op,)))
        op = case["op"]
        alone_a = call(case["va"], decode_job_template(template=copy.deepcopy(doc)), op)
        alone_b = call(case["vb"], decode_job_template(template=copy.deepcopy(doc)), "create" if op == "decode" else op)
        # dry run: how many trace points does A's call have inside the package?
        count = [0]

        def counter(frame, event, arg):
            # function entries inside the package are the trace points (a window in which shared state is live spans
            # several calls: parse -> _expression -> _range -> _integer; resolve -> evaluate -> ...)
            if event == "call" and frame.f_code.co_filename.startswith(root):
                count[0] += 1
            return None
        sys.settrace(counter)
        try:
            call(case["va"], shared, op)
        finally:
            sys.settrace(None)
        stride = max(1, count[0] // 500)
        bad = []
        seen = [0]
        busy = [False]

        def tracer(frame, event, arg):
            if event != "call" or not frame.f_code.co_filename.startswith(root):
                return None
            seen[0] += 1
            if seen[0] % stride == 0 and not busy[0]:
                busy[0] = True
                sys.settrace(None)
                try:
                    rb = call(case["vb"], shared, "create" if op == "decode" else op)
                    if rb != alone_b and len(bad) < 3:
                        bad.append(["B, run inside A at trace point %d" % seen[0], "differs from the isolated call"])
                finally:
                    busy[0] = False
                    sys.settrace(tracer)
            return None
        sys.settrace(tracer)
        try:
            ra = call(case["va"], shared, op)
        except BaseException as e:  # noqa: BLE001
            ra = "raised:" + type(e).__name__
        finally:
            sys.settrace(None)
        if ra != alone_a:
            bad.append(["A, pre-empted by B at %d points" % (seen[0] // stride), "differs from the isolated call"])
        return bad[:3]

    # ------------------------------------------------------------------ model
    def requests(self, case):
        if case["kind"] != "resolve":
            return []
        s = core.cps(case["s"])
        sig = [[[core.cps(k), core.cps(v)] for k, v in t.items()] for t in case["tabs"]]
        n = case["s"].count("{{")
        return [["history", s, ["none"] * n, sig]] + [["isolated", s, x] for x in sig]

    def model_obs(self, case, replies):
        if case["kind"] == "history":
            return ["history", []]
        if case["kind"] == "threads":
            return ["threads", []]
        if case["kind"] == "preempt":
            return ["preempt", []]
        h = replies[0]
        if h[0] == "raise":
            return ["malformed"]

        def conv(r):
            return core.uncps(r[1]) if r[0] == "ok" else r[1]
        hist = [conv(r) for r in h[1]]
        iso = [conv(r) for r in replies[1:]]
        if hist != iso:
            return ["model-history-differs-from-isolated", hist, iso]
        return ["resolve", hist]

    def classify_case(self, case, obs):
        return [case["kind"] + ":" + obs[0]]

    def shrink_candidates(self, case):
        if case["kind"] == "resolve":
            for i in range(len(case["tabs"])):
                if len(case["tabs"]) > 1:
                    yield dict(case, tabs=case["tabs"][:i] + case["tabs"][i + 1:])
        elif case["kind"] == "history":
            for k in ("pa", "pb"):
                for i in range(len(case[k])):
                    if len(case[k]) > 1:
                        yield dict(case, **{k: case[k][:i] + case[k][i + 1:]})


PROP = C18()

if __name__ == "__main__":
    sys.exit(core.main(PROP, sys.argv[1:]))
