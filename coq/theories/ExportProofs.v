(* ExportProofs.v — lemmas for C17 (model_to_object and the decode/export round trip).

   Contents
     1. [plain]: the export contains no null and only JSON scalars;
     2. aliases: the key emitted for a field is the key [parse_cls] reads;
     3. numeral round trips ([parse_int (print_Z z)], [parse_dec (print_dec m e)]);
     4. round trip of every scalar kind. *)
From Coq Require Import List NArith ZArith Bool String Ascii Lia Arith.
Import ListNotations.
Require Import OJD.Base OJD.Lexer OJD.Json OJD.Schema OJD.Generated OJD.Charsets OJD.Numerals OJD.NumPrint
               OJD.CreateJob OJD.Parse.
Local Open Scope string_scope.
Local Open Scope list_scope.

(* ------------------------------------------------------------------------------------------ *)
(* 1. plain data                                                                               *)

(* no null anywhere (as a list item, as a member value, or at the top), every leaf a JSON scalar:
   bool / int / str / float.  [json] has no constructor for a Decimal or any other Python object:
   what has to be shown is that [to_object] never needs one, and never emits a null. *)
Fixpoint plain (j : json) : bool :=
  match j with
  | JNull => false
  | JBool _ | JInt _ | JDec _ _ | JStr _ => true
  | JArr l => forallb plain l
  | JObj ms => forallb (fun kv => plain (snd kv)) ms
  end.

Definition mnone (v : mval) : bool := match v with MNone => true | _ => false end.

(* the instance tree has no None as a LIST ITEM (and is not None itself); a None dictionary value
   or model field is allowed: [to_object] drops those members *)
Fixpoint no_none_items (v : mval) : bool :=
  match v with
  | MNone => false
  | MList l => forallb no_none_items l
  | MDict l => forallb (fun kv => mnone (snd kv) || no_none_items (snd kv)) l
  | MModel _ fs => forallb (fun kv => mnone (snd kv) || no_none_items (snd kv)) fs
  | _ => true
  end.

Lemma forallb_flat_map : forall (A B : Type) (p : B -> bool) (g : A -> list B) l,
  forallb p (flat_map g l) = forallb (fun x => forallb p (g x)) l.
Proof.
  induction l as [|a l IH]; [reflexivity|]. simpl. rewrite forallb_app. rewrite IH. reflexivity.
Qed.

Lemma depth_le_max' : forall (A : Type) (g : A -> nat) l x,
  In x l -> g x <= fold_right (fun y acc => Nat.max (g y) acc) O l.
Proof.
  induction l as [|a l IH]; intros x Hx; [destruct Hx|].
  simpl. destruct Hx as [Hx|Hx]; [subst; lia|]. specialize (IH x Hx). lia.
Qed.

Theorem to_object_plain : forall SC fuel v,
  no_none_items v = true -> mval_depth v < fuel -> plain (to_object SC fuel v) = true.
Proof.
  intros SC. induction fuel as [|f IH]; intros v Hn Hd; [lia|].
  destruct v as [ | | | | | | |l|l|c fs]; try reflexivity.
  - discriminate.
  - (* list *)
    simpl. rewrite forallb_forall. intros y Hy. apply in_map_iff in Hy. destruct Hy as [x [E Hx]]. subst y.
    simpl in Hn. rewrite forallb_forall in Hn. apply IH; [apply Hn; exact Hx|].
    apply (depth_le_max' _ mval_depth) in Hx. simpl in Hd. lia.
  - (* dict *)
    simpl. rewrite forallb_flat_map. rewrite forallb_forall. intros [k x] Hx.
    simpl in Hn. rewrite forallb_forall in Hn. specialize (Hn _ Hx). simpl in Hn.
    assert (Hdx : mval_depth x < f).
    { apply (depth_le_max' _ (fun kv : str * mval => mval_depth (snd kv))) in Hx. simpl in Hx, Hd. lia. }
    simpl snd. simpl fst.
    destruct x; try reflexivity; simpl in Hn; simpl forallb; rewrite andb_true_r; apply IH; assumption.
  - (* model *)
    simpl. rewrite forallb_flat_map. rewrite forallb_forall. intros [k x] Hx.
    simpl in Hn. rewrite forallb_forall in Hn. specialize (Hn _ Hx). simpl in Hn.
    assert (Hdx : mval_depth x < f).
    { apply (depth_le_max' _ (fun kv : string * mval => mval_depth (snd kv))) in Hx. simpl in Hx, Hd. lia. }
    simpl snd. simpl fst.
    destruct x; try reflexivity; simpl in Hn; simpl forallb; rewrite andb_true_r; apply IH; assumption.
Qed.

(* ------------------------------------------------------------------------------------------ *)
(* 2. aliases                                                                                  *)

Lemma N_of_ascii_inj : forall a b, N_of_ascii a = N_of_ascii b -> a = b.
Proof.
  intros a b H. rewrite <- (ascii_N_embedding a), <- (ascii_N_embedding b). rewrite H. reflexivity.
Qed.

Lemma str_of_string_inj : forall a b, str_of_string a = str_of_string b -> a = b.
Proof.
  induction a as [|x a IH]; intros [|y b] H; simpl in H; try discriminate; [reflexivity|].
  inversion H as [[H1 H2]]. apply N_of_ascii_inj in H1. apply IH in H2. subst. reflexivity.
Qed.

Lemma str_eqb_refl2 : forall a, str_eqb a a = true.
Proof. induction a as [|x a IH]; simpl; [reflexivity|]. rewrite N.eqb_refl. exact IH. Qed.

Lemma str_eqb_true2 : forall a b, str_eqb a b = true <-> a = b.
Proof.
  induction a as [|x a IH]; intros [|y b]; simpl; split; intros H; try reflexivity; try discriminate.
  - apply andb_true_iff in H. destruct H as [H1 H2]. apply N.eqb_eq in H1. apply IH in H2. subst. reflexivity.
  - inversion H. subst. rewrite N.eqb_refl. apply str_eqb_refl2.
Qed.

Lemma str_eqb_false2 : forall a b, a <> b -> str_eqb a b = false.
Proof.
  intros a b H. destruct (str_eqb a b) eqn:E; [|reflexivity]. apply str_eqb_true2 in E. contradiction.
Qed.

Lemma find_by_name : forall (fields : list field) fl,
  NoDup (map f_name fields) -> In fl fields ->
  List.find (fun fl' => String.eqb (f_name fl') (f_name fl)) fields = Some fl.
Proof.
  induction fields as [|a r IH]; intros fl Hnd Hin; [destruct Hin|].
  simpl map in Hnd. inversion Hnd as [|x l Hnotin Hnd']. subst x l.
  simpl. destruct Hin as [Hin|Hin].
  - subst a. rewrite String.eqb_refl. reflexivity.
  - destruct (String.eqb (f_name a) (f_name fl)) eqn:E.
    + apply String.eqb_eq in E. exfalso. apply Hnotin. rewrite E. apply in_map. exact Hin.
    + apply IH; assumption.
Qed.

(* the key emitted for a field is its alias *)
Theorem alias_of_field : forall SC c k fl,
  lookup_cls SC c = Some k -> NoDup (map f_name (c_fields k)) -> In fl (c_fields k) ->
  alias_of SC c (f_name fl) = f_alias fl.
Proof.
  intros SC c k fl Hl Hnd Hin. unfold alias_of. rewrite Hl.
  rewrite (find_by_name _ fl Hnd Hin). reflexivity.
Qed.

Definition present (x : mval) : option mval := match x with MNone => None | _ => Some x end.

(* members emitted for the field list of a class, given the values in declaration order *)
Definition emit (g : mval -> json) (l : list (field * mval)) : list (str * json) :=
  flat_map (fun p => match snd p with
                     | MNone => []
                     | y => [(str_of_string (f_alias (fst p)), g y)]
                     end) l.

Lemma assoc_emit_absent : forall g l a,
  ~ In a (map (fun p => f_alias (fst p)) l) -> assoc (str_of_string a) (emit g l) = None.
Proof.
  induction l as [|[fl x] r IH]; intros a H; [reflexivity|].
  simpl in H. unfold emit. simpl flat_map. fold (emit g r).
  assert (Hr : assoc (str_of_string a) (emit g r) = None) by (apply IH; intros Hc; apply H; right; exact Hc).
  assert (Hne : str_eqb (str_of_string a) (str_of_string (f_alias fl)) = false).
  { apply str_eqb_false2. intros E. apply str_of_string_inj in E. apply H. left. symmetry. exact E. }
  destruct x; simpl; try rewrite Hne; exact Hr.
Qed.

Lemma assoc_emit : forall g l fl x,
  NoDup (map (fun p => f_alias (fst p)) l) -> In (fl, x) l ->
  assoc (str_of_string (f_alias fl)) (emit g l) = option_map g (present x).
Proof.
  induction l as [|[fl' x'] r IH]; intros fl x Hnd Hin; [destruct Hin|].
  simpl map in Hnd. inversion Hnd as [|y l Hnotin Hnd']. subst y l.
  unfold emit. simpl flat_map. fold (emit g r). destruct Hin as [Hin|Hin].
  - inversion Hin. subst fl' x'.
    destruct x; simpl; try rewrite str_eqb_refl2; try reflexivity.
    apply assoc_emit_absent. exact Hnotin.
  - assert (Hne : str_eqb (str_of_string (f_alias fl)) (str_of_string (f_alias fl')) = false).
    { apply str_eqb_false2. intros E. apply str_of_string_inj in E. apply Hnotin. simpl in E. rewrite <- E.
      apply (in_map (fun p => f_alias (fst p)) r (fl, x)). exact Hin. }
    specialize (IH fl x Hnd' Hin).
    destruct x'; simpl; try rewrite Hne; exact IH.
Qed.

(* [to_object] of an instance whose fields are the class's fields in declaration order *)
Lemma to_object_model : forall SC f c k (vals : list mval),
  lookup_cls SC c = Some k -> NoDup (map f_name (c_fields k)) ->
  List.length vals = List.length (c_fields k) ->
  to_object SC (S f) (MModel c (combine (map f_name (c_fields k)) vals))
  = JObj (emit (to_object SC f) (combine (c_fields k) vals)).
Proof.
  intros SC f c k vals Hl Hnd Hlen. simpl. f_equal. unfold emit.
  assert (Hal : forall fl, In fl (c_fields k) -> alias_of SC c (f_name fl) = f_alias fl)
    by (intros fl Hfl; eapply alias_of_field; eassumption).
  clear Hnd Hl. revert vals Hlen Hal. generalize (c_fields k) as fields.
  induction fields as [|fl r IH]; intros vals Hlen Hal; [reflexivity|].
  destruct vals as [|x vals]; [discriminate|].
  simpl. rewrite (Hal fl (or_introl eq_refl)).
  rewrite (IH vals); [|simpl in Hlen; lia|intros fl' Hfl'; apply Hal; right; exact Hfl'].
  destruct x; reflexivity.
Qed.

Lemma map_fst_combine : forall (A B : Type) (a : list A) (b : list B),
  List.length b = List.length a -> map fst (combine a b) = a.
Proof.
  induction a as [|x a IH]; intros b H; [reflexivity|].
  destruct b as [|y b]; [discriminate|]. simpl. rewrite IH; [reflexivity|]. simpl in H. lia.
Qed.

(* ... and the member [parse_cls] looks up for a field is the one emitted for it *)
Theorem alias_read : forall SC f c k (vals : list mval) fl x,
  lookup_cls SC c = Some k ->
  NoDup (map f_name (c_fields k)) -> NoDup (map f_alias (c_fields k)) ->
  List.length vals = List.length (c_fields k) ->
  In (fl, x) (combine (c_fields k) vals) ->
  exists ms,
    to_object SC (S f) (MModel c (combine (map f_name (c_fields k)) vals)) = JObj ms /\
    assoc (str_of_string (f_alias fl)) ms = option_map (to_object SC f) (present x).
Proof.
  intros SC f c k vals fl x Hl Hn Ha Hlen Hin.
  eexists. split; [apply to_object_model; assumption|].
  apply assoc_emit; [|exact Hin].
  assert (E : map (fun p : field * mval => f_alias (fst p)) (combine (c_fields k) vals) = map f_alias (c_fields k)).
  { rewrite <- (map_map fst f_alias). rewrite map_fst_combine; [reflexivity|]. exact Hlen. }
  rewrite E. exact Ha.
Qed.

(* distinctness of names and aliases in the live schema, by computation *)
Fixpoint nodup_sb (l : list string) : bool :=
  match l with
  | [] => true
  | x :: r => negb (mem_s x r) && nodup_sb r
  end.

Lemma mem_s_In : forall x l, mem_s x l = true <-> In x l.
Proof.
  intros x l. unfold mem_s. rewrite existsb_exists. split.
  - intros [y [H1 H2]]. apply String.eqb_eq in H2. subst. exact H1.
  - intros H. exists x. split; [exact H|apply String.eqb_refl].
Qed.

Lemma nodup_sb_NoDup : forall l, nodup_sb l = true -> NoDup l.
Proof.
  induction l as [|x r IH]; intros H; [constructor|].
  simpl in H. apply andb_true_iff in H. destruct H as [H1 H2]. constructor.
  - intros Hin. apply mem_s_In in Hin. rewrite Hin in H1. discriminate.
  - apply IH. exact H2.
Qed.

Lemma lookup_cls_in : forall s c k, lookup_cls s c = Some k -> In (c, k) s.
Proof.
  induction s as [|[n k'] r IH]; intros c k H; [discriminate|].
  simpl in H. destruct (String.eqb n c) eqn:E.
  - apply String.eqb_eq in E. inversion H. subst. left. reflexivity.
  - right. apply IH. exact H.
Qed.

Definition names_distinct_b (s : schema_t) : bool :=
  forallb (fun nc => nodup_sb (map f_name (c_fields (snd nc))) && nodup_sb (map f_alias (c_fields (snd nc)))) s.

Lemma names_distinct_sound : forall s, names_distinct_b s = true ->
  forall c k, lookup_cls s c = Some k ->
  NoDup (map f_name (c_fields k)) /\ NoDup (map f_alias (c_fields k)).
Proof.
  intros s H c k Hl. apply lookup_cls_in in Hl. unfold names_distinct_b in H.
  rewrite forallb_forall in H. specialize (H _ Hl). simpl in H. apply andb_true_iff in H.
  destruct H as [H1 H2]. split; apply nodup_sb_NoDup; assumption.
Qed.

Lemma generated_names_distinct : forall c k, lookup_cls Generated.schema c = Some k ->
  NoDup (map f_name (c_fields k)) /\ NoDup (map f_alias (c_fields k)).
Proof. apply names_distinct_sound. vm_compute. reflexivity. Qed.

(* ------------------------------------------------------------------------------------------ *)
(* 4. round trip of the scalar kinds                                                           *)

Require Import OJD.NumRoundtrip.

Definition scalar_kind (k : kind) : bool :=
  match k with KModel _ | KDisc _ _ | KUnion _ => false | _ => true end.

Section ScalarRT.
  Variable SC : schema_t.
  Variable classify : N -> cclass.
  Variable pre : string -> json -> bool.
  Variable post : string -> json -> list (string * mval) -> bool.
  Notation PK := (parse_kind SC classify pre post).

  Lemma check_str_ok : forall minl maxl cs s x,
    check_str minl maxl cs s = Ok x -> x = MStr s.
  Proof.
    intros minl maxl cs s x H. unfold check_str in H.
    destruct (Charsets.len_ok minl maxl s && Charsets.cs_ok cs s); [|discriminate]. inversion H. reflexivity.
  Qed.

  Ltac inv_ok H := inversion H; subst; clear H.

  (* decode(export(x)) = x for every value a scalar kind can produce.  A lax string field that was
     given an int or a bool holds its text, and the text decodes to the same string; a Decimal is
     exported as its text and decodes to the same coefficient and exponent. *)
  Theorem roundtrip_scalar : forall fuel f' k v x,
    scalar_kind k = true ->
    PK (S fuel) k v = Ok x ->
    PK (S fuel) k (to_object SC (S f') x) = Ok x.
  Proof.
    intros fuel f' k v x Hk H.
    destruct k as [lit|members|strict minl maxl cs|fc minl maxl cs|strict|strict ge le gt|gt| | | |];
      try discriminate; cbn [parse_kind] in H; unfold reject, unsupported in *.
    - (* KLiteral *)
      destruct v as [| | | |s| |]; try discriminate.
      destruct (str_eqb s $lit) eqn:E; [|discriminate]. inv_ok H.
      cbn [to_object parse_kind]. rewrite E. reflexivity.
    - (* KEnum *)
      destruct v as [| | | |s| |]; try discriminate.
      destruct (existsb (fun m => str_eqb s $m) members) eqn:E; [|discriminate]. inv_ok H.
      cbn [to_object parse_kind]. rewrite E. reflexivity.
    - (* KStr *)
      destruct v as [|b|z|m e|s| |]; try discriminate.
      + destruct strict; [discriminate|]. pose proof (check_str_ok _ _ _ _ _ H) as E. subst x.
        cbn [to_object parse_kind]. exact H.
      + destruct strict; [discriminate|]. pose proof (check_str_ok _ _ _ _ _ H) as E. subst x.
        cbn [to_object parse_kind]. exact H.
      + destruct strict; discriminate.
      + pose proof (check_str_ok _ _ _ _ _ H) as E. subst x. cbn [to_object parse_kind]. exact H.
    - (* KFormat *)
      destruct v as [| | | |s| |]; try discriminate.
      destruct (Charsets.len_ok minl maxl s && Charsets.cs_ok cs s && fs_ok classify s) eqn:E; [|discriminate].
      inv_ok H. cbn [to_object parse_kind]. rewrite E. reflexivity.
    - (* KBool *)
      destruct v as [|b| | | | |]; try (destruct strict; discriminate). inv_ok H. reflexivity.
    - (* KInt *)
      assert (Hfin : forall z, (if zopt_ok ge le gt z then Ok (MInt z) else Raise ValueError) = Ok x ->
                               PK (S fuel) (KInt strict ge le gt) (to_object SC (S f') x) = Ok x).
      { intros z Hz. destruct (zopt_ok ge le gt z) eqn:E; [|discriminate]. inv_ok Hz.
        cbn [to_object parse_kind]. rewrite E. reflexivity. }
      destruct v as [|b|z|m e|s| |]; try discriminate.
      + destruct strict; [discriminate|]. eapply Hfin. exact H.
      + eapply Hfin. exact H.
      + destruct strict; [discriminate|]. destruct (dec_integral m e); [|discriminate]. eapply Hfin. exact H.
      + destruct strict; [discriminate|]. destruct (parse_int s) as [z|]; [|discriminate]. eapply Hfin. exact H.
    - (* KFloat *)
      assert (Hfin : forall m e,
                 match gt with
                 | Some b => if num_ltb (num_of_Z b) (mkNum m e) then Ok (MFloat m e) else Raise ValueError
                 | None => Ok (MFloat m e)
                 end = Ok x ->
                 PK (S fuel) (KFloat gt) (to_object SC (S f') x) = Ok x).
      { intros m e Hz. destruct gt as [b|].
        - destruct (num_ltb (num_of_Z b) (mkNum m e)) eqn:E; [|discriminate]. inv_ok Hz.
          cbn [to_object parse_kind]. rewrite E. reflexivity.
        - inv_ok Hz. reflexivity. }
      destruct v as [|b|z|m e|s| |]; try discriminate; eapply Hfin; exact H.
    - (* KDec *)
      destruct v as [|b|z|m e|s| |]; try discriminate.
      + inv_ok H. cbn [to_object parse_kind]. rewrite parse_dec_print_dec. reflexivity.
      + inv_ok H. cbn [to_object parse_kind]. rewrite parse_dec_print_dec. reflexivity.
      + destruct (parse_dec s) as [[m e| |]|]; try discriminate. inv_ok H.
        cbn [to_object parse_kind]. rewrite parse_dec_print_dec. reflexivity.
  Qed.
End ScalarRT.

(* ------------------------------------------------------------------------------------------ *)
(* 5. one-step unfolding of the structural parser (top-level mirrors of its local functions)   *)

Section Bodies.
  Variable SC : schema_t.
  Variable classify : N -> cclass.
  Variable pre : string -> json -> bool.
  Variable post : string -> json -> list (string * mval) -> bool.
  Variable pk : kind -> json -> outcome mval.
  Variable pc : string -> json -> outcome mval.

  Definition scalar_body (k : kind) (v : json) : outcome mval :=
    match k with
    | KLiteral lit => match v with JStr s => if str_eqb s (str_of_string lit) then Ok (MStr s) else reject | _ => reject end
    | KEnum members =>
      match v with
      | JStr s => if existsb (fun m => str_eqb s (str_of_string m)) members then Ok (MStr s) else reject
      | _ => reject
      end
    | KStr strict minl maxl cs =>
      match v with
      | JStr s => check_str minl maxl cs s
      | JInt z => if strict then reject else check_str minl maxl cs (print_Z z)
      | JBool b => if strict then reject else check_str minl maxl cs (if b then s_True else s_False)
      | JDec _ _ => if strict then reject else unsupported
      | _ => reject
      end
    | KFormat _ minl maxl cs =>
      match v with
      | JStr s => if len_ok minl maxl s && cs_ok cs s && fs_ok classify s then Ok (MFmt s) else reject
      | _ => reject
      end
    | KBool strict =>
      match v with
      | JBool b => Ok (MBool b)
      | _ => if strict then reject else unsupported
      end
    | KInt strict ge le gt =>
      let fin (z : Z) : outcome mval := if zopt_ok ge le gt z then Ok (MInt z) else reject in
      match v with
      | JInt z => fin z
      | JBool b => if strict then reject else fin (if b then 1 else 0)%Z
      | JStr s => if strict then reject else match parse_int s with Some z => fin z | None => reject end
      | JDec m e => if strict then reject else if dec_integral m e then fin (trunc_dec m e) else reject
      | _ => reject
      end
    | KFloat gt =>
      let fin (m e : Z) : outcome mval :=
        match gt with
        | Some b => if num_ltb (num_of_Z b) (mkNum m e) then Ok (MFloat m e) else reject
        | None => Ok (MFloat m e)
        end in
      match v with
      | JInt z => fin z 0%Z
      | JDec m e => fin m e
      | JBool b => fin (if b then 1 else 0)%Z 0%Z
      | JStr _ => unsupported
      | _ => reject
      end
    | KDec =>
      match v with
      | JInt z => Ok (MDec z 0)
      | JDec m e => Ok (MDec m e)
      | JStr s => match parse_dec s with Some (Fin m e) => Ok (MDec m e) | _ => reject end
      | _ => reject
      end
    | _ => Raise RuntimeError
    end.

  Definition list_value (minl maxl : option N) (k : kind) (v : json) : outcome mval :=
    match v with
    | JArr items =>
      if len_ok_n minl maxl (List.length items)
      then do l' <- mapM (pk k) items; Ok (MList l')
      else reject
    | _ => reject
    end.

  Definition alt_value (a : ualt) (v : json) : outcome mval :=
    match a with
    | UScalar k' => pk k' v
    | UList minl maxl k' => list_value minl maxl k' v
    end.

  Fixpoint try_alts (l : list ualt) (v : json) : outcome mval :=
    match l with
    | [] => reject
    | a :: r =>
      match alt_value a v with
      | Ok x => Ok x
      | Raise RuntimeError => Raise RuntimeError
      | Raise _ => try_alts r v
      end
    end.

  Definition disc_value (key : string) (mapping : list (string * string)) (v : json) : outcome mval :=
    match v with
    | JObj ms =>
      match assoc (str_of_string key) ms with
      | Some (JStr s) =>
        match List.find (fun kc => str_eqb (str_of_string (fst kc)) s) mapping with
        | Some (_, c) => pc c v
        | None => reject
        end
      | _ => reject
      end
    | _ => reject
    end.

  Definition kind_body (k : kind) (v : json) : outcome mval :=
    match k with
    | KModel c => pc c v
    | KDisc key mapping => disc_value key mapping v
    | KUnion alts => try_alts alts v
    | _ => scalar_body k v
    end.

  Definition dict_member (kk k : kind) (kv : str * json) : outcome (str * mval) :=
    do _ <- pk kk (JStr (fst kv));
    do y <- pk k (snd kv);
    Ok (fst kv, y).

  Definition dict_value (kk k : kind) (raw : json) : outcome mval :=
    match raw with
    | JObj members => do l' <- mapM (dict_member kk k) members; Ok (MDict l')
    | _ => reject
    end.

  Definition shape_value (fl : field) (raw : json) : outcome mval :=
    match f_shape fl with
    | Single => pk (f_kind fl) raw
    | ListOf minl maxl => list_value minl maxl (f_kind fl) raw
    | DictOf kk => dict_value kk (f_kind fl) raw
    end.

  Definition field_value (fl : field) (raw : json) : outcome mval :=
    match raw with
    | JNull => if f_required fl then reject else Ok MNone
    | _ => shape_value fl raw
    end.

  Definition raw_of (fl : field) (ms : list (str * json)) : json :=
    match assoc (str_of_string (f_alias fl)) ms with Some x => x | None => JNull end.

  Definition parse_field (ms : list (str * json)) (fl : field) : outcome (string * mval) :=
    do x <- field_value fl (raw_of fl ms); Ok (f_name fl, x).

  Definition extra_ok (c : cls) (ms : list (str * json)) : bool :=
    negb (c_extra_forbid c && negb (forallb (fun kv => existsb (fun fl => str_eqb (fst kv) (str_of_string (f_alias fl))) (c_fields c)) ms)).

  Definition cls_body (cname : string) (v : json) : outcome mval :=
    match lookup_cls SC cname, v with
    | Some c, JObj ms =>
      if negb (pre cname v) then reject
      else if negb (extra_ok c ms) then reject
      else
        do fields <- mapM (parse_field ms) (c_fields c);
        if post cname v fields then Ok (MModel cname fields) else reject
    | Some _, _ => reject
    | None, _ => Raise RuntimeError
    end.
End Bodies.

Lemma parse_kind_S : forall SC classify pre post f k v,
  parse_kind SC classify pre post (S f) k v
  = kind_body classify (parse_kind SC classify pre post f) (parse_cls SC classify pre post f) k v.
Proof.
  intros. destruct k; try reflexivity.
  - (* union *) cbn [parse_kind kind_body]. induction alts as [|a r IH]; [reflexivity|].
    cbn [try_alts]. rewrite <- IH. destruct a; reflexivity.
Qed.

Lemma parse_cls_S : forall SC classify pre post f c v,
  parse_cls SC classify pre post (S f) c v
  = cls_body SC pre post (parse_kind SC classify pre post f) c v.
Proof.
  intros. cbn [parse_cls]. unfold cls_body. destruct (lookup_cls SC c) as [k|]; [|reflexivity].
  destruct v; try reflexivity.
  destruct (negb (pre c (JObj members))); [reflexivity|].
  unfold extra_ok. rewrite negb_involutive.
  destruct (c_extra_forbid k && _); [reflexivity|]. 
  f_equal.
Qed.

(* ------------------------------------------------------------------------------------------ *)
(* 6. what the parser returns never has a None list item: every decoded model exports plain     *)

Lemma mapM_Forall2 : forall (A B : Type) (f : A -> outcome B) l l',
  mapM f l = Ok l' -> Forall2 (fun a b => f a = Ok b) l l'.
Proof.
  induction l as [|a l IH]; intros l' H.
  - inversion H. constructor.
  - cbn [mapM] in H. destruct (f a) as [b|e] eqn:Ea; [|discriminate]. cbn [bind] in H.
    destruct (mapM f l) as [bs|e] eqn:El; [|discriminate]. cbn [bind] in H. inversion H. subst l'.
    constructor; [exact Ea|]. apply IH. reflexivity.
Qed.

Lemma Forall2_mapM : forall (A B : Type) (f : A -> outcome B) l l',
  Forall2 (fun a b => f a = Ok b) l l' -> mapM f l = Ok l'.
Proof.
  intros A B f l l' H. induction H as [|a b l l' Hab _ IH]; [reflexivity|].
  cbn [mapM]. rewrite Hab. cbn [bind]. rewrite IH. reflexivity.
Qed.

Definition sval (x : mval) : bool :=
  match x with MBool _ | MInt _ | MDec _ _ | MFloat _ _ | MStr _ | MFmt _ => true | _ => false end.

Lemma sval_nn : forall x, sval x = true -> no_none_items x = true.
Proof. intros x H. destruct x; try discriminate; reflexivity. Qed.

Lemma scalar_body_sval : forall classify k v x, scalar_body classify k v = Ok x -> sval x = true.
Proof.
  intros classify k v x H.
  destruct k as [lit|members|strict minl maxl cs|fc minl maxl cs|strict|strict ge le gt|gt| | | |];
    cbn [scalar_body] in H; unfold reject, unsupported in *; try discriminate.
  - destruct v; try discriminate. destruct (str_eqb s $lit); [|discriminate]. inversion H. reflexivity.
  - destruct v; try discriminate. destruct (existsb _ members); [|discriminate]. inversion H. reflexivity.
  - destruct v; try discriminate; try (destruct strict; try discriminate);
      apply check_str_ok in H; subst x; reflexivity.
  - destruct v; try discriminate. destruct (len_ok minl maxl s && cs_ok cs s && fs_ok classify s); [|discriminate].
    inversion H. reflexivity.
  - destruct v; try (destruct strict; discriminate). inversion H. reflexivity.
  - assert (Hfin : forall z, (if zopt_ok ge le gt z then Ok (MInt z) else Raise ValueError) = Ok x -> sval x = true).
    { intros z Hz. destruct (zopt_ok ge le gt z); [|discriminate]. inversion Hz. reflexivity. }
    destruct v as [|b|z|dm de|s| |]; try discriminate; try (destruct strict; try discriminate); try (eapply Hfin; exact H).
    + destruct (dec_integral dm de); [|discriminate]. eapply Hfin; exact H.
    + destruct (parse_int s); [|discriminate]. eapply Hfin; exact H.
  - assert (Hfin : forall m e,
               match gt with
               | Some b => if num_ltb (num_of_Z b) (mkNum m e) then Ok (MFloat m e) else Raise ValueError
               | None => Ok (MFloat m e)
               end = Ok x -> sval x = true).
    { intros m e Hz. destruct gt as [b|]; [destruct (num_ltb _ _); [|discriminate]|]; inversion Hz; reflexivity. }
    destruct v; try discriminate; eapply Hfin; exact H.
  - destruct v; try discriminate; try (inversion H; reflexivity).
    destruct (parse_dec s) as [[m e| |]|]; try discriminate. inversion H. reflexivity.
Qed.

Section NoNone.
  Variable SC : schema_t.
  Variable classify : N -> cclass.
  Variable pre : string -> json -> bool.
  Variable post : string -> json -> list (string * mval) -> bool.

  Section Step.
    Variable pk : kind -> json -> outcome mval.
    Variable pc : string -> json -> outcome mval.
    Hypothesis Hpk : forall k v x, pk k v = Ok x -> no_none_items x = true.
    Hypothesis Hpc : forall c v x, pc c v = Ok x -> no_none_items x = true.

    Lemma list_value_nn : forall minl maxl k v x, list_value pk minl maxl k v = Ok x -> no_none_items x = true.
    Proof.
      intros minl maxl k v x H. unfold list_value in H. destruct v; try discriminate.
      destruct (len_ok_n minl maxl (List.length l)); [|discriminate].
      destruct (mapM (pk k) l) as [l'|] eqn:E; [|discriminate]. cbn [bind] in H. inversion H. subst x.
      apply mapM_Forall2 in E. cbn [no_none_items]. rewrite forallb_forall. intros y Hy.
      clear H. induction E as [|a b l l' Hab _ IH]; [destruct Hy|].
      destruct Hy as [Hy|Hy]; [subst; eapply Hpk; exact Hab|apply IH; exact Hy].
    Qed.

    Lemma try_alts_nn : forall alts v x, try_alts pk alts v = Ok x -> no_none_items x = true.
    Proof.
      induction alts as [|a r IH]; intros v x H; [discriminate|].
      cbn [try_alts] in H. destruct (alt_value pk a v) as [y|e] eqn:E.
      - inversion H. subst y. destruct a; cbn [alt_value] in E; [eapply Hpk; exact E|eapply list_value_nn; exact E].
      - destruct e; try discriminate; eapply IH; exact H.
    Qed.

    Lemma kind_body_nn : forall k v x, kind_body classify pk pc k v = Ok x -> no_none_items x = true.
    Proof.
      intros k v x H. destruct k; try (apply sval_nn; eapply scalar_body_sval; exact H).
      - eapply Hpc. exact H.
      - cbn [kind_body] in H. unfold disc_value in H. destruct v; try discriminate.
        destruct (assoc $key members) as [[| | | |s| |]|]; try discriminate.
        destruct (List.find _ mapping) as [[t c]|]; [|discriminate]. eapply Hpc. exact H.
      - eapply try_alts_nn. exact H.
    Qed.

    Lemma dict_value_nn : forall kk k v x, dict_value pk kk k v = Ok x -> no_none_items x = true.
    Proof.
      intros kk k v x H. unfold dict_value in H.
      destruct v as [| | | |s|l|members]; try discriminate.
      destruct (mapM (dict_member pk kk k) members) as [l'|] eqn:E; [|discriminate]. cbn [bind] in H.
        inversion H. subst x. apply mapM_Forall2 in E. cbn [no_none_items]. rewrite forallb_forall.
        intros y Hy. clear H. induction E as [|a b l l' Hab _ IH]; [destruct Hy|].
        destruct Hy as [Hy|Hy]; [|apply IH; exact Hy]. subst y.
        unfold dict_member in Hab. destruct (pk kk (JStr (fst a))); [|discriminate]. cbn [bind] in Hab.
        destruct (pk k (snd a)) as [z|] eqn:Ez; [|discriminate]. cbn [bind] in Hab. inversion Hab.
        cbn [snd]. rewrite (Hpk _ _ _ Ez). apply orb_true_r.
    Qed.

    Lemma field_value_nn : forall fl raw x, field_value pk fl raw = Ok x ->
      mnone x || no_none_items x = true.
    Proof.
      intros fl raw x H. unfold field_value in H.
      assert (Hs : shape_value pk fl raw = Ok x -> no_none_items x = true).
      { unfold shape_value. destruct (f_shape fl); intros Hx; [eapply Hpk|eapply list_value_nn|eapply dict_value_nn]; exact Hx. }
      destruct raw; try (rewrite Hs by exact H; apply orb_true_r).
      destruct (f_required fl); [discriminate|]. inversion H. reflexivity.
    Qed.

    Lemma cls_body_nn : forall c v x, cls_body SC pre post pk c v = Ok x -> no_none_items x = true.
    Proof.
      intros c v x H. unfold cls_body in H. destruct (lookup_cls SC c) as [k|]; [|discriminate].
      destruct v; try discriminate.
      destruct (negb (pre c (JObj members))); [discriminate|].
      destruct (negb (extra_ok k members)); [discriminate|].
      destruct (mapM (parse_field pk members) (c_fields k)) as [fields|] eqn:E; [|discriminate]. cbn [bind] in H.
      destruct (post c (JObj members) fields); [|discriminate]. inversion H. subst x.
      apply mapM_Forall2 in E. cbn [no_none_items]. rewrite forallb_forall. intros y Hy.
      clear H. induction E as [|a b l l' Hab _ IH]; [destruct Hy|].
      destruct Hy as [Hy|Hy]; [|apply IH; exact Hy]. subst y.
      unfold parse_field in Hab. destruct (field_value pk a (raw_of a members)) as [z|] eqn:Ez; [|discriminate].
      cbn [bind] in Hab. inversion Hab. cbn [snd]. eapply field_value_nn. exact Ez.
    Qed.
  End Step.

  Lemma parse_nn : forall f,
    (forall k v x, parse_kind SC classify pre post f k v = Ok x -> no_none_items x = true)
    /\ (forall c v x, parse_cls SC classify pre post f c v = Ok x -> no_none_items x = true).
  Proof.
    induction f as [|f [IHk IHc]]; [split; intros; discriminate|].
    split.
    - intros k v x H. rewrite parse_kind_S in H. eapply kind_body_nn; eassumption.
    - intros c v x H. rewrite parse_cls_S in H. eapply cls_body_nn; eassumption.
  Qed.

  Theorem parsed_exports_plain : forall f c v x fuel,
    parse_cls SC classify pre post f c v = Ok x -> mval_depth x < fuel ->
    plain (to_object SC fuel x) = true.
  Proof.
    intros f c v x fuel H Hd. apply to_object_plain; [|exact Hd].
    destruct (parse_nn f) as [_ Hc]. eapply Hc. exact H.
  Qed.
End NoNone.

(* ------------------------------------------------------------------------------------------ *)
(* 7. the export with canonical fuel                                                           *)

Lemma flat_map_ext_in' : forall (A B : Type) (f g : A -> list B) l,
  (forall a, In a l -> f a = g a) -> flat_map f l = flat_map g l.
Proof.
  induction l as [|a l IH]; intros H; [reflexivity|]. cbn [flat_map].
  rewrite (H a (or_introl eq_refl)). rewrite IH; [reflexivity|]. intros b Hb. apply H. right. exact Hb.
Qed.

Section Exp.
  Variable SC : schema_t.

  Lemma to_object_irrel : forall F1 F2 x,
    mval_depth x < F1 -> mval_depth x < F2 -> to_object SC F1 x = to_object SC F2 x.
  Proof.
    induction F1 as [|F1 IH]; intros F2 x H1 H2; [lia|]. destruct F2 as [|F2]; [lia|].
    destruct x as [ | | | | | | |l|l|c fs]; try reflexivity.
    - cbn [to_object]. f_equal. apply map_ext_in. intros y Hy.
      apply (depth_le_max' _ mval_depth) in Hy. cbn [mval_depth] in H1, H2. apply IH; lia.
    - cbn [to_object]. f_equal. apply flat_map_ext_in'. intros [k y] Hy.
      apply (depth_le_max' _ (fun kv : str * mval => mval_depth (snd kv))) in Hy.
      cbn [mval_depth snd] in H1, H2, Hy. cbn [snd fst].
      destruct y; try reflexivity; (rewrite (IH F2); [reflexivity|lia|lia]).
    - cbn [to_object]. f_equal. apply flat_map_ext_in'. intros [k y] Hy.
      apply (depth_le_max' _ (fun kv : string * mval => mval_depth (snd kv))) in Hy.
      cbn [mval_depth snd] in H1, H2, Hy. cbn [snd fst].
      destruct y; try reflexivity; (rewrite (IH F2); [reflexivity|lia|lia]).
  Qed.

  Definition exp (x : mval) : json := to_object SC (S (mval_depth x)) x.

  Lemma to_object_exp : forall F x, mval_depth x < F -> to_object SC F x = exp x.
  Proof. intros F x H. unfold exp. apply to_object_irrel; lia. Qed.

  Lemma exp_list : forall l, exp (MList l) = JArr (map exp l).
  Proof.
    intros l. unfold exp at 1. cbn [to_object]. f_equal. apply map_ext_in. intros y Hy.
    apply to_object_exp. apply (depth_le_max' _ mval_depth) in Hy. cbn [mval_depth]. lia.
  Qed.

  Lemma exp_dict : forall l,
    (forall kv, In kv l -> mnone (snd kv) = false) ->
    exp (MDict l) = JObj (map (fun kv => (fst kv, exp (snd kv))) l).
  Proof.
    intros l Hn. unfold exp at 1. cbn [to_object]. f_equal.
    assert (Hd : forall kv, In kv l -> to_object SC (mval_depth (MDict l)) (snd kv) = exp (snd kv)).
    { intros kv Hy. apply to_object_exp.
      apply (depth_le_max' _ (fun kv : str * mval => mval_depth (snd kv))) in Hy. cbn [mval_depth]. lia. }
    revert Hn Hd. generalize (mval_depth (MDict l)) as F. intros F.
    induction l as [|[k y] l IH]; intros Hn Hd; [reflexivity|].
    cbn [flat_map map snd fst].
    rewrite IH; [|intros kv Hkv; apply Hn; right; exact Hkv|intros kv Hkv; apply Hd; right; exact Hkv].
    specialize (Hn (k, y) (or_introl eq_refl)). specialize (Hd (k, y) (or_introl eq_refl)).
    cbn [snd] in Hn, Hd. destruct y; try discriminate; rewrite Hd; reflexivity.
  Qed.

  Lemma emit_ext : forall (g g' : mval -> json) l,
    (forall p, In p l -> g (snd p) = g' (snd p)) -> emit g l = emit g' l.
  Proof.
    intros g g' l H. unfold emit. apply flat_map_ext_in'. intros [fl y] Hy. specialize (H _ Hy).
    cbn [snd fst] in *. destruct y; try reflexivity; rewrite H; reflexivity.
  Qed.

  Lemma in_combine_snd_depth : forall (fields : list field) (names : list string) vals fl y,
    In (fl, y) (combine fields vals) ->
    mval_depth y < mval_depth (MModel "" (combine names vals)) \/ List.length names < List.length vals.
  Proof.
    intros fields names vals fl y H. apply in_combine_r in H.
    destruct (Nat.lt_ge_cases (List.length names) (List.length vals)) as [Hl|Hl]; [right; exact Hl|left].
    cbn [mval_depth].
    assert (Hin : exists n, In (n, y) (combine names vals)).
    { clear fields fl. revert names Hl. induction vals as [|v vals IH]; intros names Hl; [destruct H|].
      destruct names as [|n names]; [cbn in Hl; lia|]. destruct H as [H|H].
      - subst. exists n. left. reflexivity.
      - cbn [List.length] in Hl. destruct (IH H names) as [n' Hn']; [lia|]. exists n'. right. exact Hn'. }
    destruct Hin as [n Hn].
    apply (depth_le_max' _ (fun kv : string * mval => mval_depth (snd kv))) in Hn. cbn [snd] in Hn. lia.
  Qed.

  Lemma exp_model : forall c k (vals : list mval),
    lookup_cls SC c = Some k -> NoDup (map f_name (c_fields k)) ->
    List.length vals = List.length (c_fields k) ->
    exp (MModel c (combine (map f_name (c_fields k)) vals))
    = JObj (emit exp (combine (c_fields k) vals)).
  Proof.
    intros c k vals Hl Hnd Hlen. unfold exp at 1.
    rewrite (to_object_model SC _ c k vals Hl Hnd Hlen). f_equal. apply emit_ext.
    intros [fl y] Hy. cbn [snd]. apply to_object_exp.
    destruct (in_combine_snd_depth _ (map f_name (c_fields k)) _ _ _ Hy) as [H|H].
    - cbn [mval_depth] in *. exact H.
    - rewrite map_length in H. lia.
  Qed.

  Lemma exp_not_null : forall x, mnone x = false -> exp x <> JNull.
  Proof. intros x H. destruct x; try discriminate; unfold exp; cbn [to_object]; discriminate. Qed.

  Lemma exp_none : exp MNone = JNull.
  Proof. reflexivity. Qed.
End Exp.

(* ------------------------------------------------------------------------------------------ *)
(* 8. the generic round trip  decode (export x) = x                                            *)

Definition str_kind (k : kind) : bool :=
  match k with KLiteral _ | KEnum _ | KStr _ _ _ _ | KFormat _ _ _ _ => true | _ => false end.

(* kinds that accept a value only in the form in which it is exported again *)
Definition exact_kind (k : kind) : bool :=
  match k with
  | KLiteral _ | KEnum _ | KFormat _ _ _ _ | KBool _ => true
  | KStr strict _ _ _ => strict
  | _ => false
  end.

Definition exact_alt (a : ualt) : bool := match a with UScalar k => exact_kind k | UList _ _ _ => false end.
Definition single_shape (s : shape) : bool := match s with Single => true | _ => false end.

Section RtConditions.
  Variable SC : schema_t.
  Variable CL : list string.     (* the classes covered *)

  (* class [c] has a single string-valued field read under the key [key] *)
  Definition disc_field_ok (key c : string) : bool :=
    match lookup_cls SC c with
    | Some k => existsb (fun fl => String.eqb (f_alias fl) key && single_shape (f_shape fl) && str_kind (f_kind fl))
                        (c_fields k)
    | None => true
    end.

  (* referenced classes are covered; discriminators are re-readable; in an ordered union every
     alternative after the first is exact *)
  Fixpoint kind_ok (k : kind) : bool :=
    match k with
    | KModel c => mem_s c CL
    | KDisc key mapping => forallb (fun tc => mem_s (snd tc) CL && disc_field_ok key (snd tc)) mapping
    | KUnion alts =>
      (fix all (l : list ualt) : bool :=
         match l with
         | [] => true
         | a :: r => (match a with UScalar k' => kind_ok k' | UList _ _ k' => kind_ok k' end) && all r
         end) alts
      && match alts with [] => true | _ :: r => forallb exact_alt r end
    | _ => true
    end.

  Definition ualt_ok (a : ualt) : bool := match a with UScalar k' => kind_ok k' | UList _ _ k' => kind_ok k' end.

  Lemma kind_ok_union : forall alts,
    kind_ok (KUnion alts) = forallb ualt_ok alts && match alts with [] => true | _ :: r => forallb exact_alt r end.
  Proof.
    intros alts. cbn [kind_ok]. f_equal;
      (induction alts as [|a r IH]; [reflexivity|cbn [forallb]; rewrite <- IH; reflexivity]).
  Qed.

  Definition cls_ok (c : string) : bool :=
    match lookup_cls SC c with
    | Some k => nodup_sb (map f_name (c_fields k)) && nodup_sb (map f_alias (c_fields k))
                && forallb (fun fl => kind_ok (f_kind fl)) (c_fields k)
    | None => true
    end.

  Definition schema_rt_ok : bool := forallb cls_ok CL.
End RtConditions.

Lemma mapM_map_id : forall (A B : Type) (f : A -> outcome B) (g : B -> A) l,
  (forall b, In b l -> f (g b) = Ok b) -> mapM f (map g l) = Ok l.
Proof.
  induction l as [|b l IH]; intros H; [reflexivity|]. cbn [map mapM].
  rewrite (H b (or_introl eq_refl)). cbn [bind]. rewrite IH; [reflexivity|].
  intros b' Hb'. apply H. right. exact Hb'.
Qed.

Lemma Forall2_length' : forall (A B : Type) (R : A -> B -> Prop) l l', Forall2 R l l' -> List.length l = List.length l'.
Proof. intros A B R l l' H. induction H; [reflexivity|cbn; f_equal; assumption]. Qed.

Lemma Forall2_in_r : forall (A B : Type) (R : A -> B -> Prop) l l' b,
  Forall2 R l l' -> In b l' -> exists a, In a l /\ R a b.
Proof.
  intros A B R l l' b H. induction H as [|a0 b0 l l' Hab _ IH]; intros Hb; [destruct Hb|].
  destruct Hb as [Hb|Hb]; [subst; exists a0; split; [left; reflexivity|exact Hab]|].
  destruct (IH Hb) as [a [Ha HR]]. exists a. split; [right; exact Ha|exact HR].
Qed.

Lemma Forall2_combine_in : forall (A B : Type) (R : A -> B -> Prop) l l' a b,
  Forall2 R l l' -> In (a, b) (combine l l') -> R a b.
Proof.
  intros A B R l l' a b H. induction H as [|a0 b0 l l' Hab _ IH]; intros Hin; [destruct Hin|].
  destruct Hin as [Hin|Hin]; [inversion Hin; subst; exact Hab|apply IH; exact Hin].
Qed.

Section RtStep.
  Variable SC : schema_t.
  Variable classify : N -> cclass.
  Variable pre : string -> json -> bool.
  Variable post : string -> json -> list (string * mval) -> bool.
  Variable CL : list string.
  Hypothesis Hcl : schema_rt_ok SC CL = true.

  Notation EXP := (exp SC).
  Notation KOK := (kind_ok SC CL).

  Variable pk : kind -> json -> outcome mval.
  Variable pc : string -> json -> outcome mval.
  Hypothesis NNk : forall k v x, pk k v = Ok x -> no_none_items x = true.
  Hypothesis IHk : forall k v x, KOK k = true -> pk k v = Ok x -> pk k (EXP x) = Ok x.
  Hypothesis IHc : forall c v x, In c CL -> pc c v = Ok x -> pc c (EXP x) = Ok x.
  Hypothesis Hexact : forall k v x, exact_kind k = true -> pk k v = Ok x -> EXP x = v.
  Hypothesis Hdisc : forall key c ms s x,
    In c CL -> disc_field_ok SC key c = true -> assoc (str_of_string key) ms = Some (JStr s) ->
    pc c (JObj ms) = Ok x -> exists ms', EXP x = JObj ms' /\ assoc (str_of_string key) ms' = Some (JStr s).
  Hypothesis Hhooks : forall c ms flds,
    In c CL -> cls_body SC pre post pk c (JObj ms) = Ok (MModel c flds) ->
    pre c (EXP (MModel c flds)) = true /\ post c (EXP (MModel c flds)) flds = true.

  Lemma nn_not_none : forall x, no_none_items x = true -> mnone x = false.
  Proof. intros x H. destruct x; try reflexivity. discriminate. Qed.

  Lemma list_value_rt : forall minl maxl k v x,
    KOK k = true -> list_value pk minl maxl k v = Ok x -> list_value pk minl maxl k (EXP x) = Ok x.
  Proof.
    intros minl maxl k v x Hk H. unfold list_value in H. destruct v as [| | | | |items|]; try discriminate.
    destruct (len_ok_n minl maxl (List.length items)) eqn:El; [|discriminate].
    destruct (mapM (pk k) items) as [l'|] eqn:E; [|discriminate]. cbn [bind] in H. inversion H. subst x.
    apply mapM_Forall2 in E. rewrite exp_list. unfold list_value. rewrite map_length.
    rewrite <- (Forall2_length' _ _ _ _ _ E). rewrite El.
    rewrite mapM_map_id; [reflexivity|].
    intros b Hb. destruct (Forall2_in_r _ _ _ _ _ _ E Hb) as [a [_ Hab]]. eapply IHk; eassumption.
  Qed.

  Lemma alt_value_rt : forall a v x,
    ualt_ok SC CL a = true -> alt_value pk a v = Ok x -> alt_value pk a (EXP x) = Ok x.
  Proof.
    intros a v x Ha H. destruct a; cbn [alt_value ualt_ok] in *; [eapply IHk|eapply list_value_rt]; eassumption.
  Qed.

  Lemma try_alts_exact : forall alts v x,
    forallb exact_alt alts = true -> try_alts pk alts v = Ok x -> EXP x = v.
  Proof.
    induction alts as [|a r IH]; intros v x He H; [discriminate|].
    cbn [forallb] in He. apply andb_true_iff in He. destruct He as [Ha Hr].
    cbn [try_alts] in H. destruct (alt_value pk a v) as [y|e] eqn:E.
    - inversion H. subst y. destruct a; [|discriminate]. cbn [alt_value exact_alt] in *.
      eapply Hexact; eassumption.
    - destruct e; try discriminate; eapply IH; eassumption.
  Qed.

  Lemma try_alts_rt : forall alts v x,
    forallb (ualt_ok SC CL) alts = true ->
    match alts with [] => true | _ :: r => forallb exact_alt r end = true ->
    try_alts pk alts v = Ok x -> try_alts pk alts (EXP x) = Ok x.
  Proof.
    intros alts v x Hok Hex H. destruct alts as [|a r]; [discriminate|].
    cbn [forallb] in Hok. apply andb_true_iff in Hok. destruct Hok as [Ha Hr].
    cbn [try_alts] in H. destruct (alt_value pk a v) as [y|e] eqn:E.
    - inversion H. subst y. cbn [try_alts]. rewrite (alt_value_rt _ _ _ Ha E). reflexivity.
    - assert (Hx : try_alts pk r v = Ok x) by (destruct e; try discriminate; exact H).
      rewrite (try_alts_exact r v x Hex Hx). cbn [try_alts]. rewrite E. exact H.
  Qed.

  Lemma disc_value_rt : forall key mapping v x,
    KOK (KDisc key mapping) = true ->
    disc_value pc key mapping v = Ok x -> disc_value pc key mapping (EXP x) = Ok x.
  Proof.
    intros key mapping v x Hk H. unfold disc_value in H. destruct v as [| | | | | |ms]; try discriminate.
    destruct (assoc $key ms) as [[| | | |s| |]|] eqn:Ea; try discriminate.
    destruct (List.find (fun kc => str_eqb $(fst kc) s) mapping) as [[t c]|] eqn:Ef; [|discriminate].
    cbn [kind_ok] in Hk. rewrite forallb_forall in Hk. pose proof (find_some _ _ Ef) as [Hin _].
    specialize (Hk _ Hin). cbn [snd] in Hk. apply andb_true_iff in Hk. destruct Hk as [Hc Hd].
    apply mem_s_In in Hc.
    destruct (Hdisc key c ms s x Hc Hd Ea H) as [ms' [Ee Ea']].
    unfold disc_value. rewrite Ee, Ea', Ef. rewrite <- Ee. eapply IHc; eassumption.
  Qed.

  Lemma scalar_body_rt : forall k v x,
    scalar_kind k = true -> scalar_body classify k v = Ok x -> scalar_body classify k (EXP x) = Ok x.
  Proof.
    intros k v x Hs H.
    pose proof (roundtrip_scalar SC classify pre post 0 1 k v x Hs) as R.
    rewrite !parse_kind_S in R.
    assert (Ek : forall w, kind_body classify (parse_kind SC classify pre post 0) (parse_cls SC classify pre post 0) k w
                           = scalar_body classify k w) by (intros w; destruct k; try discriminate; reflexivity).
    rewrite !Ek in R. specialize (R H).
    assert (Ex : to_object SC 2 x = EXP x).
    { apply to_object_exp. apply scalar_body_sval in H. destruct x; try discriminate; cbn; lia. }
    rewrite Ex in R. exact R.
  Qed.

  Lemma kind_body_rt : forall k v x,
    KOK k = true -> kind_body classify pk pc k v = Ok x -> kind_body classify pk pc k (EXP x) = Ok x.
  Proof.
    intros k v x Hk H. destruct k; try (apply (scalar_body_rt _ v); [reflexivity|exact H]).
    - cbn [kind_body kind_ok] in *. apply mem_s_In in Hk. eapply IHc; eassumption.
    - cbn [kind_body] in *. eapply disc_value_rt; eassumption.
    - cbn [kind_body] in *. rewrite kind_ok_union in Hk. apply andb_true_iff in Hk. destruct Hk as [H1 H2].
      eapply try_alts_rt; eassumption.
  Qed.

  Lemma dict_value_rt : forall kk k v x,
    KOK k = true -> dict_value pk kk k v = Ok x -> dict_value pk kk k (EXP x) = Ok x.
  Proof.
    intros kk k v x Hk H. unfold dict_value in H.
    destruct v as [| | | |s|l|members]; try discriminate.
    - destruct (mapM (dict_member pk kk k) members) as [l'|] eqn:E; [|discriminate]. cbn [bind] in H.
      inversion H. subst x. apply mapM_Forall2 in E.
      assert (Hm : forall b, In b l' -> exists w, pk kk (JStr (fst b)) = Ok w /\ pk k (EXP (snd b)) = Ok (snd b)
                                                   /\ mnone (snd b) = false).
      { intros b Hb. destruct (Forall2_in_r _ _ _ _ _ _ E Hb) as [a [_ Hab]]. unfold dict_member in Hab.
        destruct (pk kk (JStr (fst a))) as [w|] eqn:Ew; [|discriminate]. cbn [bind] in Hab.
        destruct (pk k (snd a)) as [y|] eqn:Ey; [|discriminate]. cbn [bind] in Hab. inversion Hab. subst b.
        cbn [fst snd]. exists w. split; [exact Ew|]. split; [eapply IHk; eassumption|].
        apply nn_not_none. eapply NNk. exact Ey. }
      rewrite exp_dict by (intros kv Hkv; destruct (Hm kv Hkv) as [_ [_ [_ Hn]]]; exact Hn).
      unfold dict_value.
      rewrite (mapM_map_id _ _ (dict_member pk kk k) (fun kv : str * mval => (fst kv, EXP (snd kv))) l'); [reflexivity|].
      intros [key y] Hb. destruct (Hm _ Hb) as [w [Hw [Hy _]]]. cbn [fst snd] in *.
      unfold dict_member. cbn [fst snd]. rewrite Hw. cbn [bind]. rewrite Hy. reflexivity.
  Qed.

  Lemma shape_value_rt : forall fl raw x,
    KOK (f_kind fl) = true -> shape_value pk fl raw = Ok x -> shape_value pk fl (EXP x) = Ok x.
  Proof.
    intros fl raw x Hk H. unfold shape_value in *.
    destruct (f_shape fl); [eapply IHk|eapply list_value_rt|eapply dict_value_rt]; eassumption.
  Qed.

  Lemma shape_value_nn : forall fl raw x, shape_value pk fl raw = Ok x -> no_none_items x = true.
  Proof.
    intros fl raw x H. unfold shape_value in H.
    destruct (f_shape fl); [eapply NNk|eapply list_value_nn|eapply dict_value_nn]; eassumption.
  Qed.

  (* what a successful class parse consists of *)
  Lemma cls_body_inv : forall c v x,
    cls_body SC pre post pk c v = Ok x ->
    exists k ms vals,
      lookup_cls SC c = Some k /\ v = JObj ms /\ pre c v = true /\ extra_ok k ms = true
      /\ Forall2 (fun fl y => field_value pk fl (raw_of fl ms) = Ok y) (c_fields k) vals
      /\ x = MModel c (combine (map f_name (c_fields k)) vals)
      /\ post c v (combine (map f_name (c_fields k)) vals) = true.
  Proof.
    intros c v x H. unfold cls_body in H. destruct (lookup_cls SC c) as [k|]; [|discriminate].
    destruct v as [| | | | | |ms]; try discriminate.
    destruct (pre c (JObj ms)) eqn:Ep; [|discriminate]. cbn [negb] in H.
    destruct (extra_ok k ms) eqn:Ee; [|discriminate]. cbn [negb] in H.
    destruct (mapM (parse_field pk ms) (c_fields k)) as [flds|] eqn:E; [|discriminate]. cbn [bind] in H.
    destruct (post c (JObj ms) flds) eqn:Epo; [|discriminate]. inversion H. subst x.
    apply mapM_Forall2 in E.
    assert (Hv : Forall2 (fun fl y => field_value pk fl (raw_of fl ms) = Ok y) (c_fields k) (map snd flds)
                 /\ flds = combine (map f_name (c_fields k)) (map snd flds)).
    { clear Epo H. induction E as [|fl b l l' Hab _ [IH1 IH2]]; [split; [constructor|reflexivity]|].
      unfold parse_field in Hab. destruct (field_value pk fl (raw_of fl ms)) as [y|] eqn:Ey; [|discriminate].
      cbn [bind] in Hab. inversion Hab. subst b. cbn [map snd combine]. split; [constructor; assumption|].
      f_equal. exact IH2. }
    destruct Hv as [Hv1 Hv2].
    exists k, ms, (map snd flds). repeat split; try assumption; try reflexivity.
    - rewrite <- Hv2. reflexivity.
    - rewrite <- Hv2. exact Epo.
  Qed.

  Lemma field_value_none : forall fl raw, field_value pk fl raw = Ok MNone -> f_required fl = false.
  Proof.
    intros fl raw H. unfold field_value in H.
    destruct raw; try (apply shape_value_nn in H; discriminate).
    destruct (f_required fl); [discriminate|reflexivity].
  Qed.

  Lemma field_value_some : forall fl raw x, field_value pk fl raw = Ok x -> mnone x = false ->
    shape_value pk fl raw = Ok x.
  Proof.
    intros fl raw x H Hn. unfold field_value in H. destruct raw; try exact H.
    destruct (f_required fl); [discriminate|]. inversion H. subst x. discriminate.
  Qed.

  Lemma field_value_nonnull : forall fl raw, raw <> JNull -> field_value pk fl raw = shape_value pk fl raw.
  Proof. intros fl raw H. destruct raw; try reflexivity. contradiction. Qed.

  Lemma emit_keys : forall g l kv, In kv (emit g l) -> exists p, In p l /\ fst kv = str_of_string (f_alias (fst p)).
  Proof.
    intros g l kv H. unfold emit in H. apply in_flat_map in H. destruct H as [p [Hp Hin]].
    exists p. split; [exact Hp|].
    destruct (snd p); cbn in Hin; try contradiction; destruct Hin as [Hin|[]]; subst kv; reflexivity.
  Qed.

  Lemma cls_ok_of : forall c k, In c CL -> lookup_cls SC c = Some k ->
    NoDup (map f_name (c_fields k)) /\ NoDup (map f_alias (c_fields k))
    /\ forall fl, In fl (c_fields k) -> KOK (f_kind fl) = true.
  Proof.
    intros c k Hc Hl. unfold schema_rt_ok in Hcl. rewrite forallb_forall in Hcl. specialize (Hcl c Hc).
    unfold cls_ok in Hcl. rewrite Hl in Hcl. apply andb_true_iff in Hcl. destruct Hcl as [H12 H3].
    apply andb_true_iff in H12. destruct H12 as [H1 H2]. split; [apply nodup_sb_NoDup; exact H1|].
    split; [apply nodup_sb_NoDup; exact H2|]. rewrite forallb_forall in H3. exact H3.
  Qed.

  Lemma cls_body_rt : forall c v x,
    In c CL -> cls_body SC pre post pk c v = Ok x -> cls_body SC pre post pk c (EXP x) = Ok x.
  Proof.
    intros c v x Hc H.
    destruct (cls_body_inv c v x H) as [k [ms [vals [Hl [Ev [Hpre [Hex [Hf [Ex Hpost]]]]]]]]].
    destruct (cls_ok_of c k Hc Hl) as [Hn1 [Hn2 Hko]].
    assert (Hlen : List.length vals = List.length (c_fields k)) by (symmetry; eapply Forall2_length'; exact Hf).
    subst v. subst x. set (flds := combine (map f_name (c_fields k)) vals) in *.
    destruct (Hhooks c ms flds Hc H) as [Hpre' Hpost'].
    unfold flds in Hpre', Hpost' |- *. rewrite (exp_model SC c k vals Hl Hn1 Hlen) in *.
    set (ms' := emit EXP (combine (c_fields k) vals)) in *.
    unfold cls_body. rewrite Hl. rewrite Hpre'. cbn [negb].
    assert (Hex' : extra_ok k ms' = true).
    { unfold extra_ok. apply negb_true_iff. apply andb_false_iff. right. apply negb_false_iff.
      rewrite forallb_forall. intros kv Hkv. destruct (emit_keys _ _ _ Hkv) as [[fl y] [Hp Hk]].
      apply existsb_exists. exists fl. split; [apply in_combine_l in Hp; exact Hp|].
      cbn [fst] in Hk. rewrite Hk. apply str_eqb_refl2. }
    rewrite Hex'. cbn [negb].
    assert (Hm : mapM (parse_field pk ms') (c_fields k) = Ok (combine (map f_name (c_fields k)) vals)).
    { assert (Hal : NoDup (map (fun p : field * mval => f_alias (fst p)) (combine (c_fields k) vals))).
      { rewrite <- (map_map fst f_alias). rewrite map_fst_combine by exact Hlen. exact Hn2. }
      assert (Hraw : forall fl y, In (fl, y) (combine (c_fields k) vals) ->
                                  parse_field pk ms' fl = Ok (f_name fl, y)).
      { intros fl y Hin. unfold parse_field, raw_of.
        unfold ms'. rewrite (assoc_emit EXP _ fl y Hal Hin).
        pose proof (Forall2_combine_in _ _ _ _ _ _ _ Hf Hin) as Hfv. cbn beta in Hfv.
        destruct (mnone y) eqn:Eny.
        - destruct y; try discriminate. cbn [present option_map]. unfold field_value.
          rewrite (field_value_none _ _ Hfv). reflexivity.
        - assert (Hp : present y = Some y) by (destruct y; try reflexivity; discriminate).
          rewrite Hp. cbn [option_map]. rewrite field_value_nonnull by (apply exp_not_null; exact Eny).
          rewrite (shape_value_rt fl (raw_of fl ms) y); [reflexivity| |].
          + apply Hko. apply in_combine_l in Hin. exact Hin.
          + apply field_value_some; assumption. }
      clearbody ms'. clear - Hraw Hlen. revert vals Hlen Hraw. generalize (c_fields k) as fields.
      induction fields as [|fl r IH]; intros vals Hlen Hraw.
      - destruct vals; [reflexivity|discriminate].
      - destruct vals as [|y vals]; [discriminate|]. cbn [mapM map combine].
        rewrite (Hraw fl y (or_introl eq_refl)). cbn [bind].
        rewrite (IH vals); [reflexivity|cbn in Hlen; lia|].
        intros fl' y' Hin. apply Hraw. right. exact Hin. }
    rewrite Hm. cbn [bind]. rewrite Hpost'. reflexivity.
  Qed.
End RtStep.

Section RtMain.
  Variable SC : schema_t.
  Variable classify : N -> cclass.
  Variable pre : string -> json -> bool.
  Variable post : string -> json -> list (string * mval) -> bool.
  Variable CL : list string.
  Hypothesis Hcl : schema_rt_ok SC CL = true.

  Notation EXP := (exp SC).
  Notation PK := (parse_kind SC classify pre post).
  Notation PC := (parse_cls SC classify pre post).

  (* the repo-side validators accept the re-export of whatever they accepted *)
  Definition hooks_stable : Prop :=
    forall f c ms flds, In c CL ->
      PC f c (JObj ms) = Ok (MModel c flds) ->
      pre c (EXP (MModel c flds)) = true /\ post c (EXP (MModel c flds)) flds = true.
  Hypothesis Hhooks : hooks_stable.

  Lemma scalar_of_exact : forall k, exact_kind k = true -> scalar_kind k = true.
  Proof. intros k H. destruct k; try discriminate; reflexivity. Qed.
  Lemma scalar_of_str : forall k, str_kind k = true -> scalar_kind k = true.
  Proof. intros k H. destruct k; try discriminate; reflexivity. Qed.

  Lemma kind_body_scalar : forall pk pc k w, scalar_kind k = true ->
    kind_body classify pk pc k w = scalar_body classify k w.
  Proof. intros pk pc k w H. destruct k; try discriminate; reflexivity. Qed.

  Lemma pk_exact : forall f k v x, exact_kind k = true -> PK f k v = Ok x -> EXP x = v.
  Proof.
    intros f k v x He H. destruct f as [|f]; [discriminate|].
    rewrite parse_kind_S, (kind_body_scalar _ _ _ _ (scalar_of_exact _ He)) in H.
    destruct k as [lit|members|strict minl maxl cs|fc minl maxl cs|strict| | | | | |]; try discriminate;
      cbn [scalar_body] in H; unfold reject, unsupported in *.
    - destruct v; try discriminate. destruct (str_eqb s $lit); [|discriminate]. inversion H. reflexivity.
    - destruct v; try discriminate. destruct (existsb _ members); [|discriminate]. inversion H. reflexivity.
    - cbn [exact_kind] in He. subst strict. destruct v; try discriminate.
      apply check_str_ok in H. subst x. reflexivity.
    - destruct v; try discriminate. destruct (len_ok minl maxl s && cs_ok cs s && fs_ok classify s); [|discriminate].
      inversion H. reflexivity.
    - destruct v; try (destruct strict; discriminate). inversion H. reflexivity.
  Qed.

  Lemma pk_str : forall f k s y, str_kind k = true -> PK f k (JStr s) = Ok y -> EXP y = JStr s.
  Proof.
    intros f k s y Hs H. destruct f as [|f]; [discriminate|].
    rewrite parse_kind_S, (kind_body_scalar _ _ _ _ (scalar_of_str _ Hs)) in H.
    destruct k as [lit|members|strict minl maxl cs|fc minl maxl cs| | | | | | |]; try discriminate;
      cbn [scalar_body] in H; unfold reject in *.
    - destruct (str_eqb s $lit); [|discriminate]. inversion H. reflexivity.
    - destruct (existsb _ members); [|discriminate]. inversion H. reflexivity.
    - apply check_str_ok in H. subst y. reflexivity.
    - destruct (len_ok minl maxl s && cs_ok cs s && fs_ok classify s); [|discriminate]. inversion H. reflexivity.
  Qed.

  Lemma pc_disc : forall f key c ms s x,
    In c CL -> disc_field_ok SC key c = true -> assoc (str_of_string key) ms = Some (JStr s) ->
    PC f c (JObj ms) = Ok x -> exists ms', EXP x = JObj ms' /\ assoc (str_of_string key) ms' = Some (JStr s).
  Proof.
    intros f key c ms s x Hc Hd Ha H. destruct f as [|f]; [discriminate|]. rewrite parse_cls_S in H.
    destruct (cls_body_inv SC pre post (PK f) c _ x H) as [k [ms0 [vals [Hl [Ev [_ [_ [Hf [Ex _]]]]]]]]].
    inversion Ev. subst ms0. clear Ev.
    destruct (cls_ok_of SC CL Hcl c k Hc Hl) as [Hn1 [Hn2 _]].
    assert (Hlen : List.length vals = List.length (c_fields k)) by (symmetry; eapply Forall2_length'; exact Hf).
    subst x. rewrite (exp_model SC c k vals Hl Hn1 Hlen). eexists. split; [reflexivity|].
    unfold disc_field_ok in Hd. rewrite Hl in Hd. apply existsb_exists in Hd. destruct Hd as [fl [Hfl Hd]].
    apply andb_true_iff in Hd. destruct Hd as [Hd Hsk]. apply andb_true_iff in Hd. destruct Hd as [Hal Hsh].
    apply String.eqb_eq in Hal.
    (* the value parsed for that field *)
    assert (Hy : exists y, In (fl, y) (combine (c_fields k) vals)).
    { clear - Hfl Hlen. revert vals Hlen. induction (c_fields k) as [|a r IH]; intros vals Hlen; [destruct Hfl|].
      destruct vals as [|y vals]; [discriminate|]. destruct Hfl as [Hfl|Hfl].
      - subst. exists y. left. reflexivity.
      - destruct (IH Hfl vals) as [y' Hy']; [cbn in Hlen; lia|]. exists y'. right. exact Hy'. }
    destruct Hy as [y Hy].
    pose proof (Forall2_combine_in _ _ _ _ _ _ _ Hf Hy) as Hfv. cbn beta in Hfv.
    unfold raw_of in Hfv. rewrite Hal, Ha in Hfv. cbn [field_value] in Hfv. unfold shape_value in Hfv.
    destruct (f_shape fl); try discriminate.
    pose proof (pk_str f _ _ _ Hsk Hfv) as Ey.
    rewrite <- Hal.
    assert (Hal2 : NoDup (map (fun p : field * mval => f_alias (fst p)) (combine (c_fields k) vals))).
    { rewrite <- (map_map fst f_alias). rewrite map_fst_combine by exact Hlen. exact Hn2. }
    rewrite (assoc_emit EXP _ fl y Hal2 Hy).
    destruct y; try (cbn [present option_map]; rewrite Ey; reflexivity). discriminate.
  Qed.

  Theorem roundtrip_generic : forall f,
    (forall k v x, kind_ok SC CL k = true -> PK f k v = Ok x -> PK f k (EXP x) = Ok x)
    /\ (forall c v x, In c CL -> PC f c v = Ok x -> PC f c (EXP x) = Ok x).
  Proof.
    induction f as [|f [IHk IHc]]; [split; intros; discriminate|].
    destruct (parse_nn SC classify pre post f) as [NNk _].
    split.
    - intros k v x Hk H. rewrite parse_kind_S in *.
      eapply (kind_body_rt SC classify pre post CL (PK f) (PC f)); try eassumption.
      + intros k0 v0 x0. apply pk_exact.
      + intros key c ms s x0. apply pc_disc.
    - intros c v x Hc H. rewrite parse_cls_S in *.
      eapply cls_body_rt; try eassumption.
      intros c0 ms flds Hc0 Hb. apply (Hhooks (S f) c0 ms flds Hc0). rewrite parse_cls_S. exact Hb.
  Qed.
End RtMain.

(* ------------------------------------------------------------------------------------------ *)
(* 9. more fuel / another pre-validator that agrees on the covered classes: same result         *)

Definition Rle {A} (a b : outcome A) : Prop := a <> Raise RuntimeError -> b = a.

Lemma Rle_refl : forall A (a : outcome A), Rle a a.
Proof. intros A a _. reflexivity. Qed.

Lemma mapM_sim : forall (A B : Type) (f f' : A -> outcome B) l,
  (forall a, In a l -> Rle (f a) (f' a)) -> Rle (mapM f l) (mapM f' l).
Proof.
  induction l as [|a l IH]; intros H; [apply Rle_refl|].
  intros Hne. cbn [mapM] in *.
  assert (Ha : f' a = f a).
  { apply (H a (or_introl eq_refl)). intros E. rewrite E in Hne. apply Hne. reflexivity. }
  rewrite Ha. destruct (f a) as [y|e]; [|reflexivity]. cbn [bind] in *.
  assert (Hl : mapM f' l = mapM f l).
  { apply IH; [intros b Hb; apply H; right; exact Hb|]. intros E. rewrite E in Hne. apply Hne. reflexivity. }
  rewrite Hl. reflexivity.
Qed.

Section Sim.
  Variable SC : schema_t.
  Variable classify : N -> cclass.
  Variable pre pre' : string -> json -> bool.
  Variable post : string -> json -> list (string * mval) -> bool.
  Variable CL : list string.
  Hypothesis Hcl : schema_rt_ok SC CL = true.
  Hypothesis Hpre : forall c raw, In c CL -> pre c raw = pre' c raw.

  Notation KOK := (kind_ok SC CL).

  Section SimStep.
    Variable pk pk' : kind -> json -> outcome mval.
    Variable pc pc' : string -> json -> outcome mval.
    Hypothesis Hk : forall k v, KOK k = true -> Rle (pk k v) (pk' k v).
    Hypothesis Hc : forall c v, In c CL -> Rle (pc c v) (pc' c v).

    Lemma list_value_sim : forall minl maxl k v, KOK k = true ->
      Rle (list_value pk minl maxl k v) (list_value pk' minl maxl k v).
    Proof.
      intros minl maxl k v Hok. unfold list_value. destruct v; try apply Rle_refl.
      destruct (len_ok_n minl maxl (List.length l)); [|apply Rle_refl].
      intros Hne.
      assert (E : mapM (pk' k) l = mapM (pk k) l).
      { apply mapM_sim; [intros a _; apply Hk; exact Hok|]. intros E. rewrite E in Hne. apply Hne. reflexivity. }
      rewrite E. reflexivity.
    Qed.

    Lemma alt_value_sim : forall a v, ualt_ok SC CL a = true -> Rle (alt_value pk a v) (alt_value pk' a v).
    Proof. intros a v Ha. destruct a; cbn [alt_value ualt_ok] in *; [apply Hk|apply list_value_sim]; exact Ha. Qed.

    Lemma try_alts_sim : forall alts v, forallb (ualt_ok SC CL) alts = true ->
      Rle (try_alts pk alts v) (try_alts pk' alts v).
    Proof.
      induction alts as [|a r IH]; intros v Hok; [apply Rle_refl|].
      cbn [forallb] in Hok. apply andb_true_iff in Hok. destruct Hok as [Ha Hr].
      intros Hne. cbn [try_alts] in *.
      assert (E : alt_value pk' a v = alt_value pk a v).
      { apply alt_value_sim; [exact Ha|]. intros E. rewrite E in Hne. apply Hne. reflexivity. }
      rewrite E. destruct (alt_value pk a v) as [y|e]; [reflexivity|].
      destruct e; try (apply IH; [exact Hr|exact Hne]). reflexivity.
    Qed.

    Lemma kind_body_sim : forall k v, KOK k = true ->
      Rle (kind_body classify pk pc k v) (kind_body classify pk' pc' k v).
    Proof.
      intros k v Hok. destruct k; try apply Rle_refl.
      - cbn [kind_body kind_ok] in *. apply Hc. apply mem_s_In. exact Hok.
      - cbn [kind_body]. unfold disc_value. destruct v; try apply Rle_refl.
        destruct (assoc $key members) as [[| | | |s| |]|]; try apply Rle_refl.
        destruct (List.find (fun kc => str_eqb $(fst kc) s) mapping) as [[t c]|] eqn:Ef; [|apply Rle_refl].
        cbn [kind_ok] in Hok. rewrite forallb_forall in Hok. pose proof (find_some _ _ Ef) as [Hin _].
        specialize (Hok _ Hin). cbn [snd] in Hok. apply andb_true_iff in Hok. destruct Hok as [Hm _].
        apply Hc. apply mem_s_In. exact Hm.
      - cbn [kind_body]. rewrite kind_ok_union in Hok. apply andb_true_iff in Hok. destruct Hok as [H1 _].
        apply try_alts_sim. exact H1.
    Qed.

    Lemma dict_value_sim : forall kk k v, KOK k = true ->
      (forall w, Rle (pk kk w) (pk' kk w)) ->
      Rle (dict_value pk kk k v) (dict_value pk' kk k v).
    Proof.
      intros kk k v Hok Hkk. unfold dict_value. destruct v; try apply Rle_refl.
      intros Hne.
      assert (E : mapM (dict_member pk' kk k) members = mapM (dict_member pk kk k) members).
      { apply mapM_sim; [|intros E; rewrite E in Hne; apply Hne; reflexivity].
        intros a _ Hn. unfold dict_member in *.
        assert (E1 : pk' kk (JStr (fst a)) = pk kk (JStr (fst a))).
        { apply Hkk. intros E. rewrite E in Hn. apply Hn. reflexivity. }
        rewrite E1. destruct (pk kk (JStr (fst a))); [|reflexivity]. cbn [bind] in *.
        assert (E2 : pk' k (snd a) = pk k (snd a)).
        { apply Hk; [exact Hok|]. intros E. rewrite E in Hn. apply Hn. reflexivity. }
        rewrite E2. reflexivity. }
      rewrite E. reflexivity.
    Qed.
  End SimStep.

  Notation PK := (parse_kind SC classify pre post).
  Notation PK' := (parse_kind SC classify pre' post).
  Notation PC := (parse_cls SC classify pre post).
  Notation PC' := (parse_cls SC classify pre' post).

  (* dictionary key kinds are scalar: their parse does not depend on fuel or [pre] *)
  Definition keys_scalar : Prop :=
    forall c k fl kk, In c CL -> lookup_cls SC c = Some k -> In fl (c_fields k) -> f_shape fl = DictOf kk ->
                      scalar_kind kk = true.
  Hypothesis Hkeys : keys_scalar.

  Lemma scalar_sim : forall f d kk w, scalar_kind kk = true -> Rle (PK f kk w) (PK' (f + d) kk w).
  Proof.
    intros f d kk w Hs Hne. destruct f as [|f]; [exfalso; apply Hne; reflexivity|].
    cbn [Nat.add]. rewrite !parse_kind_S. destruct kk; try discriminate; reflexivity.
  Qed.

  Theorem parse_sim : forall d f,
    (forall k v, KOK k = true -> Rle (PK f k v) (PK' (f + d) k v))
    /\ (forall c v, In c CL -> Rle (PC f c v) (PC' (f + d) c v)).
  Proof.
    intros d. induction f as [|f [IHk IHc]].
    - split; intros; intros Hne; exfalso; apply Hne; reflexivity.
    - split.
      + intros k v Hok. cbn [Nat.add]. rewrite !parse_kind_S. apply kind_body_sim; assumption.
      + intros c v Hc. cbn [Nat.add]. rewrite !parse_cls_S. unfold cls_body.
        destruct (lookup_cls SC c) as [k|] eqn:Hl; [|apply Rle_refl].
        destruct v; try apply Rle_refl.
        rewrite <- (Hpre c (JObj members) Hc).
        destruct (negb (pre c (JObj members))); [apply Rle_refl|].
        destruct (negb (extra_ok k members)); [apply Rle_refl|].
        intros Hne.
        destruct (cls_ok_of SC CL Hcl c k Hc Hl) as [_ [_ Hko]].
        assert (E : mapM (parse_field (PK' (f + d)) members) (c_fields k)
                    = mapM (parse_field (PK f) members) (c_fields k)).
        { apply mapM_sim; [|intros E; rewrite E in Hne; apply Hne; reflexivity].
          intros fl Hfl Hn. unfold parse_field in *.
          assert (E1 : field_value (PK' (f + d)) fl (raw_of fl members) = field_value (PK f) fl (raw_of fl members)).
          { assert (Hn1 : field_value (PK f) fl (raw_of fl members) <> Raise RuntimeError).
            { intros E. rewrite E in Hn. apply Hn. reflexivity. }
            unfold field_value in *. destruct (raw_of fl members); try reflexivity;
              unfold shape_value in *; destruct (f_shape fl) eqn:Esh;
              try (apply IHk; [apply Hko; exact Hfl|exact Hn1]);
              try (apply list_value_sim; [exact IHk|apply Hko; exact Hfl|exact Hn1]);
              try (apply dict_value_sim; [exact IHk|apply Hko; exact Hfl| |exact Hn1];
                   intros w; apply scalar_sim; eapply Hkeys; eassumption). }
          rewrite E1. reflexivity. }
        rewrite E. reflexivity.
  Qed.
End Sim.

(* ------------------------------------------------------------------------------------------ *)
(* 10. model equality is reflexive                                                             *)

Require Import OJD.Validators OJD.Accept OJD.Export.

Lemma mval_eqb_refl : forall F x, mval_depth x < F -> Export.mval_eqb F x x = true.
Proof.
  induction F as [|F IH]; intros x Hd; [lia|].
  destruct x as [ |b|z|m e|m e|s|s|l|l|c fs]; cbn [Export.mval_eqb].
  - reflexivity.
  - apply Bool.eqb_reflx.
  - apply Z.eqb_refl.
  - rewrite !Z.eqb_refl. reflexivity.
  - rewrite !Z.eqb_refl. reflexivity.
  - apply str_eqb_refl2.
  - apply str_eqb_refl2.
  - cbn [mval_depth] in Hd.
    assert (H : forall y, In y l -> mval_depth y < F).
    { intros y Hy. apply (depth_le_max' _ mval_depth) in Hy. lia. }
    clear Hd. induction l as [|y l IHl]; [reflexivity|].
    rewrite IH by (apply H; left; reflexivity). cbn [andb]. apply IHl. intros z Hz. apply H. right. exact Hz.
  - cbn [mval_depth] in Hd.
    assert (H : forall kv, In kv l -> mval_depth (snd kv) < F).
    { intros y Hy. apply (depth_le_max' _ (fun kv : str * mval => mval_depth (snd kv))) in Hy. lia. }
    clear Hd. induction l as [|[k y] l IHl]; [reflexivity|].
    rewrite str_eqb_refl2. rewrite IH by (apply (H (k, y)); left; reflexivity). cbn [andb].
    apply IHl. intros z Hz. apply H. right. exact Hz.
  - cbn [mval_depth] in Hd.
    assert (H : forall kv, In kv fs -> mval_depth (snd kv) < F).
    { intros y Hy. apply (depth_le_max' _ (fun kv : string * mval => mval_depth (snd kv))) in Hy. lia. }
    clear Hd. induction fs as [|[k y] l IHl]; [reflexivity|].
    rewrite String.eqb_refl. rewrite IH by (apply (H (k, y)); left; reflexivity). cbn [andb].
    apply IHl. intros z Hz. apply H. right. exact Hz.
Qed.

(* ------------------------------------------------------------------------------------------ *)
(* 10b. enough fuel: the result does not depend on the fuel                                     *)

Definition kh_alt (kh : kind -> nat) (a : ualt) : nat :=
  match a with UScalar k' => kh k' | UList _ _ k' => kh k' end.

(* number of nested ordered unions on the way to a scalar or a model class, plus one *)
Fixpoint kh (k : kind) : nat :=
  match k with
  | KUnion alts =>
    S ((fix mx (l : list ualt) : nat :=
          match l with
          | [] => 0
          | a :: r => Nat.max (match a with UScalar k' => kh k' | UList _ _ k' => kh k' end) (mx r)
          end) alts)
  | _ => 1
  end.

Lemma kh_union_in : forall alts a, In a alts -> kh_alt kh a < kh (KUnion alts).
Proof.
  intros alts a Ha. cbn [kh]. apply Nat.lt_succ_r.
  induction alts as [|b r IH]; [destruct Ha|]. destruct Ha as [Ha|Ha].
  - subst b. destruct a; cbn [kh_alt]; apply Nat.le_max_l.
  - etransitivity; [apply IH; exact Ha|]. apply Nat.le_max_r.
Qed.

Lemma kh_pos : forall k, 1 <= kh k.
Proof. intros k. destruct k; cbn [kh]; lia. Qed.

Lemma json_depth_pos : forall v, 1 <= json_depth v.
Proof. intros v. destruct v; cbn [json_depth]; lia. Qed.

Lemma json_depth_item : forall l x, In x l -> json_depth x < json_depth (JArr l).
Proof.
  intros l x H. cbn [json_depth]. apply (depth_le_max' _ json_depth) in H. lia.
Qed.

Lemma json_depth_member : forall (ms : list (str * json)) kv, In kv ms -> json_depth (snd kv) < json_depth (JObj ms).
Proof.
  intros ms kv H. cbn [json_depth]. apply (depth_le_max' _ (fun kv : str * json => json_depth (snd kv))) in H. lia.
Qed.

Lemma assoc_in : forall (A : Type) k (l : list (str * A)) v, assoc k l = Some v -> exists k', In (k', v) l.
Proof.
  induction l as [|[k' v'] r IH]; intros v H; [discriminate|]. cbn [assoc] in H.
  destruct (str_eqb k k').
  - inversion H. subst. exists k'. left. reflexivity.
  - destruct (IH v H) as [k'' Hk]. exists k''. right. exact Hk.
Qed.

Lemma mapM_ext_in' : forall (A B : Type) (f g : A -> outcome B) l,
  (forall x, In x l -> f x = g x) -> mapM f l = mapM g l.
Proof.
  induction l as [|a l IH]; intros H; [reflexivity|].
  cbn [mapM]. rewrite (H a (or_introl eq_refl)). rewrite IH; [reflexivity|].
  intros x Hx. apply H. right. exact Hx.
Qed.

Section FuelStable.
  Variable SC : schema_t.
  Variable classify : N -> cclass.
  Variable pre : string -> json -> bool.
  Variable post : string -> json -> list (string * mval) -> bool.
  Variable H : nat.
  (* every field kind nests at most H levels; dictionary keys are scalars *)
  Hypothesis Hkh : forall c k fl, lookup_cls SC c = Some k -> In fl (c_fields k) -> kh (f_kind fl) <= H.
  Hypothesis Hkeys : forall c k fl kk, lookup_cls SC c = Some k -> In fl (c_fields k) -> f_shape fl = DictOf kk ->
                                       scalar_kind kk = true.

  Definition bound_k (k : kind) (v : json) : nat := kh k + S H * json_depth v.
  Definition bound_c (v : json) : nat := S H * json_depth v.

  Notation PK := (parse_kind SC classify pre post).
  Notation PC := (parse_cls SC classify pre post).

  Section FsStep.
    Variable pk pk' : kind -> json -> outcome mval.
    Variable pc pc' : string -> json -> outcome mval.
    Variable n : nat.
    Hypothesis Hk : forall k v, bound_k k v <= n -> pk k v = pk' k v.
    Hypothesis Hc : forall c v, bound_c v <= n -> pc c v = pc' c v.
    Hypothesis Hs : forall k v, scalar_kind k = true -> 1 <= n -> pk k v = pk' k v.

    Lemma list_value_fs : forall minl maxl k v, bound_k k v <= S n ->
      list_value pk minl maxl k v = list_value pk' minl maxl k v.
    Proof.
      intros minl maxl k v Hb. unfold list_value. destruct v; try reflexivity.
      destruct (len_ok_n minl maxl (List.length l)); [|reflexivity].
      rewrite (mapM_ext_in' _ _ (pk k) (pk' k)); [reflexivity|].
      intros x Hx. apply Hk. apply json_depth_item in Hx. unfold bound_k in *. nia.
    Qed.

    Lemma kind_body_fs : forall k v, bound_k k v <= S n ->
      kind_body classify pk pc k v = kind_body classify pk' pc' k v.
    Proof.
      intros k v Hb. destruct k; try reflexivity.
      - cbn [kind_body]. apply Hc. unfold bound_k, bound_c in *. cbn [kh] in Hb. lia.
      - cbn [kind_body]. unfold disc_value. destruct v; try reflexivity.
        destruct (assoc $key members) as [[| | | |s| |]|]; try reflexivity.
        destruct (List.find _ mapping) as [[t c]|]; [|reflexivity].
        apply Hc. unfold bound_k, bound_c in *. cbn [kh] in Hb. lia.
      - cbn [kind_body].
        assert (Ha : forall a, In a alts -> alt_value pk a v = alt_value pk' a v).
        { intros a Hin. pose proof (kh_union_in alts a Hin) as Hlt. destruct a; cbn [alt_value kh_alt] in *.
          - apply Hk. unfold bound_k in *. lia.
          - apply list_value_fs. unfold bound_k in *. lia. }
        clear Hb. induction alts as [|a r IH]; [reflexivity|]. cbn [try_alts].
        rewrite (Ha a (or_introl eq_refl)). destruct (alt_value pk' a v) as [y|e]; [reflexivity|].
        destruct e; try (apply IH; intros b Hb; apply Ha; right; exact Hb). reflexivity.
    Qed.

    Lemma cls_body_fs : forall c v, bound_c v <= S n ->
      cls_body SC pre post pk c v = cls_body SC pre post pk' c v.
    Proof.
      intros c v Hb. unfold cls_body. destruct (lookup_cls SC c) as [k|] eqn:Hl; [|reflexivity].
      destruct v as [| | | | | |ms]; try reflexivity.
      destruct (negb (pre c (JObj ms))); [reflexivity|].
      destruct (negb (extra_ok k ms)); [reflexivity|].
      rewrite (mapM_ext_in' _ _ (parse_field pk ms) (parse_field pk' ms)); [reflexivity|].
      intros fl Hfl. unfold parse_field.
      assert (E : field_value pk fl (raw_of fl ms) = field_value pk' fl (raw_of fl ms)).
      { unfold raw_of. destruct (assoc $(f_alias fl) ms) as [raw|] eqn:Ea; [|reflexivity].
        destruct (assoc_in _ _ _ _ Ea) as [key Hin]. apply json_depth_member in Hin. cbn [snd] in Hin.
        pose proof (Hkh c k fl Hl Hfl) as Hh. pose proof (json_depth_pos raw) as Hp.
        unfold bound_c in Hb.
        assert (Hraw : bound_k (f_kind fl) raw <= n) by (unfold bound_k; nia).
        unfold field_value. destruct raw; try reflexivity; unfold shape_value;
          destruct (f_shape fl) eqn:Esh;
          try (apply Hk; exact Hraw);
          try (apply list_value_fs; lia).
        all: try reflexivity.
        (* dictionaries *)
        all: unfold dict_value.
        all: match goal with
             | |- (do l' <- mapM (dict_member pk ?kk ?k0) ?m; _) = _ =>
               rewrite (mapM_ext_in' _ _ (dict_member pk kk k0) (dict_member pk' kk k0)); [reflexivity|]
             | _ => idtac
             end.
        all: try reflexivity.
        all: intros kv Hkv; unfold dict_member;
          rewrite (Hs key0 (JStr (fst kv)) (Hkeys c k fl key0 Hl Hfl Esh)) by (unfold bound_k in Hraw; pose proof (kh_pos (f_kind fl)); nia);
          destruct (pk' key0 (JStr (fst kv))); [|reflexivity]; cbn [bind];
          rewrite (Hk (f_kind fl) (snd kv)); [reflexivity|];
          apply json_depth_member in Hkv; unfold bound_k in *; nia. }
      rewrite E. reflexivity.
    Qed.
  End FsStep.

  Lemma scalar_fuel : forall f f' k v, scalar_kind k = true -> PK (S f) k v = PK (S f') k v.
  Proof. intros f f' k v Hs. rewrite !parse_kind_S. destruct k; try discriminate; reflexivity. Qed.

  Theorem fuel_stable : forall f,
    (forall f' k v, bound_k k v <= f -> bound_k k v <= f' -> PK f k v = PK f' k v)
    /\ (forall f' c v, bound_c v <= f -> bound_c v <= f' -> PC f c v = PC f' c v).
  Proof.
    induction f as [|f [IHk IHc]].
    - split.
      + intros f' k v Hb _. unfold bound_k in Hb. pose proof (kh_pos k). lia.
      + intros f' c v Hb _. unfold bound_c in Hb. pose proof (json_depth_pos v). nia.
    - split.
      + intros f' k v Hb Hb'. destruct f' as [|f']; [unfold bound_k in Hb'; pose proof (kh_pos k); lia|].
        rewrite !parse_kind_S. apply kind_body_fs with (n := Nat.min f f').
        * intros k0 v0 Hn. apply IHk; lia.
        * intros c0 v0 Hn. apply IHc; lia.
        * intros k0 v0 Hs0 Hn. destruct f as [|f0]; [lia|]. destruct f' as [|f0']; [lia|]. apply scalar_fuel. exact Hs0.
        * lia.
      + intros f' c v Hb Hb'. destruct f' as [|f']; [unfold bound_c in Hb'; pose proof (json_depth_pos v); nia|].
        rewrite !parse_cls_S. apply cls_body_fs with (n := Nat.min f f') (pc := PC f) (pc' := PC f').
        * intros k0 v0 Hn. apply IHk; lia.
        * intros c0 v0 Hn. apply IHc; lia.
        * intros k0 v0 Hs0 Hn. destruct f as [|f0]; [lia|]. destruct f' as [|f0']; [lia|]. apply scalar_fuel. exact Hs0.
        * lia.
  Qed.
End FuelStable.

(* ------------------------------------------------------------------------------------------ *)
(* 11. the live schema                                                                         *)

(* every class except StepParameterSpace (whose taskParameterDefinitions is an ordered union of two
   model classes: the second alternative is not "exact"), the two classes that contain it, and the
   job-side requirement classes (their pre-validator re-parses the raw object as the template class with
   the caller's fuel); none of these is reachable from a template root *)
Definition template_classes : list string :=
  filter (fun c => negb (mem_s c ["StepParameterSpace"; "Step"; "Job";
                                  "AmountRequirement"; "AttributeRequirement"; "HostRequirements"]))
         (map fst Generated.schema).

Lemma template_schema_ok : schema_rt_ok Generated.schema template_classes = true.
Proof. vm_compute. reflexivity. Qed.

(* the only class that does not meet the structural condition *)
Lemma only_param_space_fails :
  filter (fun c => negb (cls_ok Generated.schema (map fst Generated.schema) c)) (map fst Generated.schema)
  = ["StepParameterSpace"].
Proof. vm_compute. reflexivity. Qed.

Definition keys_scalar_b (SC : schema_t) (CL : list string) : bool :=
  forallb (fun c => match lookup_cls SC c with
                    | Some k => forallb (fun fl => match f_shape fl with DictOf kk => scalar_kind kk | _ => true end)
                                        (c_fields k)
                    | None => true
                    end) CL.

Lemma keys_scalar_sound : forall SC CL, keys_scalar_b SC CL = true -> keys_scalar SC CL.
Proof.
  intros SC CL H c k fl kk Hc Hl Hfl Hsh. unfold keys_scalar_b in H. rewrite forallb_forall in H.
  specialize (H c Hc). rewrite Hl in H. rewrite forallb_forall in H. specialize (H fl Hfl).
  rewrite Hsh in H. exact H.
Qed.

Lemma template_keys_scalar : keys_scalar Generated.schema template_classes.
Proof. apply keys_scalar_sound. vm_compute. reflexivity. Qed.

Lemma pre_full_templates : forall classify fuel c raw, In c template_classes ->
  pre_full classify fuel c raw = pre_hook c raw.
Proof.
  intros classify fuel c raw Hc. unfold pre_full.
  assert (H : forallb (fun c => negb (String.eqb c "AmountRequirement") && negb (String.eqb c "AttributeRequirement"))
                      template_classes = true) by (vm_compute; reflexivity).
  rewrite forallb_forall in H. specialize (H c Hc). apply andb_true_iff in H. destruct H as [H1 H2].
  apply negb_true_iff in H1. apply negb_true_iff in H2. rewrite H1, H2. apply andb_true_r.
Qed.

Lemma parse_fuel_mono : forall a b, json_depth a <= json_depth b -> parse_fuel a <= parse_fuel b.
Proof. intros a b H. unfold parse_fuel. lia. Qed.

(* unions nest at most 3 levels in the live schema, dictionary keys are scalar: the fuel [parse_fuel]
   is more than enough, so the result of a parse does not depend on it *)
Definition kh_bound_b (SC : schema_t) (H : nat) : bool :=
  forallb (fun nc => forallb (fun fl => Nat.leb (kh (f_kind fl)) H
                                        && match f_shape fl with DictOf kk => scalar_kind kk | _ => true end)
                             (c_fields (snd nc))) SC.

Lemma kh_bound_sound : forall SC H, kh_bound_b SC H = true ->
  (forall c k fl, lookup_cls SC c = Some k -> In fl (c_fields k) -> kh (f_kind fl) <= H)
  /\ (forall c k fl kk, lookup_cls SC c = Some k -> In fl (c_fields k) -> f_shape fl = DictOf kk ->
                        scalar_kind kk = true).
Proof.
  intros SC H Hb. unfold kh_bound_b in Hb. rewrite forallb_forall in Hb. split.
  - intros c k fl Hl Hfl. apply lookup_cls_in in Hl. specialize (Hb _ Hl). cbn [snd] in Hb.
    rewrite forallb_forall in Hb. specialize (Hb fl Hfl). apply andb_true_iff in Hb. destruct Hb as [Hb _].
    apply Nat.leb_le. exact Hb.
  - intros c k fl kk Hl Hfl Hsh. apply lookup_cls_in in Hl. specialize (Hb _ Hl). cbn [snd] in Hb.
    rewrite forallb_forall in Hb. specialize (Hb fl Hfl). apply andb_true_iff in Hb. destruct Hb as [_ Hb].
    rewrite Hsh in Hb. exact Hb.
Qed.

Lemma generated_kh_bound : kh_bound_b Generated.schema 3 = true.
Proof. vm_compute. reflexivity. Qed.

Theorem parse_fuel_enough : forall classify pre post f c v,
  parse_fuel v <= f ->
  parse_cls Generated.schema classify pre post f c v
  = parse_cls Generated.schema classify pre post (parse_fuel v) c v.
Proof.
  intros classify pre post f c v Hf.
  destruct (kh_bound_sound _ _ generated_kh_bound) as [H1 H2].
  destruct (fuel_stable Generated.schema classify pre post 3 H1 H2 f) as [_ Hc].
  apply Hc; unfold bound_c, parse_fuel in *; lia.
Qed.

(* decode / export / decode for the template classes, as the function [roundtrip] computes it *)
Theorem roundtrip_cl : forall classify CL root j v,
  schema_rt_ok Generated.schema CL = true ->
  keys_scalar Generated.schema CL ->
  (forall fuel c raw, In c CL -> pre_full classify fuel c raw = pre_hook c raw) ->
  hooks_stable Generated.schema classify pre_hook (post_hook classify) CL ->
  In root CL ->
  parse_any classify root j = Ok v ->
  snd (roundtrip classify root v) = true.
Proof.
  intros classify CL root j v Hok Hkeys Hpre Hhooks Hroot Hp. unfold parse_any in Hp.
  set (f := parse_fuel j) in *.
  (* 1. the same parse with the template-side pre-validators only *)
  assert (H1 : parse_cls Generated.schema classify pre_hook (post_hook classify) f root j = Ok v).
  { destruct (parse_sim Generated.schema classify (pre_full classify f) pre_hook (post_hook classify)
                        CL Hok (fun c raw Hc => Hpre f c raw Hc) Hkeys 0 f) as [_ Hc].
    specialize (Hc root j Hroot). rewrite Nat.add_0_r in Hc. rewrite Hc; [exact Hp|].
    rewrite Hp. discriminate. }
  (* 2. round trip at that fuel *)
  destruct (roundtrip_generic Generated.schema classify pre_hook (post_hook classify) CL Hok Hhooks f) as [_ Hrt].
  specialize (Hrt root j v Hroot H1).
  (* 3. at the fuel [roundtrip] recomputes from the exported document *)
  assert (Ee : export v = exp Generated.schema v) by (unfold export; apply to_object_exp; lia).
  unfold roundtrip. cbn [snd]. rewrite Ee. unfold parse_any.
  set (f2 := parse_fuel (exp Generated.schema v)).
  assert (H2 : parse_cls Generated.schema classify pre_hook (post_hook classify) f2 root (exp Generated.schema v) = Ok v).
  { destruct (Nat.le_gt_cases f f2) as [Hle|Hgt].
    - destruct (parse_sim Generated.schema classify pre_hook pre_hook (post_hook classify)
                          CL Hok (fun c raw Hc => eq_refl) Hkeys (f2 - f) f) as [_ Hc].
      specialize (Hc root (exp Generated.schema v) Hroot).
      replace (f + (f2 - f)) with f2 in Hc by lia.
      rewrite Hc by (rewrite Hrt; discriminate). exact Hrt.
    - unfold f2 in *. rewrite <- (parse_fuel_enough classify pre_hook (post_hook classify) f root (exp Generated.schema v)); [exact Hrt|].
      lia. }
  (* 4. with the pre-validators [roundtrip] uses *)
  destruct (parse_sim Generated.schema classify pre_hook (pre_full classify f2) (post_hook classify)
                      CL Hok (fun c raw Hc => eq_sym (Hpre f2 c raw Hc)) Hkeys 0 f2) as [_ Hc].
  specialize (Hc root (exp Generated.schema v) Hroot). rewrite Nat.add_0_r in Hc.
  rewrite Hc by (rewrite H2; discriminate). rewrite H2.
  apply mval_eqb_refl. lia.
Qed.

Theorem roundtrip_templates : forall classify root j v,
  In root template_classes ->
  parse_any classify root j = Ok v ->
  hooks_stable Generated.schema classify pre_hook (post_hook classify) template_classes ->
  snd (roundtrip classify root v) = true.
Proof.
  intros classify root j v Hroot Hp Hhooks.
  eapply (roundtrip_cl classify template_classes); try eassumption.
  - exact template_schema_ok.
  - exact template_keys_scalar.
  - intros fuel c raw Hc. apply pre_full_templates. exact Hc.
Qed.

(* the validators of every covered class except the two template roots do not look at the raw object *)
Lemma post_hook_raw_free : forall classify c raw raw' flds,
  c <> "JobTemplate" -> c <> "EnvironmentTemplate" ->
  post_hook classify c raw flds = post_hook classify c raw' flds.
Proof.
  intros classify c raw raw' flds H1 H2. unfold post_hook.
  repeat match goal with
         | |- (if ?b then _ else _) = (if ?b then _ else _) => destruct b eqn:?; [try reflexivity|]
         end; try reflexivity.
  - exfalso. apply H1. apply String.eqb_eq. assumption.
  - exfalso. apply H2. apply String.eqb_eq. assumption.
Qed.

(* ------------------------------------------------------------------------------------------ *)
(* 12. the pre-validators of the live schema accept the re-export                              *)

Section HookTools.
  Variable SC : schema_t.
  Variable classify : N -> cclass.
  Variable pre : string -> json -> bool.
  Variable post : string -> json -> list (string * mval) -> bool.
  Notation EXP := (exp SC).
  Notation PK := (parse_kind SC classify pre post).
  Notation PC := (parse_cls SC classify pre post).

  (* a successful class parse, field by field *)
  Lemma parse_cls_inv : forall f c v x,
    PC f c v = Ok x ->
    exists f' k ms vals,
      f = S f' /\ lookup_cls SC c = Some k /\ v = JObj ms /\ pre c v = true
      /\ Forall2 (fun fl y => field_value (PK f') fl (raw_of fl ms) = Ok y) (c_fields k) vals
      /\ x = MModel c (combine (map f_name (c_fields k)) vals)
      /\ post c v (combine (map f_name (c_fields k)) vals) = true.
  Proof.
    intros f c v x H. destruct f as [|f']; [discriminate|]. rewrite parse_cls_S in H.
    destruct (cls_body_inv SC pre post (PK f') c v x H) as [k [ms [vals [Hl [Ev [Hp [_ [Hf [Ex Hpo]]]]]]]]].
    exists f', k, ms, vals. repeat split; assumption.
  Qed.

  (* the JSON type of an exported value, by kind *)
  Fixpoint jt (k : kind) (j : json) : bool :=
    match k with
    | KLiteral _ | KEnum _ | KStr _ _ _ _ | KFormat _ _ _ _ | KDec => match j with JStr _ => true | _ => false end
    | KBool _ => match j with JBool _ => true | _ => false end
    | KInt _ _ _ _ => match j with JInt _ => true | _ => false end
    | KFloat _ => match j with JDec _ _ => true | _ => false end
    | KModel _ | KDisc _ _ => match j with JObj _ => true | _ => false end
    | KUnion alts =>
      (fix any (l : list ualt) : bool :=
         match l with
         | [] => false
         | a :: r =>
           (match a with
            | UScalar k' => jt k' j
            | UList _ _ k' => match j with JArr items => forallb (jt k') items | _ => false end
            end) || any r
         end) alts
    end.

  Definition jt_alt (a : ualt) (j : json) : bool :=
    match a with
    | UScalar k' => jt k' j
    | UList _ _ k' => match j with JArr items => forallb (jt k') items | _ => false end
    end.

  Lemma jt_union : forall alts j, jt (KUnion alts) j = existsb (fun a => jt_alt a j) alts.
  Proof.
    intros alts j. cbn [jt]. induction alts as [|a r IH]; [reflexivity|]. cbn [existsb]. rewrite <- IH. reflexivity.
  Qed.

  Lemma scalar_body_jt : forall k v x, scalar_body classify k v = Ok x -> jt k (EXP x) = true.
  Proof.
    intros k v x H.
    destruct k as [lit|members|strict minl maxl cs|fc minl maxl cs|strict|strict ge le gt|gt| | | |];
      cbn [scalar_body] in H; unfold reject, unsupported in *; try discriminate.
    - destruct v; try discriminate. destruct (str_eqb s $lit); [|discriminate]. inversion H. reflexivity.
    - destruct v; try discriminate. destruct (existsb _ members); [|discriminate]. inversion H. reflexivity.
    - destruct v; try discriminate; try (destruct strict; try discriminate);
        apply check_str_ok in H; subst x; reflexivity.
    - destruct v; try discriminate. destruct (len_ok minl maxl s && cs_ok cs s && fs_ok classify s); [|discriminate].
      inversion H. reflexivity.
    - destruct v; try (destruct strict; discriminate). inversion H. reflexivity.
    - assert (Hfin : forall z, (if zopt_ok ge le gt z then Ok (MInt z) else Raise ValueError) = Ok x ->
                               jt (KInt strict ge le gt) (EXP x) = true).
      { intros z Hz. destruct (zopt_ok ge le gt z); [|discriminate]. inversion Hz. reflexivity. }
      destruct v as [|b|z|dm de|s| |]; try discriminate; try (destruct strict; try discriminate); try (eapply Hfin; exact H).
      + destruct (dec_integral dm de); [|discriminate]. eapply Hfin; exact H.
      + destruct (parse_int s); [|discriminate]. eapply Hfin; exact H.
    - assert (Hfin : forall m e,
                 match gt with
                 | Some b => if num_ltb (num_of_Z b) (mkNum m e) then Ok (MFloat m e) else Raise ValueError
                 | None => Ok (MFloat m e)
                 end = Ok x -> jt (KFloat gt) (EXP x) = true).
      { intros m e Hz. destruct gt as [b|]; [destruct (num_ltb _ _); [|discriminate]|]; inversion Hz; reflexivity. }
      destruct v; try discriminate; eapply Hfin; exact H.
    - destruct v; try discriminate; try (inversion H; reflexivity).
      destruct (parse_dec s) as [[m e| |]|]; try discriminate. inversion H. reflexivity.
  Qed.

  Lemma list_value_jt : forall (pk : kind -> json -> outcome mval) minl maxl k v x,
    (forall w y, pk k w = Ok y -> jt k (EXP y) = true) ->
    list_value pk minl maxl k v = Ok x -> exists items, EXP x = JArr items /\ forallb (jt k) items = true.
  Proof.
    intros pk minl maxl k v x Hk H. unfold list_value in H. destruct v; try discriminate.
    destruct (len_ok_n minl maxl (List.length l)); [|discriminate].
    destruct (mapM (pk k) l) as [l'|] eqn:E; [|discriminate]. cbn [bind] in H. inversion H. subst x.
    rewrite exp_list. eexists. split; [reflexivity|]. rewrite forallb_forall. intros j Hj.
    apply in_map_iff in Hj. destruct Hj as [y [Ey Hy]]. subst j. apply mapM_Forall2 in E.
    destruct (Forall2_in_r _ _ _ _ _ _ E Hy) as [a [_ Hab]]. eapply Hk. exact Hab.
  Qed.

  Lemma pk_jt : forall f k v x, PK f k v = Ok x -> jt k (EXP x) = true.
  Proof.
    induction f as [|f IH]; intros k v x H; [discriminate|]. rewrite parse_kind_S in H.
    destruct k; try (eapply scalar_body_jt; exact H).
    - cbn [kind_body] in H. destruct (parse_cls_inv _ _ _ _ H) as [f' [k [ms [vals [_ [_ [_ [_ [_ [Ex _]]]]]]]]]].
      subst x. reflexivity.
    - cbn [kind_body] in H. unfold disc_value in H. destruct v; try discriminate.
      destruct (assoc $key members) as [[| | | |s| |]|]; try discriminate.
      destruct (List.find _ mapping) as [[t c]|]; [|discriminate].
      destruct (parse_cls_inv _ _ _ _ H) as [f' [k [ms [vals [_ [_ [_ [_ [_ [Ex _]]]]]]]]]]. subst x. reflexivity.
    - cbn [kind_body] in H. rewrite jt_union. induction alts as [|a r IHr]; [discriminate|].
      cbn [try_alts] in H. cbn [existsb]. destruct (alt_value (PK f) a v) as [y|e] eqn:E.
      + inversion H. subst y. apply orb_true_iff. left. destruct a; cbn [alt_value jt_alt] in *.
        * eapply IH. exact E.
        * destruct (list_value_jt (PK f) _ _ _ _ _ (fun w y Hy => IH _ _ _ Hy) E) as [items [Ei Hi]].
          rewrite Ei. exact Hi.
      + apply orb_true_iff. right. destruct e; try discriminate; apply IHr; exact H.
  Qed.

  (* the exported member of a field: absent, or typed by the field's shape and kind *)
  Definition jt_field (fl : field) (j : json) : bool :=
    match j with
    | JNull => negb (f_required fl)
    | _ =>
      match f_shape fl with
      | Single => jt (f_kind fl) j
      | ListOf _ _ => match j with JArr items => forallb (jt (f_kind fl)) items | _ => false end
      | DictOf _ => match j with JObj _ => true | _ => false end
      end
    end.

  Lemma field_value_cases : forall (pk : kind -> json -> outcome mval) fl raw y,
    field_value pk fl raw = Ok y ->
    (raw = JNull /\ y = MNone /\ f_required fl = false) \/ (raw <> JNull /\ shape_value pk fl raw = Ok y).
  Proof.
    intros pk fl raw y H. unfold field_value in H. destruct raw; try (right; split; [discriminate|exact H]).
    left. destruct (f_required fl); [discriminate|]. inversion H. auto.
  Qed.

  Lemma dict_value_obj : forall (pk : kind -> json -> outcome mval) kk k v y,
    dict_value pk kk k v = Ok y -> exists ms, EXP y = JObj ms.
  Proof.
    intros pk kk k v y H. unfold dict_value in H.
    assert (Hd : exists l, y = MDict l).
    { destruct v as [| | | |s|l|members]; try discriminate.
      - destruct (mapM (dict_member pk kk k) members); [|discriminate]. cbn [bind] in H. inversion H. eauto. }
    destruct Hd as [l Ey]. subst y. unfold exp. cbn [to_object]. eauto.
  Qed.

  Hypothesis Hnames : forall c k, lookup_cls SC c = Some k ->
    NoDup (map f_name (c_fields k)) /\ NoDup (map f_alias (c_fields k)).

  (* what the re-export holds under the key of a field *)
  Lemma jget_exp : forall f c v x k fl,
    PC f c v = Ok x -> lookup_cls SC c = Some k -> In fl (c_fields k) ->
    is_null (jget (f_alias fl) (EXP x)) = is_null (jget (f_alias fl) v)
    /\ jt_field fl (jget (f_alias fl) (EXP x)) = true.
  Proof.
    intros f c v x k fl H Hl Hfl.
    destruct (parse_cls_inv _ _ _ _ H) as [f' [k' [ms [vals [Ef [Hl' [Ev [_ [Hf [Ex _]]]]]]]]]].
    rewrite Hl in Hl'. inversion Hl'. subst k'. clear Hl'.
    destruct (Hnames c k Hl) as [Hn1 Hn2].
    assert (Hlen : List.length vals = List.length (c_fields k)) by (symmetry; eapply Forall2_length'; exact Hf).
    subst x v. rewrite (exp_model SC c k vals Hl Hn1 Hlen).
    assert (Hy : exists y, In (fl, y) (combine (c_fields k) vals)).
    { clear - Hfl Hlen. revert vals Hlen. induction (c_fields k) as [|a r IH]; intros vals Hlen; [destruct Hfl|].
      destruct vals as [|y vals]; [discriminate|]. destruct Hfl as [Hfl|Hfl].
      - subst. exists y. left. reflexivity.
      - destruct (IH Hfl vals) as [y' Hy']; [cbn in Hlen; lia|]. exists y'. right. exact Hy'. }
    destruct Hy as [y Hy].
    pose proof (Forall2_combine_in _ _ _ _ _ _ _ Hf Hy) as Hfv. cbn beta in Hfv.
    assert (Hal2 : NoDup (map (fun p : field * mval => f_alias (fst p)) (combine (c_fields k) vals))).
    { rewrite <- (map_map fst f_alias). rewrite map_fst_combine by exact Hlen. exact Hn2. }
    unfold jget. rewrite (assoc_emit EXP _ fl y Hal2 Hy).
    change (match assoc $(f_alias fl) ms with Some v => v | None => JNull end) with (raw_of fl ms).
    destruct (parse_nn SC classify pre post f') as [NNk _].
    destruct (field_value_cases (PK f') fl (raw_of fl ms) y Hfv) as [[Er [Ey Erq]]|[Er Hsv]].
    - (* absent *) subst y. rewrite Er. cbn. rewrite Erq. auto.
    - pose proof (shape_value_nn (PK f') NNk _ _ _ Hsv) as Hn.
      assert (Hp : present y = Some y) by (destruct y; try reflexivity; discriminate). rewrite Hp. cbn [option_map].
      pose proof (exp_not_null SC y (nn_not_none y Hn)) as Hnz.
      split; [destruct (EXP y), (raw_of fl ms); try reflexivity; contradiction|].
      unfold shape_value in Hsv. unfold jt_field.
      destruct (f_shape fl).
      + pose proof (pk_jt _ _ _ _ Hsv) as Ht. destruct (EXP y); try exact Ht. contradiction.
      + destruct (list_value_jt (PK f') _ _ _ _ _ (fun w y0 Hy0 => pk_jt _ _ _ _ Hy0) Hsv) as [items [Ei Hi]].
        rewrite Ei. exact Hi.
      + destruct (dict_value_obj (PK f') _ _ _ _ Hsv) as [ms' Em]. rewrite Em. reflexivity.
  Qed.
End HookTools.

Lemma forallb_impl : forall (A : Type) (p q : A -> bool) l,
  (forall a, p a = true -> q a = true) -> forallb p l = true -> forallb q l = true.
Proof.
  intros A p q l H Hp. rewrite forallb_forall in *. intros a Ha. apply H. apply Hp. exact Ha.
Qed.

Section LiveHooks.
  Variable classify : N -> cclass.
  Variable post : string -> json -> list (string * mval) -> bool.
  Notation G := Generated.schema.
  Notation PC := (parse_cls G classify pre_hook post).
  Notation EXP := (exp G).

  Definition dflt_field : field := mkField "" "" false Single KDec.
  (* field number [i] of class [c] *)
  Definition fld (c : string) (i : nat) : field :=
    match lookup_cls G c with Some k => nth i (c_fields k) dflt_field | None => dflt_field end.

  Lemma jget_fld : forall f c v x i a,
    PC f c v = Ok x ->
    (match lookup_cls G c with Some k => Nat.ltb i (List.length (c_fields k)) | None => false end) = true ->
    f_alias (fld c i) = a ->
    is_null (jget a (EXP x)) = is_null (jget a v) /\ jt_field (fld c i) (jget a (EXP x)) = true.
  Proof.
    intros f c v x i a H Hi Ha. unfold fld in *. destruct (lookup_cls G c) as [k|] eqn:Hl; [|discriminate].
    apply Nat.ltb_lt in Hi. subst a.
    apply (jget_exp G classify pre_hook post generated_names_distinct f c v x k _ H Hl). apply nth_In. exact Hi.
  Qed.

  Lemma int_or_str_items : forall l,
    forallb (jt (KUnion [UScalar (KInt false None None None);
                           UScalar (KFormat "TaskParameterStringValue" None None CS_any)])) l = true ->
    forallb raw_int_or_str l = true.
  Proof.
    intros l. apply forallb_impl. intros a. rewrite jt_union. cbn [existsb jt_alt jt]. destruct a; cbn; congruence.
  Qed.

  Lemma hook_int_range : forall j, jt_field (fld "IntTaskParameterDefinition" 2) j = true ->
    match j with JArr items => forallb raw_int_or_str items | _ => true end = true.
  Proof.
    intros j H. set (F := fld "IntTaskParameterDefinition" 2) in H. vm_compute in F. subst F.
    destruct j; try reflexivity. unfold jt_field in H. cbn [f_shape f_kind] in H. rewrite jt_union in H.
    cbn [existsb jt_alt] in H. apply orb_true_iff in H. destruct H as [H|H]; [|cbn in H; discriminate].
    apply int_or_str_items. exact H.
  Qed.

  Lemma hook_float_range : forall j, jt_field (fld "FloatTaskParameterDefinition" 2) j = true ->
    match j with JArr items => forallb raw_num_or_str items | _ => true end = true.
  Proof.
    intros j H. set (F := fld "FloatTaskParameterDefinition" 2) in H. vm_compute in F. subst F.
    destruct j; try reflexivity. unfold jt_field in H. cbn [f_shape f_kind] in H.
    revert H. apply forallb_impl. intros a. rewrite jt_union. cbn [existsb jt_alt jt]. destruct a; cbn; congruence.
  Qed.

  Lemma hook_int_single : forall i j,
    In i [4; 5; 7] -> jt_field (fld "JobIntParameterDefinition" i) j = true ->
    raw_null_or raw_int_or_str j = true.
  Proof.
    intros i j Hi H. assert (E : fld "JobIntParameterDefinition" i = mkField (f_name (fld "JobIntParameterDefinition" i)) (f_alias (fld "JobIntParameterDefinition" i)) false Single (KInt false None None None)).
    { destruct Hi as [Hi|[Hi|[Hi|[]]]]; subst i; vm_compute; reflexivity. }
    rewrite E in H. unfold jt_field in H. cbn [f_shape f_kind f_required] in H.
    destruct j; try reflexivity; cbn in H; discriminate.
  Qed.

  Lemma hook_int_allowed : forall j, jt_field (fld "JobIntParameterDefinition" 6) j = true ->
    match j with JArr items => forallb raw_int_or_str items | _ => true end = true.
  Proof.
    intros j H. set (F := fld "JobIntParameterDefinition" 6) in H. vm_compute in F. subst F.
    destruct j; try reflexivity. unfold jt_field in H. cbn [f_shape f_kind] in H.
    revert H. apply forallb_impl. intros a. destruct a; cbn; congruence.
  Qed.

  (* every pre-validator accepts the re-export of an instance it accepted *)
  Theorem pre_hook_stable : forall f c v x, PC f c v = Ok x -> pre_hook c (EXP x) = true.
  Proof.
    intros f c v x H.
    assert (Hpre : pre_hook c v = true).
    { destruct (parse_cls_inv _ _ _ _ _ _ _ _ H) as [f' [k [ms [vals [_ [_ [_ [Hp _]]]]]]]]. exact Hp. }
    destruct (String.eqb c "EnvironmentActions") eqn:E1.
    { apply String.eqb_eq in E1. subst c.
      destruct (jget_fld f _ v x 0 "onEnter" H eq_refl eq_refl) as [A1 _].
      destruct (jget_fld f _ v x 1 "onExit" H eq_refl eq_refl) as [A2 _].
      change (negb (is_null (jget "onEnter" (EXP x))) || negb (is_null (jget "onExit" (EXP x))) = true).
      rewrite A1, A2. exact Hpre. }
    destruct (String.eqb c "Environment") eqn:E2.
    { apply String.eqb_eq in E2. subst c.
      destruct (jget_fld f _ v x 1 "script" H eq_refl eq_refl) as [A1 _].
      destruct (jget_fld f _ v x 2 "variables" H eq_refl eq_refl) as [A2 _].
      change (negb (is_null (jget "script" (EXP x))) || negb (is_null (jget "variables" (EXP x))) = true).
      rewrite A1, A2. exact Hpre. }
    destruct (String.eqb c "AmountRequirementTemplate") eqn:E3.
    { apply String.eqb_eq in E3. subst c.
      destruct (jget_fld f _ v x 1 "min" H eq_refl eq_refl) as [A1 _].
      destruct (jget_fld f _ v x 2 "max" H eq_refl eq_refl) as [A2 _].
      change (negb (is_null (jget "min" (EXP x))) || negb (is_null (jget "max" (EXP x))) = true).
      rewrite A1, A2. exact Hpre. }
    destruct (String.eqb c "AttributeRequirementTemplate") eqn:E4.
    { apply String.eqb_eq in E4. subst c.
      destruct (jget_fld f _ v x 1 "anyOf" H eq_refl eq_refl) as [A1 _].
      destruct (jget_fld f _ v x 2 "allOf" H eq_refl eq_refl) as [A2 _].
      change (negb (is_null (jget "anyOf" (EXP x))) || negb (is_null (jget "allOf" (EXP x))) = true).
      rewrite A1, A2. exact Hpre. }
    destruct (String.eqb c "IntTaskParameterDefinition") eqn:E5.
    { apply String.eqb_eq in E5. subst c.
      destruct (jget_fld f _ v x 2 "range" H eq_refl eq_refl) as [_ A1].
      change (match jget "range" (EXP x) with JArr items => forallb raw_int_or_str items | _ => true end = true).
      apply hook_int_range. exact A1. }
    destruct (String.eqb c "FloatTaskParameterDefinition") eqn:E6.
    { apply String.eqb_eq in E6. subst c.
      destruct (jget_fld f _ v x 2 "range" H eq_refl eq_refl) as [_ A1].
      change (match jget "range" (EXP x) with JArr items => forallb raw_num_or_str items | _ => true end = true).
      apply hook_float_range. exact A1. }
    destruct (String.eqb c "JobIntParameterDefinition") eqn:E7.
    { apply String.eqb_eq in E7. subst c.
      destruct (jget_fld f _ v x 4 "minValue" H eq_refl eq_refl) as [_ A1].
      destruct (jget_fld f _ v x 5 "maxValue" H eq_refl eq_refl) as [_ A2].
      destruct (jget_fld f _ v x 7 "default" H eq_refl eq_refl) as [_ A3].
      destruct (jget_fld f _ v x 6 "allowedValues" H eq_refl eq_refl) as [_ A4].
      change (raw_null_or raw_int_or_str (jget "minValue" (EXP x)) && raw_null_or raw_int_or_str (jget "maxValue" (EXP x))
              && raw_null_or raw_int_or_str (jget "default" (EXP x))
              && match jget "allowedValues" (EXP x) with JArr items => forallb raw_int_or_str items | _ => true end = true).
      rewrite (hook_int_single 4 _ (or_introl eq_refl) A1).
      rewrite (hook_int_single 5 _ (or_intror (or_introl eq_refl)) A2).
      rewrite (hook_int_single 7 _ (or_intror (or_intror (or_introl eq_refl))) A3).
      rewrite (hook_int_allowed _ A4). reflexivity. }
    unfold pre_hook. rewrite E1, E2, E3, E4, E5, E6, E7. reflexivity.
  Qed.
End LiveHooks.

(* ------------------------------------------------------------------------------------------ *)
(* 13. what remains: the reference pre-validation walk of the two template roots                *)

Require Import OJD.FsRefs OJD.ScopeWalk.

Section LiveRoundTrip.
  Variable classify : N -> cclass.
  Notation G := Generated.schema.
  Notation PC := (parse_cls G classify pre_hook (post_hook classify)).
  Notation EXP := (exp G).

  (* the only validator code that reads the RAW document besides the pre-validators: the variable
     reference walk of C03, run by the root validators of JobTemplate and EnvironmentTemplate.
     Hypothesis: it reports nothing on the re-export of a template it reported nothing on. *)
  Definition prevalidate_stable : Prop :=
    forall f root ms flds,
      root = "JobTemplate" \/ root = "EnvironmentTemplate" ->
      PC f root (JObj ms) = Ok (MModel root flds) ->
      prevalidate G (fs_refs classify) root (EXP (MModel root flds)) = [].

  Lemma job_template_ok_raw : forall raw raw' flds,
    job_template_ok classify raw flds = true ->
    prevalidate G (fs_refs classify) "JobTemplate" raw' = [] ->
    job_template_ok classify raw' flds = true.
  Proof.
    intros raw raw' flds H Hp. unfold job_template_ok in *. rewrite Hp.
    repeat (apply andb_true_iff in H; let H2 := fresh "H" in destruct H as [H H2]).
    repeat (apply andb_true_iff; split); try assumption. reflexivity.
  Qed.

  Lemma parse_cls_post : forall f c ms flds,
    PC f c (JObj ms) = Ok (MModel c flds) -> post_hook classify c (JObj ms) flds = true.
  Proof.
    intros f c ms flds H.
    destruct (parse_cls_inv _ _ _ _ _ _ _ _ H) as [f' [k [ms0 [vals [_ [_ [Ev [_ [_ [Ex Hpo]]]]]]]]]].
    inversion Ev. subst ms0. inversion Ex. exact Hpo.
  Qed.

  Theorem hooks_stable_live : prevalidate_stable ->
    hooks_stable G classify pre_hook (post_hook classify) template_classes.
  Proof.
    intros Hpv f c ms flds Hc H. split; [eapply pre_hook_stable; exact H|].
    pose proof (parse_cls_post f c ms flds H) as Hpo.
    destruct (String.eqb c "JobTemplate") eqn:E1.
    { apply String.eqb_eq in E1. subst c.
      change (job_template_ok classify (EXP (MModel "JobTemplate" flds)) flds = true).
      apply (job_template_ok_raw (JObj ms)); [exact Hpo|].
      eapply Hpv; [left; reflexivity|exact H]. }
    destruct (String.eqb c "EnvironmentTemplate") eqn:E2.
    { apply String.eqb_eq in E2. subst c.
      change (unique_names (fget "parameterDefinitions" flds)
              && match prevalidate G (fs_refs classify) "EnvironmentTemplate" (EXP (MModel "EnvironmentTemplate" flds)) with
                 | [] => true | _ => false end = true).
      change (unique_names (fget "parameterDefinitions" flds)
              && match prevalidate G (fs_refs classify) "EnvironmentTemplate" (JObj ms) with
                 | [] => true | _ => false end = true) in Hpo.
      apply andb_true_iff in Hpo. destruct Hpo as [Hu _]. rewrite Hu.
      rewrite (Hpv f "EnvironmentTemplate" ms flds (or_intror eq_refl) H). reflexivity. }
    rewrite (post_hook_raw_free classify c _ (JObj ms) flds); [exact Hpo| |].
    - intros E. rewrite E in E1. discriminate E1.
    - intros E. rewrite E in E2. discriminate E2.
  Qed.

  (* decode(export(decode j)) = decode j for every template class of the live schema *)
  Theorem roundtrip_live : forall root j v,
    In root template_classes ->
    parse_any classify root j = Ok v ->
    prevalidate_stable ->
    snd (roundtrip classify root v) = true.
  Proof.
    intros root j v Hroot Hp Hpv.
    eapply roundtrip_templates; try eassumption. apply hooks_stable_live. exact Hpv.
  Qed.



  (* below the roots no hypothesis is needed: every template class except the two roots round-trips,
     at any fuel *)
  Definition inner_classes : list string :=
    filter (fun c => negb (mem_s c ["JobTemplate"; "EnvironmentTemplate"])) template_classes.

  Lemma inner_schema_ok : schema_rt_ok G inner_classes = true.
  Proof. vm_compute. reflexivity. Qed.

  Theorem decoded_exports_plain : forall root j v,
    parse_any classify root j = Ok v -> plain (export v) = true.
  Proof.
    intros root j v Hp. unfold parse_any in Hp. unfold export.
    eapply parsed_exports_plain; [exact Hp|]. lia.
  Qed.

  Lemma inner_not_root : forall c, In c inner_classes -> c <> "JobTemplate" /\ c <> "EnvironmentTemplate".
  Proof.
    intros c Hc.
    assert (H : forallb (fun c => negb (String.eqb c "JobTemplate") && negb (String.eqb c "EnvironmentTemplate"))
                        inner_classes = true) by (vm_compute; reflexivity).
    rewrite forallb_forall in H. specialize (H c Hc). apply andb_true_iff in H. destruct H as [H1 H2].
    apply negb_true_iff in H1. apply negb_true_iff in H2.
    apply String.eqb_neq in H1. apply String.eqb_neq in H2. split; assumption.
  Qed.

  Lemma hooks_stable_inner : hooks_stable G classify pre_hook (post_hook classify) inner_classes.
  Proof.
    intros f c ms flds Hc H. split; [eapply pre_hook_stable; exact H|].
    pose proof (parse_cls_post f c ms flds H) as Hpo.
    destruct (inner_not_root c Hc) as [N1 N2].
    rewrite (post_hook_raw_free classify c _ (JObj ms) flds N1 N2). exact Hpo.
  Qed.

  Theorem roundtrip_inner : forall f c v x,
    In c inner_classes -> PC f c v = Ok x -> PC f c (EXP x) = Ok x.
  Proof.
    intros f c v x Hc H.
    destruct (roundtrip_generic G classify pre_hook (post_hook classify) inner_classes
                                inner_schema_ok hooks_stable_inner f) as [_ Hrt].
    eapply Hrt; eassumption.
  Qed.
  (* ... and in the form the function [roundtrip] computes it, with its recomputed fuel: no hypothesis *)
  Theorem roundtrip_live_inner : forall c j v,
    In c inner_classes ->
    parse_any classify c j = Ok v ->
    snd (roundtrip classify c v) = true.
  Proof.
    intros c j v Hc Hp.
    eapply (roundtrip_cl classify inner_classes); try eassumption.
    - exact inner_schema_ok.
    - apply keys_scalar_sound. vm_compute. reflexivity.
    - intros fuel c0 raw Hc0. apply pre_full_templates.
      assert (Hsub : forallb (fun c => mem_s c template_classes) inner_classes = true) by (vm_compute; reflexivity).
      rewrite forallb_forall in Hsub. apply mem_s_In. apply Hsub. exact Hc0.
    - exact hooks_stable_inner.
  Qed.
End LiveRoundTrip.

Theorem live_schema_ok :
  schema_rt_ok Generated.schema template_classes = true
  /\ filter (fun c => negb (cls_ok Generated.schema (map fst Generated.schema) c)) (map fst Generated.schema)
     = ["StepParameterSpace"].
Proof. split; [exact template_schema_ok|exact only_param_space_fails]. Qed.
