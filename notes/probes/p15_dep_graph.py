# C15 probe: every digraph on <=N nodes (hand-assembled Jobs; self-loops allowed) vs a recursive reference.
import itertools, sys
from openjd.model import StepDependencyGraph
from openjd.model.v2023_09._model import Job, Step, StepScript, StepActions, Action, StepDependency
N = int(sys.argv[1]) if len(sys.argv) > 1 else 3
SELF = (sys.argv[2] == "self") if len(sys.argv) > 2 else True
script = StepScript(actions=StepActions(onRun=Action(command="x")))
def mkjob(names, deps):
    steps = []
    for n in names:
        d = [StepDependency(dependsOn=m) for m in deps[n]]
        steps.append(Step.construct(name=n, script=script, dependencies=d or None))
    return Job.construct(name="J", steps=steps)
def acyclic(names, deps):
    state = {}
    def dfs(n):
        if state.get(n) == 1: return False
        if state.get(n) == 2: return True
        state[n] = 1
        for m in deps[n]:
            if not dfs(m): return False
        state[n] = 2; return True
    return all(dfs(n) for n in names)
def stable(names, deps):
    idx = {n: i for i, n in enumerate(names)}; placed = []
    def visit(n):
        if n in placed: return
        for m in sorted(set(deps[n]), key=lambda x: idx[x]): visit(m)
        placed.append(n)
    for n in names: visit(n)
    return placed
bad = total = 0
for n in range(1, N+1):
    names = [f"s{i}" for i in range(n)]
    slots = [(a, b) for a in names for b in names if SELF or a != b]
    for mask in range(1 << len(slots)):
        deps = {x: [] for x in names}
        for k, (a, b) in enumerate(slots):
            if mask >> k & 1: deps[a].append(b)
        # vary declaration order of deps: reversed for odd masks
        if mask & 1:
            for x in deps: deps[x].reverse()
        total += 1
        g = StepDependencyGraph(job=mkjob(names, deps))
        for x in names:
            node = g.step_node(stepname=x)
            if [e.origin.step.name for e in node.in_edges] != deps[x]: bad += 1; print("IN", deps)
            if sorted(e.dependent.step.name for e in node.out_edges) != sorted(y for y in names for d in deps[y] if d == x): bad += 1; print("OUT", deps)
        if g.max_indegree != max(len(deps[x]) for x in names): bad += 1
        if g.max_outdegree != max(sum(1 for y in names for d in deps[y] if d == x) for x in names): bad += 1
        try: got = [s.name for s in g.topo_sorted()]
        except ValueError: got = "VE"
        except Exception as e: got = "EXC:" + type(e).__name__
        want = stable(names, deps) if acyclic(names, deps) else "VE"
        if got != want: bad += 1; print("TOPO", deps, got, want) if bad < 10 else None
print("graphs", total, "bad", bad)
