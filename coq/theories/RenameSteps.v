(* RenameSteps.v — definitions behind props/C19xs.v (C19_rename_steps): consistently renaming the STEPS
   and the ENVIRONMENTS of a template.

   Steps and environments are not referenced from format strings; their names matter to the
   structural layer only (their own length / character-set rule) and to the validators of
   StepTemplate / JobTemplate (unique step names, dependsOn names an existing other step, no
   duplicate dependency, no dependency cycle, unique environment names, step-environment names
   differ from job-environment names).

   [rho_s] renames step names: steps[i].name and every steps[i].dependencies[k].dependsOn.
   [rho_e] renames environment names: jobEnvironments[i].name, steps[i].stepEnvironments[k].name,
           and environment.name of an environment template.
   Only string values are touched (a non-string at such a place is left alone: the structural
   layer rejects it in both documents).  Every member with the key is mapped (a duplicated key is
   renamed consistently), member order and every other member are kept.

   The document-level renamings are written with [on_obj] / [on_arr] / [dispatch] of
   RenameProofs.v, exactly like [rename_job] there.  The same renaming on decoded models
   ([mval], CreateJob.v) is [mrename_job] / [mrename_env_template]; on created Jobs (target class
   Job / Step) it is [mrename_job] as well: the renamed attributes keep their names.
   Definitions only. *)
From Coq Require Import List NArith ZArith Bool String.
Import ListNotations.
Require Import OJD.Base OJD.Json OJD.Schema OJD.Charsets OJD.CreateJob OJD.RenameProofs.
Local Open Scope string_scope.
Local Open Scope list_scope.

(* map over an outcome *)
Definition omap {A B : Type} (g : A -> B) (o : outcome A) : outcome B :=
  match o with Ok a => Ok (g a) | Raise e => Raise e end.

(* what Generated.schema says about the [name] of StepTemplate / Environment and about
   StepDependency.dependsOn: constr(min_length=1, max_length=64), no control characters
   (KStr true (Some 1) (Some 64) CS_standard) *)
Definition name_fine (s : str) : bool := len_ok (Some 1%N) (Some 64%N) s && cs_ok CS_standard s.

(* a string value is renamed, anything else is left alone *)
Definition ren_str (rho : str -> str) (v : json) : json :=
  match v with JStr s => JStr (rho s) | _ => v end.

Definition mren_str (rho : str -> str) (v : mval) : mval :=
  match v with MStr s => MStr (rho s) | _ => v end.

(* by attribute name; attributes not listed are left alone *)
Fixpoint mdispatch (tbl : list (string * (mval -> mval))) (k : string) (v : mval) : mval :=
  match tbl with
  | [] => v
  | (n, g) :: r => if String.eqb k n then g v else mdispatch r k v
  end.

Definition mapf (g : string -> mval -> mval) (fs : list (string * mval)) : list (string * mval) :=
  map (fun kv => (fst kv, g (fst kv) (snd kv))) fs.

Definition on_fields (g : string -> mval -> mval) (v : mval) : mval :=
  match v with MModel c fs => MModel c (mapf g fs) | _ => v end.

Definition on_mlist (g : mval -> mval) (v : mval) : mval :=
  match v with MList l => MList (map g l) | _ => v end.

Section RenameSteps.
  Variables rho_s rho_e : str -> str.

  (* ---------------------------------------------------------------- documents *)
  Definition rs_dep_h : str -> json -> json := dispatch [("dependsOn", ren_str rho_s)].
  Definition rs_dep : json -> json := on_obj rs_dep_h.
  Definition rs_env_h : str -> json -> json := dispatch [("name", ren_str rho_e)].
  Definition rs_env : json -> json := on_obj rs_env_h.
  Definition rs_step_h : str -> json -> json :=
    dispatch [("name", ren_str rho_s); ("dependencies", on_arr rs_dep); ("stepEnvironments", on_arr rs_env)].
  Definition rs_step : json -> json := on_obj rs_step_h.
  Definition rs_job_h : str -> json -> json :=
    dispatch [("steps", on_arr rs_step); ("jobEnvironments", on_arr rs_env)].
  Definition rs_envt_h : str -> json -> json := dispatch [("environment", rs_env)].

  (* the renamed job template / environment template *)
  Definition rename_steps_envs : json -> json := on_obj rs_job_h.
  Definition rename_env_name : json -> json := on_obj rs_envt_h.

  (* ---------------------------------------------------------------- decoded models and Jobs *)
  Definition mr_dep_g : string -> mval -> mval := mdispatch [("dependsOn", mren_str rho_s)].
  Definition mr_dep : mval -> mval := on_fields mr_dep_g.
  Definition mr_env_g : string -> mval -> mval := mdispatch [("name", mren_str rho_e)].
  Definition mr_env : mval -> mval := on_fields mr_env_g.
  Definition mr_step_g : string -> mval -> mval :=
    mdispatch [("name", mren_str rho_s); ("dependencies", on_mlist mr_dep); ("stepEnvironments", on_mlist mr_env)].
  Definition mr_step : mval -> mval := on_fields mr_step_g.
  Definition mr_job_g : string -> mval -> mval :=
    mdispatch [("steps", on_mlist mr_step); ("jobEnvironments", on_mlist mr_env)].
  Definition mr_envt_g : string -> mval -> mval := mdispatch [("environment", mr_env)].

  Definition mrename_job : mval -> mval := on_fields mr_job_g.
  Definition mrename_env_template : mval -> mval := on_fields mr_envt_g.
End RenameSteps.
