(* Extraction of the combination-expression model (C14).  ExtrOcamlBasic only. *)
From Coq Require Import Extraction ExtrOcamlBasic List NArith ZArith.
Require Import OJD.Base OJD.Lexer OJD.Comb.
Extraction Language OCaml.
(* [sumZ] is listed only so that the extracted module contains type [z], which the shared
   ocaml/conv.ml mentions. *)
Extraction "Model.ml"
  exn_eqb sumZ ascii_ok ascii_class lex_for comb_kinds
  parse parse_str to_tokens collect_ids
  charsetb lengthb accounting template_check
  dims job_dims dims_str lookup_len.
