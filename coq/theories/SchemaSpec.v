(* SchemaSpec.v — the 2023-09 template schema as a table, FROZEN: this is the specification side of
   C01/C02 (field names, aliases, required/optional, shapes, kinds, length / size / numeric limits,
   character sets).  It was transcribed once from the schema the repaired pinned tree implements and
   reviewed against the rule inventory of DESIGN.md Appendix C; tools/regen.py regenerates
   Generated.schema from the live classes on every run and C01_table / C02_table compare the two.
   The scope / creation metadata columns are carried along but are not part of the C01/C02 comparison
   (C03 and C05 own them). *)
From Coq Require Import String List NArith ZArith.
Import ListNotations.
Require Import OJD.Base OJD.Json OJD.Schema.
Local Open Scope string_scope.

Definition spec_schema : schema_t := [
 ("CancelationMethodNotifyThenTerminate",
  mkCls true true None
   (mkDefs "" [] "" [])
   []
   (mkJcm [] [] [] [] CreateSelf false)
   []
   [
     mkField "mode" "mode" true (Single) (KLiteral "NOTIFY_THEN_TERMINATE");
     mkField "notifyPeriodInSeconds" "notifyPeriodInSeconds" false (Single) (KInt false (Some (1)%Z) (Some (600)%Z) None) ]);
 ("CancelationMethodTerminate",
  mkCls true true None
   (mkDefs "" [] "" [])
   []
   (mkJcm [] [] [] [] CreateSelf false)
   []
   [
     mkField "mode" "mode" true (Single) (KLiteral "TERMINATE") ]);
 ("Action",
  mkCls true true None
   (mkDefs "" [] "" [])
   []
   (mkJcm [] [] [] [] CreateSelf false)
   []
   [
     mkField "command" "command" true (Single) (KFormat "CommandString" (Some 1%N) None CS_standard);
     mkField "args" "args" false (ListOf (Some 1%N) None) (KFormat "ArgString" None None CS_nocc_star);
     mkField "timeout" "timeout" false (Single) (KInt false None None (Some (0)%Z));
     mkField "cancelation" "cancelation" false (Single) (KDisc "mode" [("NOTIFY_THEN_TERMINATE", "CancelationMethodNotifyThenTerminate"); ("TERMINATE", "CancelationMethodTerminate")]) ]);
 ("StepActions",
  mkCls true true None
   (mkDefs "" [] "" [])
   []
   (mkJcm [] [] [] [] CreateSelf false)
   []
   [
     mkField "onRun" "onRun" true (Single) (KModel "Action") ]);
 ("EnvironmentActions",
  mkCls true true None
   (mkDefs "" [] "" [])
   []
   (mkJcm [] [] [] [] CreateSelf false)
   ["__root__:_requires_oneof:pre"]
   [
     mkField "onEnter" "onEnter" false (Single) (KModel "Action");
     mkField "onExit" "onExit" false (Single) (KModel "Action") ]);
 ("EmbeddedFileText",
  mkCls true true None
   (mkDefs "" [("File.", SESSION)] "name" [])
   [("__export__", ["__self__"]); ("data", ["__self__"])]
   (mkJcm [] [] [] [] CreateSelf false)
   []
   [
     mkField "name" "name" true (Single) (KStr true (Some 1%N) (Some 64%N) CS_identifier);
     mkField "type" "type" true (Single) (KLiteral "TEXT");
     mkField "data" "data" true (Single) (KFormat "DataString" (Some 1%N) None CS_any);
     mkField "filename" "filename" false (Single) (KStr true (Some 1%N) (Some 64%N) CS_any);
     mkField "runnable" "runnable" false (Single) (KBool true) ]);
 ("StepScript",
  mkCls true true (Some TASK)
   (mkDefs "|Task." [] "" ["|Session.HasPathMappingRules"; "|Session.PathMappingRulesFile"; "|Session.WorkingDirectory"])
   [("actions", ["__self__"; "embeddedFiles"]); ("embeddedFiles", ["__self__"; "embeddedFiles"])]
   (mkJcm [] [] [] [] CreateSelf false)
   ["embeddedFiles:_unique_names"]
   [
     mkField "actions" "actions" true (Single) (KModel "StepActions");
     mkField "embeddedFiles" "embeddedFiles" false (ListOf (Some 1%N) None) (KModel "EmbeddedFileText") ]);
 ("EnvironmentScript",
  mkCls true true None
   (mkDefs "|Env." [] "" ["|Session.HasPathMappingRules"; "|Session.PathMappingRulesFile"; "|Session.WorkingDirectory"])
   [("actions", ["__self__"; "embeddedFiles"]); ("embeddedFiles", ["__self__"; "embeddedFiles"])]
   (mkJcm [] [] [] [] CreateSelf false)
   ["embeddedFiles:_unique_names"]
   [
     mkField "actions" "actions" true (Single) (KModel "EnvironmentActions");
     mkField "embeddedFiles" "embeddedFiles" false (ListOf (Some 1%N) None) (KModel "EmbeddedFileText") ]);
 ("RangeListTaskParameterDefinition",
  mkCls true true None
   (mkDefs "" [] "" [])
   []
   (mkJcm [] [] [] [] CreateSelf false)
   []
   [
     mkField "type" "type" true (Single) (KEnum ["INT"; "FLOAT"; "STRING"; "PATH"]);
     mkField "range" "range" true (ListOf None None) (KStr false (Some 0%N) (Some 1024%N) CS_any) ]);
 ("IntRangeListTaskParameterDefinition",
  mkCls true true None
   (mkDefs "" [] "" [])
   []
   (mkJcm [] [] [] [] CreateSelf false)
   ["range:_validate_range_elements"]
   [
     mkField "type" "type" true (Single) (KEnum ["INT"; "FLOAT"; "STRING"; "PATH"]);
     mkField "range" "range" true (ListOf None None) (KStr false (Some 0%N) (Some 1024%N) CS_any) ]);
 ("FloatRangeListTaskParameterDefinition",
  mkCls true true None
   (mkDefs "" [] "" [])
   []
   (mkJcm [] [] [] [] CreateSelf false)
   ["range:_validate_range_elements"]
   [
     mkField "type" "type" true (Single) (KEnum ["INT"; "FLOAT"; "STRING"; "PATH"]);
     mkField "range" "range" true (ListOf None None) (KStr false (Some 0%N) (Some 1024%N) CS_any) ]);
 ("RangeExpressionTaskParameterDefinition",
  mkCls true true None
   (mkDefs "" [] "" [])
   []
   (mkJcm [] [] [] [] CreateSelf false)
   ["range:_validate_range_expression"]
   [
     mkField "type" "type" true (Single) (KEnum ["INT"; "FLOAT"; "STRING"; "PATH"]);
     mkField "range" "range" true (Single) (KFormat "RangeString" (Some 1%N) None CS_any) ]);
 ("IntTaskParameterDefinition",
  mkCls true true None
   (mkDefs "" [("|Task.Param.", TASK); ("|Task.RawParam.", TASK)] "name" [])
   [("__export__", ["__self__"])]
   (mkJcm ["range"] ["name"] [] [] (CreateIntRange "RangeExpressionTaskParameterDefinition" "IntRangeListTaskParameterDefinition") false)
   ["range:_validate_range_element_type:pre"; "range:_validate_range_elements"]
   [
     mkField "name" "name" true (Single) (KStr true (Some 1%N) (Some 64%N) CS_identifier);
     mkField "type" "type" true (Single) (KLiteral "INT");
     mkField "range" "range" true (Single) (KUnion [UList (Some 1%N) (Some 1024%N) (KUnion [UScalar (KInt false None None None); UScalar (KFormat "TaskParameterStringValue" None None CS_any)]); UScalar (KFormat "RangeString" (Some 1%N) None CS_any)]) ]);
 ("FloatTaskParameterDefinition",
  mkCls true true None
   (mkDefs "" [("|Task.Param.", TASK); ("|Task.RawParam.", TASK)] "name" [])
   [("__export__", ["__self__"])]
   (mkJcm ["range"] ["name"] [] [] (CreateModel "FloatRangeListTaskParameterDefinition") false)
   ["range:_validate_range_element_type:pre:each"; "range:_validate_range_elements:each"]
   [
     mkField "name" "name" true (Single) (KStr true (Some 1%N) (Some 64%N) CS_identifier);
     mkField "type" "type" true (Single) (KLiteral "FLOAT");
     mkField "range" "range" true (ListOf (Some 1%N) (Some 1024%N)) (KUnion [UScalar (KDec); UScalar (KFormat "TaskParameterStringValue" None None CS_any)]) ]);
 ("StringTaskParameterDefinition",
  mkCls true true None
   (mkDefs "" [("|Task.Param.", TASK); ("|Task.RawParam.", TASK)] "name" [])
   [("__export__", ["__self__"])]
   (mkJcm ["range"] ["name"] [] [] (CreateModel "RangeListTaskParameterDefinition") false)
   []
   [
     mkField "name" "name" true (Single) (KStr true (Some 1%N) (Some 64%N) CS_identifier);
     mkField "type" "type" true (Single) (KLiteral "STRING");
     mkField "range" "range" true (ListOf (Some 1%N) (Some 1024%N)) (KFormat "TaskParameterStringValue" None None CS_any) ]);
 ("PathTaskParameterDefinition",
  mkCls true true None
   (mkDefs "" [("|Task.Param.", TASK); ("|Task.RawParam.", TASK)] "name" [])
   [("__export__", ["__self__"])]
   (mkJcm ["range"] ["name"] [] [] (CreateModel "RangeListTaskParameterDefinition") false)
   []
   [
     mkField "name" "name" true (Single) (KStr true (Some 1%N) (Some 64%N) CS_identifier);
     mkField "type" "type" true (Single) (KLiteral "PATH");
     mkField "range" "range" true (ListOf (Some 1%N) (Some 1024%N)) (KFormat "TaskParameterStringValue" None None CS_any) ]);
 ("StepParameterSpace",
  mkCls true true None
   (mkDefs "" [] "" [])
   []
   (mkJcm [] [] [] [] CreateSelf false)
   ["combination:_validate_parameter_space"]
   [
     mkField "taskParameterDefinitions" "taskParameterDefinitions" true (DictOf (KStr true (Some 1%N) (Some 64%N) CS_identifier)) (KUnion [UScalar (KModel "RangeListTaskParameterDefinition"); UScalar (KModel "RangeExpressionTaskParameterDefinition")]);
     mkField "combination" "combination" false (Single) (KStr true (Some 1%N) (Some 1280%N) CS_combination) ]);
 ("StepParameterSpaceDefinition",
  mkCls true true None
   (mkDefs "" [] "" [])
   [("__export__", ["taskParameterDefinitions"])]
   (mkJcm [] [] [] [("taskParameterDefinitions", "name")] (CreateModel "StepParameterSpace") false)
   ["__root__:_validate_combination"; "taskParameterDefinitions:_validate_parameters"]
   [
     mkField "taskParameterDefinitions" "taskParameterDefinitions" true (ListOf (Some 1%N) (Some 16%N)) (KDisc "type" [("INT", "IntTaskParameterDefinition"); ("FLOAT", "FloatTaskParameterDefinition"); ("STRING", "StringTaskParameterDefinition"); ("PATH", "PathTaskParameterDefinition")]);
     mkField "combination" "combination" false (Single) (KStr true (Some 1%N) (Some 1280%N) CS_combination) ]);
 ("Environment",
  mkCls true true (Some SESSION)
   (mkDefs "" [] "" [])
   []
   (mkJcm [] [] [] [] CreateSelf false)
   ["__root__:_validate_has_script_or_variables:pre"; "variables:_validate_variables"]
   [
     mkField "name" "name" true (Single) (KStr true (Some 1%N) (Some 64%N) CS_standard);
     mkField "script" "script" false (Single) (KModel "EnvironmentScript");
     mkField "variables" "variables" false (DictOf (KStr false (Some 1%N) (Some 256%N) CS_identifier)) (KFormat "EnvironmentVariableValueString" None (Some 2048%N) CS_any);
     mkField "description" "description" false (Single) (KStr true (Some 1%N) (Some 2048%N) CS_description) ]);
 ("JobParameter",
  mkCls true true None
   (mkDefs "" [] "" [])
   []
   (mkJcm [] [] [] [] CreateSelf false)
   []
   [
     mkField "type" "type" true (Single) (KEnum ["STRING"; "PATH"; "INT"; "FLOAT"]);
     mkField "value" "value" true (Single) (KStr false None None CS_any);
     mkField "description" "description" false (Single) (KStr true (Some 1%N) (Some 2048%N) CS_description) ]);
 ("JobStringParameterDefinitionUserInterface",
  mkCls true true None
   (mkDefs "" [] "" [])
   []
   (mkJcm [] [] [] [] CreateSelf false)
   []
   [
     mkField "control" "control" true (Single) (KEnum ["LINE_EDIT"; "MULTILINE_EDIT"; "DROPDOWN_LIST"; "CHECK_BOX"; "HIDDEN"]);
     mkField "label" "label" false (Single) (KStr true (Some 1%N) (Some 64%N) CS_standard);
     mkField "groupLabel" "groupLabel" false (Single) (KStr true (Some 1%N) (Some 64%N) CS_standard) ]);
 ("JobStringParameterDefinition",
  mkCls true true None
   (mkDefs "" [("|Param.", TEMPLATE); ("|RawParam.", TEMPLATE)] "name" [])
   [("__export__", ["__self__"])]
   (mkJcm [] ["allowedValues"; "default"; "maxLength"; "minLength"; "name"; "userInterface"] [] [] (CreateModel "JobParameter") true)
   ["__root__:_validate_user_interface_compatibility"; "allowedValues:_validate_allowed_values_item:each"; "default:_validate_default"; "maxLength:_validate_max_length"; "minLength:_validate_min_length"]
   [
     mkField "name" "name" true (Single) (KStr true (Some 1%N) (Some 64%N) CS_identifier);
     mkField "type" "type" true (Single) (KLiteral "STRING");
     mkField "userInterface" "userInterface" false (Single) (KModel "JobStringParameterDefinitionUserInterface");
     mkField "description" "description" false (Single) (KStr true (Some 1%N) (Some 2048%N) CS_description);
     mkField "minLength" "minLength" false (Single) (KInt true None None None);
     mkField "maxLength" "maxLength" false (Single) (KInt true None None None);
     mkField "allowedValues" "allowedValues" false (ListOf (Some 1%N) None) (KStr true (Some 0%N) (Some 1024%N) CS_any);
     mkField "default" "default" false (Single) (KStr true (Some 0%N) (Some 1024%N) CS_any) ]);
 ("JobPathParameterDefinitionFileFilter",
  mkCls true true None
   (mkDefs "" [] "" [])
   []
   (mkJcm [] [] [] [] CreateSelf false)
   []
   [
     mkField "label" "label" true (Single) (KStr true (Some 1%N) (Some 64%N) CS_standard);
     mkField "patterns" "patterns" true (ListOf (Some 1%N) (Some 20%N)) (KStr true (Some 1%N) (Some 20%N) CS_filefilter) ]);
 ("JobPathParameterDefinitionUserInterface",
  mkCls true true None
   (mkDefs "" [] "" [])
   []
   (mkJcm [] [] [] [] CreateSelf false)
   []
   [
     mkField "control" "control" true (Single) (KEnum ["CHOOSE_INPUT_FILE"; "CHOOSE_OUTPUT_FILE"; "CHOOSE_DIRECTORY"; "DROPDOWN_LIST"; "HIDDEN"]);
     mkField "label" "label" false (Single) (KStr true (Some 1%N) (Some 64%N) CS_standard);
     mkField "groupLabel" "groupLabel" false (Single) (KStr true (Some 1%N) (Some 64%N) CS_standard);
     mkField "fileFilters" "fileFilters" false (ListOf (Some 1%N) (Some 20%N)) (KModel "JobPathParameterDefinitionFileFilter");
     mkField "fileFilterDefault" "fileFilterDefault" false (Single) (KModel "JobPathParameterDefinitionFileFilter") ]);
 ("JobPathParameterDefinition",
  mkCls true true None
   (mkDefs "" [("|Param.", SESSION); ("|RawParam.", TEMPLATE)] "name" [])
   [("__export__", ["__self__"])]
   (mkJcm [] ["allowedValues"; "dataFlow"; "default"; "maxLength"; "minLength"; "name"; "objectType"; "userInterface"] [] [] (CreateModel "JobParameter") true)
   ["__root__:_validate_user_interface_compatibility"; "allowedValues:_validate_allowed_values_item:each"; "default:_validate_default"; "maxLength:_validate_max_length"; "minLength:_validate_min_length"]
   [
     mkField "name" "name" true (Single) (KStr true (Some 1%N) (Some 64%N) CS_identifier);
     mkField "type" "type" true (Single) (KLiteral "PATH");
     mkField "objectType" "objectType" false (Single) (KEnum ["FILE"; "DIRECTORY"]);
     mkField "dataFlow" "dataFlow" false (Single) (KEnum ["NONE"; "IN"; "OUT"; "INOUT"]);
     mkField "userInterface" "userInterface" false (Single) (KModel "JobPathParameterDefinitionUserInterface");
     mkField "description" "description" false (Single) (KStr true (Some 1%N) (Some 2048%N) CS_description);
     mkField "minLength" "minLength" false (Single) (KInt true None None None);
     mkField "maxLength" "maxLength" false (Single) (KInt true None None None);
     mkField "allowedValues" "allowedValues" false (ListOf (Some 1%N) None) (KStr true (Some 0%N) (Some 1024%N) CS_any);
     mkField "default" "default" false (Single) (KStr true (Some 0%N) (Some 1024%N) CS_any) ]);
 ("JobIntParameterDefinitionUserInterface",
  mkCls true true None
   (mkDefs "" [] "" [])
   []
   (mkJcm [] [] [] [] CreateSelf false)
   []
   [
     mkField "control" "control" true (Single) (KEnum ["SPIN_BOX"; "DROPDOWN_LIST"; "HIDDEN"]);
     mkField "label" "label" false (Single) (KStr true (Some 1%N) (Some 64%N) CS_standard);
     mkField "groupLabel" "groupLabel" false (Single) (KStr true (Some 1%N) (Some 64%N) CS_standard);
     mkField "singleStepDelta" "singleStepDelta" false (Single) (KInt false None None (Some (0)%Z)) ]);
 ("JobIntParameterDefinition",
  mkCls true true None
   (mkDefs "" [("|Param.", TEMPLATE); ("|RawParam.", TEMPLATE)] "name" [])
   [("__export__", ["__self__"])]
   (mkJcm [] ["allowedValues"; "default"; "maxValue"; "minValue"; "name"; "userInterface"] [] [] (CreateModel "JobParameter") true)
   ["__root__:_validate_user_interface_compatibility"; "allowedValues:_validate_allowed_values_item:each"; "allowedValues:_validate_allowed_values_item_type:pre:each"; "default:_validate_default"; "default:_validate_default_value_type:pre"; "maxValue:_validate_max_value"; "maxValue:_validate_max_value_type:pre"; "minValue:_validate_min_value_type:pre"]
   [
     mkField "name" "name" true (Single) (KStr true (Some 1%N) (Some 64%N) CS_identifier);
     mkField "type" "type" true (Single) (KLiteral "INT");
     mkField "userInterface" "userInterface" false (Single) (KModel "JobIntParameterDefinitionUserInterface");
     mkField "description" "description" false (Single) (KStr true (Some 1%N) (Some 2048%N) CS_description);
     mkField "minValue" "minValue" false (Single) (KInt false None None None);
     mkField "maxValue" "maxValue" false (Single) (KInt false None None None);
     mkField "allowedValues" "allowedValues" false (ListOf (Some 1%N) None) (KInt false None None None);
     mkField "default" "default" false (Single) (KInt false None None None) ]);
 ("JobFloatParameterDefinitionUserInterface",
  mkCls true true None
   (mkDefs "" [] "" [])
   []
   (mkJcm [] [] [] [] CreateSelf false)
   []
   [
     mkField "control" "control" true (Single) (KEnum ["SPIN_BOX"; "DROPDOWN_LIST"; "HIDDEN"]);
     mkField "label" "label" false (Single) (KStr true (Some 1%N) (Some 64%N) CS_standard);
     mkField "groupLabel" "groupLabel" false (Single) (KStr true (Some 1%N) (Some 64%N) CS_standard);
     mkField "decimals" "decimals" false (Single) (KInt false None None (Some (0)%Z));
     mkField "singleStepDelta" "singleStepDelta" false (Single) (KFloat (Some (0)%Z)) ]);
 ("JobFloatParameterDefinition",
  mkCls true true None
   (mkDefs "" [("|Param.", TEMPLATE); ("|RawParam.", TEMPLATE)] "name" [])
   [("__export__", ["__self__"])]
   (mkJcm [] ["allowedValues"; "default"; "maxValue"; "minValue"; "name"; "userInterface"] [] [] (CreateModel "JobParameter") true)
   ["__root__:_validate_user_interface_compatibility"; "allowedValues:_validate_allowed_values_item:each"; "default:_validate_default"; "maxValue:_validate_max_value"]
   [
     mkField "name" "name" true (Single) (KStr true (Some 1%N) (Some 64%N) CS_identifier);
     mkField "type" "type" true (Single) (KLiteral "FLOAT");
     mkField "userInterface" "userInterface" false (Single) (KModel "JobFloatParameterDefinitionUserInterface");
     mkField "description" "description" false (Single) (KStr true (Some 1%N) (Some 2048%N) CS_description);
     mkField "minValue" "minValue" false (Single) (KDec);
     mkField "maxValue" "maxValue" false (Single) (KDec);
     mkField "allowedValues" "allowedValues" false (ListOf (Some 1%N) None) (KDec);
     mkField "default" "default" false (Single) (KDec) ]);
 ("AmountRequirement",
  mkCls true true None
   (mkDefs "" [] "" [])
   []
   (mkJcm [] [] [] [] CreateSelf false)
   ["__root__:validate_concrete_model:pre"]
   [
     mkField "name" "name" true (Single) (KStr false None None CS_any);
     mkField "min" "min" false (Single) (KDec);
     mkField "max" "max" false (Single) (KDec) ]);
 ("AmountRequirementTemplate",
  mkCls true true None
   (mkDefs "" [] "" [])
   []
   (mkJcm ["name"] [] [] [] (CreateModel "AmountRequirement") false)
   ["__root__:_validate_has_one_optional:pre"; "max:_validate_max"; "min:_validate_min"; "name:_validate_name"]
   [
     mkField "name" "name" true (Single) (KFormat "AmountCapabilityName" (Some 1%N) (Some 100%N) CS_any);
     mkField "min" "min" false (Single) (KDec);
     mkField "max" "max" false (Single) (KDec) ]);
 ("AttributeRequirement",
  mkCls true true None
   (mkDefs "" [] "" [])
   []
   (mkJcm [] [] [] [] CreateSelf false)
   ["__root__:validate_concrete_model:pre"]
   [
     mkField "name" "name" true (Single) (KStr false None None CS_any);
     mkField "anyOf" "anyOf" false (ListOf None None) (KStr false None None CS_any);
     mkField "allOf" "allOf" false (ListOf None None) (KStr false None None CS_any) ]);
 ("AttributeRequirementTemplate",
  mkCls true true None
   (mkDefs "" [] "" [])
   []
   (mkJcm ["allOf"; "anyOf"; "name"] [] [] [] (CreateModel "AttributeRequirement") false)
   ["__root__:_validate_has_one_optional:pre"; "allOf:_validate_allof"; "anyOf:_validate_anyof"; "name:_validate_name"]
   [
     mkField "name" "name" true (Single) (KFormat "AttributeCapabilityName" (Some 1%N) (Some 100%N) CS_any);
     mkField "anyOf" "anyOf" false (ListOf (Some 1%N) (Some 50%N)) (KFormat "AttributeCapabilityValue" (Some 1%N) None CS_any);
     mkField "allOf" "allOf" false (ListOf (Some 1%N) (Some 50%N)) (KFormat "AttributeCapabilityValue" (Some 1%N) None CS_any) ]);
 ("HostRequirements",
  mkCls true true None
   (mkDefs "" [] "" [])
   []
   (mkJcm [] [] [] [] CreateSelf false)
   []
   [
     mkField "amounts" "amounts" false (ListOf None None) (KModel "AmountRequirement");
     mkField "attributes" "attributes" false (ListOf None None) (KModel "AttributeRequirement") ]);
 ("HostRequirementsTemplate",
  mkCls true true None
   (mkDefs "" [] "" [])
   []
   (mkJcm [] [] [] [] (CreateModel "HostRequirements") false)
   ["__root__:_validate"; "amounts:_validate_amounts"; "attributes:_validate_attributes"]
   [
     mkField "amounts" "amounts" false (ListOf None None) (KModel "AmountRequirementTemplate");
     mkField "attributes" "attributes" false (ListOf None None) (KModel "AttributeRequirementTemplate") ]);
 ("StepDependency",
  mkCls true true None
   (mkDefs "" [] "" [])
   []
   (mkJcm [] [] [] [] CreateSelf false)
   []
   [
     mkField "dependsOn" "dependsOn" true (Single) (KStr true (Some 1%N) (Some 64%N) CS_standard) ]);
 ("Step",
  mkCls true true None
   (mkDefs "" [] "" [])
   []
   (mkJcm [] [] [] [] CreateSelf false)
   []
   [
     mkField "name" "name" true (Single) (KStr true (Some 1%N) (Some 64%N) CS_standard);
     mkField "script" "script" true (Single) (KModel "StepScript");
     mkField "description" "description" false (Single) (KStr true (Some 1%N) (Some 2048%N) CS_description);
     mkField "stepEnvironments" "stepEnvironments" false (ListOf (Some 1%N) None) (KModel "Environment");
     mkField "parameterSpace" "parameterSpace" false (Single) (KModel "StepParameterSpace");
     mkField "hostRequirements" "hostRequirements" false (Single) (KModel "HostRequirements");
     mkField "dependencies" "dependencies" false (ListOf (Some 1%N) None) (KModel "StepDependency") ]);
 ("StepTemplate",
  mkCls true true None
   (mkDefs "" [] "" [])
   [("script", ["__self__"; "parameterSpace"]); ("stepEnvironments", ["__self__"])]
   (mkJcm [] [] [] [] (CreateModel "Step") false)
   ["__root__:_validate_no_self_dependency"; "dependencies:_validate_no_duplicate_deps"; "stepEnvironments:_unique_environment_names"]
   [
     mkField "name" "name" true (Single) (KStr true (Some 1%N) (Some 64%N) CS_standard);
     mkField "description" "description" false (Single) (KStr true (Some 1%N) (Some 2048%N) CS_description);
     mkField "script" "script" true (Single) (KModel "StepScript");
     mkField "stepEnvironments" "stepEnvironments" false (ListOf (Some 1%N) None) (KModel "Environment");
     mkField "parameterSpace" "parameterSpace" false (Single) (KModel "StepParameterSpaceDefinition");
     mkField "hostRequirements" "hostRequirements" false (Single) (KModel "HostRequirementsTemplate");
     mkField "dependencies" "dependencies" false (ListOf (Some 1%N) None) (KModel "StepDependency") ]);
 ("Job",
  mkCls true true None
   (mkDefs "" [] "" [])
   []
   (mkJcm [] [] [] [] CreateSelf false)
   []
   [
     mkField "name" "name" true (Single) (KStr true (Some 1%N) (Some 128%N) CS_standard);
     mkField "steps" "steps" true (ListOf None None) (KModel "Step");
     mkField "description" "description" false (Single) (KStr true (Some 1%N) (Some 2048%N) CS_description);
     mkField "parameters" "parameters" false (DictOf (KStr true (Some 1%N) (Some 64%N) CS_identifier)) (KModel "JobParameter");
     mkField "jobEnvironments" "jobEnvironments" false (ListOf (Some 1%N) None) (KModel "Environment") ]);
 ("JobTemplate",
  mkCls true true (Some TEMPLATE)
   (mkDefs "" [] "" [])
   [("jobEnvironments", ["parameterDefinitions"]); ("name", ["parameterDefinitions"]); ("steps", ["parameterDefinitions"])]
   (mkJcm ["name"] ["schemaStr"; "specificationVersion"] [("parameterDefinitions", "parameters")] [("parameterDefinitions", "name")] (CreateModel "Job") false)
   ["__root__:_root_template_prevalidator:prevalidator"; "__root__:_validate_env_names_dont_match_step_env_names"; "__root__:_validate_no_step_dependency_cycles"; "__root__:_validate_step_deps_exist"; "jobEnvironments:_unique_environment_names"; "parameterDefinitions:_unique_parameter_names"; "steps:_unique_step_names"]
   [
     mkField "specificationVersion" "specificationVersion" true (Single) (KLiteral "jobtemplate-2023-09");
     mkField "name" "name" true (Single) (KFormat "JobTemplateName" (Some 1%N) None CS_any);
     mkField "steps" "steps" true (ListOf (Some 1%N) None) (KModel "StepTemplate");
     mkField "description" "description" false (Single) (KStr true (Some 1%N) (Some 2048%N) CS_description);
     mkField "parameterDefinitions" "parameterDefinitions" false (ListOf (Some 1%N) (Some 50%N)) (KDisc "type" [("INT", "JobIntParameterDefinition"); ("FLOAT", "JobFloatParameterDefinition"); ("STRING", "JobStringParameterDefinition"); ("PATH", "JobPathParameterDefinition")]);
     mkField "jobEnvironments" "jobEnvironments" false (ListOf (Some 1%N) None) (KModel "Environment");
     mkField "schemaStr" "$schema" false (Single) (KStr false None None CS_any) ]);
 ("EnvironmentTemplate",
  mkCls true true (Some TEMPLATE)
   (mkDefs "" [] "" [])
   [("environment", ["parameterDefinitions"])]
   (mkJcm [] [] [] [] CreateSelf false)
   ["__root__:_root_template_prevalidator:prevalidator"; "parameterDefinitions:_unique_parameter_names"]
   [
     mkField "specificationVersion" "specificationVersion" true (Single) (KLiteral "environment-2023-09");
     mkField "parameterDefinitions" "parameterDefinitions" false (ListOf (Some 1%N) (Some 50%N)) (KDisc "type" [("INT", "JobIntParameterDefinition"); ("FLOAT", "JobFloatParameterDefinition"); ("STRING", "JobStringParameterDefinition"); ("PATH", "JobPathParameterDefinition")]);
     mkField "environment" "environment" true (Single) (KModel "Environment") ])
].
