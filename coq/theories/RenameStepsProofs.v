(* RenameStepsProofs.v — lemmas behind props/C19xs.v (C19_rename_steps): decoding commutes with a
   consistent renaming of steps and environments.

     decode_job classify (rename_steps_envs rho_s rho_e j)
       = omap (mrename_job rho_s rho_e) (decode_job classify j)

   for [rho_s], [rho_e] that respect the names' own rule ([name_fine (rho n) = name_fine n]) and are
   injective ON THE STRINGS OF THE DOCUMENT ([InjOn rho (jstrings j)]: a renaming of the names that occur onto
   fresh names, extended by the identity, is injective there although it is not injective on all strings).
   Structure:
     1. the structural layer under a member-wise renaming of ONE object ([pc_members]): if every
        field's value parser commutes with the renaming of that member and the class's validators
        agree, [parse_cls] commutes;
     2. what accepted instances look like ([has_mstr P]: the name attribute is a string, and that string
        occurs in the document), read off the parser;
     3. the reference walk does not read step / environment names (through ScopeSpec.v);
     4. the validators of StepTemplate / JobTemplate / EnvironmentTemplate see names only through
        [str_eqb]-based tests (nodupb, mem_str, index_of), invariant under a map that is injective on
        the names at hand; the dependency graph is built on step INDICES and is literally unchanged;
     5. the five classes of the live schema that hold a renamed attribute, bottom up. *)
From Coq Require Import List NArith ZArith Bool String Lia.
Import ListNotations.
Require Import OJD.Base OJD.Lexer OJD.Json OJD.Schema OJD.Generated OJD.Charsets OJD.FormatStr OJD.FsRefs
               OJD.CreateJob OJD.Parse OJD.Validators OJD.Accept OJD.AcceptMono OJD.ScopeWalk OJD.ScopeSpec
               OJD.ScopeProofs OJD.GlueLib OJD.RenameProofs OJD.DeepKeyOrder OJD.DecodeInv OJD.RenameSteps.
Require OJD.DepGraph.
Local Open Scope string_scope.
Local Open Scope list_scope.

(* ------------------------------------------------------------------ outcomes *)
Lemma omap_id : forall (A : Type) (o : outcome A), omap (fun a => a) o = o.
Proof. intros A o. destruct o; reflexivity. Qed.

Lemma is_ok_omap : forall (A B : Type) (g : A -> B) o, is_ok (omap g o) = is_ok o.
Proof. intros A B g o. destruct o; reflexivity. Qed.

Lemma mapM_map_omap : forall (A B : Type) (f f' : A -> outcome B) (jr : A -> A) (mr : B -> B) l,
  (forall x, In x l -> f' (jr x) = omap mr (f x)) ->
  mapM f' (map jr l) = omap (map mr) (mapM f l).
Proof.
  intros A B f f' jr mr l. induction l as [|a r IH]; intros H; [reflexivity|].
  cbn [map mapM]. rewrite (H a (or_introl eq_refl)).
  rewrite IH by (intros x Hx; apply H; right; exact Hx).
  destruct (f a) as [b|e]; cbn [omap bind]; [|reflexivity].
  destruct (mapM f r) as [bs|e]; reflexivity.
Qed.

(* ------------------------------------------------------------------ model values *)
Lemma model_fields_on_fields : forall g m, model_fields (on_fields g m) = mapf g (model_fields m).
Proof. intros g m. destruct m; reflexivity. Qed.

Lemma mitems_on_mlist : forall G v, mitems (on_mlist G v) = map G (mitems v).
Proof. intros G v. destruct v; reflexivity. Qed.

Lemma fget_mapf : forall g n fs, g n MNone = MNone -> fget n (mapf g fs) = g n (fget n fs).
Proof.
  intros g n fs Hn. unfold fget, mfield, mapf. induction fs as [|[k v] r IH]; [symmetry; exact Hn|].
  cbn [map lookup_s fst snd]. destruct (String.eqb k n) eqn:E; [|exact IH].
  apply String.eqb_eq in E. subst k. reflexivity.
Qed.

(* an instance whose attribute [n] holds a string, which satisfies P *)
Definition has_mstr (P : str -> Prop) (n : string) (m : mval) : Prop :=
  exists s, fget n (model_fields m) = MStr s /\ P s.

Lemma has_mstr_weaken : forall (P Q : str -> Prop) n m, (forall s, P s -> Q s) -> has_mstr P n m -> has_mstr Q n m.
Proof. intros P Q n m H [s [Hs Hp]]. exists s. split; [exact Hs|exact (H s Hp)]. Qed.

(* [x.<n> for x in v] after renaming the attribute <n> of every item *)
Lemma attr_names_ren : forall (P : str -> Prop) (rho : str -> str) g n v,
  (forall x, g n x = mren_str rho x) -> Forall (has_mstr P n) (mitems v) ->
  map (fun m => mstr (fget n (model_fields m))) (mitems (on_mlist (on_fields g) v))
  = map rho (map (fun m => mstr (fget n (model_fields m))) (mitems v)).
Proof.
  intros P rho g n v Hg Hs. rewrite mitems_on_mlist, !map_map.
  induction Hs as [|m r [s [Hm _]] _ IH]; [reflexivity|].
  cbn [map]. rewrite IH. f_equal.
  rewrite model_fields_on_fields, fget_mapf by (rewrite Hg; reflexivity).
  rewrite Hg, Hm. reflexivity.
Qed.

Lemma attr_names_P : forall (P : str -> Prop) n v, Forall (has_mstr P n) (mitems v) ->
  Forall P (map (fun m => mstr (fget n (model_fields m))) (mitems v)).
Proof.
  intros P n v Hs. induction Hs as [|m r [s [Hm Hp]] _ IH]; [constructor|].
  cbn [map]. constructor; [rewrite Hm; exact Hp|exact IH].
Qed.

Lemma names_of_ren : forall (P : str -> Prop) (rho : str -> str) g v,
  (forall x, g "name" x = mren_str rho x) -> Forall (has_mstr P "name") (mitems v) ->
  names_of (on_mlist (on_fields g) v) = map rho (names_of v).
Proof. intros P rho g v Hg Hs. unfold names_of. apply (attr_names_ren P); assumption. Qed.

Lemma names_of_P : forall (P : str -> Prop) v, Forall (has_mstr P "name") (mitems v) -> Forall P (names_of v).
Proof. intros P v Hs. unfold names_of. apply attr_names_P. exact Hs. Qed.

(* ------------------------------------------------------------------ maps injective on a set of names, and the name tests *)
Section Inj.
  Variable rho : str -> str.
  Variable P : str -> Prop.
  Hypothesis rho_inj : forall a b, P a -> P b -> rho a = rho b -> a = b.

  Lemma str_eqb_inj : forall a b, P a -> P b -> str_eqb (rho a) (rho b) = str_eqb a b.
  Proof.
    intros a b Ha Hb. destruct (str_eqb a b) eqn:E.
    - apply gl_str_eqb_eq in E. subst b. apply gl_str_eqb_refl.
    - apply gl_str_eqb_neq. apply gl_str_eqb_neq in E. intros H. apply E. apply rho_inj; assumption.
  Qed.

  Lemma mem_str_inj : forall x l, P x -> Forall P l -> mem_str (rho x) (map rho l) = mem_str x l.
  Proof.
    intros x l Hx Hl. induction Hl as [|y r Hy _ IH]; [reflexivity|].
    cbn [map mem_str]. rewrite (str_eqb_inj x y Hx Hy), IH. reflexivity.
  Qed.

  Lemma nodupb_inj : forall l, Forall P l -> nodupb (map rho l) = nodupb l.
  Proof.
    intros l Hl. induction Hl as [|x r Hx Hr IH]; [reflexivity|].
    cbn [map nodupb]. rewrite (mem_str_inj x r Hx Hr), IH. reflexivity.
  Qed.

  Lemma index_of_inj : forall x l i, P x -> Forall P l -> index_of (rho x) (map rho l) i = index_of x l i.
  Proof.
    intros x l i Hx Hl. revert i. induction Hl as [|y r Hy _ IH]; intros i; [reflexivity|].
    cbn [map index_of]. rewrite (str_eqb_inj x y Hx Hy), IH. reflexivity.
  Qed.

  Lemma forallb_mem_inj : forall names l, Forall P names -> Forall P l ->
    forallb (fun d => mem_str d (map rho names)) (map rho l) = forallb (fun d => mem_str d names) l.
  Proof.
    intros names l Hn Hl. induction Hl as [|x r Hx _ IH]; [reflexivity|].
    cbn [map forallb]. rewrite (mem_str_inj x names Hx Hn), IH. reflexivity.
  Qed.

  Lemma forallb_notmem_inj : forall names l, Forall P names -> Forall P l ->
    forallb (fun e => negb (mem_str e (map rho names))) (map rho l)
    = forallb (fun e => negb (mem_str e names)) l.
  Proof.
    intros names l Hn Hl. induction Hl as [|x r Hx _ IH]; [reflexivity|].
    cbn [map forallb]. rewrite (mem_str_inj x names Hx Hn), IH. reflexivity.
  Qed.

  (* unique_names of a renamed optional list *)
  Lemma unique_names_ren : forall g v,
    (forall x, g "name" x = mren_str rho x) -> Forall (has_mstr P "name") (mitems v) ->
    unique_names (on_mlist (on_fields g) v) = unique_names v.
  Proof.
    intros g v Hg Hs. unfold unique_names.
    assert (E : nodupb (names_of (on_mlist (on_fields g) v)) = nodupb (names_of v))
      by (rewrite (names_of_ren P rho g v Hg Hs); apply nodupb_inj; apply names_of_P; exact Hs).
    destruct v; try exact E; reflexivity.
  Qed.
End Inj.

(* injective on a list of strings *)
Definition InjOn (rho : str -> str) (S : list str) : Prop :=
  forall a b, In a S -> In b S -> rho a = rho b -> a = b.

Lemma InjOn_incl : forall rho S S', incl S' S -> InjOn rho S -> InjOn rho S'.
Proof. intros rho S S' Hi H a b Ha Hb. apply H; apply Hi; assumption. Qed.

Lemma InjOn_all : forall rho S, (forall a b, rho a = rho b -> a = b) -> InjOn rho S.
Proof. intros rho S H a b _ _. apply H. Qed.

(* the strings of the parts of a document *)
Lemma jstrings_obj_list : forall x y, In y (obj_list x) -> incl (jstrings y) (jstrings x).
Proof.
  intros x y Hy s Hs. destruct x as [| | | | |l|]; try destruct Hy.
  cbn [jstrings]. apply in_flat_map. exists y. split; assumption.
Qed.

Lemma jstrings_field_raw : forall ms fl, incl (jstrings (field_raw ms fl)) (jstrings (JObj ms)).
Proof.
  intros ms fl s Hs. unfold field_raw in Hs.
  destruct (assoc (str_of_string (f_alias fl)) ms) as [x|] eqn:E; [|destruct Hs].
  destruct (assoc_in _ _ _ E) as [kv [Hin <-]]. cbn [jstrings]. apply in_flat_map. exists kv. split; assumption.
Qed.

(* ------------------------------------------------------------------ depth *)
Lemma depth_on_obj : forall h v, (forall k x, json_depth (h k x) = json_depth x) ->
  json_depth (on_obj h v) = json_depth v.
Proof.
  intros h v H. destruct v as [| | | | | |ms]; try reflexivity.
  cbn [on_obj json_depth]. f_equal. induction ms as [|[k x] r IH]; [reflexivity|].
  cbn [map fold_right fst snd]. rewrite H, IH. reflexivity.
Qed.

Lemma depth_on_arr : forall g v, (forall x, json_depth (g x) = json_depth x) ->
  json_depth (on_arr g v) = json_depth v.
Proof.
  intros g v H. destruct v as [| | | | |l|]; try reflexivity.
  cbn [on_arr json_depth]. f_equal. induction l as [|x r IH]; [reflexivity|].
  cbn [map fold_right]. rewrite H, IH. reflexivity.
Qed.

Lemma depth_dispatch : forall tbl k x,
  Forall (fun ng => forall y, json_depth (snd ng y) = json_depth y) tbl ->
  json_depth (dispatch tbl k x) = json_depth x.
Proof.
  intros tbl k x H. induction H as [|[n g] r Hg _ IH]; [reflexivity|].
  cbn [dispatch]. destruct (str_eqb k (str_of_string n)); [apply Hg|exact IH].
Qed.

Lemma depth_ren_str : forall rho v, json_depth (ren_str rho v) = json_depth v.
Proof. intros rho v. destruct v; reflexivity. Qed.

(* ------------------------------------------------------------------ 1. the structural layer, one object *)
Section Members.
  Variable SC : schema_t.
  Variable classify : N -> cclass.
  Variable pre : string -> json -> bool.
  Variable post : string -> json -> list (string * mval) -> bool.
  Notation pk := (parse_kind SC classify pre post).
  Notation pc := (parse_cls SC classify pre post).

  Definition ren_members (h : str -> json -> json) (ms : list (str * json)) : list (str * json) :=
    map (fun kv => (fst kv, h (fst kv) (snd kv))) ms.

  Lemma field_raw_ren : forall h ms fl, h (str_of_string (f_alias fl)) JNull = JNull ->
    field_raw (ren_members h ms) fl = h (str_of_string (f_alias fl)) (field_raw ms fl).
  Proof.
    intros h ms fl Hn. unfold field_raw, ren_members. rewrite assoc_on_obj.
    destruct (assoc (str_of_string (f_alias fl)) ms); [reflexivity|symmetry; exact Hn].
  Qed.

  Lemma extra_bad_ren : forall c0 h ms, extra_bad c0 (ren_members h ms) = extra_bad c0 ms.
  Proof.
    intros c0 h ms. unfold extra_bad. f_equal. f_equal.
    apply (forallb_map_fst _ (alias_known (c_fields c0))).
    unfold ren_members. rewrite map_map. reflexivity.
  Qed.

  (* parse_cls commutes with a member-wise renaming of the object, given: the pre validator agrees,
     every field's value parser commutes ON THE MEMBER THE OBJECT HAS, and the post validator agrees on
     what the fields parse to *)
  Lemma pc_members : forall f c c0 (h : str -> json -> json) (g : string -> mval -> mval) ms,
    lookup_cls SC c = Some c0 ->
    pre c (JObj (ren_members h ms)) = pre c (JObj ms) ->
    (forall fl, In fl (c_fields c0) -> h (str_of_string (f_alias fl)) JNull = JNull) ->
    (forall fl, In fl (c_fields c0) ->
       parse_value (pk f) fl (h (str_of_string (f_alias fl)) (field_raw ms fl))
       = omap (g (f_name fl)) (parse_value (pk f) fl (field_raw ms fl))) ->
    (forall fs, mapM (parse_field (pk f) ms) (c_fields c0) = Ok fs ->
       post c (JObj (ren_members h ms)) (mapf g fs) = post c (JObj ms) fs) ->
    pc (S f) c (JObj (ren_members h ms)) = omap (on_fields g) (pc (S f) c (JObj ms)).
  Proof.
    intros f c c0 h g ms El Hpre Hnull Hval Hpost. rewrite !parse_cls_S, El, Hpre.
    destruct (negb (pre c (JObj ms))); [reflexivity|].
    rewrite extra_bad_ren. destruct (extra_bad c0 ms); [reflexivity|].
    assert (Hf : forall fls, incl fls (c_fields c0) ->
              mapM (parse_field (pk f) (ren_members h ms)) fls = omap (mapf g) (mapM (parse_field (pk f) ms) fls)).
    { induction fls as [|fl r IH]; intros Hincl; [reflexivity|].
      assert (Hfl : In fl (c_fields c0)) by (apply Hincl; left; reflexivity).
      cbn [mapM]. rewrite IH by (intros x Hx; apply Hincl; right; exact Hx).
      unfold parse_field at 1 3. rewrite (field_raw_ren h ms fl (Hnull fl Hfl)), (Hval fl Hfl).
      destruct (parse_value (pk f) fl (field_raw ms fl)) as [x|e]; cbn [omap bind]; [|reflexivity].
      destruct (mapM (parse_field (pk f) ms) r) as [xs|e]; reflexivity. }
    rewrite (Hf _ (incl_refl _)).
    destruct (mapM (parse_field (pk f) ms) (c_fields c0)) as [fs|e] eqn:Em; cbn [omap bind]; [|reflexivity].
    rewrite (Hpost fs eq_refl). destruct (post c (JObj ms) fs); reflexivity.
  Qed.

  (* ---- value parsers of the three kinds of renamed member *)

  (* a member that is not renamed *)
  Lemma pv_same : forall pkf fl x, parse_value pkf fl x = omap (fun v => v) (parse_value pkf fl x).
  Proof. intros. symmetry. apply omap_id. Qed.

  (* a required constr name: the renaming respects the rule *)
  Lemma pv_name : forall f (rho : str -> str) n a x,
    (forall s, name_fine (rho s) = name_fine s) ->
    let fl := mkField n a true Single (KStr true (Some 1%N) (Some 64%N) CS_standard) in
    parse_value (pk f) fl (ren_str rho x) = omap (mren_str rho) (parse_value (pk f) fl x).
  Proof.
    intros f rho n a x Hfine fl. unfold fl, parse_value. cbn [f_required f_shape f_kind].
    destruct f as [|f']; [destruct x; reflexivity|].
    destruct x as [|b|z|m e|s|l|ms]; try reflexivity.
    cbn [ren_str]. rewrite !parse_kind_S. cbn [parse_scalar]. unfold check_str.
    change (len_ok (Some 1%N) (Some 64%N) (rho s) && cs_ok CS_standard (rho s)) with (name_fine (rho s)).
    change (len_ok (Some 1%N) (Some 64%N) s && cs_ok CS_standard s) with (name_fine s).
    rewrite Hfine. destruct (name_fine s); reflexivity.
  Qed.

  (* a list of models *)
  Lemma pv_list : forall pkf fl lo hi (jr : json -> json) (mr : mval -> mval) x,
    f_shape fl = ListOf lo hi ->
    (forall y, In y (obj_list x) -> pkf (f_kind fl) (jr y) = omap mr (pkf (f_kind fl) y)) ->
    parse_value pkf fl (on_arr jr x) = omap (on_mlist mr) (parse_value pkf fl x).
  Proof.
    intros pkf fl lo hi jr mr x Hs Hy. unfold parse_value. rewrite Hs.
    destruct x as [|b|z|m e|s|l|ms]; try reflexivity.
    - cbn [on_arr]. destruct (f_required fl); reflexivity.
    - cbn [on_arr list_items]. rewrite map_length.
      destruct (len_ok_n lo hi (List.length l)); [|reflexivity].
      rewrite (mapM_map_omap _ _ (pkf (f_kind fl)) (pkf (f_kind fl)) jr mr l) by (intros y Hin; apply Hy; exact Hin).
      destruct (mapM (pkf (f_kind fl)) l); reflexivity.
  Qed.

  (* one required model *)
  Lemma pv_single_nonnull : forall pkf fl y, f_shape fl = Single -> is_null y = false ->
    parse_value pkf fl y = pkf (f_kind fl) y.
  Proof. intros pkf fl y Hs Hn. unfold parse_value. rewrite Hs. destruct y; try reflexivity. discriminate Hn. Qed.

  Lemma pv_model : forall pkf fl (jr : json -> json) (mr : mval -> mval) x,
    f_shape fl = Single -> f_required fl = true ->
    is_null (jr x) = is_null x ->
    pkf (f_kind fl) (jr x) = omap mr (pkf (f_kind fl) x) ->
    parse_value pkf fl (jr x) = omap mr (parse_value pkf fl x).
  Proof.
    intros pkf fl jr mr x Hs Hr En Hy. destruct (is_null x) eqn:Ex.
    - destruct x; try discriminate Ex. destruct (jr JNull); try discriminate En.
      unfold parse_value. rewrite Hr. reflexivity.
    - rewrite (pv_single_nonnull pkf fl (jr x) Hs En), (pv_single_nonnull pkf fl x Hs Ex). exact Hy.
  Qed.

  (* parse_kind at a model kind, from parse_cls at every fuel *)
  Lemma pk_model : forall c (jr : json -> json) (mr : mval -> mval) v,
    (forall f, pc f c (jr v) = omap mr (pc f c v)) ->
    forall f, pk f (KModel c) (jr v) = omap mr (pk f (KModel c) v).
  Proof.
    intros c jr mr v H f. destruct f as [|f']; [reflexivity|]. rewrite !parse_kind_S. apply H.
  Qed.

  (* ---------------------------------------------------------------- 2. what accepted instances look like *)
  Lemma pc_ok_inv : forall f c c0 v m, lookup_cls SC c = Some c0 -> pc (S f) c v = Ok m ->
    exists ms fs, v = JObj ms /\ m = MModel c fs /\ mapM (parse_field (pk f) ms) (c_fields c0) = Ok fs.
  Proof.
    intros f c c0 v m El H. rewrite parse_cls_S, El in H.
    destruct v as [| | | | | |ms]; try discriminate H.
    destruct (negb (pre c (JObj ms))); [discriminate H|].
    destruct (extra_bad c0 ms); [discriminate H|].
    destruct (mapM (parse_field (pk f) ms) (c_fields c0)) as [fs|e] eqn:Em; cbn [bind] in H; [|discriminate H].
    destruct (post c (JObj ms) fs); [|discriminate H]. injection H as <-.
    exists ms, fs. split; [reflexivity|]. split; [reflexivity|exact Em].
  Qed.

  (* the attribute of a field is what its value parser returned *)
  Lemma fields_fget : forall pkf ms fls fs, mapM (parse_field pkf ms) fls = Ok fs ->
    NoDup (map f_name fls) ->
    forall fl, In fl fls -> parse_value pkf fl (field_raw ms fl) = Ok (fget (f_name fl) fs).
  Proof.
    intros pkf ms fls. induction fls as [|a r IH]; intros fs H Hnd fl Hin; [destruct Hin|].
    destruct (mapM_cons_ok _ _ _ _ _ _ H) as [y [ys [Ha [Hr ->]]]].
    unfold parse_field in Ha.
    destruct (parse_value pkf a (field_raw ms a)) as [x|e] eqn:Ex; cbn [bind] in Ha; [|discriminate Ha].
    injection Ha as <-. cbn [map] in Hnd. inversion Hnd as [|? ? Hnot Hnd']; subst.
    unfold fget, mfield. cbn [lookup_s]. destruct Hin as [<-|Hin].
    - rewrite String.eqb_refl. exact Ex.
    - destruct (String.eqb (f_name a) (f_name fl)) eqn:E.
      + exfalso. apply String.eqb_eq in E. apply Hnot. rewrite E. apply in_map. exact Hin.
      + apply (IH ys Hr Hnd' fl Hin).
  Qed.

  Lemma pv_list_shape : forall pkf fl lo hi raw x (P : mval -> Prop),
    parse_value pkf fl raw = Ok x -> f_shape fl = ListOf lo hi ->
    (forall y m, In y (obj_list raw) -> pkf (f_kind fl) y = Ok m -> P m) -> Forall P (mitems x).
  Proof.
    intros pkf fl lo hi raw x P H Hs HP. unfold parse_value in H. rewrite Hs in H.
    destruct raw as [|b|z|m e|s|l|ms]; try discriminate H.
    - destruct (f_required fl); [discriminate H|]. injection H as <-. constructor.
    - cbn [list_items] in H. destruct (len_ok_n lo hi (List.length l)); [|discriminate H].
      destruct (mapM (pkf (f_kind fl)) l) as [l'|e] eqn:Em; cbn [bind] in H; [|discriminate H].
      injection H as <-. cbn [mitems]. apply Forall_forall. intros m Hm.
      destruct (mapM_ok_in _ _ _ _ _ Em m Hm) as [y [Hin Hy]]. exact (HP y m Hin Hy).
  Qed.

  Lemma pv_name_shape : forall f n a raw x,
    parse_value (pk f) (mkField n a true Single (KStr true (Some 1%N) (Some 64%N) CS_standard)) raw = Ok x ->
    exists s, x = MStr s /\ raw = JStr s.
  Proof.
    intros f n a raw x H. unfold parse_value in H. cbn [f_required f_shape f_kind] in H.
    destruct f as [|f']; [destruct raw; discriminate H|].
    destruct raw as [|b|z|m e|s|l|ms]; try discriminate H.
    rewrite parse_kind_S in H. cbn [parse_scalar] in H. apply check_str_ok in H.
    exists s. split; [exact (proj1 H)|reflexivity].
  Qed.
End Members.

(* ------------------------------------------------------------------ 3. the reference walk does not read the names *)
Lemma Forall2_map_graph : forall (A : Type) (g : A -> A) l, Forall2 (fun x y => y = g x) l (map g l).
Proof. intros A g l. induction l as [|x r IH]; constructor; [reflexivity|exact IH]. Qed.

Lemma concat_indexed_map : forall (B : Type) (F F' : nat * json -> list B) g items,
  (forall i x, F' (i, g x) = F (i, x)) ->
  List.concat (map F' (indexed (map g items))) = List.concat (map F (indexed items)).
Proof.
  intros B F F' g items H. symmetry.
  apply (concat_indexed_eq _ _ (fun x y => y = g x)); [apply Forall2_map_graph|].
  intros i x y ->. symmetry. apply H.
Qed.

Section SpecInv.
  Variables rho_s rho_e : str -> str.
  Variable refs : str -> option (list str).
  Notation rs_env := (rs_env rho_e).
  Notation rs_step := (rs_step rho_s rho_e).

  Lemma jget_rs_env_script : forall e, jget "script" (rs_env e) = jget "script" e.
  Proof. intros e. unfold RenameSteps.rs_env. rewrite jget_on_obj by reflexivity. reflexivity. Qed.
  Lemma jget_rs_env_variables : forall e, jget "variables" (rs_env e) = jget "variables" e.
  Proof. intros e. unfold RenameSteps.rs_env. rewrite jget_on_obj by reflexivity. reflexivity. Qed.

  Lemma spec_env_rs : forall base l e, spec_env refs base l (rs_env e) = spec_env refs base l e.
  Proof.
    intros base l e. unfold spec_env. unfold RenameSteps.rs_env at 1. rewrite is_obj_on_obj.
    rewrite jget_rs_env_script, jget_rs_env_variables. reflexivity.
  Qed.

  Lemma spec_env_list_rs : forall base l v,
    spec_env_list refs base l (on_arr rs_env v) = spec_env_list refs base l v.
  Proof.
    intros base l v. destruct v as [| | | | |items|]; try reflexivity.
    cbn [on_arr spec_env_list]. apply concat_indexed_map.
    intros i x. cbn [fst snd]. apply spec_env_rs.
  Qed.

  Lemma jget_rs_step_script : forall s, jget "script" (rs_step s) = jget "script" s.
  Proof. intros s. unfold RenameSteps.rs_step. rewrite jget_on_obj by reflexivity. reflexivity. Qed.
  Lemma jget_rs_step_parameterSpace : forall s, jget "parameterSpace" (rs_step s) = jget "parameterSpace" s.
  Proof. intros s. unfold RenameSteps.rs_step. rewrite jget_on_obj by reflexivity. reflexivity. Qed.
  Lemma jget_rs_step_hostRequirements : forall s, jget "hostRequirements" (rs_step s) = jget "hostRequirements" s.
  Proof. intros s. unfold RenameSteps.rs_step. rewrite jget_on_obj by reflexivity. reflexivity. Qed.
  Lemma jget_rs_step_stepEnvironments : forall s,
    jget "stepEnvironments" (rs_step s) = on_arr rs_env (jget "stepEnvironments" s).
  Proof. intros s. unfold RenameSteps.rs_step. rewrite jget_on_obj by reflexivity. reflexivity. Qed.

  Lemma spec_step_rs : forall pd l s, spec_step refs pd l (rs_step s) = spec_step refs pd l s.
  Proof.
    intros pd l s. unfold spec_step. unfold RenameSteps.rs_step at 1. rewrite is_obj_on_obj.
    rewrite jget_rs_step_script, jget_rs_step_parameterSpace, jget_rs_step_hostRequirements,
            jget_rs_step_stepEnvironments, spec_env_list_rs. reflexivity.
  Qed.

  Notation rnj := (rename_steps_envs rho_s rho_e).
  Notation rne := (rename_env_name rho_e).

  Lemma jget_rnj_name : forall j, jget "name" (rnj j) = jget "name" j.
  Proof. intros j. unfold rename_steps_envs. rewrite jget_on_obj by reflexivity. reflexivity. Qed.
  Lemma jget_rnj_pd : forall j, jget "parameterDefinitions" (rnj j) = jget "parameterDefinitions" j.
  Proof. intros j. unfold rename_steps_envs. rewrite jget_on_obj by reflexivity. reflexivity. Qed.
  Lemma jget_rnj_version : forall j, jget "specificationVersion" (rnj j) = jget "specificationVersion" j.
  Proof. intros j. unfold rename_steps_envs. rewrite jget_on_obj by reflexivity. reflexivity. Qed.
  Lemma jget_rnj_steps : forall j, jget "steps" (rnj j) = on_arr rs_step (jget "steps" j).
  Proof. intros j. unfold rename_steps_envs. rewrite jget_on_obj by reflexivity. reflexivity. Qed.
  Lemma jget_rnj_jobEnvironments : forall j, jget "jobEnvironments" (rnj j) = on_arr rs_env (jget "jobEnvironments" j).
  Proof. intros j. unfold rename_steps_envs. rewrite jget_on_obj by reflexivity. reflexivity. Qed.

  Theorem spec_job_rs : forall j, spec_job_template refs (rnj j) = spec_job_template refs j.
  Proof.
    intros j. unfold spec_job_template. cbv zeta.
    rewrite jget_rnj_name, jget_rnj_pd, jget_rnj_steps, jget_rnj_jobEnvironments, spec_env_list_rs.
    f_equal. f_equal.
    destruct (jget "steps" j) as [| | | | |items|]; try reflexivity.
    cbn [on_arr]. apply concat_indexed_map. intros i x. cbn [fst snd]. apply spec_step_rs.
  Qed.

  Lemma jget_rne_pd : forall j, jget "parameterDefinitions" (rne j) = jget "parameterDefinitions" j.
  Proof. intros j. unfold rename_env_name. rewrite jget_on_obj by reflexivity. reflexivity. Qed.
  Lemma jget_rne_version : forall j, jget "specificationVersion" (rne j) = jget "specificationVersion" j.
  Proof. intros j. unfold rename_env_name. rewrite jget_on_obj by reflexivity. reflexivity. Qed.
  Lemma jget_rne_environment : forall j, jget "environment" (rne j) = rs_env (jget "environment" j).
  Proof. intros j. unfold rename_env_name. rewrite jget_on_obj by reflexivity. reflexivity. Qed.

  Theorem spec_envt_rs : forall j, spec_env_template refs (rne j) = spec_env_template refs j.
  Proof.
    intros j. unfold spec_env_template. cbv zeta. rewrite jget_rne_pd, jget_rne_environment. apply spec_env_rs.
  Qed.

  Theorem prevalidate_job_rs : forall j,
    prevalidate Generated.schema refs "JobTemplate" (rnj j) = prevalidate Generated.schema refs "JobTemplate" j.
  Proof. intros j. rewrite !exact_job. apply spec_job_rs. Qed.

  Theorem prevalidate_envt_rs : forall j,
    prevalidate Generated.schema refs "EnvironmentTemplate" (rne j) = prevalidate Generated.schema refs "EnvironmentTemplate" j.
  Proof. intros j. rewrite !exact_env. apply spec_envt_rs. Qed.
End SpecInv.

(* ------------------------------------------------------------------ 4. the validators *)
Lemma forallb_map_in : forall (A : Type) (p p' : A -> bool) (g : A -> A) l,
  (forall x, In x l -> p' (g x) = p x) -> forallb p' (map g l) = forallb p l.
Proof.
  intros A p p' g l. induction l as [|x r IH]; intros H; [reflexivity|].
  cbn [map forallb]. rewrite (H x (or_introl eq_refl)), IH by (intros y Hy; apply H; right; exact Hy).
  reflexivity.
Qed.

Lemma combine_map_r : forall (I A : Type) (G : A -> A) (idx : list I) l,
  combine idx (map G l) = map (fun iv => (fst iv, G (snd iv))) (combine idx l).
Proof.
  intros I A G idx. induction idx as [|i r IH]; intros [|x l]; try reflexivity.
  cbn [map combine fst snd]. rewrite IH. reflexivity.
Qed.

(* distinct attribute names of a class, by computation *)
Fixpoint sdistinct (l : list string) : bool :=
  match l with
  | [] => true
  | x :: r => negb (existsb (String.eqb x) r) && sdistinct r
  end.

Lemma sdistinct_NoDup : forall l, sdistinct l = true -> NoDup l.
Proof.
  induction l as [|x r IH]; intros H; [constructor|].
  cbn [sdistinct] in H. apply andb_true_iff in H. destruct H as [H1 H2].
  constructor; [|exact (IH H2)]. intros Hin.
  assert (E : existsb (String.eqb x) r = true) by (apply existsb_exists; exists x; split; [exact Hin|apply String.eqb_refl]).
  rewrite E in H1. discriminate H1.
Qed.

Section Validators.
  Variables rho_s rho_e : str -> str.
  (* the names the renamings are injective on *)
  Variables Ps Pe : str -> Prop.
  Hypothesis inj_s : forall a b, Ps a -> Ps b -> rho_s a = rho_s b -> a = b.
  Hypothesis inj_e : forall a b, Pe a -> Pe b -> rho_e a = rho_e b -> a = b.
  Notation mr_dep := (mr_dep rho_s).
  Notation mr_env := (mr_env rho_e).
  Notation mr_step := (mr_step rho_s rho_e).
  Notation mr_step_g := (mr_step_g rho_s rho_e).
  Notation mr_job_g := (mr_job_g rho_s rho_e).

  (* an accepted StepTemplate instance, as far as the renaming needs it *)
  Definition step_shaped (st : mval) : Prop :=
    has_mstr Ps "name" st /\
    Forall (has_mstr Ps "dependsOn") (mitems (fget "dependencies" (model_fields st))) /\
    Forall (has_mstr Pe "name") (mitems (fget "stepEnvironments" (model_fields st))).

  Lemma fget_step_dependencies : forall fs,
    fget "dependencies" (mapf mr_step_g fs) = on_mlist mr_dep (fget "dependencies" fs).
  Proof. intros fs. rewrite fget_mapf by reflexivity. reflexivity. Qed.
  Lemma fget_step_stepEnvironments : forall fs,
    fget "stepEnvironments" (mapf mr_step_g fs) = on_mlist mr_env (fget "stepEnvironments" fs).
  Proof. intros fs. rewrite fget_mapf by reflexivity. reflexivity. Qed.
  Lemma fget_step_name : forall fs, fget "name" (mapf mr_step_g fs) = mren_str rho_s (fget "name" fs).
  Proof. intros fs. rewrite fget_mapf by reflexivity. reflexivity. Qed.

  Lemma dep_names_mr_step : forall st, step_shaped st -> dep_names (mr_step st) = map rho_s (dep_names st).
  Proof.
    intros st [_ [Hd _]]. unfold dep_names, RenameSteps.mr_step.
    rewrite model_fields_on_fields, fget_step_dependencies.
    apply (attr_names_ren Ps rho_s (mr_dep_g rho_s)); [reflexivity|exact Hd].
  Qed.

  Lemma dep_names_P : forall st, step_shaped st -> Forall Ps (dep_names st).
  Proof. intros st [_ [Hd _]]. unfold dep_names. apply attr_names_P. exact Hd. Qed.

  Lemma step_envs_mr_step : forall st, step_shaped st ->
    names_of (fget "stepEnvironments" (model_fields (mr_step st)))
    = map rho_e (names_of (fget "stepEnvironments" (model_fields st))).
  Proof.
    intros st [_ [_ He]]. unfold RenameSteps.mr_step.
    rewrite model_fields_on_fields, fget_step_stepEnvironments.
    apply (names_of_ren Pe rho_e (mr_env_g rho_e)); [reflexivity|exact He].
  Qed.

  Lemma step_envs_P : forall st, step_shaped st -> Forall Pe (names_of (fget "stepEnvironments" (model_fields st))).
  Proof. intros st [_ [_ He]]. apply names_of_P. exact He. Qed.

  Lemma step_name_mr_step : forall st, step_shaped st ->
    mstr (fget "name" (model_fields (mr_step st))) = rho_s (mstr (fget "name" (model_fields st))).
  Proof.
    intros st [[s [Hn _]] _]. unfold RenameSteps.mr_step.
    rewrite model_fields_on_fields, fget_step_name, Hn. reflexivity.
  Qed.

  Lemma step_name_P : forall st, step_shaped st -> Ps (mstr (fget "name" (model_fields st))).
  Proof. intros st [[s [Hn Hp]] _]. rewrite Hn. exact Hp. Qed.

  Lemma steps_named : forall S, Forall step_shaped (mitems S) -> Forall (has_mstr Ps "name") (mitems S).
  Proof.
    intros S HS. apply Forall_forall. intros st Hst. rewrite Forall_forall in HS. exact (proj1 (HS st Hst)).
  Qed.

  Lemma names_of_steps : forall S, Forall step_shaped (mitems S) ->
    names_of (on_mlist mr_step S) = map rho_s (names_of S).
  Proof. intros S HS. apply (names_of_ren Ps rho_s mr_step_g); [reflexivity|exact (steps_named S HS)]. Qed.

  (* ---- StepTemplate: no duplicate dependency, unique step-environment names, no self dependency *)
  Definition step_ok (fs : list (string * mval)) : bool :=
    let deps := dep_names (MModel "StepTemplate" fs) in
    nodupb deps && unique_names (fget "stepEnvironments" fs) && negb (mem_str (mstr (fget "name" fs)) deps).

  Lemma post_step_eq : forall classify raw fs, post_hook classify "StepTemplate" raw fs = step_ok fs.
  Proof. reflexivity. Qed.

  Lemma step_ok_ren : forall fs, step_shaped (MModel "StepTemplate" fs) ->
    step_ok (mapf mr_step_g fs) = step_ok fs.
  Proof.
    intros fs Hs. unfold step_ok. cbv zeta.
    change (MModel "StepTemplate" (mapf mr_step_g fs)) with (mr_step (MModel "StepTemplate" fs)).
    rewrite (dep_names_mr_step _ Hs).
    pose proof (step_name_mr_step _ Hs) as En. cbn [RenameSteps.mr_step on_fields model_fields] in En. rewrite En.
    pose proof (step_name_P _ Hs) as Pn. cbn [model_fields] in Pn.
    rewrite (nodupb_inj rho_s Ps inj_s _ (dep_names_P _ Hs)), (mem_str_inj rho_s Ps inj_s _ _ Pn (dep_names_P _ Hs)).
    rewrite fget_step_stepEnvironments.
    unfold RenameSteps.mr_env.
    rewrite (unique_names_ren rho_e Pe inj_e (mr_env_g rho_e)); [reflexivity|reflexivity|exact (proj2 (proj2 Hs))].
  Qed.

  (* ---- JobTemplate *)
  Lemma dep_job_ren : forall S, Forall step_shaped (mitems S) -> dep_job (on_mlist mr_step S) = dep_job S.
  Proof.
    intros S HS. unfold dep_job. rewrite (names_of_steps S HS), map_length, mitems_on_mlist.
    rewrite combine_map_r, map_map. apply map_ext_in. intros [i st] Hin. cbn [fst snd].
    assert (Hst : step_shaped st).
    { rewrite Forall_forall in HS. apply HS. exact (in_combine_r _ _ _ _ Hin). }
    rewrite (dep_names_mr_step st Hst), map_map. f_equal. apply map_ext_in. intros d Hd.
    pose proof (dep_names_P st Hst) as Hds. rewrite Forall_forall in Hds.
    rewrite (index_of_inj rho_s Ps inj_s d _ _ (Hds d Hd) (names_of_P Ps S (steps_named S HS))). reflexivity.
  Qed.

  Lemma fget_job_steps : forall fs, fget "steps" (mapf mr_job_g fs) = on_mlist mr_step (fget "steps" fs).
  Proof. intros fs. rewrite fget_mapf by reflexivity. reflexivity. Qed.
  Lemma fget_job_jobEnvironments : forall fs,
    fget "jobEnvironments" (mapf mr_job_g fs) = on_mlist mr_env (fget "jobEnvironments" fs).
  Proof. intros fs. rewrite fget_mapf by reflexivity. reflexivity. Qed.
  Lemma fget_job_pd : forall fs, fget "parameterDefinitions" (mapf mr_job_g fs) = fget "parameterDefinitions" fs.
  Proof. intros fs. rewrite fget_mapf by reflexivity. reflexivity. Qed.

  Lemma job_template_ok_ren : forall classify raw fs,
    Forall step_shaped (mitems (fget "steps" fs)) ->
    Forall (has_mstr Pe "name") (mitems (fget "jobEnvironments" fs)) ->
    job_template_ok classify (rename_steps_envs rho_s rho_e raw) (mapf mr_job_g fs) = job_template_ok classify raw fs.
  Proof.
    intros classify raw fs HS HE. unfold job_template_ok. cbv zeta.
    rewrite fget_job_steps, fget_job_jobEnvironments, fget_job_pd.
    pose proof (names_of_P Ps _ (steps_named _ HS)) as Pnames.
    pose proof (names_of_P Pe _ HE) as Pjenv.
    rewrite (names_of_steps _ HS), (nodupb_inj rho_s Ps inj_s _ Pnames), (dep_job_ren _ HS).
    rewrite (prevalidate_job_rs rho_s rho_e (fs_refs classify) raw).
    unfold RenameSteps.mr_env at 1.
    rewrite (unique_names_ren rho_e Pe inj_e (mr_env_g rho_e)) by (try reflexivity; exact HE).
    unfold env_names, RenameSteps.mr_env.
    rewrite (names_of_ren Pe rho_e (mr_env_g rho_e) _ (fun x => eq_refl) HE).
    rewrite mitems_on_mlist.
    f_equal; [f_equal|].
    - apply forallb_map_in. intros st Hst.
      assert (Hs : step_shaped st) by (rewrite Forall_forall in HS; exact (HS st Hst)).
      rewrite (dep_names_mr_step st Hs). apply (forallb_mem_inj rho_s Ps inj_s); [exact Pnames|exact (dep_names_P st Hs)].
    - apply forallb_map_in. intros st Hst.
      assert (Hs : step_shaped st) by (rewrite Forall_forall in HS; exact (HS st Hst)).
      fold (mr_env). rewrite (step_envs_mr_step st Hs).
      apply (forallb_notmem_inj rho_e Pe inj_e); [exact Pjenv|exact (step_envs_P st Hs)].
  Qed.
End Validators.

Lemma step_shaped_weaken : forall (Ps Pe Qs Qe : str -> Prop) st,
  (forall s, Ps s -> Qs s) -> (forall s, Pe s -> Qe s) -> step_shaped Ps Pe st -> step_shaped Qs Qe st.
Proof.
  intros Ps Pe Qs Qe st Hs He [H1 [H2 H3]]. split; [exact (has_mstr_weaken _ _ _ _ Hs H1)|]. split.
  - eapply Forall_impl; [|exact H2]. intros m Hm. exact (has_mstr_weaken _ _ _ _ Hs Hm).
  - eapply Forall_impl; [|exact H3]. intros m Hm. exact (has_mstr_weaken _ _ _ _ He Hm).
Qed.

(* ------------------------------------------------------------------ 5. the live schema *)
Definition cls_or_dummy (c : string) : cls :=
  match lookup_cls Generated.schema c with
  | Some c0 => c0
  | None => mkCls false false None defs_none [] jcm_trivial [] []
  end.

Definition c_dep : cls := Eval vm_compute in cls_or_dummy "StepDependency".
Definition c_env : cls := Eval vm_compute in cls_or_dummy "Environment".
Definition c_step : cls := Eval vm_compute in cls_or_dummy "StepTemplate".
Definition c_job : cls := Eval vm_compute in cls_or_dummy "JobTemplate".
Definition c_envt : cls := Eval vm_compute in cls_or_dummy "EnvironmentTemplate".
Definition c_jstep : cls := Eval vm_compute in cls_or_dummy "Step".
Definition c_jjob : cls := Eval vm_compute in cls_or_dummy "Job".

Lemma lk_dep : lookup_cls Generated.schema "StepDependency" = Some c_dep. Proof. reflexivity. Qed.
Lemma lk_env : lookup_cls Generated.schema "Environment" = Some c_env. Proof. reflexivity. Qed.
Lemma lk_step : lookup_cls Generated.schema "StepTemplate" = Some c_step. Proof. reflexivity. Qed.
Lemma lk_job : lookup_cls Generated.schema "JobTemplate" = Some c_job. Proof. reflexivity. Qed.
Lemma lk_envt : lookup_cls Generated.schema "EnvironmentTemplate" = Some c_envt. Proof. reflexivity. Qed.
Lemma lk_jstep : lookup_cls Generated.schema "Step" = Some c_jstep. Proof. reflexivity. Qed.
Lemma lk_jjob : lookup_cls Generated.schema "Job" = Some c_jjob. Proof. reflexivity. Qed.

Lemma nd_dep : NoDup (map f_name (c_fields c_dep)). Proof. apply sdistinct_NoDup. reflexivity. Qed.
Lemma nd_env : NoDup (map f_name (c_fields c_env)). Proof. apply sdistinct_NoDup. reflexivity. Qed.
Lemma nd_step : NoDup (map f_name (c_fields c_step)). Proof. apply sdistinct_NoDup. reflexivity. Qed.
Lemma nd_job : NoDup (map f_name (c_fields c_job)). Proof. apply sdistinct_NoDup. reflexivity. Qed.

(* the required constr name field *)
Definition fld_std (n : string) : field := mkField n n true Single (KStr true (Some 1%N) (Some 64%N) CS_standard).

Ltac in_fields := repeat (first [left; reflexivity | right]).

(* the classes that hold a renamed attribute: template side, and the Job / Step target classes *)
Definition live_classes : list string :=
  ["StepDependency"; "Environment"; "StepTemplate"; "JobTemplate"; "EnvironmentTemplate"; "Step"; "Job"].

Section Live.
  Variable classify : N -> cclass.
  Variables rho_s rho_e : str -> str.
  Hypothesis fine_s : forall n, name_fine (rho_s n) = name_fine n.
  Hypothesis fine_e : forall n, name_fine (rho_e n) = name_fine n.
  (* the pre validators: those of Validators.v on the classes concerned (decoding uses [pre_hook] itself, the
     job-side re-validation of create_job [Export.pre_full], which adds checks on other classes only) *)
  Variable pre : string -> json -> bool.
  Hypothesis Hpre : forall c raw, In c live_classes -> pre c raw = pre_hook c raw.
  Notation SCH := Generated.schema.
  Notation post := (post_hook classify).
  Notation pk := (parse_kind SCH classify pre post).
  Notation pc := (parse_cls SCH classify pre post).
  Notation rs_dep := (rs_dep rho_s).
  Notation rs_env := (rs_env rho_e).
  Notation rs_step := (rs_step rho_s rho_e).
  Notation mr_dep := (mr_dep rho_s).
  Notation mr_env := (mr_env rho_e).
  Notation mr_step := (mr_step rho_s rho_e).
  (* "the string occurs in the document v" *)
  Notation occ v := (fun s : str => In s (jstrings v)).

  (* ---------------------------------------------------------------- shapes of accepted instances *)
  Lemma pk_model_shape : forall c v (P : mval -> Prop),
    (forall f m, pc f c v = Ok m -> P m) -> forall f m, pk f (KModel c) v = Ok m -> P m.
  Proof.
    intros c v P H f m Hy. destruct f as [|f']; [discriminate Hy|]. rewrite parse_kind_S in Hy. exact (H f' m Hy).
  Qed.

  (* the required name field [n] of an object that parsed: a string of the object *)
  Lemma name_field_shape : forall f ms fls fs n,
    mapM (parse_field (pk f) ms) fls = Ok fs -> NoDup (map f_name fls) -> In (fld_std n) fls ->
    has_mstr (occ (JObj ms)) n (MModel "" fs).
  Proof.
    intros f ms fls fs n Hm Hnd Hin.
    pose proof (fields_fget _ _ _ _ Hm Hnd (fld_std n) Hin) as Hf.
    destruct (pv_name_shape _ _ _ _ _ _ _ _ _ Hf) as [s [Hs Hr]].
    exists s. split; [exact Hs|]. apply (jstrings_field_raw ms (fld_std n)). rewrite Hr. left. reflexivity.
  Qed.

  Lemma shape_dep : forall f v m, pc f "StepDependency" v = Ok m -> has_mstr (occ v) "dependsOn" m.
  Proof.
    intros f v m H. destruct f as [|f']; [discriminate H|].
    destruct (pc_ok_inv _ _ _ _ _ _ _ _ _ lk_dep H) as [ms [fs [-> [-> Hm]]]].
    exact (name_field_shape f' ms _ fs "dependsOn" Hm nd_dep ltac:(in_fields)).
  Qed.

  Lemma shape_env : forall f v m, pc f "Environment" v = Ok m -> has_mstr (occ v) "name" m.
  Proof.
    intros f v m H. destruct f as [|f']; [discriminate H|].
    destruct (pc_ok_inv _ _ _ _ _ _ _ _ _ lk_env H) as [ms [fs [-> [-> Hm]]]].
    exact (name_field_shape f' ms _ fs "name" Hm nd_env ltac:(in_fields)).
  Qed.

  Definition fld_deps : field := mkField "dependencies" "dependencies" false (ListOf (Some 1%N) None) (KModel "StepDependency").
  Definition fld_senvs : field := mkField "stepEnvironments" "stepEnvironments" false (ListOf (Some 1%N) None) (KModel "Environment").
  Definition fld_steps : field := mkField "steps" "steps" true (ListOf (Some 1%N) None) (KModel "StepTemplate").
  Definition fld_jenvs : field := mkField "jobEnvironments" "jobEnvironments" false (ListOf (Some 1%N) None) (KModel "Environment").
  Definition fld_environment : field := mkField "environment" "environment" true Single (KModel "Environment").

  (* the items of a list field that parsed, with a shape that speaks about the strings of the item *)
  Lemma list_field_shape : forall f ms fls fs fl lo hi c (Q : json -> mval -> Prop) (P : mval -> Prop),
    mapM (parse_field (pk f) ms) fls = Ok fs -> NoDup (map f_name fls) -> In fl fls ->
    f_shape fl = ListOf lo hi -> f_kind fl = KModel c ->
    (forall f' y m, pc f' c y = Ok m -> Q y m) ->
    (forall y m, incl (jstrings y) (jstrings (JObj ms)) -> Q y m -> P m) ->
    Forall P (mitems (fget (f_name fl) fs)).
  Proof.
    intros f ms fls fs fl lo hi c Q P Hm Hnd Hin Hs Hk HQ HP.
    pose proof (fields_fget _ _ _ _ Hm Hnd fl Hin) as Hf.
    apply (pv_list_shape _ _ _ _ _ _ _ Hf Hs). intros y m Hy Hp. rewrite Hk in Hp.
    apply (HP y m).
    - intros s Hsy. apply (jstrings_field_raw ms fl). exact (jstrings_obj_list _ y Hy s Hsy).
    - exact (pk_model_shape c y (Q y) (fun f' m' => HQ f' y m') f m Hp).
  Qed.

  (* the fields of a StepTemplate that parsed *)
  Lemma shape_step_fields : forall f ms fs, mapM (parse_field (pk f) ms) (c_fields c_step) = Ok fs ->
    step_shaped (occ (JObj ms)) (occ (JObj ms)) (MModel "StepTemplate" fs).
  Proof.
    intros f ms fs Hm. unfold step_shaped. cbn [model_fields]. split; [|split].
    - exact (name_field_shape f ms _ fs "name" Hm nd_step ltac:(in_fields)).
    - apply (list_field_shape f ms _ fs fld_deps _ _ "StepDependency"
               (fun y m => has_mstr (occ y) "dependsOn" m) _ Hm nd_step ltac:(in_fields) eq_refl eq_refl).
      + intros f' y m. apply shape_dep.
      + intros y m Hi Hq. exact (has_mstr_weaken _ _ _ _ Hi Hq).
    - apply (list_field_shape f ms _ fs fld_senvs _ _ "Environment"
               (fun y m => has_mstr (occ y) "name" m) _ Hm nd_step ltac:(in_fields) eq_refl eq_refl).
      + intros f' y m. apply shape_env.
      + intros y m Hi Hq. exact (has_mstr_weaken _ _ _ _ Hi Hq).
  Qed.

  Lemma shape_step : forall f v m, pc f "StepTemplate" v = Ok m -> step_shaped (occ v) (occ v) m.
  Proof.
    intros f v m H. destruct f as [|f']; [discriminate H|].
    destruct (pc_ok_inv _ _ _ _ _ _ _ _ _ lk_step H) as [ms [fs [-> [-> Hm]]]].
    exact (shape_step_fields f' ms fs Hm).
  Qed.

  (* ---------------------------------------------------------------- the five classes, bottom up *)
  Lemma pc_non_object : forall f c c0 v mr, lookup_cls SCH c = Some c0 -> is_obj v = false ->
    pc (S f) c v = omap mr (pc (S f) c v).
  Proof. intros f c c0 v mr El Hv. rewrite parse_cls_S, El. destruct v; try reflexivity. discriminate Hv. Qed.

  Theorem pc_dep : forall f v, pc f "StepDependency" (rs_dep v) = omap mr_dep (pc f "StepDependency" v).
  Proof.
    intros f v. destruct f as [|f]; [reflexivity|].
    destruct (is_obj v) eqn:Ev; [|destruct v; try discriminate Ev; apply (pc_non_object f _ _ _ _ lk_dep); reflexivity].
    destruct v as [| | | | | |ms]; try discriminate Ev.
    change (rs_dep (JObj ms)) with (JObj (ren_members (rs_dep_h rho_s) ms)).
    apply (pc_members SCH classify pre post f _ _ _ (mr_dep_g rho_s) ms lk_dep).
    - rewrite !Hpre by in_fields. reflexivity.
    - intros fl Hin. unfold c_dep, c_fields in Hin. cbn [In] in Hin.
      repeat (destruct Hin as [<-|Hin]; [reflexivity|]). contradiction.
    - intros fl Hin. unfold c_dep, c_fields in Hin. cbn [In] in Hin.
      destruct Hin as [<-|[]].
      exact (pv_name SCH classify pre post f rho_s "dependsOn" "dependsOn" _ fine_s).
    - intros fs _. reflexivity.
  Qed.

  Lemma jget_rs_env_h : forall ms name, rs_env_h rho_e (str_of_string name) JNull = JNull ->
    rs_env_h rho_e (str_of_string name) (jget name (JObj ms)) = jget name (JObj ms) ->
    jget name (JObj (ren_members (rs_env_h rho_e) ms)) = jget name (JObj ms).
  Proof.
    intros ms name Hn He. change (JObj (ren_members (rs_env_h rho_e) ms)) with (on_obj (rs_env_h rho_e) (JObj ms)).
    rewrite jget_on_obj by exact Hn. exact He.
  Qed.

  Theorem pc_env : forall f v, pc f "Environment" (rs_env v) = omap mr_env (pc f "Environment" v).
  Proof.
    intros f v. destruct f as [|f]; [reflexivity|].
    destruct (is_obj v) eqn:Ev; [|destruct v; try discriminate Ev; apply (pc_non_object f _ _ _ _ lk_env); reflexivity].
    destruct v as [| | | | | |ms]; try discriminate Ev.
    change (rs_env (JObj ms)) with (JObj (ren_members (rs_env_h rho_e) ms)).
    apply (pc_members SCH classify pre post f _ _ _ (mr_env_g rho_e) ms lk_env).
    - rewrite !Hpre by in_fields.
      change (pre_hook "Environment" (JObj (ren_members (rs_env_h rho_e) ms)))
        with (negb (is_null (jget "script" (JObj (ren_members (rs_env_h rho_e) ms))))
              || negb (is_null (jget "variables" (JObj (ren_members (rs_env_h rho_e) ms))))).
      rewrite !jget_rs_env_h by reflexivity. reflexivity.
    - intros fl Hin. unfold c_env, c_fields in Hin. cbn [In] in Hin.
      repeat (destruct Hin as [<-|Hin]; [reflexivity|]). contradiction.
    - intros fl Hin. unfold c_env, c_fields in Hin. cbn [In] in Hin.
      destruct Hin as [<-|Hin]; [exact (pv_name SCH classify pre post f rho_e "name" "name" _ fine_e)|].
      repeat (destruct Hin as [<-|Hin]; [exact (pv_same _ _ _)|]). contradiction.
    - intros fs _. change (post "Environment" ?r ?a) with (match fget "variables" a with MDict [] => false | _ => true end).
      rewrite fget_mapf by reflexivity. reflexivity.
  Qed.

  (* list-valued members of environments / dependencies: no condition on the items *)
  Lemma pv_envs : forall f fl lo hi x, f_shape fl = ListOf lo hi -> f_kind fl = KModel "Environment" ->
    parse_value (pk f) fl (on_arr rs_env x) = omap (on_mlist mr_env) (parse_value (pk f) fl x).
  Proof.
    intros f fl lo hi x Hs Hk. apply (pv_list (pk f) fl lo hi rs_env mr_env x Hs).
    intros y _. rewrite Hk. apply (pk_model SCH classify pre post "Environment" rs_env mr_env y). intros f'. apply pc_env.
  Qed.

  Lemma pv_deps : forall f fl lo hi x, f_shape fl = ListOf lo hi -> f_kind fl = KModel "StepDependency" ->
    parse_value (pk f) fl (on_arr rs_dep x) = omap (on_mlist mr_dep) (parse_value (pk f) fl x).
  Proof.
    intros f fl lo hi x Hs Hk. apply (pv_list (pk f) fl lo hi rs_dep mr_dep x Hs).
    intros y _. rewrite Hk. apply (pk_model SCH classify pre post "StepDependency" rs_dep mr_dep y). intros f'. apply pc_dep.
  Qed.

  Theorem pc_step : forall f v, InjOn rho_s (jstrings v) -> InjOn rho_e (jstrings v) ->
    pc f "StepTemplate" (rs_step v) = omap mr_step (pc f "StepTemplate" v).
  Proof.
    intros f v Is Ie. destruct f as [|f]; [reflexivity|].
    destruct (is_obj v) eqn:Ev; [|destruct v; try discriminate Ev; apply (pc_non_object f _ _ _ _ lk_step); reflexivity].
    destruct v as [| | | | | |ms]; try discriminate Ev.
    change (rs_step (JObj ms)) with (JObj (ren_members (rs_step_h rho_s rho_e) ms)).
    apply (pc_members SCH classify pre post f _ _ _ (mr_step_g rho_s rho_e) ms lk_step).
    - rewrite !Hpre by in_fields. reflexivity.
    - intros fl Hin. unfold c_step, c_fields in Hin. cbn [In] in Hin.
      repeat (destruct Hin as [<-|Hin]; [reflexivity|]). contradiction.
    - intros fl Hin. unfold c_step, c_fields in Hin. cbn [In] in Hin.
      destruct Hin as [<-|Hin]; [exact (pv_name SCH classify pre post f rho_s "name" "name" _ fine_s)|].
      destruct Hin as [<-|Hin]; [exact (pv_same _ _ _)|].
      destruct Hin as [<-|Hin]; [exact (pv_same _ _ _)|].
      destruct Hin as [<-|Hin]; [exact (pv_envs f fld_senvs _ _ _ eq_refl eq_refl)|].
      destruct Hin as [<-|Hin]; [exact (pv_same _ _ _)|].
      destruct Hin as [<-|Hin]; [exact (pv_same _ _ _)|].
      destruct Hin as [<-|[]]. exact (pv_deps f fld_deps _ _ _ eq_refl eq_refl).
    - intros fs Hm. rewrite !post_step_eq.
      apply (step_ok_ren rho_s rho_e (occ (JObj ms)) (occ (JObj ms)) Is Ie).
      exact (shape_step_fields f ms fs Hm).
  Qed.

  Theorem pc_job : forall f v, InjOn rho_s (jstrings v) -> InjOn rho_e (jstrings v) ->
    pc f "JobTemplate" (rename_steps_envs rho_s rho_e v) = omap (mrename_job rho_s rho_e) (pc f "JobTemplate" v).
  Proof.
    intros f v Is Ie. destruct f as [|f]; [reflexivity|].
    destruct (is_obj v) eqn:Ev; [|destruct v; try discriminate Ev; apply (pc_non_object f _ _ _ _ lk_job); reflexivity].
    destruct v as [| | | | | |ms]; try discriminate Ev.
    change (rename_steps_envs rho_s rho_e (JObj ms)) with (JObj (ren_members (rs_job_h rho_s rho_e) ms)).
    apply (pc_members SCH classify pre post f _ _ _ (mr_job_g rho_s rho_e) ms lk_job).
    - rewrite !Hpre by in_fields. reflexivity.
    - intros fl Hin. unfold c_job, c_fields in Hin. cbn [In] in Hin.
      repeat (destruct Hin as [<-|Hin]; [reflexivity|]). contradiction.
    - intros fl Hin. unfold c_job, c_fields in Hin. cbn [In] in Hin.
      destruct Hin as [<-|Hin]; [exact (pv_same _ _ _)|].
      destruct Hin as [<-|Hin]; [exact (pv_same _ _ _)|].
      destruct Hin as [<-|Hin].
      { (* steps: every item is a part of this document *)
        apply (pv_list (pk f) fld_steps _ _ rs_step mr_step _ eq_refl). intros y Hy.
        assert (Hi : incl (jstrings y) (jstrings (JObj ms))).
        { intros s Hs. apply (jstrings_field_raw ms fld_steps). exact (jstrings_obj_list _ y Hy s Hs). }
        apply (pk_model SCH classify pre post "StepTemplate" rs_step mr_step y). intros f'.
        apply pc_step; [exact (InjOn_incl _ _ _ Hi Is)|exact (InjOn_incl _ _ _ Hi Ie)]. }
      destruct Hin as [<-|Hin]; [exact (pv_same _ _ _)|].
      destruct Hin as [<-|Hin]; [exact (pv_same _ _ _)|].
      destruct Hin as [<-|Hin]; [exact (pv_envs f fld_jenvs _ _ _ eq_refl eq_refl)|].
      destruct Hin as [<-|[]]. exact (pv_same _ _ _).
    - intros fs Hm.
      change (post "JobTemplate" ?r ?a) with (job_template_ok classify r a).
      change (JObj (ren_members (rs_job_h rho_s rho_e) ms)) with (rename_steps_envs rho_s rho_e (JObj ms)).
      apply (job_template_ok_ren rho_s rho_e (occ (JObj ms)) (occ (JObj ms)) Is Ie).
      + apply (list_field_shape f ms _ fs fld_steps _ _ "StepTemplate"
                 (fun y m => step_shaped (occ y) (occ y) m) _ Hm nd_job ltac:(in_fields) eq_refl eq_refl).
        * intros f' y m. apply shape_step.
        * intros y m Hi Hq. exact (step_shaped_weaken _ _ _ _ _ Hi Hi Hq).
      + apply (list_field_shape f ms _ fs fld_jenvs _ _ "Environment"
                 (fun y m => has_mstr (occ y) "name" m) _ Hm nd_job ltac:(in_fields) eq_refl eq_refl).
        * intros f' y m. apply shape_env.
        * intros y m Hi Hq. exact (has_mstr_weaken _ _ _ _ Hi Hq).
  Qed.

  Lemma is_null_rs_env : forall y, is_null (rs_env y) = is_null y.
  Proof. intros y. destruct y; reflexivity. Qed.

  Theorem pc_envt : forall f v,
    pc f "EnvironmentTemplate" (rename_env_name rho_e v)
    = omap (mrename_env_template rho_e) (pc f "EnvironmentTemplate" v).
  Proof.
    intros f v. destruct f as [|f]; [reflexivity|].
    destruct (is_obj v) eqn:Ev; [|destruct v; try discriminate Ev; apply (pc_non_object f _ _ _ _ lk_envt); reflexivity].
    destruct v as [| | | | | |ms]; try discriminate Ev.
    change (rename_env_name rho_e (JObj ms)) with (JObj (ren_members (rs_envt_h rho_e) ms)).
    apply (pc_members SCH classify pre post f _ _ _ (mr_envt_g rho_e) ms lk_envt).
    - rewrite !Hpre by in_fields. reflexivity.
    - intros fl Hin. unfold c_envt, c_fields in Hin. cbn [In] in Hin.
      repeat (destruct Hin as [<-|Hin]; [reflexivity|]). contradiction.
    - intros fl Hin. unfold c_envt, c_fields in Hin. cbn [In] in Hin.
      destruct Hin as [<-|Hin]; [exact (pv_same _ _ _)|].
      destruct Hin as [<-|Hin]; [exact (pv_same _ _ _)|].
      destruct Hin as [<-|[]].
      apply (pv_model (pk f) fld_environment rs_env mr_env _ eq_refl eq_refl (is_null_rs_env _)).
      apply (pk_model SCH classify pre post "Environment" rs_env mr_env). intros f'. apply pc_env.
    - intros fs _.
      change (post "EnvironmentTemplate" ?r ?a)
        with (unique_names (fget "parameterDefinitions" a)
              && (match prevalidate SCH (fs_refs classify) "EnvironmentTemplate" r with [] => true | _ => false end)).
      change (JObj (ren_members (rs_envt_h rho_e) ms)) with (rename_env_name rho_e (JObj ms)).
      rewrite (prevalidate_envt_rs rho_e (fs_refs classify) (JObj ms)).
      rewrite fget_mapf by reflexivity. reflexivity.
  Qed.

  (* ---------------------------------------------------------------- the target classes Step and Job *)
  Definition fld_jsteps : field := mkField "steps" "steps" true (ListOf None None) (KModel "Step").

  Theorem pc_jstep : forall f v, pc f "Step" (rs_step v) = omap mr_step (pc f "Step" v).
  Proof.
    intros f v. destruct f as [|f]; [reflexivity|].
    destruct (is_obj v) eqn:Ev; [|destruct v; try discriminate Ev; apply (pc_non_object f _ _ _ _ lk_jstep); reflexivity].
    destruct v as [| | | | | |ms]; try discriminate Ev.
    change (rs_step (JObj ms)) with (JObj (ren_members (rs_step_h rho_s rho_e) ms)).
    apply (pc_members SCH classify pre post f _ _ _ (mr_step_g rho_s rho_e) ms lk_jstep).
    - rewrite !Hpre by in_fields. reflexivity.
    - intros fl Hin. unfold c_jstep, c_fields in Hin. cbn [In] in Hin.
      repeat (destruct Hin as [<-|Hin]; [reflexivity|]). contradiction.
    - intros fl Hin. unfold c_jstep, c_fields in Hin. cbn [In] in Hin.
      destruct Hin as [<-|Hin]; [exact (pv_name SCH classify pre post f rho_s "name" "name" _ fine_s)|].
      destruct Hin as [<-|Hin]; [exact (pv_same _ _ _)|].
      destruct Hin as [<-|Hin]; [exact (pv_same _ _ _)|].
      destruct Hin as [<-|Hin]; [exact (pv_envs f fld_senvs _ _ _ eq_refl eq_refl)|].
      destruct Hin as [<-|Hin]; [exact (pv_same _ _ _)|].
      destruct Hin as [<-|Hin]; [exact (pv_same _ _ _)|].
      destruct Hin as [<-|[]]. exact (pv_deps f fld_deps _ _ _ eq_refl eq_refl).
    - intros fs _. reflexivity.
  Qed.

  Theorem pc_jjob : forall f v,
    pc f "Job" (rename_steps_envs rho_s rho_e v) = omap (mrename_job rho_s rho_e) (pc f "Job" v).
  Proof.
    intros f v. destruct f as [|f]; [reflexivity|].
    destruct (is_obj v) eqn:Ev; [|destruct v; try discriminate Ev; apply (pc_non_object f _ _ _ _ lk_jjob); reflexivity].
    destruct v as [| | | | | |ms]; try discriminate Ev.
    change (rename_steps_envs rho_s rho_e (JObj ms)) with (JObj (ren_members (rs_job_h rho_s rho_e) ms)).
    apply (pc_members SCH classify pre post f _ _ _ (mr_job_g rho_s rho_e) ms lk_jjob).
    - rewrite !Hpre by in_fields. reflexivity.
    - intros fl Hin. unfold c_jjob, c_fields in Hin. cbn [In] in Hin.
      repeat (destruct Hin as [<-|Hin]; [reflexivity|]). contradiction.
    - intros fl Hin. unfold c_jjob, c_fields in Hin. cbn [In] in Hin.
      destruct Hin as [<-|Hin]; [exact (pv_same _ _ _)|].
      destruct Hin as [<-|Hin].
      { apply (pv_list (pk f) fld_jsteps _ _ rs_step mr_step _ eq_refl). intros y _.
        apply (pk_model SCH classify pre post "Step" rs_step mr_step y). intros f'. apply pc_jstep. }
      destruct Hin as [<-|Hin]; [exact (pv_same _ _ _)|].
      destruct Hin as [<-|Hin]; [exact (pv_same _ _ _)|].
      destruct Hin as [<-|[]]. exact (pv_envs f fld_jenvs _ _ _ eq_refl eq_refl).
    - intros fs _. reflexivity.
  Qed.
End Live.

(* ------------------------------------------------------------------ depth of the renamed documents *)
Section Depth.
  Variables rho_s rho_e : str -> str.
  Notation rs_dep := (rs_dep rho_s).
  Notation rs_env := (rs_env rho_e).
  Notation rs_step := (rs_step rho_s rho_e).

  Lemma depth_rs_dep : forall v, json_depth (rs_dep v) = json_depth v.
  Proof.
    intros v. apply depth_on_obj. intros k x. apply depth_dispatch.
    repeat constructor. intros y. apply depth_ren_str.
  Qed.

  Lemma depth_rs_env : forall v, json_depth (rs_env v) = json_depth v.
  Proof.
    intros v. apply depth_on_obj. intros k x. apply depth_dispatch.
    repeat constructor. intros y. apply depth_ren_str.
  Qed.

  Lemma depth_rs_step : forall v, json_depth (rs_step v) = json_depth v.
  Proof.
    intros v. apply depth_on_obj. intros k x. apply depth_dispatch.
    constructor; [intros y; apply depth_ren_str|].
    constructor; [intros y; apply depth_on_arr; exact depth_rs_dep|].
    constructor; [intros y; apply depth_on_arr; exact depth_rs_env|]. constructor.
  Qed.

  Lemma depth_rename_steps_envs : forall j, json_depth (rename_steps_envs rho_s rho_e j) = json_depth j.
  Proof.
    intros j. apply depth_on_obj. intros k x. apply depth_dispatch.
    constructor; [intros y; apply depth_on_arr; exact depth_rs_step|].
    constructor; [intros y; apply depth_on_arr; exact depth_rs_env|]. constructor.
  Qed.

  Lemma depth_rename_env_name : forall j, json_depth (rename_env_name rho_e j) = json_depth j.
  Proof.
    intros j. apply depth_on_obj. intros k x. apply depth_dispatch.
    constructor; [exact depth_rs_env|constructor].
  Qed.

End Depth.

(* ------------------------------------------------------------------ decoding *)
Section Decode.
  Variable classify : N -> cclass.
  Variables rho_s rho_e : str -> str.
  Hypothesis fine_s : forall n, name_fine (rho_s n) = name_fine n.
  Hypothesis fine_e : forall n, name_fine (rho_e n) = name_fine n.

  (* injectivity is needed on the strings of the document only *)
  Theorem decode_job_rs_on : forall j, InjOn rho_s (jstrings j) -> InjOn rho_e (jstrings j) ->
    decode_job classify (rename_steps_envs rho_s rho_e j) = omap (mrename_job rho_s rho_e) (decode_job classify j).
  Proof.
    intros j Is Ie. destruct j as [| | | | | |ms]; try reflexivity.
    unfold decode_job. change (rename_steps_envs rho_s rho_e (JObj ms)) with (JObj (ren_members (rs_job_h rho_s rho_e) ms)).
    cbv iota. change (JObj (ren_members (rs_job_h rho_s rho_e) ms)) with (rename_steps_envs rho_s rho_e (JObj ms)).
    unfold version_ok. rewrite jget_rnj_version.
    match goal with |- (if ?b then _ else _) = _ => destruct b end; [|reflexivity].
    unfold parse_template, parse_root, parse_fuel. rewrite depth_rename_steps_envs.
    apply (pc_job classify rho_s rho_e fine_s fine_e pre_hook (fun c raw _ => eq_refl)); assumption.
  Qed.

  Theorem decode_job_rs : forall j,
    (forall a b, rho_s a = rho_s b -> a = b) -> (forall a b, rho_e a = rho_e b -> a = b) ->
    decode_job classify (rename_steps_envs rho_s rho_e j) = omap (mrename_job rho_s rho_e) (decode_job classify j).
  Proof. intros j Hs He. apply decode_job_rs_on; apply InjOn_all; assumption. Qed.

  Theorem decode_env_rs : forall j,
    decode_env classify (rename_env_name rho_e j) = omap (mrename_env_template rho_e) (decode_env classify j).
  Proof.
    intros j. destruct j as [| | | | | |ms]; try reflexivity.
    unfold decode_env. change (rename_env_name rho_e (JObj ms)) with (JObj (ren_members (rs_envt_h rho_e) ms)).
    cbv iota. change (JObj (ren_members (rs_envt_h rho_e) ms)) with (rename_env_name rho_e (JObj ms)).
    unfold version_ok. rewrite jget_rne_version.
    match goal with |- (if ?b then _ else _) = _ => destruct b end; [|reflexivity].
    unfold parse_template, parse_root, parse_fuel. rewrite depth_rename_env_name.
    apply (pc_envt classify rho_e fine_e pre_hook (fun c raw _ => eq_refl)).
  Qed.
End Decode.

(* ------------------------------------------------------------------ two canonical renamings (for the non-vacuity examples) *)

(* "spell the name backwards": injective, keeps the length and the characters, changes the sort order *)
Definition rho_rev (s : str) : str := rev s.

Lemma rho_rev_inj : forall a b, rho_rev a = rho_rev b -> a = b.
Proof. intros a b H. unfold rho_rev in H. rewrite <- (rev_involutive a), H. apply rev_involutive. Qed.

Lemma forallb_rev : forall (A : Type) (p : A -> bool) l, forallb p (rev l) = forallb p l.
Proof.
  intros A p l. induction l as [|x r IH]; [reflexivity|].
  cbn [rev forallb]. rewrite forallb_app, IH. cbn [forallb]. rewrite andb_true_r. apply andb_comm.
Qed.

Lemma rho_rev_fine : forall n, name_fine (rho_rev n) = name_fine n.
Proof.
  intros n. unfold name_fine, rho_rev, len_ok, cs_ok. rewrite rev_length, forallb_rev.
  f_equal. f_equal. destruct n as [|c r]; [reflexivity|]. cbn [rev]. destruct (rev r); reflexivity.
Qed.

(* exchange two names *)
Definition rho_swap (a b s : str) : str := if str_eqb s a then b else if str_eqb s b then a else s.

Lemma rho_swap_invol : forall a b s, rho_swap a b (rho_swap a b s) = s.
Proof.
  intros a b s. unfold rho_swap.
  destruct (str_eqb s a) eqn:Ea.
  - apply gl_str_eqb_eq in Ea. subst s.
    destruct (str_eqb b a) eqn:Eba; [apply gl_str_eqb_eq in Eba; exact Eba|].
    rewrite gl_str_eqb_refl. reflexivity.
  - destruct (str_eqb s b) eqn:Eb.
    + apply gl_str_eqb_eq in Eb. subst s. rewrite gl_str_eqb_refl. reflexivity.
    + rewrite Ea, Eb. reflexivity.
Qed.

Lemma rho_swap_inj : forall a b x y, rho_swap a b x = rho_swap a b y -> x = y.
Proof. intros a b x y H. rewrite <- (rho_swap_invol a b x), H. apply rho_swap_invol. Qed.

Lemma rho_swap_fine : forall a b, name_fine a = name_fine b -> forall n, name_fine (rho_swap a b n) = name_fine n.
Proof.
  intros a b Hab n. unfold rho_swap.
  destruct (str_eqb n a) eqn:Ea; [apply gl_str_eqb_eq in Ea; subst n; symmetry; exact Hab|].
  destruct (str_eqb n b) eqn:Eb; [apply gl_str_eqb_eq in Eb; subst n; exact Hab|reflexivity].
Qed.

(* a finite renaming extended by the identity — what a harness does: the names of the document onto fresh
   names.  It is NOT injective on all strings (a fresh name and the name it replaces have the same image), but
   it is injective on the strings of a document in which the fresh names do not occur *)
Definition rho_tbl (tbl : list (str * str)) (s : str) : str :=
  match assoc s tbl with Some b => b | None => s end.

Lemma rho_tbl_fine : forall tbl,
  forallb (fun ab => Bool.eqb (name_fine (fst ab)) (name_fine (snd ab))) tbl = true ->
  forall n, name_fine (rho_tbl tbl n) = name_fine n.
Proof.
  intros tbl H n. unfold rho_tbl. induction tbl as [|[a b] r IH]; [reflexivity|].
  cbn [forallb fst snd] in H. apply andb_true_iff in H. destruct H as [H1 H2].
  cbn [assoc]. destruct (str_eqb n a) eqn:E; [|exact (IH H2)].
  apply gl_str_eqb_eq in E. subst n. symmetry. apply Bool.eqb_prop. exact H1.
Qed.

(* injectivity on a given list of strings, by computation *)
Definition inj_onb (rho : str -> str) (l : list str) : bool :=
  forallb (fun a => forallb (fun b => implb (str_eqb (rho a) (rho b)) (str_eqb a b)) l) l.

Lemma inj_onb_sound : forall rho l, inj_onb rho l = true -> InjOn rho l.
Proof.
  intros rho l H a b Ha Hb E. unfold inj_onb in H. rewrite forallb_forall in H.
  specialize (H a Ha). rewrite forallb_forall in H. specialize (H b Hb).
  rewrite E, gl_str_eqb_refl in H. cbn [implb] in H. apply gl_str_eqb_eq. exact H.
Qed.
