(* Extraction of the POSIX path model and its specification oracle (C11).  ExtrOcamlBasic only. *)
From Coq Require Import Extraction ExtrOcamlBasic List NArith ZArith.
Require Import OJD.Base OJD.Paths OJD.PathsSpec.
Extraction Language OCaml.
Extraction "Model.ml"
  exn_eqb sumZ
  splitroot pjoin normpath parse parts to_str path_str is_absolute join is_relative_to
  collect_path_default path_supplied preprocess_paths server_value server_default server_preprocess
  spec_parts spec_abs containedb spec_default spec_supplied spec_server spec_preprocess lead.
