"""C17 faithful — the relation of the theorem against the function of the harness.

props/C17xf.v proves  jequiv j (export (decode j))  for the Coq relation [jequiv] (ExportFaithful.v) and that the
function [jequivb] decides it.  harness/c17.py judges the REAL implementation with the Python function `equiv`.
This script checks that the two are the same function: it builds the extracted [jequivb]
(coq/extract/ExtractFaithful.v, ocaml/faithful_driver.ml), and compares its verdict with `equiv` on
  * every ordered pair of a pool of scalars / small containers (the clause table of the relation),
  * random documents against reformatted / perturbed copies of themselves,
  * generated job / environment templates against what the real model_to_object returns for them, and against
    perturbed copies of that export.
Not a property module (writes no evidence); run by hand:

    cd $VERIF && PYTHONPATH=/repo/src VERIF_JOBS=6 /venv/bin/python -W ignore harness/c17f_equiv.py [n] [seed]

exit code 0 = the verdicts agree on every pair.
"""
import copy
import random
import sys
from pathlib import Path

sys.path.insert(0, str(Path(__file__).resolve().parent))
import core  # noqa: E402
import gen_template as G  # noqa: E402
from c17 import equiv  # noqa: E402

from openjd.model import (  # noqa: E402
    DecodeValidationError, decode_environment_template, decode_job_template, model_to_object,
)

SCALARS = [
    None, True, False, 0, 1, 5, -5, 30, 5.0, 30.0, 1.5, 0.0, 2.5e-7, 1e22,
    "5", "5.0", " 5 ", "+5", "-5", "5e0", "50E-1", "1_0", "10", "1.50", "1.5", "0", "0.0", "-0",
    "True", "False", "true", "1", "abc", "", " ", "nan", "NaN", "inf", "-Infinity", "1e", "e1", ".", ".5", "5.", "_5", "5_", "1__0",
]
CONTAINERS = [
    [], {}, [1], [1.0], ["1"], [1, 2], [2, 1], [None], [[]], [{}],
    {"a": 1}, {"a": "1.0"}, {"a": None}, {"a": 1, "b": None}, {"b": None, "a": True}, {"a": 1, "b": 2}, {"b": 2.0, "a": "1"},
    {"a": {"b": None}}, {"a": {}}, {"a": []}, {"$schema": "x"}, {"schemaStr": "x"},
]


def rand_value(rng, depth):
    r = rng.random()
    if depth <= 0 or r < 0.45:
        return rng.choice(SCALARS)
    if r < 0.7:
        return [rand_value(rng, depth - 1) for _ in range(rng.randrange(0, 4))]
    return {rng.choice("abcde") + rng.choice(["", "x", "$"]): rand_value(rng, depth - 1) for _ in range(rng.randrange(0, 4))}


def reformat_scalar(rng, x):
    """another spelling of the same value (or, with small probability, a different value)"""
    if isinstance(x, bool):
        return rng.choice([x, int(x), float(x), str(x), str(int(x))])
    if isinstance(x, int):
        return rng.choice([x, float(x), str(x), f" {x}.0 ", x + 1, str(x) + "e0"]) if abs(x) < 2 ** 53 else x
    if isinstance(x, float):
        return rng.choice([x, str(x), int(x) if x == int(x) and abs(x) < 2 ** 53 else x, x + 0.5])
    if isinstance(x, str):
        return rng.choice([x, x + " ", x + "0", x.strip()])
    return x


def perturb(rng, x):
    if isinstance(x, dict):
        items = [(k, perturb(rng, v)) for k, v in x.items()]
        rng.shuffle(items)
        out = dict(items)
        r = rng.random()
        if r < 0.15:
            out["zz" + str(rng.randrange(3))] = None          # a null member is an absent member
        elif r < 0.22 and out:
            out.pop(rng.choice(sorted(out)))                  # a dropped member is a difference (unless it was null)
        elif r < 0.27:
            out["extra"] = rng.choice(SCALARS)
        return out
    if isinstance(x, list):
        out = [perturb(rng, v) for v in x]
        r = rng.random()
        if r < 0.05 and len(out) > 1:
            out.reverse()
        elif r < 0.08:
            out.append(rng.choice(SCALARS))
        return out
    return reformat_scalar(rng, x) if rng.random() < 0.5 else x


def wire_ok(x):
    try:
        core.json_sx(x)
        return True
    except (ValueError, OverflowError):
        return False


def main(argv):
    n = int(argv[0]) if argv else 3000
    seed = int(argv[1]) if len(argv) > 1 else 0
    rng = random.Random(seed * 7919 + 1717)
    with core.build_lock():
        core.ensure_makefile()
        ok, log = core.build_driver("faithful", "ExtractFaithful.v")
    if not ok:
        print(log[-3000:])
        print("c17f_equiv: driver build FAILED")
        return 2
    pairs = []
    pool = SCALARS + CONTAINERS
    for a in pool:
        for b in pool:
            pairs.append(("table", a, b))
    for _ in range(n):
        a = rand_value(rng, 3)
        pairs.append(("random", a, perturb(rng, copy.deepcopy(a))))
    for i in range(max(n // 20, 20)):
        env = i % 4 == 3
        doc = G.gen_env_template(rng, full=i % 2 == 0) if env else G.gen_job_template(rng, full=i % 3 == 0)
        try:
            m = (decode_environment_template if env else decode_job_template)(template=G.deep(doc))
        except DecodeValidationError:
            continue
        obj = model_to_object(model=m)
        pairs.append(("export", doc, obj))
        pairs.append(("export-perturbed", doc, perturb(rng, copy.deepcopy(obj))))
        pairs.append(("export-perturbed", perturb(rng, copy.deepcopy(doc)), obj))
    pairs = [p for p in pairs if wire_ok(p[1]) and wire_ok(p[2])]
    drv = core.Driver("faithful")
    replies, _ = drv.ask([["jequiv", core.json_sx(a), core.json_sx(b)] for _, a, b in pairs])
    bad = []
    count = {}
    for (kind, a, b), r in zip(pairs, replies):
        want = bool(equiv(a, b))
        got = r == ["ok", "true"]
        if r not in (["ok", "true"], ["ok", "false"]) or want != got:
            bad.append((kind, a, b, want, r))
        key = (kind, want)
        count[key] = count.get(key, 0) + 1
    for key in sorted(count):
        print(f"  {key[0]:18s} equiv={str(key[1]):5s} pairs={count[key]}")
    for kind, a, b, want, r in bad[:10]:
        print(f"MISMATCH [{kind}] python equiv={want} coq jequivb={r}\n   a={a!r}\n   b={b!r}")
    exports = [p for p in pairs if p[0] == "export"]
    not_faithful = [p for p in exports if not equiv(p[1], p[2])]
    print(f"c17f_equiv: pairs={len(pairs)} mismatches={len(bad)} real-exports={len(exports)} of-which-not-faithful={len(not_faithful)}")
    return 1 if bad or not_faithful else 0


if __name__ == "__main__":
    sys.exit(main(sys.argv[1:]))
