(* CreateJobExactParams.v — C05_exact, the job parameters: for an accepted parameter definition
   object, the JobParameter that instantiate_model builds exports as the specification's
   { type, value, description? }. *)
From Coq Require Import List NArith ZArith Bool String Lia.
Import ListNotations.
Require Import OJD.Base OJD.Lexer OJD.Json OJD.Schema OJD.Generated OJD.Charsets OJD.Numerals OJD.NumPrint
               OJD.FormatStr OJD.CreateJob OJD.CreateJobProofs OJD.CreateJobSpec OJD.Parse OJD.Validators OJD.Accept
               OJD.ExportProofs OJD.AcceptMono OJD.DecodeInv OJD.JsonEquiv OJD.CreateJobExactLib OJD.CreateJobExactCarried.
Local Open Scope string_scope.
Local Open Scope list_scope.

Notation G := Generated.schema.

(* job-side classes export their fields under their own names *)
Lemma alias_Job : forall n, alias_of G "Job" n = n.
Proof. apply alias_plain. vm_compute. reflexivity. Qed.
Lemma alias_Step : forall n, alias_of G "Step" n = n.
Proof. apply alias_plain. vm_compute. reflexivity. Qed.
Lemma alias_JobParameter : forall n, alias_of G "JobParameter" n = n.
Proof. apply alias_plain. vm_compute. reflexivity. Qed.
Lemma alias_StepParameterSpace : forall n, alias_of G "StepParameterSpace" n = n.
Proof. apply alias_plain. vm_compute. reflexivity. Qed.
Lemma alias_RangeList : forall n, alias_of G "RangeListTaskParameterDefinition" n = n.
Proof. apply alias_plain. vm_compute. reflexivity. Qed.
Lemma alias_IntRangeList : forall n, alias_of G "IntRangeListTaskParameterDefinition" n = n.
Proof. apply alias_plain. vm_compute. reflexivity. Qed.
Lemma alias_FloatRangeList : forall n, alias_of G "FloatRangeListTaskParameterDefinition" n = n.
Proof. apply alias_plain. vm_compute. reflexivity. Qed.
Lemma alias_RangeExpr : forall n, alias_of G "RangeExpressionTaskParameterDefinition" n = n.
Proof. apply alias_plain. vm_compute. reflexivity. Qed.
Lemma alias_HostRequirements : forall n, alias_of G "HostRequirements" n = n.
Proof. apply alias_plain. vm_compute. reflexivity. Qed.
Lemma alias_Amount : forall n, alias_of G "AmountRequirement" n = n.
Proof. apply alias_plain. vm_compute. reflexivity. Qed.
Lemma alias_Attribute : forall n, alias_of G "AttributeRequirement" n = n.
Proof. apply alias_plain. vm_compute. reflexivity. Qed.

Ltac alias_norm :=
  rewrite ?alias_Job, ?alias_Step, ?alias_JobParameter, ?alias_StepParameterSpace, ?alias_RangeList,
          ?alias_IntRangeList, ?alias_FloatRangeList, ?alias_RangeExpr, ?alias_HostRequirements,
          ?alias_Amount, ?alias_Attribute.

(* the member list of an exported model with an explicit field list *)
Ltac model_members :=
  apply json_equiv_model; unfold jfields; cbn [map fst snd]; alias_norm;
  unfold jval; cbn [String.eqb Ascii.eqb Bool.eqb].

Section Params.
  Variable classify : N -> cclass.
  Variable sigma : symtab.
  Notation pk := (parse_kind G classify pre_hook (post_hook classify)).
  Notation pc := (parse_cls G classify pre_hook (post_hook classify)).

  (* an optional / required single field of a kind that accepts only the exported form *)
  Lemma field_exact_inv : forall f ms fl y, parse_field (pk f) ms fl = Ok y ->
    f_shape fl = Single -> exact_kind (f_kind fl) = true ->
    exists x, y = (f_name fl, x) /\ leaf x = true /\ tobj G x = field_raw ms fl.
  Proof.
    intros f ms fl y H Hs Hk. apply parse_field_inv in H. destruct H as [x [-> Hv]]. exists x. split; [reflexivity|].
    destruct (field_raw ms fl) eqn:Eraw.
    1: { apply parse_value_null in Hv. subst x. split; reflexivity. }
    all: rewrite <- Eraw in *; assert (Hn : field_raw ms fl <> JNull) by (rewrite Eraw; discriminate);
      apply (parse_value_single G classify pre_hook (post_hook classify) f fl _ x Hs Hn) in Hv;
      exact (pk_exact_tobj G classify _ _ f _ _ x Hk Hv).
  Qed.

  Lemma field_any_inv : forall f ms fl y, parse_field (pk f) ms fl = Ok y -> exists x, y = (f_name fl, x).
  Proof. intros f ms fl y H. apply parse_field_inv in H. destruct H as [x [-> _]]. exists x. reflexivity. Qed.

  (* what the specification writes for one parameter, given the pieces read from the definition *)
  Lemma job_parameter_equiv : forall (p : json) n t d v,
    jget "name" p = JStr n -> leaf t = true -> tobj G t = jget "type" p -> leaf d = true -> tobj G d = jget "description" p ->
    st_lookup sigma ($"RawParam." ++ n) = Some v ->
    exists s, CreateJobSpec.job_param sigma p = Ok (n, s) /\
              json_equiv (jobj G (MModel "JobParameter" [("type", t); ("description", d); ("value", MStr v)])) s.
  Proof.
    intros p n t d v Hn Hlt Ht Hld Hd Hv. unfold CreateJobSpec.job_param. rewrite Hn, Hv. eexists. split; [reflexivity|].
    model_members. rewrite (leaf_jobj G t Hlt), (leaf_jobj G d Hld), Ht, Hd.
    eapply json_equiv_meq_r; [cbn [app]; meq_tac|].
    apply (json_equiv_obj_keys [$"type"; $"value"; $"description"]); [incl_tac|incl_tac|].
    keys_split; jf; apply onn_equiv; apply json_equiv_refl.
  Qed.
End Params.

(* ------------------------------------------------------------------ list -> dictionary keyed by a field *)
Section Keyed.
  Variable rec : mval -> outcome mval.
  Variable kf : string.

  Lemma keyed_fold_raise : forall items e, fold_left (keyed_step rec kf) items (Raise e) = Raise e.
  Proof. induction items as [|it r IH]; intros e; [reflexivity|]. cbn [fold_left]. apply IH. Qed.

  Lemma keyed_ok_inv : forall items acc d,
    fold_left (keyed_step rec kf) items (Ok acc) = Ok d ->
    exists kys, Forall2 (fun item ky => key_of item kf = Ok (fst ky) /\ inst_elem rec item = Ok (snd ky)) items kys.
  Proof.
    induction items as [|it r IH]; intros acc d H; [exists []; constructor|].
    cbn [fold_left] in H. unfold keyed_step at 2 in H. cbn [bind] in H.
    destruct (key_of it kf) as [k|e] eqn:Ek; cbn [bind] in H; [|rewrite keyed_fold_raise in H; discriminate H].
    destruct (inst_elem rec it) as [y|e] eqn:Ey; cbn [bind] in H; [|rewrite keyed_fold_raise in H; discriminate H].
    destruct (IH _ _ H) as [kys HF]. exists ((k, y) :: kys). constructor; [split; assumption|exact HF].
  Qed.

  Lemma key_of_mstr : forall m k, key_of m kf = Ok k -> mstr (fget kf (model_fields m)) = k.
  Proof.
    intros m k H. unfold key_of in H. destruct m as [ | | | | | | | | |c fs]; try discriminate H.
    cbn [model_fields]. unfold fget. destruct (mfield kf fs); try discriminate H; injection H as <-; reflexivity.
  Qed.

  Variable Q : json -> mval -> Prop.
  Variable spec_item : json -> outcome (str * json).
  Hypothesis Hitem : forall it m k y, Q it m -> key_of m kf = Ok k -> inst_elem rec m = Ok y ->
    exists s, spec_item it = Ok (k, s) /\ json_equiv (jobj G y) s /\ y <> MNone.

  Theorem keyed_dict_equiv : forall items l p,
    Forall2 Q items l ->
    nodupb (map (fun m => mstr (fget kf (model_fields m))) l) = true ->
    keyed rec kf (MList l) = Ok p ->
    exists ps, mapM spec_item items = Ok ps /\ json_equiv (jobj G p) (JObj ps).
  Proof.
    intros items l p HQ Hnd H. unfold keyed in H.
    destruct (fold_left (keyed_step rec kf) l (Ok [])) as [d|e] eqn:Ef; cbn [bind] in H; [|discriminate H].
    injection H as <-. destruct (keyed_ok_inv l [] d Ef) as [kys HF].
    assert (Hkeys : map fst kys = map (fun m => mstr (fget kf (model_fields m))) l).
    { clear - HF. induction HF as [|m ky r r' [Hk _] _ IH]; [reflexivity|]. cbn [map]. rewrite IH.
      rewrite (key_of_mstr m _ Hk). reflexivity. }
    assert (Hd : d = kys).
    { pose proof (keyed_distinct rec kf l kys HF) as K. unfold keyed in K. rewrite Ef in K. cbn [bind] in K.
      assert (Hn : NoDup (map fst kys)) by (rewrite Hkeys; apply nodupb_NoDup; exact Hnd).
      specialize (K Hn). injection K as ->. reflexivity. }
    subst d. clear Ef Hnd Hkeys.
    assert (Hps : exists ps, mapM spec_item items = Ok ps /\
                             Forall2 (fun ky p => fst ky = fst p /\ json_equiv (jobj G (snd ky)) (snd p) /\ snd ky <> MNone) kys ps).
    { revert kys HF. induction HQ as [|it m r r' Hq _ IH]; intros kys HF.
      - inversion HF; subst. exists []. split; [reflexivity|constructor].
      - inversion HF as [|m' ky r0 kys' [Hk Hy] HF']; subst.
        destruct (Hitem it m (fst ky) (snd ky) Hq Hk Hy) as [s [Hs [He Hn]]].
        destruct (IH kys' HF') as [ps [Hm HP]].
        exists ((fst ky, s) :: ps). split.
        + cbn [mapM]. rewrite Hs. cbn [bind]. rewrite Hm. reflexivity.
        + constructor; [repeat split; assumption|exact HP]. }
    destruct Hps as [ps [Hm HP]]. exists ps. split; [exact Hm|].
    assert (E : jobj G (MDict kys) = JObj (map (fun ky => (fst ky, jobj G (snd ky))) kys)).
    { cbn [jobj]. f_equal. clear - HP. induction HP as [|ky p r r' [_ [_ Hn]] _ IH]; [reflexivity|].
      cbn [flat_map map]. rewrite IH. destruct (snd ky); try reflexivity. contradiction. }
    rewrite E. apply json_equiv_obj_pointwise.
    clear - HP. induction HP as [|ky p r r' [Hk [He _]] _ IH]; cbn [map]; constructor; [|exact IH].
    cbn [fst snd]. split; assumption.
  Qed.
End Keyed.

(* ------------------------------------------------------------------ the four definition classes *)
Ltac cls_open H :=
  let f' := fresh "f'" in let c0 := fresh "c0" in let ms := fresh "ms" in let fields := fresh "fields" in
  let Ef := fresh "Ef" in let Hlk := fresh "Hlk" in let Ev := fresh "Ev" in let Ex := fresh "Ex" in
  let Hpre := fresh "Hpre" in let Hex := fresh "Hex" in let Hm := fresh "Hm" in let Hpost := fresh "Hpost" in
  destruct (pc_inv _ _ _ _ _ _ _ _ H) as [f' [c0 [ms [fields [Ef [Hlk [Ev [Ex [Hpre [Hex [Hm Hpost]]]]]]]]]]];
  vm_compute in Hlk; injection Hlk as <-; cbn [c_fields] in Hm.

Ltac next_field Hm y r Hy :=
  apply mapM_cons_ok in Hm; destruct Hm as [y [r [Hy [Hm ->]]]].

Definition kdisc_params : kind :=
  KDisc "type" [("INT", "JobIntParameterDefinition"); ("FLOAT", "JobFloatParameterDefinition");
                ("STRING", "JobStringParameterDefinition"); ("PATH", "JobPathParameterDefinition")].

Section ParamClasses.
  Variable classify : N -> cclass.
  Variable resolve : symtab -> str -> outcome str.
  Variable sigma : symtab.
  Notation pk := (parse_kind G classify pre_hook (post_hook classify)).
  Notation pc := (parse_cls G classify pre_hook (post_hook classify)).

  (* what every parameter definition class yields: (name, type, description) read from the object,
     and the JobParameter instantiate_model builds from it *)
  Definition param_view (p : json) (x : mval) : Prop :=
    exists n t d,
      key_of x "name" = Ok n /\ jget "name" p = JStr n /\
      leaf t = true /\ tobj G t = jget "type" p /\ leaf d = true /\ tobj G d = jget "description" p /\
      forall f, inst G resolve sigma (S f) x = job_parameter sigma n t d.

  Lemma param_view_String : forall f ims x, pc f "JobStringParameterDefinition" (JObj ims) = Ok x -> param_view (JObj ims) x.
  Proof.
    intros f ims x H. cls_open H. injection Ev as <-. subst x.
    next_field Hm y1 r1 H1. next_field Hm y2 r2 H2. next_field Hm y3 r3 H3. next_field Hm y4 r4 H4.
    next_field Hm y5 r5 H5. next_field Hm y6 r6 H6. next_field Hm y7 r7 H7. next_field Hm y8 r8 H8.
    injection Hm as <-.
    apply name_field_inv in H1. destruct H1 as [c [r [-> Hn]]].
    apply field_exact_inv in H2; [|reflexivity|reflexivity]. destruct H2 as [t [-> [Hlt Ht]]].
    apply field_any_inv in H3. destruct H3 as [ui ->].
    apply field_exact_inv in H4; [|reflexivity|reflexivity]. destruct H4 as [d [-> [Hld Hd]]].
    apply field_any_inv in H5. destruct H5 as [mn ->]. apply field_any_inv in H6. destruct H6 as [mx ->].
    apply field_any_inv in H7. destruct H7 as [av ->]. apply field_any_inv in H8. destruct H8 as [df ->].
    exists (c :: r), t, d. cbn [f_name]. repeat split; try assumption.
    intros f0. apply shape_JobStringParam; assumption.
  Qed.

  Lemma param_view_Path : forall f ims x, pc f "JobPathParameterDefinition" (JObj ims) = Ok x -> param_view (JObj ims) x.
  Proof.
    intros f ims x H. cls_open H. injection Ev as <-. subst x.
    next_field Hm y1 r1 H1. next_field Hm y2 r2 H2. next_field Hm y3 r3 H3. next_field Hm y4 r4 H4.
    next_field Hm y5 r5 H5. next_field Hm y6 r6 H6. next_field Hm y7 r7 H7. next_field Hm y8 r8 H8.
    next_field Hm y9 r9 H9. next_field Hm y10 r10 H10.
    injection Hm as <-.
    apply name_field_inv in H1. destruct H1 as [c [r [-> Hn]]].
    apply field_exact_inv in H2; [|reflexivity|reflexivity]. destruct H2 as [t [-> [Hlt Ht]]].
    apply field_any_inv in H3. destruct H3 as [ot ->]. apply field_any_inv in H4. destruct H4 as [dfl ->].
    apply field_any_inv in H5. destruct H5 as [ui ->].
    apply field_exact_inv in H6; [|reflexivity|reflexivity]. destruct H6 as [d [-> [Hld Hd]]].
    apply field_any_inv in H7. destruct H7 as [mn ->]. apply field_any_inv in H8. destruct H8 as [mx ->].
    apply field_any_inv in H9. destruct H9 as [av ->]. apply field_any_inv in H10. destruct H10 as [df ->].
    exists (c :: r), t, d. cbn [f_name]. repeat split; try assumption.
    intros f0. apply shape_JobPathParam; assumption.
  Qed.

  Lemma param_view_Int : forall f ims x, pc f "JobIntParameterDefinition" (JObj ims) = Ok x -> param_view (JObj ims) x.
  Proof.
    intros f ims x H. cls_open H. injection Ev as <-. subst x.
    next_field Hm y1 r1 H1. next_field Hm y2 r2 H2. next_field Hm y3 r3 H3. next_field Hm y4 r4 H4.
    next_field Hm y5 r5 H5. next_field Hm y6 r6 H6. next_field Hm y7 r7 H7. next_field Hm y8 r8 H8.
    injection Hm as <-.
    apply name_field_inv in H1. destruct H1 as [c [r [-> Hn]]].
    apply field_exact_inv in H2; [|reflexivity|reflexivity]. destruct H2 as [t [-> [Hlt Ht]]].
    apply field_any_inv in H3. destruct H3 as [ui ->].
    apply field_exact_inv in H4; [|reflexivity|reflexivity]. destruct H4 as [d [-> [Hld Hd]]].
    apply field_any_inv in H5. destruct H5 as [mn ->]. apply field_any_inv in H6. destruct H6 as [mx ->].
    apply field_any_inv in H7. destruct H7 as [av ->]. apply field_any_inv in H8. destruct H8 as [df ->].
    exists (c :: r), t, d. cbn [f_name]. repeat split; try assumption.
    intros f0. apply shape_JobIntParam; assumption.
  Qed.

  Lemma param_view_Float : forall f ims x, pc f "JobFloatParameterDefinition" (JObj ims) = Ok x -> param_view (JObj ims) x.
  Proof.
    intros f ims x H. cls_open H. injection Ev as <-. subst x.
    next_field Hm y1 r1 H1. next_field Hm y2 r2 H2. next_field Hm y3 r3 H3. next_field Hm y4 r4 H4.
    next_field Hm y5 r5 H5. next_field Hm y6 r6 H6. next_field Hm y7 r7 H7. next_field Hm y8 r8 H8.
    injection Hm as <-.
    apply name_field_inv in H1. destruct H1 as [c [r [-> Hn]]].
    apply field_exact_inv in H2; [|reflexivity|reflexivity]. destruct H2 as [t [-> [Hlt Ht]]].
    apply field_any_inv in H3. destruct H3 as [ui ->].
    apply field_exact_inv in H4; [|reflexivity|reflexivity]. destruct H4 as [d [-> [Hld Hd]]].
    apply field_any_inv in H5. destruct H5 as [mn ->]. apply field_any_inv in H6. destruct H6 as [mx ->].
    apply field_any_inv in H7. destruct H7 as [av ->]. apply field_any_inv in H8. destruct H8 as [df ->].
    exists (c :: r), t, d. cbn [f_name]. repeat split; try assumption.
    intros f0. apply shape_JobFloatParam; assumption.
  Qed.

  Theorem job_param_item : forall f F it m k y,
    pk f kdisc_params it = Ok m -> key_of m "name" = Ok k -> mval_depth m < F ->
    inst_elem (inst G resolve sigma F) m = Ok y ->
    exists s, CreateJobSpec.job_param sigma it = Ok (k, s) /\ json_equiv (jobj G y) s /\ y <> MNone.
  Proof.
    intros f F it m k y H Hk HF Hy. destruct f as [|f]; [discriminate H|]. unfold kdisc_params in H.
    rewrite parse_kind_S in H. unfold disc_res in H.
    destruct it as [| | | | | |ims]; try discriminate H.
    destruct (assoc (str_of_string "type") ims) as [[| | | |s| |]|]; try discriminate H.
    destruct (List.find _ _) as [[k' c']|] eqn:Ef; [|discriminate H].
    apply find_some in Ef. destruct Ef as [Hin _].
    assert (V : param_view (JObj ims) m).
    { destruct Hin as [E|[E|[E|[E|[]]]]]; injection E as <- <-.
      - exact (param_view_Int _ _ _ H).
      - exact (param_view_Float _ _ _ H).
      - exact (param_view_String _ _ _ H).
      - exact (param_view_Path _ _ _ H). }
    destruct V as [n [t [d [Hkn [Hn [Hlt [Ht [Hld [Hd Hinst]]]]]]]]].
    rewrite Hkn in Hk. injection Hk as <-.
    assert (Hm : exists c fs, m = MModel c fs).
    { unfold key_of in Hkn. destruct m; try discriminate Hkn. eexists. eexists. reflexivity. }
    destruct Hm as [c [fs ->]]. cbn [inst_elem] in Hy.
    destruct F as [|F]; [lia|]. rewrite Hinst in Hy. unfold job_parameter in Hy.
    destruct (st_lookup sigma ($"RawParam." ++ n)) as [v|] eqn:Ev; [|discriminate Hy]. injection Hy as <-.
    destruct (job_parameter_equiv sigma (JObj ims) n t d v Hn Hlt Ht Hld Hd Ev) as [sp [Hs He]].
    exists sp. split; [exact Hs|]. split; [exact He|discriminate].
  Qed.
End ParamClasses.
