# C20 probe: exhaustive pairs vs textbook Levenshtein; closest() semantics; threshold use.
import itertools, sys, random
from functools import lru_cache
from openjd.model._format_strings._edit_distance import closest, _edit_distance
from openjd.model._format_strings._nodes import FullNameNode, MAX_MATCH_DISTANCE_THRESHOLD
MAXLEN = int(sys.argv[1]) if len(sys.argv) > 1 else 4
def lev(a, b):
    @lru_cache(None)
    def d(i, j):
        if i == 0: return j
        if j == 0: return i
        return min(d(i-1, j)+1, d(i, j-1)+1, d(i-1, j-1)+(a[i-1] != b[j-1]))
    return d(len(a), len(b))
strs = ["".join(t) for L in range(MAXLEN+1) for t in itertools.product("abcd", repeat=L)]
bad = n = 0
for a in strs:
    for b in strs:
        n += 1
        if _edit_distance(a, b) != lev(a, b): bad += 1; print("DIST", a, b)
print("pairs", n, "bad", bad)
rnd = random.Random(1); bad = 0
for _ in range(20000):
    syms = {"".join(rnd.choice("abc.") for _ in range(rnd.randint(0, 7))) for _ in range(rnd.randint(0, 6))}
    m = "".join(rnd.choice("abc.") for _ in range(rnd.randint(0, 7)))
    d, best = closest(syms, m)
    ds = {s: lev(s, m) for s in syms}
    mn = min(ds.values()) if ds else None
    if mn is not None and mn <= len(m)+1: exp = (mn, {s for s in syms if ds[s] == mn})
    else: exp = (len(m)+1, set())
    if (d, best) != exp: bad += 1; print("CLOSEST", syms, m, (d, best), exp)
    if m not in syms:
        try: FullNameNode(m).validate_symbol_refs(symbols=syms); print("NOERR")
        except ValueError as e:
            msg = str(e); sug = None
            if "Did you mean one of: " in msg: sug = set(msg.split("Did you mean one of: ")[1].split(", "))
            elif "Did you mean: " in msg: sug = {msg.split("Did you mean: ")[1]}
            want = exp[1] if (exp[0] < MAX_MATCH_DISTANCE_THRESHOLD and exp[1]) else None
            if sug != want and not any("," in s or s == "" for s in syms): bad += 1; print("SUGGEST", syms, m, sug, want)
print("closest/suggest bad", bad)
