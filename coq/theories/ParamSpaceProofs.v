(* ParamSpaceProofs.v — model = specification for C07 (all trees, unbounded). *)
From Coq Require Import ZArith List Bool Lia ZifyBool Arith Permutation.
Import ListNotations.
Require Import OJD.Base OJD.ParamSpace OJD.ParamSpaceSpec.
Ltac Zify.zify_post_hook ::= Z.to_euclidean_division_equations.

(* ================================================================== strings, dicts *)
Lemma str_eqb_refl : forall a, str_eqb a a = true.
Proof. induction a as [|x a IH]; cbn; [reflexivity|]. rewrite N.eqb_refl. exact IH. Qed.

Lemma str_eqb_eq : forall a b, str_eqb a b = true <-> a = b.
Proof.
  induction a as [|x a IH]; intros [|y b]; cbn; split; intro H; try reflexivity; try discriminate.
  - apply andb_true_iff in H. destruct H as [H1 H2]. apply N.eqb_eq in H1. apply IH in H2. congruence.
  - injection H as -> ->. rewrite N.eqb_refl. apply str_eqb_refl.
Qed.

Lemma str_eqb_neq : forall a b, str_eqb a b = false <-> a <> b.
Proof.
  intros a b. split.
  - intros H E. apply str_eqb_eq in E. congruence.
  - intros H. destruct (str_eqb a b) eqn:E; [|reflexivity]. apply str_eqb_eq in E. contradiction.
Qed.

Lemma str_eq_dec : forall a b : str, {a = b} + {a <> b}.
Proof. intros a b. destruct (str_eqb a b) eqn:E; [left; apply str_eqb_eq; exact E | right; apply str_eqb_neq; exact E]. Qed.

Definition keys (e : env) : list str := map fst e.
Definition wf (e : env) : Prop := NoDup (keys e).

(* [r'] reads like [r] overridden by [e] *)
Definition Upd (r e r' : env) : Prop :=
  forall n, lookup n r' = match lookup n e with Some v => Some v | None => lookup n r end.

Lemma lookup_set : forall e k v n,
  lookup n (set e k v) = if str_eqb n k then Some v else lookup n e.
Proof.
  induction e as [|[k' v'] e IH]; intros k v n; cbn.
  - reflexivity.
  - destruct (str_eqb k k') eqn:E.
    + apply str_eqb_eq in E. subst k'. cbn. destruct (str_eqb n k); reflexivity.
    + cbn. destruct (str_eqb n k') eqn:E2.
      * apply str_eqb_eq in E2. subst k'. destruct (str_eqb n k) eqn:E3; [|reflexivity].
        apply str_eqb_eq in E3. subst n. rewrite str_eqb_refl in E. discriminate.
      * apply IH.
Qed.

Lemma lookup_in_keys : forall e n, lookup n e <> None <-> In n (keys e).
Proof.
  induction e as [|[k v] e IH]; intros n; cbn.
  - split; [congruence | tauto].
  - destruct (str_eqb n k) eqn:E.
    + apply str_eqb_eq in E. subst. split; [auto | discriminate].
    + apply str_eqb_neq in E. rewrite IH. split; [auto | intros [H|H]; [congruence | exact H]].
Qed.

Lemma lookup_none_keys : forall e n, lookup n e = None <-> ~ In n (keys e).
Proof.
  intros e n. rewrite <- lookup_in_keys. destruct (lookup n e); split; intro H; try congruence; try tauto.
  exfalso. apply H. discriminate.
Qed.

Lemma keys_set : forall e k v x, In x (keys (set e k v)) <-> In x (keys e) \/ x = k.
Proof.
  intros e k v x. rewrite <- !lookup_in_keys, lookup_set.
  destruct (str_eqb x k) eqn:E.
  - apply str_eqb_eq in E. subst. split; [auto | discriminate].
  - apply str_eqb_neq in E. tauto.
Qed.

Lemma wf_set : forall e k v, wf e -> wf (set e k v).
Proof.
  unfold wf, keys. induction e as [|[k' v'] e IH]; intros k v H; cbn.
  - constructor; [tauto | constructor].
  - cbn in H. inversion H as [|? ? Hn Hd]; subst. destruct (str_eqb k k') eqn:E; cbn.
    + constructor; assumption.
    + constructor.
      * intro Hin. apply (keys_set e k v k') in Hin. destruct Hin as [Hin|Hin]; [exact (Hn Hin)|].
        subst. rewrite str_eqb_refl in E. discriminate.
      * apply IH. exact Hd.
Qed.

Lemma wf_update : forall s e, wf e -> wf (update e s).
Proof.
  unfold update. induction s as [|[k v] s IH]; intros e H; cbn; [exact H|].
  apply IH. apply wf_set. exact H.
Qed.

Lemma wf_nil : wf [].
Proof. constructor. Qed.

Lemma lookup_update : forall s e n, wf s ->
  lookup n (update e s) = match lookup n s with Some v => Some v | None => lookup n e end.
Proof.
  unfold update. induction s as [|[k v] s IH]; intros e n H; cbn; [reflexivity|].
  inversion H as [|? ? Hn Hd]; subst. rewrite IH by exact Hd. rewrite lookup_set.
  destruct (str_eqb n k) eqn:E.
  - apply str_eqb_eq in E. subst n.
    assert (Hk : lookup k s = None) by (apply lookup_none_keys; exact Hn). rewrite Hk. reflexivity.
  - reflexivity.
Qed.

Lemma Upd_update : forall r s, wf s -> Upd r s (update r s).
Proof. intros r s H n. apply lookup_update. exact H. Qed.

Lemma lookup_app : forall a b n,
  lookup n (a ++ b) = match lookup n a with Some v => Some v | None => lookup n b end.
Proof.
  induction a as [|[k v] a IH]; intros b n; cbn; [reflexivity|].
  destruct (str_eqb n k); [reflexivity | apply IH].
Qed.

Lemma keys_app : forall a b, keys (a ++ b) = keys a ++ keys b.
Proof. intros. unfold keys. apply map_app. Qed.

Lemma keys_concat : forall es, keys (concat es) = concat (map keys es).
Proof. induction es as [|e es IH]; cbn; [reflexivity|]. rewrite keys_app, IH. reflexivity. Qed.

Lemma Upd_equiv : forall r e e' r', Upd r e r' -> e ≈ e' -> Upd r e' r'.
Proof. intros r e e' r' H E n. rewrite (H n), (E n). reflexivity. Qed.

Lemma Upd_nil_equiv : forall e r', Upd [] e r' -> r' ≈ e.
Proof. intros e r' H n. rewrite (H n). cbn. destruct (lookup n e); reflexivity. Qed.

(* [a] written after [b]: a overrides b, like a ++ b *)
Lemma Upd_app_over : forall r a b r1 r2, Upd r b r1 -> Upd r1 a r2 -> Upd r (a ++ b) r2.
Proof.
  intros r a b r1 r2 H1 H2 n. rewrite (H2 n), (H1 n), lookup_app.
  destruct (lookup n a); reflexivity.
Qed.

(* [a] written first, then [b], disjoint keys: the same as a ++ b *)
Lemma Upd_app_disj : forall r a b r1 r2,
  Upd r a r1 -> Upd r1 b r2 -> (forall n, In n (keys a) -> ~ In n (keys b)) -> Upd r (a ++ b) r2.
Proof.
  intros r a b r1 r2 H1 H2 D n. rewrite (H2 n), (H1 n), lookup_app.
  destruct (lookup n a) eqn:Ea; destruct (lookup n b) eqn:Eb; try reflexivity.
  exfalso. apply (D n); apply lookup_in_keys; congruence.
Qed.

(* ================================================================== list helpers *)
Lemma nth_flat_map_map : forall (A B C : Type) (f : A -> B -> C) (xs : list A) (ys : list B) i j da db dc,
  (i < length xs)%nat -> (j < length ys)%nat ->
  nth (i * length ys + j) (flat_map (fun a => map (f a) ys) xs) dc = f (nth i xs da) (nth j ys db).
Proof.
  intros A B C f xs ys. induction xs as [|x xs IH]; intros i j da db dc Hi Hj; cbn in Hi; [lia|].
  cbn [flat_map]. destruct i as [|i].
  - cbn [Nat.mul Nat.add nth]. rewrite app_nth1 by (rewrite map_length; exact Hj).
    rewrite (nth_indep _ dc (f x db)) by (rewrite map_length; exact Hj).
    apply map_nth.
  - rewrite app_nth2 by (rewrite map_length; lia). rewrite map_length.
    replace (S i * length ys + j - length ys)%nat with (i * length ys + j)%nat by lia.
    cbn [nth]. apply IH; lia.
Qed.

Lemma nth_map_default : forall (A B : Type) (f : A -> B) (l : list A) n d d',
  (n < length l)%nat -> nth n (map f l) d' = f (nth n l d).
Proof.
  intros A B f. induction l as [|x l IH]; intros n d d' H; cbn in H; [lia|].
  destruct n as [|n]; cbn; [reflexivity | apply IH; lia].
Qed.

Lemma length_flat_map_map : forall (A B C : Type) (f : A -> B -> C) (xs : list A) (ys : list B),
  length (flat_map (fun a => map (f a) ys) xs) = (length xs * length ys)%nat.
Proof.
  intros. induction xs as [|x xs IH]; cbn; [reflexivity|]. rewrite app_length, map_length, IH. reflexivity.
Qed.

Lemma length_cross : forall d acc, length (cross d acc) = (length d * length acc)%nat.
Proof. intros. unfold cross. apply length_flat_map_map. Qed.

Lemma nth_cross : forall d acc i j, (i < length d)%nat -> (j < length acc)%nat ->
  nth (i * length acc + j) (cross d acc) [] = nth i d [] ++ nth j acc [].
Proof. intros. unfold cross. apply (nth_flat_map_map env env env (fun a b => a ++ b)); assumption. Qed.

Lemma nth_cross' : forall d acc i j n, n = length acc -> (i < length d)%nat -> (j < n)%nat ->
  nth (i * n + j) (cross d acc) [] = nth i d [] ++ nth j acc [].
Proof. intros d acc i j n ->. apply nth_cross. Qed.

Lemma in_cross : forall d acc e, In e (cross d acc) <-> exists a b, In a d /\ In b acc /\ e = a ++ b.
Proof.
  intros. unfold cross. rewrite in_flat_map. split.
  - intros [a [Ha Hm]]. apply in_map_iff in Hm. destruct Hm as [b [Hb Hin]]. exists a, b. auto.
  - intros [a [b [Ha [Hb He]]]]. exists a. split; [exact Ha|]. apply in_map_iff. exists b. auto.
Qed.

Lemma length_zipL : forall d ds, length (zipL (d :: ds)) = length d.
Proof. intros. unfold zipL. rewrite map_length, seq_length. reflexivity. Qed.

Lemma nth_map_seq : forall (A : Type) (f : nat -> A) n s i d, (i < n)%nat ->
  nth i (map f (seq s n)) d = f (s + i)%nat.
Proof.
  intros A f. induction n as [|n IH]; intros s i d H; [lia|].
  cbn [seq map]. destruct i as [|i]; cbn [nth].
  - f_equal. lia.
  - rewrite IH by lia. f_equal. lia.
Qed.

Lemma nth_zipL : forall ds i, (i < length (hd [] ds))%nat ->
  nth i (zipL ds) [] = concat (map (fun d => nth i d []) ds).
Proof. intros ds i H. unfold zipL. rewrite nth_map_seq by exact H. reflexivity. Qed.

(* ================================================================== induction on trees *)
Section NodeInd.
  Variable P : node -> Prop.
  Hypothesis HL : forall n ty vs, P (Leaf n ty vs).
  Hypothesis HP : forall cs, Forall P cs -> P (Prod cs).
  Hypothesis HA : forall cs, Forall P cs -> P (Assoc cs).
  Fixpoint node_ind2 (t : node) : P t :=
    match t with
    | Leaf n ty vs => HL n ty vs
    | Prod cs => HP cs ((fix go (l : list node) : Forall P l :=
                           match l with [] => Forall_nil P | c :: r => Forall_cons c (node_ind2 c) (go r) end) cs)
    | Assoc cs => HA cs ((fix go (l : list node) : Forall P l :=
                            match l with [] => Forall_nil P | c :: r => Forall_cons c (node_ind2 c) (go r) end) cs)
    end.
End NodeInd.

Definition dlen (t : node) : nat := length (denote t).

Lemma wfnode_children_prod : forall cs, wfnode (Prod cs) -> Forall wfnode cs.
Proof. intros cs H. inversion H; assumption. Qed.

Lemma wfnode_children_assoc : forall cs, wfnode (Assoc cs) -> Forall wfnode cs.
Proof. intros cs H. inversion H; assumption. Qed.

Lemma prodL_cons : forall d ds, prodL (d :: ds) = cross d (prodL ds).
Proof. reflexivity. Qed.

Lemma length_prodL_pos : forall ds, Forall (fun d => (0 < length d)%nat) ds -> (0 < length (prodL ds))%nat.
Proof.
  induction ds as [|d ds IH]; intros H; [cbn; lia|].
  inversion H as [|? ? Hd Hr]; subst. rewrite prodL_cons, length_cross. specialize (IH Hr). nia.
Qed.

Lemma dlen_pos : forall t, wfnode t -> (0 < dlen t)%nat.
Proof.
  unfold dlen. induction t as [n ty vs | cs IH | cs IH] using node_ind2; intros W.
  - inversion W; subst. cbn. rewrite map_length. destruct vs; [contradiction | cbn; lia].
  - cbn. apply length_prodL_pos. apply wfnode_children_prod in W.
    rewrite Forall_map. rewrite Forall_forall in *. intros c Hc. apply IH; auto.
  - inversion W as [| |c cs' Wc Hb]; subst. cbn [denote map]. rewrite length_zipL.
    inversion IH; subst. inversion Wc; subst. auto.
Qed.

(* ================================================================== C07_len *)
Lemma len_loop_spec : forall cs acc,
  Forall (fun c => node_len c = Ok (Z.of_nat (dlen c))) cs ->
  len_loop node_len cs acc = Ok (acc * Z.of_nat (length (prodL (map denote cs))))%Z.
Proof.
  induction cs as [|c cs IH]; intros acc H.
  - cbn. f_equal. lia.
  - inversion H as [|? ? Hc Hr]; subst. cbn [len_loop map]. rewrite Hc. cbn [bind]. rewrite IH by exact Hr.
    f_equal. rewrite prodL_cons, length_cross. unfold dlen. lia.
Qed.

Theorem node_len_spec : forall t, wfnode t -> node_len t = Ok (Z.of_nat (dlen t)).
Proof.
  induction t as [n ty vs | cs IH | cs IH] using node_ind2; intros W.
  - cbn. unfold dlen. cbn. rewrite map_length. reflexivity.
  - cbn [node_len]. rewrite len_loop_spec.
    + f_equal. unfold dlen. cbn [denote]. lia.
    + apply wfnode_children_prod in W. rewrite Forall_forall in *. intros c Hc. apply IH; auto.
  - inversion W as [| |c cs' Wc Hb]; subst. cbn [node_len]. inversion IH; subst. inversion Wc; subst.
    rewrite H1 by assumption. f_equal. unfold dlen. cbn [denote map]. rewrite length_zipL. reflexivity.
Qed.

Theorem len_correct : forall t, valid t -> node_len t = Ok (Z.of_nat (length (denote t))).
Proof. intros t [_ W]. apply node_len_spec. exact W. Qed.

(* the _len memo holds, if anything, the value node_len computes: it never changes an answer *)
Definition cache_ok (t : node) (c : option Z) : Prop := c = None \/ node_len t = Ok (match c with Some v => v | None => 0%Z end).

Theorem cache_transparent : forall t c, cache_ok t c ->
  match cached_len c t with
  | Ok (v, c') => node_len t = Ok v /\ cache_ok t c'
  | Raise x => node_len t = Raise x
  end.
Proof.
  intros t c [->|H]; unfold cached_len.
  - destruct (node_len t) as [v|x] eqn:E; cbn; [|reflexivity]. split; [reflexivity|]. right. exact E.
  - destruct c as [v|].
    + split; [exact H | right; exact H].
    + destruct (node_len t) as [v|x] eqn:E; cbn; [|reflexivity]. split; [reflexivity|]. right. exact E.
Qed.

(* ================================================================== keys of the denotation *)
Lemma keys_prodL : forall cs e,
  Forall (fun c => forall e, In e (denote c) -> keys e = names c) cs ->
  In e (prodL (map denote cs)) -> keys e = flat_map names cs.
Proof.
  induction cs as [|c cs IH]; intros e H Hin.
  - cbn in Hin. destruct Hin as [<-|[]]. reflexivity.
  - inversion H as [|? ? Hc Hr]; subst. cbn [map] in Hin. rewrite prodL_cons in Hin.
    apply in_cross in Hin. destruct Hin as [a [b [Ha [Hb ->]]]].
    rewrite keys_app. cbn [flat_map]. rewrite (Hc a Ha), (IH b Hr Hb). reflexivity.
Qed.

Lemma keys_zip : forall cs i,
  Forall (fun c => forall e, In e (denote c) -> keys e = names c) cs ->
  Forall (fun c => (i < dlen c)%nat) cs ->
  keys (concat (map (fun d => nth i d []) (map denote cs))) = flat_map names cs.
Proof.
  induction cs as [|c cs IH]; intros i H1 H2; [reflexivity|].
  inversion H1 as [|? ? Hc Hr]; inversion H2 as [|? ? Hi Hir]; subst.
  cbn [map concat flat_map]. rewrite keys_app. f_equal.
  - apply Hc. apply nth_In. exact Hi.
  - apply IH; assumption.
Qed.

Theorem denote_keys : forall t, wfnode t -> forall e, In e (denote t) -> keys e = names t.
Proof.
  induction t as [n ty vs | cs IH | cs IH] using node_ind2; intros W e Hin.
  - cbn in Hin. apply in_map_iff in Hin. destruct Hin as [v [<- _]]. reflexivity.
  - cbn [denote names] in *. apply keys_prodL; [|exact Hin].
    apply wfnode_children_prod in W. rewrite Forall_forall in *. intros c Hc. apply IH; auto.
  - inversion W as [| |c cs' Wc Hb]; subst. cbn [denote names] in *. unfold zipL in Hin.
    apply in_map_iff in Hin. destruct Hin as [i [<- Hi]]. apply in_seq in Hi. cbn [map hd] in Hi.
    apply (keys_zip (c :: cs') i).
    + rewrite Forall_forall in *. intros c' Hc'. apply IH; auto.
    + constructor; [unfold dlen; lia|]. rewrite Forall_forall in *. intros c' Hc'. unfold dlen. rewrite (Hb c' Hc'). lia.
Qed.

Lemma nth_keys : forall t k, wfnode t -> (k < dlen t)%nat -> keys (nth k (denote t) []) = names t.
Proof. intros t k W H. apply denote_keys; [exact W|]. apply nth_In. exact H. Qed.

Lemma NoDup_app_disj : forall (A : Type) (l1 l2 : list A) x, NoDup (l1 ++ l2) -> In x l1 -> ~ In x l2.
Proof.
  intros A l1. induction l1 as [|a l1 IH]; intros l2 x H Hin; [contradiction|].
  cbn in H. inversion H as [|? ? Hn Hd]; subst. destruct Hin as [->|Hin].
  - intro H2. apply Hn. apply in_or_app. right. exact H2.
  - apply IH; assumption.
Qed.

Lemma NoDup_app_l : forall (A : Type) (l1 l2 : list A), NoDup (l1 ++ l2) -> NoDup l1.
Proof.
  intros A l1. induction l1 as [|a l1 IH]; intros l2 H; [constructor|].
  cbn in H. inversion H as [|? ? Hn Hd]; subst. constructor.
  - intro H2. apply Hn. apply in_or_app. left. exact H2.
  - apply (IH l2). exact Hd.
Qed.

Lemma NoDup_app_r : forall (A : Type) (l1 l2 : list A), NoDup (l1 ++ l2) -> NoDup l2.
Proof.
  intros A l1. induction l1 as [|a l1 IH]; intros l2 H; [exact H|].
  cbn in H. inversion H as [|? ? Hn Hd]; subst. apply IH. exact Hd.
Qed.

Lemma NoDup_flat_map_each : forall (A B : Type) (f : A -> list B) l, NoDup (flat_map f l) -> Forall (fun x => NoDup (f x)) l.
Proof.
  intros A B f. induction l as [|x l IH]; intros H; [constructor|].
  cbn in H. constructor; [eapply NoDup_app_l; exact H | apply IH; eapply NoDup_app_r; exact H].
Qed.

(* ================================================================== C07_getitem *)
Lemma mod_norm : forall i len, (- len <= i < len)%Z -> (i mod len = if i <? 0 then len + i else i)%Z.
Proof.
  intros i len H. destruct (i <? 0)%Z eqn:E.
  - rewrite <- (Z_mod_plus_full i 1 len). rewrite Z.mod_small; lia.
  - apply Z.mod_small; lia.
Qed.

Lemma py_index_spec : forall (A : Type) (l : list A) i d,
  let len := Z.of_nat (length l) in
  ((- len <= i < len)%Z -> py_index l i = Ok (nth (Z.to_nat (i mod len)) l d)) /\
  (~ (- len <= i < len)%Z -> py_index l i = Raise IndexError).
Proof.
  intros A l i d len. unfold py_index. fold len.
  split; intros H.
  - rewrite (mod_norm i len H).
    set (j := (if (i <? 0)%Z then (len + i)%Z else i)).
    assert (Hj : (0 <= j < len)%Z) by (unfold j; destruct (i <? 0)%Z eqn:E; lia).
    destruct ((0 <=? j)%Z && (j <? len)%Z) eqn:T; [|lia].
    rewrite (nth_error_nth' l d) by (unfold len in Hj; lia). reflexivity.
  - set (j := (if (i <? 0)%Z then (len + i)%Z else i)).
    destruct ((0 <=? j)%Z && (j <? len)%Z) eqn:T; [|reflexivity].
    exfalso. apply H. unfold j in T. destruct (i <? 0)%Z eqn:E; lia.
Qed.

Definition GetOK (t : node) : Prop := forall i,
  let len := Z.of_nat (dlen t) in
  ((- len <= i < len)%Z ->
     exists e, getitem t i = Ok e /\ wf e /\ e ≈ nth (Z.to_nat (i mod len)) (denote t) []) /\
  (~ (- len <= i < len)%Z -> getitem t i = Raise IndexError).

Lemma Upd_refl_nil : forall r, Upd r [] r.
Proof. intros r n. reflexivity. Qed.

Lemma prod_get_tail_spec : forall cs,
  Forall (fun c => wfnode c /\ GetOK c) cs ->
  forall index res, (0 <= index)%Z -> wf res ->
  exists res', prod_get_tail getitem cs index res
                 = Ok ((index / Z.of_nat (length (prodL (map denote cs))))%Z, res') /\ wf res' /\
               Upd res (nth (Z.to_nat (index mod Z.of_nat (length (prodL (map denote cs))))) (prodL (map denote cs)) []) res'.
Proof.
  induction cs as [|c cs IH]; intros H index res Hi Hw.
  - exists res. cbn [map prodL fold_right length prod_get_tail]. change (Z.of_nat 1) with 1%Z.
    rewrite Z.div_1_r, Z.mod_1_r. cbn [Z.to_nat nth]. split; [reflexivity|]. split; [exact Hw | apply Upd_refl_nil].
  - inversion H as [|? ? [Wc Gc] Hr]; subst.
    destruct (IH Hr index res Hi Hw) as [res1 [E1 [W1 U1]]].
    cbn [prod_get_tail map]. rewrite E1. cbn [bind fst snd]. rewrite (node_len_spec c Wc). cbn [bind].
    pose proof (dlen_pos c Wc) as Hpos.
    set (lp := length (prodL (map denote cs))) in *.
    assert (Hlp : (0 < lp)%nat).
    { unfold lp. apply length_prodL_pos. rewrite Forall_map. rewrite Forall_forall in *. intros c' Hc'.
      apply dlen_pos. apply (Hr c' Hc'). }
    destruct (Z.of_nat (dlen c) =? 0)%Z eqn:Ez; [lia|].
    set (cl := Z.of_nat (dlen c)) in *. set (P' := Z.of_nat lp) in *.
    assert (Hq : (0 <= (index / P') mod cl < cl)%Z) by (apply Z.mod_pos_bound; lia).
    destruct (Gc ((index / P') mod cl)%Z) as [Gin _]. fold cl in Gin.
    destruct Gin as [e [Ee [We Eq]]]; [lia|].
    rewrite Ee. cbn [bind]. exists (update res1 e).
    rewrite prodL_cons, length_cross. fold lp. rewrite Nat2Z.inj_mul. fold P'. unfold dlen in cl. fold cl.
    split; [|split].
    + f_equal. f_equal. rewrite Z.div_div by lia. f_equal. lia.
    + apply wf_update. exact W1.
    + rewrite Z.mod_mod in Eq by lia.
      assert (Hm : (index mod (cl * P') = index mod P' + P' * ((index / P') mod cl))%Z).
      { rewrite (Z.mul_comm cl P'). apply Z.rem_mul_r; lia. }
      assert (Hj : (0 <= index mod P' < P')%Z) by (apply Z.mod_pos_bound; lia).
      replace (Z.to_nat (index mod (cl * P'))) with (Z.to_nat ((index / P') mod cl) * lp + Z.to_nat (index mod P'))%nat.
      2:{ rewrite Hm. assert (Hnn : (0 <= P' * ((index / P') mod cl))%Z) by nia.
          apply Nat2Z.inj. rewrite Nat2Z.inj_add, Nat2Z.inj_mul, !Z2Nat.id by lia. fold P'. lia. }
      rewrite (nth_cross' _ _ _ _ lp eq_refl).
      * eapply Upd_app_over; [exact U1|]. eapply Upd_equiv; [apply Upd_update; exact We | exact Eq].
      * unfold cl in Hq. lia.
      * unfold P' in Hj. fold lp. lia.
Qed.

Lemma assoc_get_spec : forall cs i k,
  Forall (fun c => wfnode c /\ (k < dlen c)%nat /\
                   exists e, getitem c i = Ok e /\ wf e /\ e ≈ nth k (denote c) []) cs ->
  NoDup (flat_map names cs) ->
  forall res, wf res ->
  exists res', assoc_get getitem cs i res = Ok res' /\ wf res' /\
               Upd res (concat (map (fun d => nth k d []) (map denote cs))) res'.
Proof.
  induction cs as [|c cs IH]; intros i k H ND res Hw.
  - exists res. cbn. split; [reflexivity|]. split; [exact Hw | apply Upd_refl_nil].
  - inversion H as [|? ? [Wc [Hk [e [Ee [We Eq]]]]] Hr]; subst.
    cbn [flat_map] in ND.
    destruct (IH i k Hr (NoDup_app_r _ _ _ ND) (update res e) (wf_update _ _ Hw)) as [res' [E' [W' U']]].
    exists res'. cbn [assoc_get map concat]. rewrite Ee. cbn [bind]. split; [exact E'|]. split; [exact W'|].
    eapply Upd_app_disj.
    + eapply Upd_equiv; [apply Upd_update; exact We | exact Eq].
    + exact U'.
    + intros n Hn. rewrite nth_keys in Hn by assumption.
      rewrite keys_zip.
      * eapply NoDup_app_disj; eassumption.
      * rewrite Forall_forall in *. intros c' Hc' e' He'. apply denote_keys; [apply (Hr c' Hc') | exact He'].
      * rewrite Forall_forall in *. intros c' Hc'. apply (Hr c' Hc').
Qed.

Theorem getitem_spec : forall t, wfnode t -> NoDup (names t) -> GetOK t.
Proof.
  induction t as [n ty vs | cs IH | cs IH] using node_ind2; intros W ND i len.
  - (* leaf *)
    unfold len, dlen. cbn [denote getitem]. rewrite map_length.
    destruct (py_index_spec value vs i []) as [Hin Hout]. split; intros H.
    + rewrite (Hin H). cbn [bind]. eexists. split; [reflexivity|]. split.
      * constructor; [tauto | constructor].
      * assert (Hlt : (Z.to_nat (i mod Z.of_nat (length vs)) < length vs)%nat).
        { assert (0 <= i mod Z.of_nat (length vs) < Z.of_nat (length vs))%Z by (apply Z.mod_pos_bound; lia). lia. }
        intro x. rewrite (nth_map_default _ _ (fun v => [(n, (ty, v))]) vs _ [] []) by exact Hlt. reflexivity.
    + rewrite (Hout H). reflexivity.
  - (* product *)
    pose proof (wfnode_children_prod cs W) as Wcs.
    assert (Hch : Forall (fun c => wfnode c /\ GetOK c) cs).
    { cbn [names] in ND. apply NoDup_flat_map_each in ND. rewrite Forall_forall in *. intros c Hc.
      split; [auto | apply IH; auto]. }
    cbn [getitem]. rewrite (node_len_spec (Prod cs) W). cbn [bind]. fold len.
    set (j := (if (i <? 0)%Z then (len + i)%Z else i)).
    split; intros H.
    + assert (Hj : (0 <= j < len)%Z) by (unfold j; destruct (i <? 0)%Z eqn:E; lia).
      destruct ((0 <=? j)%Z && (j <? len)%Z) eqn:T; [|lia].
      rewrite (mod_norm i len H). fold j.
      destruct cs as [|c0 rest]; [inversion W; congruence|].
      inversion Hch as [|? ? [W0 G0] Hrest]; subst.
      destruct (prod_get_tail_spec rest Hrest j [] (proj1 Hj) wf_nil) as [res1 [E1 [W1 U1]]].
      cbn [prod_get]. rewrite E1. cbn [bind fst snd].
      set (lp := length (prodL (map denote rest))) in *.
      assert (Hlp : (0 < lp)%nat).
      { unfold lp. apply length_prodL_pos. rewrite Forall_map. rewrite Forall_forall in *. intros c' Hc'.
        apply dlen_pos. apply (Hrest c' Hc'). }
      assert (Hlen : len = (Z.of_nat (dlen c0) * Z.of_nat lp)%Z).
      { unfold len, dlen. cbn [denote map]. rewrite prodL_cons, length_cross. fold lp. lia. }
      assert (Hq : (0 <= j / Z.of_nat lp < Z.of_nat (dlen c0))%Z).
      { split; [apply Z.div_pos; lia | apply Z.div_lt_upper_bound; lia]. }
      destruct (G0 (j / Z.of_nat lp)%Z) as [Gin _]. destruct Gin as [e [Ee [We Eq]]]; [lia|].
      rewrite Ee. cbn [bind]. exists (update res1 e). split; [reflexivity|]. split; [apply wf_update; exact W1|].
      rewrite Z.mod_small in Eq by lia.
      apply Upd_nil_equiv. cbn [denote map]. rewrite prodL_cons.
      assert (Hj2 : (0 <= j mod Z.of_nat lp < Z.of_nat lp)%Z) by (apply Z.mod_pos_bound; lia).
      replace (Z.to_nat j) with (Z.to_nat (j / Z.of_nat lp) * lp + Z.to_nat (j mod Z.of_nat lp))%nat.
      2:{ apply Nat2Z.inj. rewrite Nat2Z.inj_add, Nat2Z.inj_mul, !Z2Nat.id by lia.
          rewrite (Z.div_mod j (Z.of_nat lp)) at 3 by lia. lia. }
      rewrite (nth_cross' _ _ _ _ lp eq_refl).
      * eapply Upd_app_over; [exact U1|]. eapply Upd_equiv; [apply Upd_update; exact We | exact Eq].
      * unfold dlen in Hq. lia.
      * fold lp. lia.
    + destruct ((0 <=? j)%Z && (j <? len)%Z) eqn:T; [|reflexivity].
      exfalso. apply H. unfold j in T. destruct (i <? 0)%Z eqn:E; lia.
  - (* association *)
    inversion W as [| |c cs' Wc Hb]; subst.
    assert (Hlen : len = Z.of_nat (dlen c)).
    { unfold len, dlen. cbn [denote map]. rewrite length_zipL. reflexivity. }
    cbn [names] in ND. pose proof (NoDup_flat_map_each _ _ _ _ ND) as NDe.
    split; intros H.
    + set (k := Z.to_nat (i mod len)).
      assert (Hk : (k < dlen c)%nat).
      { unfold k. assert (0 <= i mod len < len)%Z by (apply Z.mod_pos_bound; lia). lia. }
      assert (Hch : Forall (fun c' => wfnode c' /\ (k < dlen c')%nat /\
                       exists e, getitem c' i = Ok e /\ wf e /\ e ≈ nth k (denote c') []) (c :: cs')).
      { rewrite Forall_forall in *. intros c' Hc'.
        assert (Hd : dlen c' = dlen c).
        { destruct Hc' as [<-|Hc']; [reflexivity | unfold dlen; apply Hb; exact Hc']. }
        split; [apply Wc; exact Hc'|]. split; [lia|].
        destruct (IH c' Hc' (Wc c' Hc') (NDe c' Hc') i) as [Gin _]. rewrite Hd, <- Hlen in Gin.
        apply Gin. exact H. }
      destruct (assoc_get_spec (c :: cs') i k Hch ND [] wf_nil) as [res' [E' [W' U']]].
      exists res'. cbn [getitem]. split; [exact E'|]. split; [exact W'|].
      apply Upd_nil_equiv. cbn [denote]. rewrite nth_zipL; [exact U' | cbn [map hd]; exact Hk].
    + cbn [getitem assoc_get]. inversion IH as [|? ? IHc _]; subst. inversion Wc as [|? ? Wc0 _]; subst.
      inversion NDe as [|? ? NDc _]; subst.
      destruct (IHc Wc0 NDc i) as [_ Gout]. rewrite <- Hlen in Gout. rewrite (Gout H). reflexivity.
Qed.

Theorem getitem_correct : forall t i, valid t ->
  let len := Z.of_nat (length (denote t)) in
  ((- len <= i < len)%Z ->
     exists e, getitem t i = Ok e /\ e ≈ nth (Z.to_nat (i mod len)) (denote t) []) /\
  (~ (- len <= i < len)%Z -> getitem t i = Raise IndexError).
Proof.
  intros t i [ND W] len. destruct (getitem_spec t W ND i) as [Hin Hout]. split.
  - intros H. destruct (Hin H) as [e [E [_ Q]]]. exists e. split; assumption.
  - exact Hout.
Qed.

(* ================================================================== iteration: invariants *)
Definition keys_sub (e : env) (ns : list str) : Prop := forall n, lookup n e <> None -> In n ns.

(* a state of an iterator over [t], whatever its progress *)
Inductive Shape : node -> istate -> Prop :=
| ShLeaf n ty vs rest : Shape (Leaf n ty vs) (ILeaf n ty rest vs)
| ShProd cs ex first prev ss :
    wf prev -> keys_sub prev (flat_map names cs) -> Forall2 Shape cs ss ->
    Shape (Prod cs) (IProd ex first prev ss)
| ShAssoc cs ss : Forall2 Shape cs ss -> Shape (Assoc cs) (IAssoc ss).

(* children of a product with their digit and state *)
Definition triple := (node * nat * istate)%type.
Definition tc (x : triple) : node := fst (fst x).
Definition td (x : triple) : nat := snd (fst x).
Definition ts (x : triple) : istate := snd x.

Fixpoint PL (tr : list triple) : nat :=
  match tr with [] => 1 | x :: r => dlen (tc x) * PL r end.
(* big-endian value of the digits (first child most significant) *)
Fixpoint indexB (tr : list triple) : nat :=
  match tr with [] => 0 | x :: r => td x * PL r + indexB r end.
(* little-endian value (head least significant): the order the carry loop walks *)
Fixpoint indexR (tr : list triple) : nat :=
  match tr with [] => 0 | x :: r => td x + dlen (tc x) * indexR r end.

Definition tupleB (tr : list triple) : env :=
  concat (map (fun x => nth (td x) (denote (tc x)) []) tr).

Definition Agree (prev : env) (c : node) (d : nat) : Prop :=
  forall n, In n (names c) -> lookup n prev = lookup n (nth d (denote c) []).

(* [Rep t k st]: st is the state of an iterator over t that has produced k items *)
Inductive Rep : node -> nat -> istate -> Prop :=
| RepLeaf n ty vs k : (k <= length vs)%nat -> Rep (Leaf n ty vs) k (ILeaf n ty (skipn k vs) vs)
| RepAssoc cs k ss : Forall2 (fun c s => Rep c k s) cs ss -> Rep (Assoc cs) k (IAssoc ss)
| RepProd0 cs prev ss :
    wf prev -> keys_sub prev (flat_map names cs) ->
    Forall2 (fun c s => Rep c 0 s) cs ss ->
    Rep (Prod cs) 0 (IProd false true prev ss)
| RepProdS tr prev :
    wf prev -> keys_sub prev (flat_map names (map tc tr)) ->
    Forall (fun x => (td x < dlen (tc x))%nat /\ Agree prev (tc x) (td x)) tr ->
    Forall (fun x => Rep (tc x) (S (td x)) (ts x)) tr ->
    Rep (Prod (map tc tr)) (S (indexB tr)) (IProd false false prev (map ts tr)).

(* a state in which next() raises StopIteration, and keeps doing so *)
Inductive Dead : node -> istate -> Prop :=
| DeadLeaf n ty vs : Dead (Leaf n ty vs) (ILeaf n ty [] vs)
| DeadProd cs first prev ss :
    wf prev -> keys_sub prev (flat_map names cs) -> Forall2 Shape cs ss ->
    Dead (Prod cs) (IProd true first prev ss)
| DeadAssoc c cs s ss : Dead c s -> Forall2 Shape cs ss -> Dead (Assoc (c :: cs)) (IAssoc (s :: ss)).

(* ------------------------------------------------------------------ digits *)
Lemma PL_app : forall a b, PL (a ++ b) = (PL a * PL b)%nat.
Proof. induction a as [|x a IH]; intros b; cbn [PL app]; [lia|]. rewrite IH. lia. Qed.

Lemma PL_rev : forall tr, PL (rev tr) = PL tr.
Proof. induction tr as [|x r IH]; [reflexivity|]. cbn [rev]. rewrite PL_app, IH. cbn [PL]. lia. Qed.

Lemma indexR_snoc : forall a x, indexR (a ++ [x]) = (indexR a + PL a * td x)%nat.
Proof.
  induction a as [|y a IH]; intros x; cbn [app indexR PL]; [lia|]. rewrite IH. lia.
Qed.

Lemma indexR_rev : forall tr, indexR (rev tr) = indexB tr.
Proof.
  induction tr as [|x r IH]; [reflexivity|]. cbn [rev indexB]. rewrite indexR_snoc, IH, PL_rev. lia.
Qed.

Lemma PL_length : forall tr, PL tr = length (prodL (map denote (map tc tr))).
Proof.
  induction tr as [|x r IH]; [reflexivity|]. cbn [PL map]. rewrite prodL_cons, length_cross, IH. reflexivity.
Qed.

Lemma PL_pos : forall tr, Forall (fun x => (td x < dlen (tc x))%nat) tr -> (0 < PL tr)%nat.
Proof.
  induction tr as [|x r IH]; intros H; cbn [PL]; [lia|]. inversion H as [|? ? Hx Hr]; subst.
  specialize (IH Hr). nia.
Qed.

Lemma indexB_lt : forall tr, Forall (fun x => (td x < dlen (tc x))%nat) tr -> (indexB tr < PL tr)%nat.
Proof.
  induction tr as [|x r IH]; intros H; cbn [PL indexB]; [lia|]. inversion H as [|? ? Hx Hr]; subst.
  specialize (IH Hr). nia.
Qed.

Lemma indexR_lt : forall tr, Forall (fun x => (td x < dlen (tc x))%nat) tr -> (indexR tr < PL tr)%nat.
Proof.
  induction tr as [|x r IH]; intros H; cbn [PL indexR]; [lia|]. inversion H as [|? ? Hx Hr]; subst.
  specialize (IH Hr). nia.
Qed.

Lemma nth_prodL : forall tr, Forall (fun x => (td x < dlen (tc x))%nat) tr ->
  nth (indexB tr) (prodL (map denote (map tc tr))) [] = tupleB tr.
Proof.
  induction tr as [|x r IH]; intros H; [reflexivity|]. inversion H as [|? ? Hx Hr]; subst.
  cbn [indexB map]. rewrite prodL_cons. rewrite (nth_cross' _ _ _ _ (PL r) (PL_length r)).
  - rewrite (IH Hr). reflexivity.
  - exact Hx.
  - apply indexB_lt. exact Hr.
Qed.

Lemma keys_tupleB : forall tr,
  Forall (fun x => wfnode (tc x) /\ (td x < dlen (tc x))%nat) tr ->
  keys (tupleB tr) = flat_map names (map tc tr).
Proof.
  induction tr as [|x r IH]; intros H; [reflexivity|]. inversion H as [|? ? [Wx Hx] Hr]; subst.
  unfold tupleB in *. cbn [map concat flat_map]. rewrite keys_app, (IH Hr), nth_keys by assumption. reflexivity.
Qed.

Lemma lookup_tupleB : forall tr,
  NoDup (flat_map names (map tc tr)) ->
  Forall (fun x => wfnode (tc x) /\ (td x < dlen (tc x))%nat) tr ->
  forall x n, In x tr -> In n (names (tc x)) ->
  lookup n (tupleB tr) = lookup n (nth (td x) (denote (tc x)) []).
Proof.
  induction tr as [|x0 r IH]; intros ND H x n Hx Hn; [contradiction|].
  inversion H as [|? ? [W0 H0] Hr]; subst. cbn [map flat_map] in ND.
  unfold tupleB. cbn [map concat]. rewrite lookup_app. destruct Hx as [->|Hx].
  - destruct (lookup n (nth (td x) (denote (tc x)) [])) eqn:E; [reflexivity|].
    exfalso. apply lookup_none_keys in E. apply E. rewrite nth_keys by assumption. exact Hn.
  - assert (Hnot : ~ In n (names (tc x0))).
    { intro Hin. eapply NoDup_app_disj; [exact ND | exact Hin|].
      apply in_flat_map. exists (tc x). split; [apply in_map; exact Hx | exact Hn]. }
    assert (E : lookup n (nth (td x0) (denote (tc x0)) []) = None).
    { apply lookup_none_keys. rewrite nth_keys by assumption. exact Hnot. }
    rewrite E. apply (IH (NoDup_app_r _ _ _ ND) Hr x n Hx Hn).
Qed.

Lemma agree_tuple : forall tr prev,
  NoDup (flat_map names (map tc tr)) ->
  Forall (fun x => wfnode (tc x) /\ (td x < dlen (tc x))%nat) tr ->
  Forall (fun x => Agree prev (tc x) (td x)) tr ->
  keys_sub prev (flat_map names (map tc tr)) ->
  prev ≈ tupleB tr.
Proof.
  intros tr prev ND H HA KS n.
  destruct (in_dec str_eq_dec n (flat_map names (map tc tr))) as [Hin|Hnot].
  - apply in_flat_map in Hin. destruct Hin as [c [Hc Hn]]. apply in_map_iff in Hc. destruct Hc as [x [<- Hx]].
    rewrite (lookup_tupleB tr ND H x n Hx Hn). rewrite Forall_forall in HA. apply (HA x Hx n Hn).
  - assert (E1 : lookup n prev = None).
    { destruct (lookup n prev) eqn:E; [|reflexivity]. exfalso. apply Hnot. apply KS. congruence. }
    assert (E2 : lookup n (tupleB tr) = None).
    { apply lookup_none_keys. rewrite keys_tupleB by exact H. exact Hnot. }
    congruence.
Qed.

(* what a successful child step does to the dict it was given *)
Lemma Upd_agree : forall c k r r', wfnode c -> (k < dlen c)%nat ->
  Upd r (nth k (denote c) []) r' -> Agree r' c k.
Proof.
  intros c k r r' W Hk U n Hn. rewrite (U n).
  destruct (lookup n (nth k (denote c) [])) eqn:E; [reflexivity|].
  exfalso. apply lookup_none_keys in E. apply E. rewrite nth_keys by assumption. exact Hn.
Qed.

Lemma Upd_frame : forall c k r r' n, wfnode c -> (k < dlen c)%nat ->
  Upd r (nth k (denote c) []) r' -> ~ In n (names c) -> lookup n r' = lookup n r.
Proof.
  intros c k r r' n W Hk U Hn. rewrite (U n).
  assert (E : lookup n (nth k (denote c) []) = None).
  { apply lookup_none_keys. rewrite nth_keys by assumption. exact Hn. }
  rewrite E. reflexivity.
Qed.

Lemma Upd_keys : forall c k r r' n, wfnode c -> (k < dlen c)%nat ->
  Upd r (nth k (denote c) []) r' -> lookup n r' <> None -> lookup n r <> None \/ In n (names c).
Proof.
  intros c k r r' n W Hk U H. rewrite (U n) in H.
  destruct (lookup n (nth k (denote c) [])) eqn:E.
  - right. rewrite <- (nth_keys c k W Hk). apply lookup_in_keys. congruence.
  - left. exact H.
Qed.

(* ------------------------------------------------------------------ Forall2 helpers *)
Lemma Forall2_from_Forall : forall (A B : Type) (R S : A -> B -> Prop) l l',
  Forall (fun a => forall b, R a b -> S a b) l -> Forall2 R l l' -> Forall2 S l l'.
Proof.
  intros A B R S l l' H F. induction F as [|a b l l' Hab F IH]; [constructor|].
  inversion H as [|? ? Ha Hl]; subst. constructor; [apply Ha; exact Hab | apply IH; exact Hl].
Qed.

Lemma Forall2_map_r : forall (A B C : Type) (R : A -> C -> Prop) (g : B -> C) l l',
  Forall2 (fun a b => R a (g b)) l l' -> Forall2 R l (map g l').
Proof. intros A B C R g l l' F. induction F; cbn; constructor; assumption. Qed.

Lemma Forall2_rev' : forall (A B : Type) (R : A -> B -> Prop) l l',
  Forall2 R l l' -> Forall2 R (rev l) (rev l').
Proof.
  intros A B R l l' F. induction F as [|a b l l' Hab F IH]; [constructor|].
  cbn [rev]. apply Forall2_app; [exact IH | constructor; [exact Hab | constructor]].
Qed.

Lemma Forall2_triples : forall (R : node -> istate -> Prop) (tr : list triple),
  Forall (fun x => R (tc x) (ts x)) tr -> Forall2 R (map tc tr) (map ts tr).
Proof. intros R tr H. induction H; cbn [map]; constructor; assumption. Qed.

(* zip children and states into triples with a constant digit *)
Lemma triples_of_Forall2 : forall (R : node -> istate -> Prop) d cs ss,
  Forall2 R cs ss ->
  exists tr : list triple, map tc tr = cs /\ map ts tr = ss /\
                           Forall (fun x => td x = d /\ R (tc x) (ts x)) tr.
Proof.
  intros R d cs ss F. induction F as [|c s cs ss Hcs F [tr [E1 [E2 Ht]]]].
  - exists []. repeat split; constructor.
  - exists ((c, d, s) :: tr). cbn [map tc td ts fst snd]. rewrite E1, E2.
    repeat split. constructor; [split; [reflexivity | exact Hcs] | exact Ht].
Qed.

(* ------------------------------------------------------------------ shapes *)
Lemma Rep_Shape : forall t k st, Rep t k st -> Shape t st.
Proof.
  induction t as [n ty vs | cs IH | cs IH] using node_ind2; intros k st HR.
  - inversion HR; subst. constructor.
  - inversion HR as [| |cs' prev ss Hw Hk F|tr prev Hw Hk Hd F]; subst.
    + constructor; [exact Hw | exact Hk|].
      eapply Forall2_from_Forall; [|exact F]. rewrite Forall_forall in *. intros c Hc s Hs. eapply IH; eauto.
    + constructor; [exact Hw | exact Hk|].
      apply Forall2_triples. rewrite Forall_forall in *. intros x Hx.
      eapply IH; [apply in_map; exact Hx | apply (F x Hx)].
  - inversion HR as [|cs' k' ss F| |]; subst. constructor.
    eapply Forall2_from_Forall; [|exact F]. rewrite Forall_forall in *. intros c Hc s Hs. eapply IH; eauto.
Qed.

Lemma Dead_Shape : forall t st, Dead t st -> Shape t st.
Proof.
  intros t st H. induction H as [n ty vs | cs first prev ss Hw Hk F | c cs s ss Hd IH F].
  - constructor.
  - constructor; assumption.
  - constructor. constructor; assumption.
Qed.

Lemma reset_Rep : forall t st, Shape t st -> Rep t 0 (reset st).
Proof.
  induction t as [n ty vs | cs IH | cs IH] using node_ind2; intros st HS.
  - inversion HS; subst. cbn [reset]. apply (RepLeaf n ty vs 0). lia.
  - inversion HS as [|cs' ex first prev ss Hw Hk F|]; subst. cbn [reset].
    apply RepProd0; [exact Hw | exact Hk|]. apply Forall2_map_r.
    eapply Forall2_from_Forall; [|exact F]. rewrite Forall_forall in *. intros c Hc s Hs. apply IH; assumption.
  - inversion HS as [| |cs' ss F]; subst. cbn [reset]. apply RepAssoc. apply Forall2_map_r.
    eapply Forall2_from_Forall; [|exact F]. rewrite Forall_forall in *. intros c Hc s Hs. apply IH; assumption.
Qed.

Lemma Forall2_map_init : forall (R : node -> istate -> Prop) cs,
  Forall (fun c => R c (init c)) cs -> Forall2 R cs (map init cs).
Proof. intros R cs H. induction H; cbn [map]; constructor; assumption. Qed.

Lemma init_Rep : forall t, Rep t 0 (init t).
Proof.
  induction t as [n ty vs | cs IH | cs IH] using node_ind2.
  - cbn [init]. apply (RepLeaf n ty vs 0). lia.
  - cbn [init]. apply RepProd0; [apply wf_nil | intros n H; cbn in H; congruence | apply Forall2_map_init; exact IH].
  - cbn [init]. apply RepAssoc. apply Forall2_map_init. exact IH.
Qed.

Lemma height_pos : forall t, (1 <= height t)%nat.
Proof. destruct t; cbn; lia. Qed.

Lemma height_children : forall cs f,
  (S (fold_right (fun c m => Nat.max (height c) m) 0%nat cs) <= S f)%nat -> Forall (fun c => (height c <= f)%nat) cs.
Proof.
  induction cs as [|c cs IH]; intros f H; [constructor|]. cbn [fold_right] in H.
  constructor; [lia | apply IH; lia].
Qed.

Lemma skipn_cons_nth : forall (A : Type) (l : list A) k d, (k < length l)%nat ->
  skipn k l = nth k l d :: skipn (S k) l.
Proof.
  intros A. induction l as [|x l IH]; intros k d H; cbn in H; [lia|].
  destruct k as [|k]; [reflexivity|]. cbn [skipn nth]. rewrite (IH k d) by lia. reflexivity.
Qed.

(* ------------------------------------------------------------------ one-step unfoldings *)
Lemma next_leaf : forall p f n ty rest all r,
  next p (S f) (ILeaf n ty rest all) r =
  match rest with
  | [] => (ILeaf n ty rest all, r, Some StopIteration)
  | v :: rest' => (ILeaf n ty rest' all, set r n (ty, v), None)
  end.
Proof. reflexivity. Qed.

Lemma next_assoc : forall p f cs r,
  next p (S f) (IAssoc cs) r =
  match all_next (next p f) cs r with (cs1, r1, sg) => (IAssoc cs1, r1, sg) end.
Proof. reflexivity. Qed.

Lemma next_prod : forall p f ex first prev cs r,
  next p (S f) (IProd ex first prev cs) r =
  if ex && negb p then (IProd ex first prev cs, r, Some StopIteration)
  else if first then
    match all_next (next p f) cs prev with
    | (cs1, p1, None) => (IProd ex false p1 cs1, update r p1, None)
    | (cs1, p1, Some e) => (IProd ex false p1 cs1, r, Some e)
    end
  else
    match carry (next p f) (rev cs) prev with
    | (rcs1, p1, None, _) => (IProd ex false p1 (rev rcs1), update r p1, None)
    | (rcs1, p1, Some e, exh) => (IProd (ex || exh) false p1 (rev rcs1), r, Some e)
    end.
Proof. reflexivity. Qed.

Lemma all_next_cons : forall nx c rest r,
  all_next nx (c :: rest) r =
  match nx c r with
  | (c1, r1, None) => match all_next nx rest r1 with (rest1, r2, sg) => (c1 :: rest1, r2, sg) end
  | (c1, r1, Some e) => (c1 :: rest, r1, Some e)
  end.
Proof. reflexivity. Qed.

Lemma carry_cons : forall nx c rest prev,
  carry nx (c :: rest) prev =
  match nx c prev with
  | (c1, p1, None) => (c1 :: rest, p1, None, false)
  | (c1, p1, Some e) =>
    if is_stop e then
      match rest with
      | [] => ([c1], p1, Some StopIteration, true)
      | _ :: _ =>
        match nx (reset c1) p1 with
        | (c2, p2, None) => match carry nx rest p2 with (rest1, p3, sg, ex) => (c2 :: rest1, p3, sg, ex) end
        | (c2, p2, Some e2) => (c2 :: rest, p2, Some e2, false)
        end
      end
    else (c1 :: rest, p1, Some e, false)
  end.
Proof. reflexivity. Qed.

(* ------------------------------------------------------------------ the step / stop / dead statements *)
Definition OKc (f : nat) (t : node) : Prop := (height t <= f)%nat /\ wfnode t /\ NoDup (names t).

Definition StepOK (f : nat) : Prop := forall t, OKc f t -> forall k st r, Rep t k st ->
  ((k < dlen t)%nat -> exists st' r', next false f st r = (st', r', None) /\ Rep t (S k) st' /\
                                      Upd r (nth k (denote t) []) r' /\ (wf r -> wf r')) /\
  (k = dlen t -> exists st', next false f st r = (st', r, Some StopIteration) /\ Dead t st').

Definition DeadOK (f : nat) : Prop := forall t, (height t <= f)%nat -> forall st r, Dead t st ->
  exists st', next false f st r = (st', r, Some StopIteration) /\ Dead t st'.

Lemma all_next_step : forall f, StepOK f -> forall k cs ss r,
  Forall (fun c => OKc f c /\ (k < dlen c)%nat) cs ->
  NoDup (flat_map names cs) ->
  Forall2 (fun c s => Rep c k s) cs ss ->
  exists ss' r', all_next (next false f) ss r = (ss', r', None) /\
                 Forall2 (fun c s => Rep c (S k) s) cs ss' /\
                 Upd r (concat (map (fun c => nth k (denote c) []) cs)) r' /\ (wf r -> wf r').
Proof.
  intros f HS k cs ss r H ND F. revert r H ND.
  induction F as [|c s cs ss Hcs F IH]; intros r H ND.
  - exists [], r. cbn. split; [reflexivity|]. split; [constructor|]. split; [apply Upd_refl_nil | auto].
  - inversion H as [|? ? [Hok Hk] Hr]; subst. cbn [flat_map] in ND.
    destruct (HS c Hok k s r Hcs) as [Hstep _]. destruct (Hstep Hk) as [s' [r1 [E1 [R1 [U1 W1]]]]].
    destruct (IH r1 Hr (NoDup_app_r _ _ _ ND)) as [ss' [r2 [E2 [R2 [U2 W2]]]]].
    exists (s' :: ss'), r2. rewrite all_next_cons, E1, E2. split; [reflexivity|].
    split; [constructor; assumption|]. split; [|auto].
    cbn [map concat]. destruct Hok as [_ [Wc _]]. eapply Upd_app_disj; [exact U1 | exact U2|].
    intros n Hn. rewrite nth_keys in Hn by assumption.
    assert (Hkeys : keys (concat (map (fun c0 => nth k (denote c0) []) cs)) = flat_map names cs).
    { rewrite <- (map_map denote (fun d => nth k d [])). apply keys_zip.
      - rewrite Forall_forall in *. intros c' Hc' e He. apply denote_keys; [apply (Hr c' Hc') | exact He].
      - rewrite Forall_forall in *. intros c' Hc'. apply (Hr c' Hc'). }
    rewrite Hkeys. eapply NoDup_app_disj; eassumption.
Qed.

(* per-child invariant of a product in progress *)
Definition Elt (f : nat) (prev : env) (x : triple) : Prop :=
  OKc f (tc x) /\ (td x < dlen (tc x))%nat /\ Rep (tc x) (S (td x)) (ts x) /\ Agree prev (tc x) (td x).

Lemma Elt_frame : forall f prev prev' x,
  (forall n, In n (names (tc x)) -> lookup n prev' = lookup n prev) -> Elt f prev x -> Elt f prev' x.
Proof.
  intros f prev prev' x Hf [H1 [H2 [H3 H4]]]. split; [exact H1|]. split; [exact H2|]. split; [exact H3|].
  intros n Hn. rewrite (Hf n Hn). apply H4. exact Hn.
Qed.

Lemma in_names_tr : forall (L : list triple) x n, In x L -> In n (names (tc x)) -> In n (flat_map names (map tc L)).
Proof. intros L x n Hx Hn. apply in_flat_map. exists (tc x). split; [apply in_map; exact Hx | exact Hn]. Qed.

Lemma carry_spec : forall f, StepOK f -> forall L prev,
  L <> [] -> Forall (Elt f prev) L -> NoDup (flat_map names (map tc L)) ->
  exists ss' prev' sg ex, carry (next false f) (map ts L) prev = (ss', prev', sg, ex) /\
    (forall n, ~ In n (flat_map names (map tc L)) -> lookup n prev' = lookup n prev) /\
    (wf prev -> wf prev') /\
    (forall n, lookup n prev' <> None -> lookup n prev <> None \/ In n (flat_map names (map tc L))) /\
    ((sg = None /\ exists L', map tc L' = map tc L /\ ss' = map ts L' /\ Forall (Elt f prev') L' /\
                              indexR L' = S (indexR L))
     \/ (sg = Some StopIteration /\ ex = true /\ S (indexR L) = PL L /\ Forall2 Shape (map tc L) ss')).
Proof.
  intros f HS. induction L as [|x rest IH]; intros prev Hne HE ND; [congruence|].
  inversion HE as [|? ? Hx Hrest]; subst. destruct Hx as [Hok [Hd [HR HA]]].
  pose proof Hok as [_ [Wc _]].
  cbn [map flat_map] in ND |- *. rewrite carry_cons.
  destruct (HS (tc x) Hok (S (td x)) (ts x) prev HR) as [Hstep Hstop].
  destruct (Nat.eq_dec (S (td x)) (dlen (tc x))) as [Heq|Hneq].
  - (* this child is exhausted *)
    destruct (Hstop Heq) as [s1 [E1 D1]]. rewrite E1. cbn [is_stop exn_eqb].
    destruct rest as [|y rest'].
    + (* pos = 0 *)
      cbn [map]. exists [s1], prev, (Some StopIteration), true. split; [reflexivity|].
      split; [reflexivity|]. split; [auto|]. split; [auto|]. right.
      split; [reflexivity|]. split; [reflexivity|]. split.
      * cbn [indexR PL]. lia.
      * constructor; [apply Dead_Shape; exact D1 | constructor].
    + (* pos > 0: reset, advance, carry on *)
      cbn [map]. pose proof (reset_Rep _ _ (Dead_Shape _ _ D1)) as R0.
      destruct (HS (tc x) Hok 0%nat (reset s1) prev R0) as [Hstep0 _].
      destruct (Hstep0 (dlen_pos _ Wc)) as [s2 [p2 [E2 [R2 [U2 W2]]]]]. rewrite E2.
      assert (Hdisj : forall z n, In z (y :: rest') -> In n (names (tc z)) -> ~ In n (names (tc x))).
      { intros z n Hz Hn Hin. eapply NoDup_app_disj; [exact ND | exact Hin|]. eapply in_names_tr; eassumption. }
      assert (HE2 : Forall (Elt f p2) (y :: rest')).
      { rewrite Forall_forall in *. intros z Hz. apply (Elt_frame f prev); [|apply Hrest; exact Hz].
        intros n Hn. eapply Upd_frame; [exact Wc | | exact U2|]; [apply dlen_pos; exact Wc | eapply Hdisj; eassumption]. }
      destruct (IH p2 ltac:(discriminate) HE2 (NoDup_app_r _ _ _ ND)) as [ss' [p3 [sg [ex [E3 [F3 [W3 [K3 C3]]]]]]]].
      cbn [map] in E3. rewrite E3.
      exists (s2 :: ss'), p3, sg, ex. split; [reflexivity|].
      assert (Hx3 : forall n, In n (names (tc x)) -> lookup n p3 = lookup n p2).
      { intros n Hn. apply F3. intro Hin. apply in_flat_map in Hin. destruct Hin as [c [Hc Hnc]].
        apply in_map_iff in Hc. destruct Hc as [z [<- Hz]]. exact (Hdisj z n Hz Hnc Hn). }
      split; [|split; [|split]].
      * intros n Hn. rewrite F3.
        -- eapply Upd_frame; [exact Wc | | exact U2|]; [apply dlen_pos; exact Wc|]. intro Hin. apply Hn. apply in_or_app. left. exact Hin.
        -- intro Hin. apply Hn. apply in_or_app. right. exact Hin.
      * auto.
      * intros n Hn. destruct (K3 n Hn) as [H1|H1].
        -- destruct (Upd_keys _ _ _ _ n Wc (dlen_pos _ Wc) U2 H1) as [H2|H2]; [left; exact H2 | right; apply in_or_app; left; exact H2].
        -- right. apply in_or_app. right. exact H1.
      * destruct C3 as [[-> [L' [Etc [-> [HE3 Hidx]]]]] | [-> [-> [Hidx HSh]]]].
        -- left. split; [reflexivity|]. exists ((tc x, 0%nat, s2) :: L').
           cbn [map tc td ts fst snd]. split; [rewrite Etc; reflexivity|]. split; [reflexivity|]. split.
           ++ constructor; [|exact HE3]. unfold Elt. cbn [tc td ts fst snd].
              split; [exact Hok|]. split; [apply dlen_pos; exact Wc|]. split; [exact R2|].
              intros n Hn. rewrite (Hx3 n Hn). eapply Upd_agree; [exact Wc | apply dlen_pos; exact Wc | exact U2 | exact Hn].
           ++ cbn [indexR tc td fst snd]. rewrite Hidx. cbn [indexR]. lia.
        -- right. split; [reflexivity|]. split; [reflexivity|]. split.
           ++ cbn [indexR PL] in *. nia.
           ++ constructor; [apply (Rep_Shape _ _ _ R2) | exact HSh].
  - (* this child advances *)
    assert (Hlt : (S (td x) < dlen (tc x))%nat) by lia.
    destruct (Hstep Hlt) as [s1 [p1 [E1 [R1 [U1 W1]]]]]. rewrite E1.
    exists (s1 :: map ts rest), p1, None, false. split; [reflexivity|].
    split; [|split; [|split]].
    + intros n Hn. eapply Upd_frame; [exact Wc | exact Hlt | exact U1|]. intro Hin. apply Hn. apply in_or_app. left. exact Hin.
    + exact W1.
    + intros n Hn. destruct (Upd_keys _ _ _ _ n Wc Hlt U1 Hn) as [H2|H2]; [left; exact H2 | right; apply in_or_app; left; exact H2].
    + left. split; [reflexivity|]. exists ((tc x, S (td x), s1) :: rest).
      cbn [map tc td ts fst snd]. split; [reflexivity|]. split; [reflexivity|]. split.
      * constructor.
        -- unfold Elt. cbn [tc td ts fst snd]. split; [exact Hok|]. split; [exact Hlt|]. split; [exact R1|].
           eapply Upd_agree; [exact Wc | exact Hlt | exact U1].
        -- rewrite Forall_forall in *. intros z Hz. apply (Elt_frame f prev); [|apply Hrest; exact Hz].
           intros n Hn. eapply Upd_frame; [exact Wc | exact Hlt | exact U1|].
           intro Hin. eapply NoDup_app_disj; [exact ND | exact Hin|]. eapply in_names_tr; eassumption.
      * cbn [indexR tc td fst snd]. lia.
Qed.

Lemma NoDup_names_rev : forall (L : list triple),
  NoDup (flat_map names (map tc L)) -> NoDup (flat_map names (map tc (rev L))).
Proof.
  intros L H. eapply Permutation_NoDup; [|exact H].
  apply Permutation_flat_map. apply Permutation_map. apply Permutation_rev.
Qed.

Lemma in_names_rev : forall (L : list triple) n,
  In n (flat_map names (map tc (rev L))) -> In n (flat_map names (map tc L)).
Proof.
  intros L n H. apply in_flat_map in H. destruct H as [c [Hc Hn]]. apply in_map_iff in Hc.
  destruct Hc as [x [<- Hx]]. apply in_rev in Hx. eapply in_names_tr; eassumption.
Qed.

Lemma dlen_prod : forall tr, dlen (Prod (map tc tr)) = PL tr.
Proof. intros. unfold dlen. cbn [denote]. symmetry. apply PL_length. Qed.

Lemma Forall_weaken : forall (A : Type) (P Q : A -> Prop) l, (forall x, P x -> Q x) -> Forall P l -> Forall Q l.
Proof. intros A P Q l H F. induction F; constructor; auto. Qed.

Lemma prod_finish : forall tr prev r,
  wf prev -> keys_sub prev (flat_map names (map tc tr)) -> NoDup (flat_map names (map tc tr)) ->
  Forall (fun x => wfnode (tc x)) tr ->
  Forall (fun x => (td x < dlen (tc x))%nat /\ Agree prev (tc x) (td x)) tr ->
  Upd r (nth (indexB tr) (denote (Prod (map tc tr))) []) (update r prev).
Proof.
  intros tr prev r Hw Hk ND HW HD. cbn [denote].
  rewrite nth_prodL by (eapply Forall_weaken; [|exact HD]; intros x [H _]; exact H).
  eapply Upd_equiv; [apply Upd_update; exact Hw|].
  apply agree_tuple; [exact ND | | | exact Hk].
  - rewrite Forall_forall in *. intros x Hx. split; [apply HW; exact Hx | apply (HD x Hx)].
  - eapply Forall_weaken; [|exact HD]. intros x [_ H]. exact H.
Qed.

Lemma indexB_zero : forall tr, Forall (fun x => td x = 0%nat) tr -> indexB tr = 0%nat.
Proof.
  induction tr as [|x r IH]; intros H; [reflexivity|]. inversion H as [|? ? Hx Hr]; subst.
  cbn [indexB]. rewrite Hx, (IH Hr). lia.
Qed.

Lemma nth_denote_leaf : forall n ty vs k, (k < length vs)%nat ->
  nth k (denote (Leaf n ty vs)) [] = [(n, (ty, nth k vs []))].
Proof. intros n ty vs k H. cbn [denote]. apply (nth_map_default value env (fun v => [(n, (ty, v))]) vs k [] [] H). Qed.

Theorem step_dead_all : forall f, StepOK f /\ DeadOK f.
Proof.
  induction f as [|f [IHS IHD]].
  - split.
    + intros t [Hh _]. pose proof (height_pos t). lia.
    + intros t Hh. pose proof (height_pos t). lia.
  - split.
    + (* ---------------- StepOK (S f) *)
      intros t [Hh [W ND]] k st r HR. destruct t as [n ty vs | cs | cs].
      * (* leaf *)
        inversion HR as [n' ty' vs' k' Hk| | |]; subst. rewrite next_leaf. unfold dlen. cbn [denote].
        rewrite map_length. split; intros Hlt.
        -- rewrite (skipn_cons_nth _ vs k [] Hlt). eexists. eexists. split; [reflexivity|].
           split; [apply RepLeaf; lia|]. split.
           ++ intro x. rewrite lookup_set.
              change (map (fun v : value => [(n, (ty, v))]) vs) with (denote (Leaf n ty vs)).
              rewrite (nth_denote_leaf n ty vs k Hlt).
              cbn [lookup]. destruct (str_eqb x n); reflexivity.
           ++ apply wf_set.
        -- subst k. rewrite skipn_all. eexists. split; [reflexivity|]. constructor.
      * (* product *)
        pose proof (wfnode_children_prod cs W) as Wcs. cbn [names] in ND.
        pose proof (NoDup_flat_map_each _ _ _ _ ND) as NDe. cbn [height] in Hh.
        pose proof (height_children cs f Hh) as Hcs.
        assert (Hok : forall c, In c cs -> OKc f c).
        { rewrite Forall_forall in *. intros c Hc. split; [|split]; auto. }
        assert (Hne : cs <> []) by (inversion W; assumption).
        destruct k as [|j].
        -- (* first value *)
           inversion HR as [| |cs' prev ss Hw Hks F|]; subst.
           rewrite next_prod. cbn [andb].
           assert (Hall : Forall (fun c => OKc f c /\ (0 < dlen c)%nat) cs).
           { rewrite Forall_forall in *. intros c Hc. split; [apply Hok; exact Hc | apply dlen_pos; apply Wcs; exact Hc]. }
           destruct (all_next_step f IHS 0%nat cs ss prev Hall ND F) as [ss' [p1 [E1 [R1 [U1 W1]]]]]. rewrite E1.
           split; intros Hk; [|pose proof (dlen_pos (Prod cs) W); lia].
           destruct (triples_of_Forall2 (fun c s => Rep c 1%nat s) 0%nat cs ss' R1) as [tr [Etc [Ets Htr]]].
           exists (IProd false false p1 ss'), (update r p1). split; [reflexivity|].
           assert (Hz : Forall (fun x => td x = 0%nat) tr) by (eapply Forall_weaken; [|exact Htr]; intros x [H _]; exact H).
           pose proof (indexB_zero tr Hz) as Hidx.
           assert (Htup : concat (map (fun c => nth 0 (denote c) []) cs) = tupleB tr).
           { rewrite <- Etc. unfold tupleB. rewrite map_map. f_equal. apply map_ext_in. intros x Hx.
             rewrite Forall_forall in Hz. rewrite (Hz x Hx). reflexivity. }
           rewrite Htup in U1. subst cs ss'.
           assert (HWt : Forall (fun x => wfnode (tc x)) tr).
           { rewrite Forall_forall in *. intros x Hx. apply Wcs. apply in_map. exact Hx. }
           assert (HWd : Forall (fun x => wfnode (tc x) /\ (td x < dlen (tc x))%nat) tr).
           { rewrite Forall_forall in *. intros x Hx. split; [apply HWt; exact Hx|]. rewrite (Hz x Hx). apply dlen_pos. apply HWt. exact Hx. }
           assert (Hks1 : keys_sub p1 (flat_map names (map tc tr))).
           { intros n Hn. rewrite (U1 n) in Hn. destruct (lookup n (tupleB tr)) eqn:E.
             - rewrite <- (keys_tupleB tr HWd). apply lookup_in_keys. congruence.
             - apply Hks. exact Hn. }
           assert (Hp1 : Forall (fun x => (td x < dlen (tc x))%nat /\ Agree p1 (tc x) (td x)) tr).
           { rewrite Forall_forall in *. intros x Hx. split; [apply (HWd x Hx)|].
             intros n Hn. rewrite (U1 n).
             rewrite (lookup_tupleB tr ND) with (x := x); [|rewrite Forall_forall; exact HWd | exact Hx | exact Hn].
             destruct (lookup n (nth (td x) (denote (tc x)) [])) eqn:E; [reflexivity|].
             exfalso. apply lookup_none_keys in E. apply E. rewrite nth_keys; [exact Hn | apply (HWd x Hx) | apply (HWd x Hx)]. }
           rewrite <- Hidx. split; [|split].
           ++ apply RepProdS; [apply W1; exact Hw | exact Hks1 | exact Hp1|].
              eapply Forall_weaken; [|exact Htr]. intros x [Hx0 Hx1]. rewrite Hx0. exact Hx1.
           ++ apply prod_finish; [apply W1; exact Hw | exact Hks1 | exact ND | exact HWt | exact Hp1].
           ++ intros Hr. apply wf_update. exact Hr.
        -- (* carry *)
           inversion HR as [| | |tr prev Hw Hks Hd F]; subst.
           rewrite next_prod. cbn [andb]. rewrite <- map_rev.
           assert (Hne' : rev tr <> []).
           { destruct tr; [cbn in Hne; congruence|]. cbn [rev]. intro H. apply app_eq_nil in H. destruct H; discriminate. }
           assert (HE : Forall (Elt f prev) (rev tr)).
           { apply Forall_rev. rewrite Forall_forall in *. intros x Hx. unfold Elt.
             split; [apply Hok; apply in_map; exact Hx|]. split; [apply (Hd x Hx)|]. split; [apply (F x Hx) | apply (Hd x Hx)]. }
           destruct (carry_spec f IHS (rev tr) prev Hne' HE (NoDup_names_rev _ ND)) as [ss' [p1 [sg [ex [E1 [F1 [W1 [K1 C1]]]]]]]].
           rewrite E1.
           assert (Hks1 : keys_sub p1 (flat_map names (map tc tr))).
           { intros n Hn. destruct (K1 n Hn) as [H|H]; [apply Hks; exact H | apply in_names_rev; exact H]. }
           assert (Hdig : Forall (fun x => (td x < dlen (tc x))%nat) tr).
           { eapply Forall_weaken; [|exact Hd]. intros x [H _]. exact H. }
           rewrite dlen_prod.
           destruct C1 as [[-> [L' [Etc [-> [HE' Hidx]]]]] | [-> [-> [Hidx HSh]]]].
           ++ (* advanced *)
              assert (Etc' : map tc (rev L') = map tc tr).
              { rewrite map_rev, Etc, map_rev, rev_involutive. reflexivity. }
              assert (Eidx : indexB (rev L') = S (indexB tr)).
              { rewrite <- indexR_rev, rev_involutive, Hidx, indexR_rev. reflexivity. }
              assert (Hdig' : Forall (fun x => (td x < dlen (tc x))%nat) (rev L')).
              { apply Forall_rev. eapply Forall_weaken; [|exact HE']. intros x [_ [H _]]. exact H. }
              split; intros Hk.
              ** exists (IProd false false p1 (rev (map ts L'))), (update r p1). split; [reflexivity|].
                 rewrite <- map_rev, <- Etc', <- Eidx.
                 assert (HD' : Forall (fun x => (td x < dlen (tc x))%nat /\ Agree p1 (tc x) (td x)) (rev L')).
                 { apply Forall_rev. eapply Forall_weaken; [|exact HE']. intros x [_ [H1 [_ H2]]]. split; assumption. }
                 split; [|split].
                 --- apply RepProdS; [apply W1; exact Hw | rewrite Etc'; exact Hks1 | exact HD'|].
                     apply Forall_rev. eapply Forall_weaken; [|exact HE']. intros x [_ [_ [H _]]]. exact H.
                 --- apply prod_finish; [apply W1; exact Hw | rewrite Etc'; exact Hks1 | rewrite Etc'; exact ND | | exact HD'].
                     apply Forall_rev. eapply Forall_weaken; [|exact HE']. intros x [[_ [H _]] _]. exact H.
                 --- intros Hr. apply wf_update. exact Hr.
              ** exfalso. pose proof (indexB_lt _ Hdig') as Hlt.
                 assert (PL (rev L') = PL tr).
                 { rewrite <- (dlen_prod (rev L')), Etc', dlen_prod. reflexivity. }
                 lia.
           ++ (* exhausted *)
              rewrite indexR_rev, PL_rev in Hidx.
              split; intros Hk; [lia|].
              exists (IProd (false || true) false p1 (rev ss')). split; [reflexivity|]. cbn [orb].
              apply DeadProd; [apply W1; exact Hw | exact Hks1|].
              apply Forall2_rev' in HSh. rewrite map_rev, rev_involutive in HSh. exact HSh.
      * (* association *)
        inversion W as [| |c cs' Wc Hb]; subst. inversion HR as [|cs'' k' ss F| |]; subst.
        rewrite next_assoc. cbn [names] in ND. pose proof (NoDup_flat_map_each _ _ _ _ ND) as NDe.
        cbn [height] in Hh. pose proof (height_children (c :: cs') f Hh) as Hcs.
        assert (Hlen : dlen (Assoc (c :: cs')) = dlen c).
        { unfold dlen. cbn [denote map]. apply length_zipL. }
        rewrite Hlen.
        assert (Hok : forall c', In c' (c :: cs') -> OKc f c').
        { rewrite Forall_forall in *. intros c' Hc'. split; [|split]; auto. }
        split; intros Hk.
        -- assert (Hall : Forall (fun c' => OKc f c' /\ (k < dlen c')%nat) (c :: cs')).
           { rewrite Forall_forall in *. intros c' Hc'. split; [apply Hok; exact Hc'|].
             destruct Hc' as [<-|Hc']; [exact Hk | unfold dlen; rewrite (Hb c' Hc'); exact Hk]. }
           destruct (all_next_step f IHS k (c :: cs') ss r Hall ND F) as [ss' [r1 [E1 [R1 [U1 W1]]]]].
           rewrite E1. exists (IAssoc ss'), r1. split; [reflexivity|]. split; [apply RepAssoc; exact R1|].
           split; [|exact W1]. cbn [denote]. rewrite nth_zipL by (cbn [map hd]; exact Hk).
           rewrite map_map. exact U1.
        -- inversion F as [|c0 s cs0 ss0 Hcs0 F']; subst.
           destruct (IHS c (Hok c (or_introl eq_refl)) (dlen c) s r Hcs0) as [_ Hstop].
           destruct (Hstop eq_refl) as [s' [E D]].
           rewrite all_next_cons, E. exists (IAssoc (s' :: ss0)). split; [reflexivity|].
           apply DeadAssoc; [exact D|].
           eapply Forall2_from_Forall; [|exact F']. apply Forall_forall. intros c' _ s0 Hs0. eapply Rep_Shape. exact Hs0.
    + (* ---------------- DeadOK (S f) *)
      intros t Hh st r HD. destruct HD as [n ty vs | cs first prev ss Hw Hk F | c cs s ss HD F].
      * rewrite next_leaf. eexists. split; [reflexivity | constructor].
      * rewrite next_prod. cbn [andb negb]. eexists. split; [reflexivity | constructor; assumption].
      * cbn [height] in Hh. pose proof (height_children (c :: cs) f Hh) as Hcs. inversion Hcs as [|? ? Hc _]; subst.
        destruct (IHD c Hc s r HD) as [s' [E D]].
        rewrite next_assoc, all_next_cons, E. exists (IAssoc (s' :: ss)). split; [reflexivity|].
        apply DeadAssoc; assumption.
Qed.

(* ================================================================== C07_iterate, C07_exhausted_stays *)
(* the iterator object after j calls of __next__ (results dropped) *)
Fixpoint iter_after (p : bool) (it : titer) (j : nat) : titer :=
  match j with
  | O => it
  | S j' => iter_after p (fst (fst (top_next p it))) j'
  end.

Definition LiveAt (t : node) (k : nat) (it : titer) : Prop :=
  exists st, it = ItNode (height t) st /\ Rep t k st.
Definition DeadAt (t : node) (it : titer) : Prop :=
  exists st, it = ItNode (height t) st /\ Dead t st.

Lemma OKc_valid : forall t, valid t -> OKc (height t) t.
Proof. intros t [ND W]. split; [lia | split; assumption]. Qed.

Lemma top_step : forall t k it, valid t -> LiveAt t k it -> (k < dlen t)%nat ->
  exists it' e, top_next false it = (it', e, None) /\ LiveAt t (S k) it' /\ e ≈ nth k (denote t) [].
Proof.
  intros t k it V [st [-> HR]] Hk.
  destruct (proj1 (step_dead_all (height t)) t (OKc_valid t V) k st [] HR) as [Hstep _].
  destruct (Hstep Hk) as [st' [r' [E [R' [U _]]]]].
  exists (ItNode (height t) st'), r'. cbn [top_next]. rewrite E. split; [reflexivity|].
  split; [exists st'; split; [reflexivity | exact R'] | apply Upd_nil_equiv; exact U].
Qed.

Lemma top_stop : forall t it, valid t -> LiveAt t (dlen t) it ->
  exists it', top_next false it = (it', [], Some StopIteration) /\ DeadAt t it'.
Proof.
  intros t it V [st [-> HR]].
  destruct (proj1 (step_dead_all (height t)) t (OKc_valid t V) (dlen t) st [] HR) as [_ Hstop].
  destruct (Hstop eq_refl) as [st' [E D]].
  exists (ItNode (height t) st'). cbn [top_next]. rewrite E. split; [reflexivity|].
  exists st'. split; [reflexivity | exact D].
Qed.

Lemma top_dead : forall t it, DeadAt t it ->
  exists it', top_next false it = (it', [], Some StopIteration) /\ DeadAt t it'.
Proof.
  intros t it [st [-> D]].
  destruct (proj2 (step_dead_all (height t)) t (le_n _) st [] D) as [st' [E D']].
  exists (ItNode (height t) st'). cbn [top_next]. rewrite E. split; [reflexivity|].
  exists st'. split; [reflexivity | exact D'].
Qed.

Lemma live_after : forall t j k it, valid t -> LiveAt t k it -> (k + j <= dlen t)%nat ->
  LiveAt t (k + j) (iter_after false it j).
Proof.
  intros t. induction j as [|j IH]; intros k it V HL Hle.
  - rewrite Nat.add_0_r. exact HL.
  - cbn [iter_after]. destruct (top_step t k it V HL ltac:(lia)) as [it' [e [E [HL' _]]]].
    rewrite E. cbn [fst]. replace (k + S j)%nat with (S k + j)%nat by lia. apply IH; [exact V | exact HL' | lia].
Qed.

Lemma dead_after : forall t j it, DeadAt t it -> DeadAt t (iter_after false it j).
Proof.
  intros t. induction j as [|j IH]; intros it HD; [exact HD|].
  cbn [iter_after]. destruct (top_dead t it HD) as [it' [E HD']]. rewrite E. cbn [fst]. apply IH. exact HD'.
Qed.

Lemma iter_after_add : forall p it a b, iter_after p it (a + b) = iter_after p (iter_after p it a) b.
Proof. intros p it a. revert it. induction a as [|a IH]; intros it b; [reflexivity|]. cbn [Nat.add iter_after]. apply IH. Qed.

Lemma live_init : forall t, LiveAt t 0 (top_iter (TopNode t)).
Proof. intros t. exists (init t). split; [reflexivity | apply init_Rep]. Qed.

Theorem iterate_correct : forall t, valid t ->
  (forall k, (k < length (denote t))%nat ->
     exists it' e, top_next false (iter_after false (top_iter (TopNode t)) k) = (it', e, None) /\
                   e ≈ nth k (denote t) []) /\
  (exists it', top_next false (iter_after false (top_iter (TopNode t)) (length (denote t)))
               = (it', [], Some StopIteration)).
Proof.
  intros t V. split.
  - intros k Hk. pose proof (live_after t k 0 _ V (live_init t) ltac:(unfold dlen; cbn; lia)) as HL. cbn [Nat.add] in HL.
    destruct (top_step t k _ V HL Hk) as [it' [e [E [_ Q]]]]. exists it', e. split; assumption.
  - pose proof (live_after t (dlen t) 0 _ V (live_init t) ltac:(cbn; lia)) as HL. cbn [Nat.add] in HL.
    destruct (top_stop t _ V HL) as [it' [E _]]. exists it'. exact E.
Qed.

Theorem exhausted_stays : forall t, valid t -> forall m, (length (denote t) <= m)%nat ->
  exists it', top_next false (iter_after false (top_iter (TopNode t)) m) = (it', [], Some StopIteration).
Proof.
  intros t V m Hm. fold (dlen t) in Hm.
  pose proof (live_after t (dlen t) 0 _ V (live_init t) ltac:(cbn; lia)) as HL. cbn [Nat.add] in HL.
  destruct (Nat.eq_dec m (dlen t)) as [->|Hne].
  - destruct (top_stop t _ V HL) as [it' [E _]]. exists it'. exact E.
  - destruct (top_stop t _ V HL) as [it1 [E1 D1]].
    replace m with (dlen t + (1 + (m - dlen t - 1)))%nat by lia.
    rewrite iter_after_add. rewrite iter_after_add. cbn [iter_after Nat.add]. rewrite E1. cbn [fst].
    destruct (top_dead t _ (dead_after t (m - dlen t - 1) it1 D1)) as [it' [E _]]. exists it'. exact E.
Qed.

(* the code before commit 8169558: phantom task parameter sets after StopIteration *)
Definition wA : node := Leaf [65%N] TInt [[49%N]; [50%N]].
Definition wB : node := Leaf [66%N] TInt [[49%N; 48%N]; [50%N; 48%N]].
Definition wAB : node := Prod [wA; wB].

Lemma valid_wAB : valid wAB.
Proof.
  split.
  - cbn. constructor; [cbn; intros [H|[]]; discriminate | constructor; [tauto | constructor]].
  - apply WfProd; [discriminate|]. repeat constructor; discriminate.
Qed.

Theorem exhausted_refuted :
  exists t m it' e, valid t /\ (length (denote t) <= m)%nat /\
    top_next true (iter_after true (top_iter (TopNode t)) m) = (it', e, None).
Proof.
  exists wAB, 5%nat. eexists. eexists. split; [exact valid_wAB|]. split; [cbn; lia|]. vm_compute. reflexivity.
Qed.

(* ================================================================== C07_default_comb, C07_none *)
Definition pname (p : param) : str := fst (fst p).

Lemma find_param_in : forall ps p, NoDup (map pname ps) -> In p ps -> find_param ps (pname p) = Ok p.
Proof.
  induction ps as [|q ps IH]; intros p ND Hin; [contradiction|].
  cbn [map] in ND. inversion ND as [|? ? Hn Hd]; subst. cbn [find_param]. fold (pname q).
  destruct Hin as [->|Hin].
  - rewrite str_eqb_refl. reflexivity.
  - destruct (str_eqb (pname p) (pname q)) eqn:E.
    + apply str_eqb_eq in E. exfalso. apply Hn. rewrite <- E. apply in_map. exact Hin.
    + apply IH; assumption.
Qed.

Lemma mk_children_ids : forall ps qs, NoDup (map pname ps) -> incl qs ps ->
  mk_children (create_expr_tree ps) (map (fun p => CId (pname p)) qs) = Ok (map leaf_of qs).
Proof.
  intros ps qs ND. induction qs as [|q qs IH]; intros Hincl; [reflexivity|].
  cbn [map mk_children create_expr_tree]. rewrite (find_param_in ps q ND) by (apply Hincl; left; reflexivity).
  cbn [bind]. rewrite IH by (intros x Hx; apply Hincl; right; exact Hx). reflexivity.
Qed.

Lemma cross_unit_r : forall d, cross d [[]] = d.
Proof.
  induction d as [|a d IH]; [reflexivity|].
  change (cross (a :: d) [[]]) with ((a ++ []) :: cross d [[]]). rewrite app_nil_r, IH. reflexivity.
Qed.

Lemma names_leaves : forall ps, flat_map names (map leaf_of ps) = map pname ps.
Proof. induction ps as [|p ps IH]; [reflexivity|]. cbn [map flat_map leaf_of names app]. rewrite IH. reflexivity. Qed.

Theorem default_comb_correct : forall ps,
  ps <> [] -> NoDup (map pname ps) -> (forall p, In p ps -> snd p <> []) ->
  exists t, sps_init (Some (ps, None)) = Ok (TopNode t) /\ valid t /\ denote t = default_denote ps.
Proof.
  intros ps Hne ND Hvs.
  assert (Hwf : Forall wfnode (map leaf_of ps)).
  { rewrite Forall_map. apply Forall_forall. intros p Hp. apply WfLeaf. apply Hvs. exact Hp. }
  destruct ps as [|p [|q ps]]; [congruence| |].
  - (* one parameter: the parser returns the bare identifier node *)
    exists (leaf_of p). cbn [sps_init default_comb bind create_expr_tree]. fold (pname p).
    rewrite (find_param_in [p] p ND (or_introl eq_refl)). cbn [bind]. split; [reflexivity|]. split.
    + split; [cbn; constructor; [tauto | constructor] | inversion Hwf; assumption].
    + unfold default_denote. cbn [map]. rewrite prodL_cons. cbn [prodL fold_right]. symmetry. apply cross_unit_r.
  - exists (Prod (map leaf_of (p :: q :: ps))).
    cbn [sps_init default_comb bind create_expr_tree].
    pose proof (mk_children_ids (p :: q :: ps) (p :: q :: ps) ND (incl_refl _)) as E. unfold pname in E. unfold param in *.
    rewrite E. cbn [bind].
    split; [reflexivity|]. split.
    + split; [cbn [names]; rewrite names_leaves; exact ND | apply WfProd; [discriminate | exact Hwf]].
    + cbn [denote]. unfold default_denote. rewrite map_map. reflexivity.
Qed.

Theorem none_correct : forall p,
  let tp := TopList none_denote in
  sps_init None = Ok tp /\
  top_len tp = Ok 1%Z /\
  (forall i, top_getitem tp i = if ((i =? 0) || (i =? -1))%Z then Ok [] else Raise IndexError) /\
  top_next p (top_iter tp) = (ItList [], [], None) /\
  (forall m, (1 <= m)%nat -> top_next p (iter_after p (top_iter tp) m) = (ItList [], [], Some StopIteration)).
Proof.
  intros p tp. split; [reflexivity|]. split; [reflexivity|]. split; [|split].
  - intros i. unfold tp, none_denote, top_getitem, py_index. cbn [length]. change (Z.of_nat 1) with 1%Z.
    destruct (Z.eq_dec i 0) as [->|H0]; [reflexivity|].
    destruct (Z.eq_dec i (-1)) as [->|H1]; [reflexivity|].
    destruct ((i =? 0)%Z || (i =? -1)%Z) eqn:T; [lia|].
    destruct (i <? 0)%Z eqn:E.
    + destruct ((0 <=? 1 + i)%Z && (1 + i <? 1)%Z) eqn:T2; [lia | reflexivity].
    + destruct ((0 <=? i)%Z && (i <? 1)%Z) eqn:T2; [lia | reflexivity].
  - reflexivity.
  - intros m Hm. destruct m as [|m]; [lia|]. clear Hm. cbn [iter_after]. unfold tp, none_denote. cbn [top_iter top_next fst].
    induction m as [|m IH]; [reflexivity|]. cbn [iter_after top_next fst]. exact IH.
Qed.

(* ================================================================== C07_histories *)
(* In this pure model the statement is immediate by construction: an iterator's state is a
   value stored in its own slot of [w_iters]; no operation on one slot reads or writes another,
   and the only shared mutable datum, the _len memo, is written by len() alone.  The theorem
   makes that precise: deleting from a history every next()/reset addressed to OTHER iterators
   changes none of the remaining observations. *)
Definition addressed_other (i : nat) (o : op) : bool :=
  match o with
  | OpNext j => negb (Nat.eqb j i)
  | OpReset j => negb (Nat.eqb j i)
  | _ => false
  end.

Fixpoint obs_kept (p : bool) (i : nat) (w : world) (h : list op) : list obs :=
  match h with
  | [] => []
  | o :: rest =>
    match exec p w o with
    | (w1, b) => if addressed_other i o then obs_kept p i w1 rest else b :: obs_kept p i w1 rest
    end
  end.

Definition SameFor (i : nat) (w w' : world) : Prop :=
  w_top w = w_top w' /\ w_cache w = w_cache w' /\ length (w_iters w) = length (w_iters w') /\
  nth_error (w_iters w) i = nth_error (w_iters w') i.

Lemma replace_nth_length : forall (A : Type) (l : list A) i x, length (replace_nth l i x) = length l.
Proof. intros A. induction l as [|a l IH]; intros [|i] x; cbn; try reflexivity. rewrite IH. reflexivity. Qed.

Lemma replace_nth_other : forall (A : Type) (l : list A) i j x, i <> j ->
  nth_error (replace_nth l j x) i = nth_error l i.
Proof.
  intros A. induction l as [|a l IH]; intros i j x H; [destruct j; reflexivity|].
  destruct j as [|j]; destruct i as [|i]; cbn; try reflexivity; try congruence. apply IH. congruence.
Qed.

Lemma replace_nth_same : forall (A : Type) (l : list A) i x, (i < length l)%nat ->
  nth_error (replace_nth l i x) i = Some x.
Proof.
  intros A. induction l as [|a l IH]; intros i x H; cbn in H; [lia|].
  destruct i as [|i]; cbn; [reflexivity | apply IH; lia].
Qed.

Lemma nth_error_app_same : forall (A : Type) (l l' : list A) x i, length l = length l' ->
  nth_error l i = nth_error l' i -> nth_error (l ++ [x]) i = nth_error (l' ++ [x]) i.
Proof.
  intros A l l' x i HL H. destruct (Nat.lt_ge_cases i (length l)) as [Hlt|Hge].
  - rewrite !nth_error_app1 by lia. exact H.
  - rewrite !nth_error_app2 by lia. rewrite HL. reflexivity.
Qed.

Ltac same4 := unfold SameFor; cbn [w_top w_cache w_iters fst snd]; split; [|split; [|split]]; try assumption; try reflexivity; try congruence.

Lemma exec_other : forall p i w w' o, SameFor i w w' -> addressed_other i o = true ->
  SameFor i (fst (exec p w o)) w'.
Proof.
  intros p i w w' o [H1 [H2 [H3 H4]]] Ho. destruct o as [ | j | z | | j ]; cbn in Ho; try discriminate.
  - apply negb_true_iff, Nat.eqb_neq in Ho. cbn [exec].
    destruct (nth_error (w_iters w) j) as [it|]; [|same4].
    destruct (top_next p it) as [[it1 r] sg]. same4.
    + rewrite replace_nth_length. exact H3.
    + rewrite replace_nth_other by congruence. exact H4.
  - apply negb_true_iff, Nat.eqb_neq in Ho. cbn [exec].
    destruct (nth_error (w_iters w) j) as [it|]; [|same4]. same4.
    + rewrite replace_nth_length. exact H3.
    + rewrite replace_nth_other by congruence. exact H4.
Qed.

Lemma exec_kept : forall p i w w' o, SameFor i w w' -> addressed_other i o = false ->
  snd (exec p w o) = snd (exec p w' o) /\ SameFor i (fst (exec p w o)) (fst (exec p w' o)).
Proof.
  intros p i w w' o [H1 [H2 [H3 H4]]] Ho. destruct o as [ | j | z | | j ]; cbn in Ho.
  - cbn [exec fst snd]. split; [reflexivity|]. rewrite H1. same4.
    + rewrite !app_length, H3. reflexivity.
    + apply nth_error_app_same; assumption.
  - apply negb_false_iff, Nat.eqb_eq in Ho. subst j. cbn [exec]. rewrite <- H4.
    destruct (nth_error (w_iters w) i) as [it|] eqn:E; [|split; [reflexivity | same4]].
    destruct (top_next p it) as [[it1 r] sg]. split; [reflexivity|].
    assert (Hi : (i < length (w_iters w))%nat) by (apply nth_error_Some; congruence).
    same4.
    + rewrite !replace_nth_length. exact H3.
    + rewrite !replace_nth_same by lia. reflexivity.
  - cbn [exec fst snd]. rewrite H1. split; [reflexivity | same4].
  - cbn [exec]. rewrite <- H1, <- H2. destruct (w_top w) as [l|t] eqn:Et.
    + split; [reflexivity | same4].
    + destruct (cached_len (w_cache w) t) as [[v c]|x]; (split; [reflexivity | same4]).
  - apply negb_false_iff, Nat.eqb_eq in Ho. subst j. cbn [exec]. rewrite <- H4.
    destruct (nth_error (w_iters w) i) as [it|] eqn:E; [|split; [reflexivity | same4]].
    split; [reflexivity|].
    assert (Hi : (i < length (w_iters w))%nat) by (apply nth_error_Some; congruence).
    same4.
    + rewrite !replace_nth_length. exact H3.
    + rewrite !replace_nth_same by lia. reflexivity.
Qed.

Lemma histories_sim : forall p i h w w', SameFor i w w' ->
  obs_kept p i w h = snd (run p w' (filter (fun o => negb (addressed_other i o)) h)).
Proof.
  intros p i. induction h as [|o rest IH]; intros w w' HS; [reflexivity|].
  cbn [obs_kept filter]. destruct (addressed_other i o) eqn:Ho; cbn [negb].
  - pose proof (exec_other p i w w' o HS Ho) as HS1. destruct (exec p w o) as [w1 b]. cbn [fst] in HS1. apply IH. exact HS1.
  - destruct (exec_kept p i w w' o HS Ho) as [Hb HS1]. cbn [run].
    destruct (exec p w o) as [w1 b]. destruct (exec p w' o) as [w1' b']. cbn [fst snd] in *.
    rewrite (IH w1 w1' HS1). destruct (run p w1' (filter (fun o0 => negb (addressed_other i o0)) rest)) as [w2 bs].
    cbn [snd]. subst b'. reflexivity.
Qed.

Theorem histories_independent : forall p tp i h,
  obs_kept p i (new_world tp) h
  = snd (run p (new_world tp) (filter (fun o => negb (addressed_other i o)) h)).
Proof. intros. apply histories_sim. repeat split. Qed.

(* len(obj) and obj[i] inside any history answer as on a fresh object (the _len memo is a
   function of the tree only) *)
Definition world_ok (w : world) : Prop :=
  match w_top w with TopNode t => cache_ok t (w_cache w) | TopList _ => True end.

Lemma exec_world_ok : forall p w o, world_ok w -> world_ok (fst (exec p w o)) /\ w_top (fst (exec p w o)) = w_top w.
Proof.
  intros p w o H. destruct o as [ | j | z | | j ]; cbn [exec].
  - cbn. split; [exact H | reflexivity].
  - destruct (nth_error (w_iters w) j); [|split; [exact H | reflexivity]].
    destruct (top_next p t) as [[it1 r] sg]. cbn. split; [exact H | reflexivity].
  - split; [exact H | reflexivity].
  - unfold world_ok in *. destruct (w_top w) as [l|t] eqn:E.
    + cbn. rewrite E. split; [exact I | reflexivity].
    + pose proof (cache_transparent t (w_cache w) H) as CT.
      destruct (cached_len (w_cache w) t) as [[v c]|x]; cbn [fst w_top w_cache]; rewrite ?E; [|split; [exact H | reflexivity]].
      split; [apply CT | reflexivity].
  - destruct (nth_error (w_iters w) j); [|split; [exact H | reflexivity]]. cbn. split; [exact H | reflexivity].
Qed.

Theorem len_get_history_free : forall p tp h w bs,
  run p (new_world tp) h = (w, bs) ->
  snd (exec p w OpLen) = match top_len tp with Ok v => ObLen v | Raise x => ObRaise x end /\
  forall z, snd (exec p w (OpGet z)) = match top_getitem tp z with Ok e => ObEnv e | Raise x => ObRaise x end.
Proof.
  intros p tp h.
  assert (G : forall h w0 w bs, world_ok w0 -> run p w0 h = (w, bs) -> world_ok w /\ w_top w = w_top w0).
  { induction h0 as [|o rest IH]; intros w0 w bs H0 E.
    - cbn in E. inversion E; subst. split; [exact H0 | reflexivity].
    - cbn [run] in E. destruct (exec_world_ok p w0 o H0) as [H1 T1].
      destruct (exec p w0 o) as [w1 b]. cbn [fst] in *.
      destruct (run p w1 rest) as [w2 bs2] eqn:E2. inversion E; subst.
      destruct (IH w1 w bs2 H1 E2) as [H2 T2]. split; [exact H2 | congruence]. }
  intros w bs E. assert (H0 : world_ok (new_world tp)) by (unfold world_ok; cbn; destruct tp; [exact I | left; reflexivity]).
  destruct (G h (new_world tp) w bs H0 E) as [Hw Ht]. cbn [new_world w_top] in Ht. split.
  - cbn [exec]. unfold world_ok in Hw. rewrite Ht in *. destruct tp as [l|t]; [reflexivity|].
    pose proof (cache_transparent t (w_cache w) Hw) as CT. cbn [top_len].
    destruct (cached_len (w_cache w) t) as [[v c]|x]; cbn [snd]; [destruct CT as [CT _]|]; rewrite CT; reflexivity.
  - intros z. cbn [exec snd]. rewrite Ht. reflexivity.
Qed.

(* ================================================================== every set is well typed *)
Lemma names_of_leaves : forall t, map pname (leaves t) = names t.
Proof.
  induction t as [n ty vs | cs IH | cs IH] using node_ind2; [reflexivity| |];
    cbn [leaves names]; induction IH as [|c cs Hc _ IHl]; cbn [flat_map]; try reflexivity;
    rewrite map_app, Hc, IHl; reflexivity.
Qed.

Lemma leaf_name_in : forall t n ty vs, In (n, ty, vs) (leaves t) -> In n (names t).
Proof. intros t n ty vs H. rewrite <- names_of_leaves. apply (in_map pname) in H. exact H. Qed.

Definition TypedIn (c : node) : Prop :=
  forall e, In e (denote c) -> forall n ty vs, In (n, ty, vs) (leaves c) ->
  exists v, In v vs /\ lookup n e = Some (ty, v).

Lemma typed_concat : forall cs es,
  Forall2 (fun c a => In a (denote c)) cs es ->
  Forall (fun c => wfnode c /\ TypedIn c) cs ->
  NoDup (flat_map names cs) ->
  forall n ty vs, In (n, ty, vs) (flat_map leaves cs) ->
  exists v, In v vs /\ lookup n (concat es) = Some (ty, v).
Proof.
  intros cs es F. induction F as [|c a cs es Hca F IH]; intros HF ND n ty vs Hin; [contradiction|].
  inversion HF as [|? ? [Wc Tc] HFr]; subst. cbn [flat_map] in Hin, ND. cbn [concat]. rewrite lookup_app.
  apply in_app_or in Hin. destruct Hin as [Hin|Hin].
  - destruct (Tc a Hca n ty vs Hin) as [v [Hv El]]. exists v. rewrite El. split; [exact Hv | reflexivity].
  - assert (Hn : In n (flat_map names cs)).
    { apply in_flat_map in Hin. destruct Hin as [c' [Hc' Hl]]. apply in_flat_map. exists c'.
      split; [exact Hc' | eapply leaf_name_in; exact Hl]. }
    assert (E : lookup n a = None).
    { apply lookup_none_keys. rewrite (denote_keys c Wc a Hca). intro Hc. eapply NoDup_app_disj; eassumption. }
    rewrite E. apply (IH HFr (NoDup_app_r _ _ _ ND) n ty vs Hin).
Qed.

Lemma prodL_pieces : forall cs e, In e (prodL (map denote cs)) ->
  exists es, e = concat es /\ Forall2 (fun c a => In a (denote c)) cs es.
Proof.
  induction cs as [|c cs IH]; intros e Hin.
  - cbn in Hin. destruct Hin as [<-|[]]. exists []. split; [reflexivity | constructor].
  - cbn [map] in Hin. rewrite prodL_cons in Hin. apply in_cross in Hin. destruct Hin as [a [b [Ha [Hb ->]]]].
    destruct (IH b Hb) as [es [-> F]]. exists (a :: es). split; [reflexivity | constructor; assumption].
Qed.

Theorem denote_typed : forall t, valid t -> forall e, In e (denote t) -> well_typed t e.
Proof.
  intros t [ND W] e Hin. split; [apply (denote_keys t W e Hin)|]. revert e Hin.
  change (TypedIn t). revert W ND.
  induction t as [n ty vs | cs IH | cs IH] using node_ind2; intros W ND e Hin n0 ty0 vs0 Hl.
  - cbn in Hl. destruct Hl as [Hl|[]]. inversion Hl; subst. cbn [denote] in Hin. apply in_map_iff in Hin.
    destruct Hin as [v [<- Hv]]. exists v. split; [exact Hv|]. cbn [lookup]. rewrite str_eqb_refl. reflexivity.
  - cbn [denote leaves names] in *. destruct (prodL_pieces cs e Hin) as [es [-> F]].
    apply (typed_concat cs es F); [|exact ND | exact Hl].
    pose proof (wfnode_children_prod cs W) as Wcs. pose proof (NoDup_flat_map_each _ _ _ _ ND) as NDe.
    rewrite Forall_forall in *. intros c Hc. split; [apply Wcs; exact Hc | apply IH; auto].
  - inversion W as [| |c cs' Wc Hb]; subst. cbn [denote leaves names] in *. unfold zipL in Hin.
    apply in_map_iff in Hin. destruct Hin as [i [<- Hi]]. apply in_seq in Hi. cbn [map hd] in Hi.
    pose proof (NoDup_flat_map_each _ _ _ _ ND) as NDe.
    apply (typed_concat (c :: cs') (map (fun d => nth i d []) (map denote (c :: cs')))); [| |exact ND | exact Hl].
    + rewrite map_map. clear -Hi Hb.
      assert (G : Forall (fun c' => (i < length (denote c'))%nat) (c :: cs')).
      { constructor; [lia|]. rewrite Forall_forall in *. intros c' Hc'. rewrite (Hb c' Hc'). lia. }
      induction G as [|c' l Hc' _ IHG]; cbn [map]; constructor; [apply nth_In; exact Hc' | exact IHG].
    + rewrite Forall_forall in *. intros c' Hc'. split; [apply Wc; exact Hc' | apply IH; auto].
Qed.

(* ================================================================== list(obj) *)
Lemma drain_live : forall t j k it bound, valid t -> LiveAt t k it -> (k + j = dlen t)%nat -> (j < bound)%nat ->
  exists l, drain false bound it = (l, Some StopIteration, true) /\ Forall2 env_equiv l (skipn k (denote t)).
Proof.
  intros t. induction j as [|j IH]; intros k it bound V HL Hk Hb.
  - destruct bound as [|b]; [lia|]. rewrite Nat.add_0_r in Hk. subst k.
    destruct (top_stop t it V HL) as [it' [E _]]. cbn [drain]. rewrite E. exists []. split; [reflexivity|].
    unfold dlen. rewrite skipn_all. constructor.
  - destruct bound as [|b]; [lia|].
    destruct (top_step t k it V HL ltac:(lia)) as [it' [e [E [HL' Q]]]].
    destruct (IH (S k) it' b V HL' ltac:(lia) ltac:(lia)) as [l [El Fl]].
    cbn [drain]. rewrite E, El. exists (e :: l). split; [reflexivity|].
    rewrite (skipn_cons_nth _ (denote t) k []) by (unfold dlen in Hk; lia). constructor; assumption.
Qed.

Theorem list_correct : forall t bound, valid t -> (length (denote t) < bound)%nat ->
  exists l, drain false bound (top_iter (TopNode t)) = (l, Some StopIteration, true) /\
            Forall2 env_equiv l (denote t).
Proof.
  intros t bound V Hb. destruct (drain_live t (dlen t) 0 _ bound V (live_init t) eq_refl Hb) as [l [E F]].
  exists l. split; [exact E | exact F].
Qed.

(* ================================================================== the fuel suffices *)
(* For ANY tree (valid or not), any state of the right tree shape and fuel >= height, next never
   reports fuel exhaustion (RuntimeError) and keeps the shape.  [pinned] is arbitrary. *)
Inductive SShape : node -> istate -> Prop :=
| SSLeaf n ty vs n' ty' rest all : SShape (Leaf n ty vs) (ILeaf n' ty' rest all)
| SSProd cs ex first prev ss : Forall2 SShape cs ss -> SShape (Prod cs) (IProd ex first prev ss)
| SSAssoc cs ss : Forall2 SShape cs ss -> SShape (Assoc cs) (IAssoc ss).

Lemma SShape_init : forall t, SShape t (init t).
Proof.
  induction t as [n ty vs | cs IH | cs IH] using node_ind2; cbn [init]; constructor;
    apply Forall2_map_init; exact IH.
Qed.

Lemma SShape_reset : forall t st, SShape t st -> SShape t (reset st).
Proof.
  induction t as [n ty vs | cs IH | cs IH] using node_ind2; intros st H; inversion H; subst; cbn [reset]; constructor;
    apply Forall2_map_r; (eapply Forall2_from_Forall; [|eassumption]);
    rewrite Forall_forall in *; intros c Hc s Hs; apply IH; assumption.
Qed.

Definition no_fuel_err (sg : sig) : Prop := sg <> Some RuntimeError.

Definition NxOK (nx : istate -> env -> istate * env * sig) (c : node) : Prop :=
  forall s r, SShape c s -> no_fuel_err (snd (nx s r)) /\ SShape c (fst (fst (nx s r))).

Lemma all_next_fuel : forall nx cs ss r, Forall (NxOK nx) cs -> Forall2 SShape cs ss ->
  no_fuel_err (snd (all_next nx ss r)) /\ Forall2 SShape cs (fst (fst (all_next nx ss r))).
Proof.
  intros nx cs ss r HN F. revert r. induction F as [|c s cs ss Hcs F IH]; intros r.
  - cbn. split; [discriminate | constructor].
  - inversion HN as [|? ? Hc Hr]; subst. rewrite all_next_cons. destruct (Hc s r Hcs) as [H1 H2].
    destruct (nx s r) as [[s1 r1] [e|]]; cbn [fst snd] in *.
    + split; [exact H1 | constructor; assumption].
    + destruct (IH Hr r1) as [H3 H4]. destruct (all_next nx ss r1) as [[ss1 r2] sg]. cbn [fst snd] in *.
      split; [exact H3 | constructor; assumption].
Qed.

Lemma carry_fuel : forall nx cs ss prev, Forall (NxOK nx) cs -> Forall2 SShape cs ss ->
  no_fuel_err (snd (fst (carry nx ss prev))) /\ Forall2 SShape cs (fst (fst (fst (carry nx ss prev)))).
Proof.
  intros nx cs ss prev HN F. revert prev. induction F as [|c s cs ss Hcs F IH]; intros prev.
  - cbn. split; [discriminate | constructor].
  - inversion HN as [|? ? Hc Hr]; subst. rewrite carry_cons. destruct (Hc s prev Hcs) as [H1 H2].
    destruct (nx s prev) as [[s1 p1] [e|]]; cbn [fst snd] in *.
    + destruct (is_stop e) eqn:Es.
      * destruct ss as [|s' ss'].
        -- cbn [fst snd]. inversion F; subst. split; [discriminate | constructor; [exact H2 | constructor]].
        -- destruct (Hc (reset s1) p1 (SShape_reset _ _ H2)) as [H3 H4].
           destruct (nx (reset s1) p1) as [[s2 p2] [e2|]]; cbn [fst snd] in *.
           ++ split; [exact H3 | constructor; assumption].
           ++ destruct (IH Hr p2) as [H5 H6]. destruct (carry nx (s' :: ss') p2) as [[[ss1 p3] sg] ex].
              cbn [fst snd] in *. split; [exact H5 | constructor; assumption].
      * cbn [fst snd]. split; [exact H1 | constructor; assumption].
    + split; [discriminate | constructor; assumption].
Qed.

Theorem fuel_enough : forall p f t st r, (height t <= f)%nat -> SShape t st ->
  no_fuel_err (snd (next p f st r)) /\ SShape t (fst (fst (next p f st r))).
Proof.
  intros p. induction f as [|f IH]; intros t st r Hh HS; [pose proof (height_pos t); lia|].
  assert (HN : forall cs, Forall (fun c => (height c <= f)%nat) cs -> Forall (NxOK (next p f)) cs).
  { intros cs H. eapply Forall_weaken; [|exact H]. intros c Hc s r0 Hs. apply IH; assumption. }
  destruct HS as [n ty vs n' ty' rest all | cs ex first prev ss F | cs ss F].
  - rewrite next_leaf. destruct rest; cbn [fst snd]; split; try discriminate; constructor.
  - cbn [height] in Hh. pose proof (HN cs (height_children cs f Hh)) as HNc. rewrite next_prod.
    destruct (ex && negb p); [cbn [fst snd]; split; [discriminate | constructor; exact F]|].
    destruct first.
    + destruct (all_next_fuel (next p f) cs ss prev HNc F) as [H1 H2].
      destruct (all_next (next p f) ss prev) as [[ss1 p1] [e|]]; cbn [fst snd] in *; (split; [assumption || discriminate | constructor; exact H2]).
    + assert (HNr : Forall (NxOK (next p f)) (rev cs)) by (apply Forall_rev; exact HNc).
      destruct (carry_fuel (next p f) (rev cs) (rev ss) prev HNr (Forall2_rev' _ _ _ _ _ F)) as [H1 H2].
      destruct (carry (next p f) (rev ss) prev) as [[[ss1 p1] [e|]] exh]; cbn [fst snd] in *;
        (split; [assumption || discriminate | constructor; apply Forall2_rev' in H2; rewrite rev_involutive in H2; exact H2]).
  - cbn [height] in Hh. pose proof (HN cs (height_children cs f Hh)) as HNc. rewrite next_assoc.
    destruct (all_next_fuel (next p f) cs ss r HNc F) as [H1 H2].
    destruct (all_next (next p f) ss r) as [[ss1 r1] sg]; cbn [fst snd] in *. split; [exact H1 | constructor; exact H2].
Qed.

(* ================================================================== no division by zero *)
(* The model's stand-in for ZeroDivisionError in ProductNode.__getitem__ (Raise RuntimeError;
   Base.exn has no ZeroDivisionError) is unreachable for EVERY tree: past the bounds test the
   product of the child lengths is positive, so no child length is zero. *)
Lemma len_loop_factors : forall cs acc v,
  Forall (fun c => forall v, node_len c = Ok v -> (0 <= v)%Z) cs -> (0 <= acc)%Z ->
  len_loop node_len cs acc = Ok v ->
  (0 <= v)%Z /\ ((0 < v)%Z -> (0 < acc)%Z /\ Forall (fun c => exists l, node_len c = Ok l /\ (0 < l)%Z) cs).
Proof.
  induction cs as [|c cs IH]; intros acc v H Ha E.
  - cbn in E. inversion E; subst. split; [exact Ha|]. intros Hv. split; [exact Hv | constructor].
  - inversion H as [|? ? Hc Hr]; subst. cbn [len_loop] in E. destruct (node_len c) as [n|x] eqn:En; cbn [bind] in E; [|discriminate].
    pose proof (Hc n eq_refl) as Hn. destruct (IH (acc * n)%Z v Hr ltac:(nia) E) as [H1 H2].
    split; [exact H1|]. intros Hv. destruct (H2 Hv) as [H3 H4]. split; [nia|].
    constructor; [exists n; split; [exact En | nia] | exact H4].
Qed.

Lemma node_len_nonneg : forall t v, node_len t = Ok v -> (0 <= v)%Z.
Proof.
  induction t as [n ty vs | cs IH | cs IH] using node_ind2; intros v E.
  - cbn in E. inversion E. lia.
  - cbn [node_len] in E. apply (len_loop_factors cs 1%Z v IH ltac:(lia) E).
  - destruct cs as [|c cs]; cbn [node_len] in E; [discriminate|]. inversion IH as [|? ? Hc _]; subst. apply Hc. exact E.
Qed.

Lemma len_loop_raise : forall cs acc e,
  Forall (fun c => forall e, node_len c = Raise e -> e = IndexError) cs ->
  len_loop node_len cs acc = Raise e -> e = IndexError.
Proof.
  induction cs as [|c cs IH]; intros acc e H E; [discriminate|].
  inversion H as [|? ? Hc Hr]; subst. cbn [len_loop] in E. destruct (node_len c) as [n|x] eqn:En; cbn [bind] in E.
  - apply (IH _ _ Hr E).
  - inversion E; subst. apply Hc. reflexivity.
Qed.

Lemma node_len_raise : forall t e, node_len t = Raise e -> e = IndexError.
Proof.
  induction t as [n ty vs | cs IH | cs IH] using node_ind2; intros e E.
  - discriminate.
  - cbn [node_len] in E. apply (len_loop_raise cs 1%Z e IH E).
  - destruct cs as [|c cs]; cbn [node_len] in E; [inversion E; reflexivity|]. inversion IH as [|? ? Hc _]; subst. apply Hc. exact E.
Qed.

Definition NoRTE (c : node) : Prop := forall i, getitem c i <> Raise RuntimeError.

Lemma prod_get_tail_no_rte : forall cs,
  Forall (fun c => (exists l, node_len c = Ok l /\ (0 < l)%Z) /\ NoRTE c) cs ->
  forall index res, prod_get_tail getitem cs index res <> Raise RuntimeError.
Proof.
  induction cs as [|c cs IH]; intros H index res; [discriminate|].
  inversion H as [|? ? [[l [El Hl]] Hc] Hr]; subst. cbn [prod_get_tail].
  destruct (prod_get_tail getitem cs index res) as [ir|x] eqn:Et; cbn [bind].
  - rewrite El. cbn [bind]. destruct (l =? 0)%Z eqn:Ez; [lia|].
    destruct (getitem c (fst ir mod l)) as [e|x] eqn:Eg; cbn [bind]; [discriminate|].
    intro HX. inversion HX; subst. apply (Hc _ Eg).
  - intro HX. inversion HX; subst. apply (IH Hr index res Et).
Qed.

Lemma assoc_get_no_rte : forall cs i res, Forall NoRTE cs -> assoc_get getitem cs i res <> Raise RuntimeError.
Proof.
  induction cs as [|c cs IH]; intros i res H; [discriminate|].
  inversion H as [|? ? Hc Hr]; subst. cbn [assoc_get].
  destruct (getitem c i) as [e|x] eqn:Eg; cbn [bind]; [apply IH; exact Hr|].
  intro HX. inversion HX; subst. apply (Hc _ Eg).
Qed.

Theorem getitem_no_zero_division : forall t i, getitem t i <> Raise RuntimeError.
Proof.
  induction t as [n ty vs | cs IH | cs IH] using node_ind2; intros i.
  - cbn [getitem]. unfold py_index.
    destruct ((0 <=? (if (i <? 0)%Z then (Z.of_nat (length vs) + i)%Z else i))%Z && ((if (i <? 0)%Z then (Z.of_nat (length vs) + i)%Z else i) <? Z.of_nat (length vs))%Z);
      [|discriminate].
    destruct (nth_error vs (Z.to_nat (if (i <? 0)%Z then (Z.of_nat (length vs) + i)%Z else i))); cbn [bind]; discriminate.
  - cbn [getitem]. destruct (node_len (Prod cs)) as [len|x] eqn:EL; cbn [bind].
    + set (j := (if (i <? 0)%Z then (len + i)%Z else i)).
      destruct ((0 <=? j)%Z && (j <? len)%Z) eqn:T; [|discriminate].
      cbn [node_len] in EL.
      assert (Hnn : Forall (fun c => forall v, node_len c = Ok v -> (0 <= v)%Z) cs).
      { apply Forall_forall. intros c _ v. apply node_len_nonneg. }
      destruct (len_loop_factors cs 1%Z len Hnn ltac:(lia) EL) as [_ Hf].
      destruct (Hf ltac:(lia)) as [_ Hpos].
      destruct cs as [|c0 rest]; [discriminate|]. cbn [prod_get].
      inversion IH as [|? ? H0 Hrest]; subst. inversion Hpos as [|? ? _ Hposr]; subst.
      assert (Hall : Forall (fun c => (exists l, node_len c = Ok l /\ (0 < l)%Z) /\ NoRTE c) rest).
      { rewrite Forall_forall in *. intros c Hc. split; [exact (Hposr c Hc) | exact (Hrest c Hc)]. }
      destruct (prod_get_tail getitem rest j []) as [ir|x] eqn:Et; cbn [bind].
      * destruct (getitem c0 (fst ir)) as [e|x] eqn:Eg; cbn [bind]; [discriminate|].
        intro HX. inversion HX; subst. apply (H0 _ Eg).
      * intro HX. inversion HX; subst. apply (prod_get_tail_no_rte rest Hall j [] Et).
    + intro HX. inversion HX; subst. apply node_len_raise in EL. discriminate.
  - cbn [getitem]. apply assoc_get_no_rte. exact IH.
Qed.
