(* accept_driver.ml — serves the extracted template-acceptance model (C01, C02, C19). *)
open Sx
open Model
open Conv
open Convjson

let table : (int, cclass) Hashtbl.t = Hashtbl.create 64
let class_of_name = function
  | "space" -> CSpace | "namestart" -> CNameStart | "digit" -> CDigit | "udigit" -> CUDigit
  | "dot" -> CDot | "star" -> CStar | "lparen" -> CLParen | "rparen" -> CRParen
  | "comma" -> CComma | "hyphen" -> CHyphen | "colon" -> CColon | "other" -> COther
  | s -> failwith ("class " ^ s)
let classify (c : n) : cclass =
  let i = match c with N0 -> 0 | Npos p -> (match int_of_pos p with Some v -> v | None -> -1) in
  match Hashtbl.find_opt table i with
  | Some cl -> cl
  | None -> if i >= 0 && i < 128 then ascii_class c else COther

let charset_of = function
  | "any" -> CS_any | "identifier" -> CS_identifier | "standard" -> CS_standard | "nocc_star" -> CS_nocc_star
  | "description" -> CS_description | "filefilter" -> CS_filefilter | "combination" -> CS_combination
  | s -> failwith ("charset " ^ s)

let handle (req : Sx.t) : Sx.t =
  match req with
  | L (A "table" :: entries) ->
    Hashtbl.reset table;
    List.iter (function L [A cp; A cl] -> Hashtbl.replace table (int_of_string cp) (class_of_name cl) | _ -> failwith "table") entries;
    L [A "table-ok"; sx_of_bool (ascii_ok classify)]
  | L [A "accept_job"; j] -> sx_of_outcome sx_of_bool (accept_job classify (json_of_sx j))
  | L [A "accept_env"; j] -> sx_of_outcome sx_of_bool (accept_env classify (json_of_sx j))
  | L [A "accept_job_spec"; j] -> sx_of_outcome sx_of_bool (accept_job_spec classify (json_of_sx j))
  | L [A "accept_env_spec"; j] -> sx_of_outcome sx_of_bool (accept_env_spec classify (json_of_sx j))
  | L [A "cs_ok"; A cs; s] -> sx_of_bool (cs_ok (charset_of cs) (str_of_sx s))
  | _ -> failwith "unknown-request"

let () = serve handle
