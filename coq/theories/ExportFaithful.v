(* ExportFaithful.v — C17, the sentence "model_to_object(M) reproduces the document M was decoded from up to
   numeric formatting": the relation [jequiv] between two documents, written from the property text (and
   clause by clause the function [equiv] of harness/c17.py, which the harness applied per case until now).
   Definitions only (the theorems are in ExportFaithfulNum.v / ExportFaithfulProofs.v / ExportFaithfulDec.v /
   ExportFaithfulKeys.v).

   Two documents are the same up to numeric formatting when

     mappings   they have the same keys once the members whose value is null are left out ("a null member is
                an absent member"), in any order, and the values under each key are the same up to numeric
                formatting;
     lists      same length, items pairwise the same up to numeric formatting;
     scalars    equal; or both read as the same finite number — an int, a float (a decimal m * 10^e), a text
                that decimal.Decimal reads as a finite number ("5", "5.0", " 5e0 "), a bool (Python's bool is
                the int subclass {0, 1}); or a bool against the text Python's str() makes of it
                ("True" / "False": what a non-strict string field stores when it is given a bool; in that
                pairing the numeric reading is NOT tried: True against "1" is a difference).

   Nothing else is identified: a list is never a mapping, null is only null, a number is never a container. *)
From Coq Require Import List NArith ZArith Bool String.
Import ListNotations.
Require Import OJD.Base OJD.Json OJD.Numerals OJD.CreateJob OJD.Schema.
Local Open Scope list_scope.

(* str(True) / str(False) *)
Definition py_str_bool (b : bool) : str := if b then $"True" else $"False".

(* the finite number a scalar reads as, if any (harness: as_number) *)
Definition as_num (j : json) : option num :=
  match j with
  | JBool b => Some (num_of_Z (if b then 1 else 0)%Z)
  | JInt z => Some (num_of_Z z)
  | JDec m e => Some (mkNum m e)
  | JStr s => match parse_dec s with Some (Fin m e) => Some (mkNum m e) | _ => None end
  | _ => None
  end.

(* a bool facing a text: decided by the text alone *)
Definition bool_vs_str (a b : json) : bool :=
  match a, b with
  | JBool _, JStr _ | JStr _, JBool _ => true
  | _, _ => false
  end.

(* dict.get(k) with "null = absent" *)
Definition jlook (k : str) (ms : list (str * json)) : option json :=
  match assoc k ms with
  | Some JNull | None => None
  | Some v => Some v
  end.

Inductive jequiv : json -> json -> Prop :=
| JE_null : jequiv JNull JNull
| JE_bool : forall b, jequiv (JBool b) (JBool b)
| JE_str : forall s, jequiv (JStr s) (JStr s)
| JE_bool_str : forall b, jequiv (JBool b) (JStr (py_str_bool b))
| JE_str_bool : forall b, jequiv (JStr (py_str_bool b)) (JBool b)
| JE_num : forall a b x y,
    as_num a = Some x -> as_num b = Some y -> num_eqb x y = true -> bool_vs_str a b = false ->
    jequiv a b
| JE_arr : forall l l', Forall2 jequiv l l' -> jequiv (JArr l) (JArr l')
| JE_obj : forall ms ms',
    (forall k, jlook k ms = None <-> jlook k ms' = None) ->
    (forall k v v', jlook k ms = Some v -> jlook k ms' = Some v' -> jequiv v v') ->
    jequiv (JObj ms) (JObj ms').

(* ------------------------------------------------------------------------------------------------------ *)
(* the same as a function (harness/c17.py, [equiv], clause by clause); ExportFaithfulDec.v: it decides [jequiv] *)

Definition num_equivb (a b : json) : bool :=
  match as_num a, as_num b with
  | Some x, Some y => num_eqb x y
  | _, _ => false
  end.

(* two values that are not both lists / both mappings *)
Definition scalar_equivb (a b : json) : bool :=
  match a, b with
  | JNull, JNull => true
  | JBool x, JStr s | JStr s, JBool x => str_eqb s (py_str_bool x)
  | JStr s, JStr t => str_eqb s t || num_equivb a b
  | _, _ => num_equivb a b
  end.

Definition all2b {A B : Type} (f : A -> B -> bool) : list A -> list B -> bool :=
  fix go (l : list A) (l' : list B) : bool :=
    match l, l' with
    | [], [] => true
    | x :: r, y :: r' => f x y && go r r'
    | _, _ => false
    end.

Definition live (k : str) (ms : list (str * json)) : bool :=
  match jlook k ms with Some _ => true | None => false end.

Fixpoint jequivb (a b : json) {struct a} : bool :=
  match a, b with
  | JArr l, JArr l' => all2b jequivb l l'
  | JObj ms, JObj ms' =>
    forallb (fun kv' => is_null (snd kv') || live (fst kv') ms) ms'
    && forallb (fun kv => is_null (snd kv)
                          || match jlook (fst kv) ms' with
                             | Some v' => jequivb (snd kv) v'
                             | None => false
                             end) ms
  | _, _ => scalar_equivb a b
  end.
