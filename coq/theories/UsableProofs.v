(* UsableProofs.v — every Job create_job_full returns for an accepted template is usable.

   Assembly:
     * UsableTrace.job_shape: the instantiated tree has one step per template step, same names and
       dependencies, parameter spaces of the right shape, and the template passed job_template_ok;
     * coerce_job = coerce_all (the fuel suffices: instantiate_model does not deepen the tree) keeps names,
       dependencies and the shape of the spaces, and turns the numbers of range lists into strings;
     * nodes_ok = Ok true: every node of the returned Job is accepted by its own class, hence
       UsableSpace.shape_usable for every parameter space;
     * the Job's graph ([job_graph]) is the template's position graph (Validators.dep_job), which is
       well named and acyclic (AcceptRules.deps_rule_iff), so C15 gives the order. *)
From Coq Require Import List NArith ZArith Bool String Lia Permutation.
Import ListNotations.
Require Import OJD.Base OJD.Lexer OJD.Json OJD.Schema OJD.Generated OJD.CreateJob OJD.CreateJobProofs
               OJD.Parse OJD.Validators OJD.Accept OJD.Export OJD.WF OJD.AcceptRules OJD.AcceptDeps
               OJD.DepGraph OJD.DepGraphSpec OJD.DepGraphProofs OJD.CreateJobNoRT
               OJD.CreateJobFull OJD.CreateJobFullProofs
               OJD.UsableGlue OJD.UsableSpec OJD.UsableShape OJD.UsableSpace OJD.UsableTrace.
Local Open Scope string_scope.
Local Open Scope list_scope.

(* ------------------------------------------------------------------ subnodes *)
Lemma subnode_trans : forall a b c, subnode a b -> subnode b c -> subnode a c.
Proof.
  intros a b c H. induction H as [v|l x w Hx _ IH|l kv w Hkv _ IH|cl fs fv w Hfv _ IH]; intros Hc.
  - exact Hc.
  - exact (Sub_list l x c Hx (IH Hc)).
  - exact (Sub_dict l kv c Hkv (IH Hc)).
  - exact (Sub_model cl fs fv c Hfv (IH Hc)).
Qed.

Lemma lookup_s_in : forall (A : Type) k (l : list (string * A)) v, lookup_s k l = Some v -> exists k', In (k', v) l.
Proof.
  intros A k. induction l as [|[n x] r IH]; intros v H; [discriminate H|].
  cbn [lookup_s] in H. destruct (String.eqb n k).
  - injection H as <-. exists n. left. reflexivity.
  - destruct (IH v H) as [k' Hk']. exists k'. right. exact Hk'.
Qed.

Lemma subnode_mfield : forall v k x, mfield k (model_fields v) = x -> x <> MNone -> subnode v x.
Proof.
  intros v k x H Hn. unfold mfield in H.
  destruct (lookup_s k (model_fields v)) as [y|] eqn:E; [|subst x; contradiction]. subst y.
  destruct v as [ | | | | | | | | |c fs]; try discriminate E. cbn [model_fields] in E.
  destruct (lookup_s_in _ _ _ _ E) as [k' Hin].
  apply (Sub_model c fs (k', x)); [exact Hin|apply Sub_refl].
Qed.

Lemma subnode_mitems : forall v x, In x (mitems v) -> subnode v x.
Proof.
  intros v x H. destruct v as [ | | | | | | |l| | ]; try destruct H.
  apply (Sub_list l x); [exact H|apply Sub_refl].
Qed.

(* ------------------------------------------------------------------ the graph read from the steps *)
Definition steps_graph (steps : mval) : DepGraph.job :=
  map (fun st => (step_number steps (step_name st), map (step_number steps) (dep_names st))) (mitems steps).

Lemma map_snd_combine : forall (A B : Type) (l1 : list A) (l2 : list B),
  List.length l1 = List.length l2 -> map snd (combine l1 l2) = l2.
Proof.
  induction l1 as [|a l1 IH]; intros [|b l2] H; cbn in *; try discriminate; [reflexivity|].
  f_equal. apply IH. lia.
Qed.

(* with pairwise distinct step names, a step's number is its position: the validator's graph *)
Lemma steps_graph_dep_job : forall steps, NoDup (names_of steps) -> steps_graph steps = dep_job steps.
Proof.
  intros steps ND. unfold steps_graph, dep_job.
  rewrite names_of_length.
  rewrite <- (map_snd_combine _ _ (seq 0 (List.length (mitems steps))) (mitems steps)) at 1 by apply seq_length.
  rewrite map_map. apply map_ext_in. intros [i st] Hin. cbn [fst snd].
  apply combine_seq_fwd in Hin. destruct Hin as [_ Hn]. rewrite Nat.sub_0_r in Hn.
  f_equal.
  - unfold step_number. apply (idx_at steps ND i). unfold names_of. unfold step_name.
    apply (map_nth_error (fun m => mstr (fget "name" (model_fields m)))). exact Hn.
  - apply map_ext. intros d. unfold step_number. rewrite names_of_length. reflexivity.
Qed.

Lemma steps_graph_ext : forall (R : mval -> mval -> Prop) l l',
  (forall m y, R m y -> step_name y = step_name m /\ dep_names y = dep_names m) ->
  Forall2 R l l' -> steps_graph (MList l') = steps_graph (MList l).
Proof.
  intros R l l' HR HF.
  assert (Hnames : names_of (MList l') = names_of (MList l)).
  { unfold names_of. cbn [mitems]. clear - HR HF. induction HF as [|m y l l' Hmy _ IH]; [reflexivity|].
    cbn [map]. rewrite IH. f_equal. exact (proj1 (HR m y Hmy)). }
  unfold steps_graph. cbn [mitems].
  assert (Hnum : forall d, step_number (MList l') d = step_number (MList l) d).
  { intros d. unfold step_number. rewrite Hnames. reflexivity. }
  clear Hnames. generalize dependent (step_number (MList l')). generalize (step_number (MList l)).
  intros num num' Hnum. induction HF as [|m y l0 l0' Hmy _ IH]; [reflexivity|].
  cbn [map]. destruct (HR m y Hmy) as [E1 E2]. rewrite E1, E2, Hnum. f_equal; [|exact IH].
  f_equal. apply map_ext. exact Hnum.
Qed.

(* C15 on a graph that passed the template's dependency rule *)
Lemma deps_rule_graph : forall steps, DepsRule steps ->
  let g := dep_job steps in
  well_named g /\
  exists gr order,
    build g = Ok gr /\ topo gr = Ok order /\
    Permutation order (DepGraphSpec.names g) /\
    (forall n d, In d (deps_of g n) -> before d n order) /\
    order = stable_order g.
Proof.
  intros steps [ND [Hc Ha]] g.
  assert (Hw : well_named g) by (split; [apply dep_job_nodup|apply dep_job_closed; exact Hc]).
  split; [exact Hw|].
  destruct (edges_exact g Hw) as [gr [Hb _]].
  destruct (topo_valid_order g gr Hw Hb Ha) as [order [Ht [Hp Hbefore]]].
  exists gr, order. split; [exact Hb|]. split; [exact Ht|]. split; [exact Hp|]. split; [exact Hbefore|].
  pose proof (topo_stable_order g gr Hw Hb Ha) as Hs. rewrite Ht in Hs. injection Hs as ->. reflexivity.
Qed.

(* ------------------------------------------------------------------ the theorem *)
Theorem create_job_full_usable : forall classify j t envs vals job,
  decode_job classify j = Ok t -> accepted_envs classify envs ->
  create_job_full classify envs t vals = Ok job ->
  usable_job classify job.
Proof.
  intros classify j t envs vals job Hd _ H. unfold create_job_full in H.
  destruct (prep_full envs t vals) as [pvals|e]; cbn [bind] in H; [|discriminate H].
  destruct (inst Generated.schema (fs_resolve classify) (symtab_of pvals) (S (mval_depth t)) t) as [job0|e] eqn:Ei;
    [|destruct e; discriminate H].
  cbv zeta in H.
  destruct (nodes_ok classify (S (S (S (mval_depth t)))) (coerce_job (S (mval_depth t)) job0)) as [[|]|e] eqn:En; try discriminate H.
  assert (Ejob : coerce_job (S (mval_depth t)) job0 = job) by (injection H as E; exact E).
  clear H. subst job.
  (* the instantiated tree *)
  destruct (job_shape classify (fs_resolve classify) (symtab_of pvals) j t (S (mval_depth t)) job0 Hd (Nat.lt_succ_diag_r _) Ei)
    as [fs_t [l [fs_j [l' [Et [Hsteps_t [Hok [Ej [Hsteps_j HF]]]]]]]]].
  assert (Ec : coerce_job (S (mval_depth t)) job0 = coerce_all job0).
  { apply coerce_job_all. pose proof (inst_depth _ _ _ _ _ _ Ei). lia. }
  rewrite Ec in *. clear Ec.
  subst job0. rewrite coerce_all_model in *.
  set (job := MModel "Job" (coerce_fields fs_j)) in *.
  assert (Hsv : job_steps_val job = MList (map coerce_all l')).
  { unfold job_steps_val, job. cbn [model_fields]. rewrite mfield_coerce by reflexivity. rewrite Hsteps_j. reflexivity. }
  assert (Hacc : forall w, subnode job w -> node_accepted classify w)
    by (exact (nodes_ok_accepted classify _ job En)).
  split; [|split].
  - (* a Job with a list of steps *)
    exists (coerce_fields fs_j), (map coerce_all l'). split; [reflexivity|exact Hsv].
  - (* every parameter space *)
    intros st Hst. unfold job_steps in Hst. rewrite Hsv in Hst. cbn [mitems] in Hst.
    apply in_map_iff in Hst. destruct Hst as [y [<- Hy]].
    assert (Hrel : exists m, step_rel classify m y).
    { clear - HF Hy. induction HF as [|m y0 l l' Hr _ IH]; [destruct Hy|].
      destruct Hy as [<-|Hy]; [exists m; exact Hr|exact (IH Hy)]. }
    destruct Hrel as [m [_ [_ Hsp]]].
    rewrite step_space_coerce. destruct Hsp as [E|Hshape].
    + rewrite E. apply none_usable.
    + apply shape_usable; [apply space_shape_coerce; exact Hshape|].
      intros w Hw. apply Hacc.
      assert (Hsub : subnode job (coerce_all (step_space y))).
      { apply (subnode_trans _ (job_steps_val job)).
        - apply (subnode_mfield job "steps"); [reflexivity|]. rewrite Hsv. discriminate.
        - rewrite Hsv. apply (subnode_trans _ (coerce_all y)).
          + apply subnode_mitems. cbn [mitems]. apply in_map. exact Hy.
          + rewrite <- step_space_coerce. apply (subnode_mfield _ "parameterSpace"); [reflexivity|].
            rewrite step_space_coerce. destruct Hshape as [kys [cb [-> _]]]. discriminate. }
      exact (subnode_trans _ _ _ Hsub Hw).
  - (* the graph *)
    unfold usable_graph.
    assert (Eg : job_graph job = dep_job (MList l)).
    { change (job_graph job) with (steps_graph (job_steps_val job)). rewrite Hsv.
      assert (Hrule : DepsRule (MList l)).
      { apply (job_template_rule_iff classify) in Hok. destruct Hok as [Hdr _]. rewrite Hsteps_t in Hdr. exact Hdr. }
      rewrite <- (steps_graph_dep_job (MList l) (proj1 Hrule)).
      apply (steps_graph_ext (fun m y' => exists y, y' = coerce_all y /\ step_rel classify m y)).
      - intros m y' [y [-> [E1 [E2 _]]]]. rewrite step_name_coerce, dep_names_coerce. split; assumption.
      - clear - HF. induction HF as [|m y l l' Hr _ IH]; [constructor|]. cbn [map]. constructor; [|exact IH].
        exists y. split; [reflexivity|exact Hr]. }
    rewrite Eg. apply deps_rule_graph.
    apply (job_template_rule_iff classify) in Hok. destruct Hok as [Hdr _]. rewrite Hsteps_t in Hdr. exact Hdr.
Qed.

(* the property's ending in one statement: a usable Job, or DecodeValidationError *)
Theorem create_job_full_total_usable : forall classify j t envs vals,
  decode_job classify j = Ok t -> accepted_envs classify envs ->
  (exists job, create_job_full classify envs t vals = Ok job /\ usable_job classify job) \/
  create_job_full classify envs t vals = Raise DecodeValidationError.
Proof.
  intros classify j t envs vals Hd He.
  destruct (create_job_full_total classify j t envs vals Hd He) as [[job Hj]|Hr]; [left|right; exact Hr].
  exists job. split; [exact Hj|]. exact (create_job_full_usable classify j t envs vals job Hd He Hj).
Qed.

(* the same from the raw documents *)
Theorem create_job_docs_usable : forall classify env_docs doc vals out,
  create_job_docs classify env_docs doc vals = Ok (Ok out) ->
  exists job, usable_job classify job /\ out = export job.
Proof.
  intros classify env_docs doc vals out H. unfold create_job_docs in H.
  destruct (decode_job classify doc) as [t|e0] eqn:Ed; cbn [bind] in H; [|discriminate H].
  destruct (mapM (decode_env classify) env_docs) as [envs|e1] eqn:Ee; cbn [bind] in H; [|discriminate H].
  destruct (create_job_full classify envs t vals) as [job|e2] eqn:Ec; [|discriminate H].
  exists job. split; [|congruence].
  exact (create_job_full_usable classify doc t envs vals job Ed (mapM_decode_envs _ _ _ Ee) Ec).
Qed.
