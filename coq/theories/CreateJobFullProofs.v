(* CreateJobFullProofs.v — lemmas behind props/C06x.v:
     1. what the acceptance model puts into the fields of a decoded instance (a shape per field kind);
     2. [pdef_of_mval] succeeds on every decoded job parameter definition, gives a well-formed default
        text and the name instantiate_model looks up; hence [defs_of_template] is total on accepted
        job / environment templates;
     3. grouping + merging: only CompatibilityError, and every definition's name survives;
     4. preprocessing: only ValueError, and every definition has a value afterwards;
     5. the composition [create_job_full]: DecodeValidationError, or RuntimeError of the job-side
        re-validation (outside the modelled pydantic domain); nothing else;
     6. with CreateJobNoRT.v (that re-validation never leaves the domain): DecodeValidationError only. *)
From Coq Require Import List NArith ZArith Bool String Lia.
Import ListNotations.
Require Import OJD.Base OJD.Lexer OJD.Json OJD.Schema OJD.Generated OJD.Charsets OJD.Numerals OJD.NumPrint OJD.NumRoundtrip
               OJD.FormatStr OJD.CreateJob OJD.CreateJobProofs OJD.Parse OJD.Validators OJD.Accept OJD.AcceptMono
               OJD.Export OJD.GlueLib OJD.ParseOutcomes OJD.CreateExn OJD.DecodeInv OJD.WellKeyed
               OJD.JobParams OJD.JobParamsProofs OJD.Merge OJD.MergeSpec OJD.MergeProofs OJD.Paths OJD.PathsProofs
               OJD.CreateJobFull OJD.NoMissingVar OJD.CreateJobNoRT.
Local Open Scope string_scope.
Local Open Scope list_scope.

(* ------------------------------------------------------------------ 1. shapes of decoded fields *)

(* the instance value a scalar kind produces (no claim for models, unions, format strings, bools, floats) *)
Definition kind_valb (k : kind) (m : mval) : bool :=
  match k with
  | KInt _ _ _ _ => match m with MInt _ => true | _ => false end
  | KDec => match m with MDec _ _ => true | _ => false end
  | KStr _ _ _ _ => match m with MStr _ => true | _ => false end
  | KLiteral lit => match m with MStr s => str_eqb s (str_of_string lit) | _ => false end
  | KEnum members => match m with MStr s => existsb (fun x => str_eqb s (str_of_string x)) members | _ => false end
  | _ => true
  end.

Definition mnone (m : mval) : bool := match m with MNone => true | _ => false end.

Definition value_valb (fl : field) (m : mval) : bool :=
  (mnone m && negb (f_required fl))
  || match f_shape fl with
     | Single => kind_valb (f_kind fl) m
     | ListOf _ _ => match m with MList l => forallb (kind_valb (f_kind fl)) l | _ => false end
     | DictOf _ => true
     end.

Lemma parse_scalar_valb : forall classify k v m, parse_scalar classify k v = Ok m -> kind_valb k m = true.
Proof.
  intros classify k v m H.
  destruct k as [lit|enum|strict lo hi cs|c lo hi cs|strict|strict ge le gt|gt| |c|key mp|alts];
    cbn [parse_scalar] in H; cbn [kind_valb]; try reflexivity.
  - destruct v as [|b|z|dm de|s|l|members]; try discriminate H.
    destruct (str_eqb s (str_of_string lit)) eqn:E; [|discriminate H]. injection H as <-. exact E.
  - destruct v as [|b|z|dm de|s|l|members]; try discriminate H.
    destruct (existsb _ enum) eqn:E; [|discriminate H]. injection H as <-. exact E.
  - destruct v as [|b|z|dm de|s|l|members]; try discriminate H; try (destruct strict; try discriminate H);
      apply check_str_ok in H; destruct H as [-> _]; reflexivity.
  - assert (F : forall z, (if zopt_ok ge le gt z then Ok (MInt z) else reject) = Ok m ->
                          match m with MInt _ => true | _ => false end = true).
    { intros z Hz. destruct (zopt_ok ge le gt z); [|discriminate Hz]. injection Hz as <-. reflexivity. }
    destruct v as [|b|z|dm de|s|l|members]; try discriminate H; try (destruct strict; try discriminate H); try (eapply F; exact H).
    + destruct (dec_integral dm de); [eapply F; exact H|discriminate H].
    + destruct (parse_int s); [eapply F; exact H|discriminate H].
  - destruct v as [|b|z|dm de|s|l|members]; try discriminate H; try (injection H as <-; reflexivity).
    destruct (parse_dec s) as [[a x|b|]|]; try discriminate H. injection H as <-. reflexivity.
Qed.

Section Typed.
  Variable SC : schema_t.
  Variable classify : N -> cclass.
  Variable pre : string -> json -> bool.
  Variable post : string -> json -> list (string * mval) -> bool.
  Notation pk := (parse_kind SC classify pre post).
  Notation pc := (parse_cls SC classify pre post).

  Lemma pk_valb : forall f k v m, pk f k v = Ok m -> kind_valb k m = true.
  Proof.
    intros f k v m H. destruct f as [|f]; [rewrite parse_kind_O in H; discriminate H|].
    rewrite parse_kind_S in H.
    destruct k as [lit|enum|strict lo hi cs|c lo hi cs|strict|strict ge le gt|gt| |c|key mp|alts];
      try reflexivity; eapply parse_scalar_valb; exact H.
  Qed.

  Lemma parse_value_valb : forall f fl raw x, parse_value (pk f) fl raw = Ok x -> value_valb fl x = true.
  Proof.
    intros f fl raw x H. unfold value_valb. unfold parse_value in H.
    assert (K : match f_shape fl with
                | Single => pk f (f_kind fl) raw
                | ListOf minl maxl => list_items (pk f) minl maxl (f_kind fl) raw
                | DictOf kk =>
                  match raw with
                  | JObj members => do l' <- mapM (dict_entry (pk f) kk (f_kind fl)) members; Ok (MDict l')
                  | _ => reject
                  end
                end = Ok x ->
                match f_shape fl with
                | Single => kind_valb (f_kind fl) x
                | ListOf _ _ => match x with MList l => forallb (kind_valb (f_kind fl)) l | _ => false end
                | DictOf _ => true
                end = true).
    { clear H. intros H. destruct (f_shape fl) as [|lo hi|kk]; [eapply pk_valb; exact H| |reflexivity].
      unfold list_items in H. destruct raw as [|b|z|a e|s|l|ms]; try discriminate H.
      destruct (len_ok_n lo hi (List.length l)); [|discriminate H].
      destruct (mapM (pk f (f_kind fl)) l) as [l'|e] eqn:Em; cbn [bind] in H; [|discriminate H].
      injection H as <-. apply forallb_forall. intros y Hy.
      destruct (mapM_ok_in _ _ _ _ _ Em y Hy) as [item [_ Hp]]. eapply pk_valb. exact Hp. }
    destruct raw; try (rewrite (K H); apply orb_true_r).
    destruct (f_required fl); [discriminate H|]. injection H as <-. reflexivity.
  Qed.

  Definition field_typed (fl : field) (fv : string * mval) : Prop :=
    fst fv = f_name fl /\ value_valb fl (snd fv) = true.

  Lemma parse_fields_typed : forall f ms fls fs,
    mapM (parse_field (pk f) ms) fls = Ok fs -> Forall2 field_typed fls fs.
  Proof.
    intros f ms. induction fls as [|fl r IH]; intros fs H.
    - injection H as <-. constructor.
    - apply mapM_cons_ok in H. destruct H as [y [ys [Hy [Hr ->]]]]. constructor; [|apply IH; exact Hr].
      unfold parse_field in Hy.
      destruct (parse_value (pk f) fl (field_raw ms fl)) as [x|e] eqn:Ev; cbn [bind] in Hy; [|discriminate Hy].
      injection Hy as <-. split; [reflexivity|]. cbn [snd]. eapply parse_value_valb. exact Ev.
  Qed.

  Theorem parse_cls_typed : forall f c v y, pc f c v = Ok y ->
    exists c0 fs, lookup_cls SC c = Some c0 /\ y = MModel c fs /\ Forall2 field_typed (c_fields c0) fs.
  Proof.
    intros f c v y H. destruct f as [|f]; [rewrite parse_cls_O in H; discriminate H|].
    rewrite parse_cls_S in H.
    destruct (lookup_cls SC c) as [c0|] eqn:El; [|discriminate H].
    destruct v as [|b|z|a e|s|l|ms]; try discriminate H.
    destruct (negb (pre c (JObj ms))); [discriminate H|].
    destruct (extra_bad c0 ms); [discriminate H|].
    destruct (mapM (parse_field (pk f) ms) (c_fields c0)) as [fields|e'] eqn:Em; cbn [bind] in H; [|discriminate H].
    destruct (post c (JObj ms) fields); [|discriminate H]. injection H as <-.
    exists c0, fields. split; [reflexivity|]. split; [reflexivity|]. eapply parse_fields_typed. exact Em.
  Qed.
End Typed.

(* ------------------------------------------------------------------ 2. reading the decoded definitions *)

Lemma rd_opt_single : forall (A : Type) (f : mval -> option A) (P : A -> Prop) k x,
  mnone x || kind_valb k x = true ->
  (forall m, kind_valb k m = true -> m <> MNone -> exists a, f m = Some a /\ P a) ->
  exists r, rd_opt f x = Ok r /\ (forall a, r = Some a -> P a).
Proof.
  intros A f P k x H Hf.
  destruct (mnone x) eqn:En.
  - destruct x; try discriminate En. exists None. split; [reflexivity|]. intros a Ha. discriminate Ha.
  - cbn [orb] in H. destruct (Hf x H) as [a [Ha Pa]]; [intros ->; discriminate En|].
    exists (Some a). split.
    + unfold rd_opt. destruct x; try discriminate En; rewrite Ha; reflexivity.
    + intros a' E. injection E as <-. exact Pa.
Qed.

Lemma opt_list_total : forall (A : Type) (f : mval -> option A) l,
  (forall m, In m l -> exists a, f m = Some a) -> exists r, opt_list (map f l) = Some r.
Proof.
  intros A f. induction l as [|m r IH]; intros H; [exists []; reflexivity|].
  destruct (H m (or_introl eq_refl)) as [a Ha]. destruct IH as [rs Hrs]; [intros m' Hm'; apply H; right; exact Hm'|].
  exists (a :: rs). cbn [map opt_list]. rewrite Ha, Hrs. reflexivity.
Qed.

Lemma rd_opt_list : forall (A : Type) (f : mval -> option A) k x,
  mnone x || match x with MList l => forallb (kind_valb k) l | _ => false end = true ->
  (forall m, kind_valb k m = true -> exists a, f m = Some a) ->
  exists r, rd_opt (as_list f) x = Ok r.
Proof.
  intros A f k x H Hf.
  destruct x as [ | | | | | | |l| | ]; cbn [mnone orb] in H; try discriminate H.
  - exists None. reflexivity.
  - destruct (opt_list_total A f l) as [r Hr].
    { intros m Hm. apply Hf. rewrite forallb_forall in H. apply H. exact Hm. }
    exists (Some r). unfold rd_opt, as_list. rewrite Hr. reflexivity.
Qed.

Lemma kv_int : forall st ge le gt m, kind_valb (KInt st ge le gt) m = true -> exists z, m = MInt z.
Proof. intros st ge le gt m H. destruct m; try discriminate H. eexists. reflexivity. Qed.
Lemma kv_dec : forall m, kind_valb KDec m = true -> exists a e, m = MDec a e.
Proof. intros m H. destruct m; try discriminate H. eexists. eexists. reflexivity. Qed.
Lemma kv_str : forall st lo hi cs m, kind_valb (KStr st lo hi cs) m = true -> exists s, m = MStr s.
Proof. intros st lo hi cs m H. destruct m; try discriminate H. eexists. reflexivity. Qed.
Lemma kv_lit : forall lit m, kind_valb (KLiteral lit) m = true -> m = MStr (str_of_string lit).
Proof. intros lit m H. destruct m; try discriminate H. cbn [kind_valb] in H. apply gl_str_eqb_eq in H. subst. reflexivity. Qed.

Definition wf_name (d : pdef) (fs : list (string * mval)) : Prop := mfield "name" fs = MStr (pname d).

(* Forall2 field_typed (concrete field list) fs  ->  fs is a concrete list of (name, variable) pairs *)
Ltac invert_fields H :=
  repeat match type of H with
         | Forall2 _ (_ :: _) _ =>
           let fv := fresh "fv" in let r := fresh "r" in let Hf := fresh "Hf" in let Hr := fresh "Hr" in
           inversion H as [|? fv ? r Hf Hr]; subst; clear H; rename Hr into H;
           destruct fv as [? ?]; destruct Hf as [? Hf]; cbn [fst snd] in *; subst
         | Forall2 _ [] _ => inversion H; subst; clear H
         end;
  cbn [f_name] in *;
  repeat match goal with
         | Hv : value_valb _ _ = true |- _ =>
           unfold value_valb in Hv; cbn [f_required f_shape f_kind negb] in Hv;
           rewrite ?andb_false_r, ?andb_true_r in Hv; cbn [orb] in Hv
         end.

(* one `do r <- rd_opt f x; ...` step of pdef_of_fields: [P] is what is recorded about the value read *)
Ltac step_single P tac r Hr :=
  match goal with
  | |- exists d, bind (rd_opt ?f ?x) _ = Ok d /\ _ =>
    match goal with
    | Hx : mnone x || kind_valb _ x = true |- _ =>
      let E := fresh "E" in
      destruct (rd_opt_single _ f P _ _ Hx) as [r [E Hr]]; [tac | rewrite E; cbn [bind]; clear Hx E]
    end
  end.

Ltac step_list tac r :=
  match goal with
  | |- exists d, bind (rd_opt (as_list ?f) ?x) _ = Ok d /\ _ =>
    match goal with
    | Hx : mnone x || _ = true |- _ =>
      let E := fresh "E" in
      destruct (rd_opt_list _ f _ _ Hx) as [r E]; [tac | rewrite E; cbn [bind]; clear Hx E]
    end
  end.

Lemma num_int_ok : forall m, kind_valb (KInt false None None None) m = true -> m <> MNone ->
  exists a, as_num INT m = Some a /\ True.
Proof. intros m H _. apply kv_int in H. destruct H as [z ->]. eexists. split; [reflexivity|exact I]. Qed.
Lemma num_int_ok' : forall m, kind_valb (KInt false None None None) m = true -> exists a, as_num INT m = Some a.
Proof. intros m H. apply kv_int in H. destruct H as [z ->]. eexists. reflexivity. Qed.
Lemma num_dec_ok : forall m, kind_valb KDec m = true -> m <> MNone -> exists a, as_num FLOAT m = Some a /\ True.
Proof. intros m H _. apply kv_dec in H. destruct H as [a [e ->]]. eexists. split; [reflexivity|exact I]. Qed.
Lemma num_dec_ok' : forall m, kind_valb KDec m = true -> exists a, as_num FLOAT m = Some a.
Proof. intros m H. apply kv_dec in H. destruct H as [a [e ->]]. eexists. reflexivity. Qed.
Lemma len_ok_int : forall m, kind_valb (KInt true None None None) m = true -> m <> MNone -> exists a, as_int m = Some a /\ True.
Proof. intros m H _. apply kv_int in H. destruct H as [z ->]. eexists. split; [reflexivity|exact I]. Qed.
Lemma str_ok' : forall st lo hi cs m, kind_valb (KStr st lo hi cs) m = true -> exists a, as_str m = Some a.
Proof. intros st lo hi cs m H. apply kv_str in H. destruct H as [s ->]. eexists. reflexivity. Qed.

Lemma text_int_ok : forall m, kind_valb (KInt false None None None) m = true -> m <> MNone ->
  exists a, as_text INT m = Some a /\ (exists x, default_num INT a = Some x).
Proof.
  intros m H _. apply kv_int in H. destruct H as [z ->]. exists (print_Z z). split; [reflexivity|].
  unfold default_num. rewrite parse_int_print_Z. eexists. reflexivity.
Qed.

Lemma text_dec_ok : forall m, kind_valb KDec m = true -> m <> MNone ->
  exists a, as_text FLOAT m = Some a /\ (exists x, default_num FLOAT a = Some x).
Proof.
  intros m H _. apply kv_dec in H. destruct H as [a [e ->]]. exists (print_dec a e). split; [reflexivity|].
  unfold default_num. rewrite parse_dec_print_dec. eexists. reflexivity.
Qed.

Lemma text_str_ok : forall t st lo hi cs, t = STRING \/ t = PATH ->
  forall m, kind_valb (KStr st lo hi cs) m = true -> m <> MNone -> exists a, as_text t m = Some a /\ True.
Proof.
  intros t st lo hi cs Ht m H _. apply kv_str in H. destruct H as [s ->].
  destruct Ht as [-> | ->]; eexists; (split; [reflexivity|exact I]).
Qed.

Lemma objtype_ok : forall m, kind_valb (KEnum ["FILE"; "DIRECTORY"]) m = true -> m <> MNone ->
  exists a, as_objtype m = Some a /\ True.
Proof.
  intros m H _. destruct m; try discriminate H. cbn [kind_valb existsb] in H. unfold as_objtype.
  destruct (str_eqb s $"FILE"); [eexists; split; [reflexivity|exact I]|].
  destruct (str_eqb s $"DIRECTORY"); [eexists; split; [reflexivity|exact I]|]. discriminate H.
Qed.

Lemma dataflow_ok : forall m, kind_valb (KEnum ["NONE"; "IN"; "OUT"; "INOUT"]) m = true -> m <> MNone ->
  exists a, as_dataflow m = Some a /\ True.
Proof.
  intros m H _. destruct m; try discriminate H. cbn [kind_valb existsb] in H. unfold as_dataflow.
  destruct (str_eqb s $"NONE"); [eexists; split; [reflexivity|exact I]|].
  destruct (str_eqb s $"IN"); [eexists; split; [reflexivity|exact I]|].
  destruct (str_eqb s $"OUT"); [eexists; split; [reflexivity|exact I]|].
  destruct (str_eqb s $"INOUT"); [eexists; split; [reflexivity|exact I]|]. discriminate H.
Qed.

Section Defs.
  Variable classify : N -> cclass.
  Notation pk := (parse_kind Generated.schema classify pre_hook (post_hook classify)).
  Notation pc := (parse_cls Generated.schema classify pre_hook (post_hook classify)).

  Definition def_read (c : string) (y : mval) : Prop :=
    exists fs d, y = MModel c fs /\ pdef_of_fields fs = Ok d /\ wf_name d fs /\ wf_default d.

  (* common opening: the decoded instance has the class's fields, in order, each of its kind's shape *)
  Ltac open_def H :=
    apply parse_cls_typed in H;
    let c0 := fresh "c0" in let fs := fresh "fs" in let El := fresh "El" in let HF := fresh "HF" in
    destruct H as [c0 [fs [El [-> HF]]]];
    vm_compute in El; injection El as <-; cbn [c_fields] in HF;
    invert_fields HF;
    match goal with
    | |- def_read _ (MModel _ ?l) =>
      unfold def_read; exists l;
      cut (exists d, pdef_of_fields l = Ok d /\ wf_name d l /\ wf_default d);
      [let d := fresh "d" in let Hd := fresh "Hd" in intros [d Hd]; exists d; split; [reflexivity|exact Hd]|]
    end.

  Lemma int_def_pdef : forall f ims y, pc f "JobIntParameterDefinition" (JObj ims) = Ok y ->
    def_read "JobIntParameterDefinition" y.
  Proof.
    intros f ims y H. open_def H.
    match goal with Hn : kind_valb (KStr _ _ _ CS_identifier) _ = true |- _ => apply kv_str in Hn; destruct Hn as [n ->] end.
    match goal with Ht : kind_valb (KLiteral _) _ = true |- _ => apply kv_lit in Ht; subst end.
    unfold pdef_of_fields, wf_name. cbn [mfield lookup_s String.eqb Ascii.eqb Bool.eqb].
    change (ptype_of_str (str_of_string "INT")) with (Some INT). cbv iota. cbn [is_numeric].
    step_single (fun a => exists q, default_num INT a = Some q) ltac:(exact text_int_ok) df Hdf.
    step_single (fun _ : num => True) ltac:(exact num_int_ok) mn Hmn.
    step_single (fun _ : num => True) ltac:(exact num_int_ok) mx Hmx.
    step_list ltac:(exact num_int_ok') al.
    eexists. split; [reflexivity|]. split; [reflexivity|].
    intros _ t Ht. cbn [pdefault ptyp] in *. apply Hdf. exact Ht.
  Qed.

  Lemma float_def_pdef : forall f ims y, pc f "JobFloatParameterDefinition" (JObj ims) = Ok y ->
    def_read "JobFloatParameterDefinition" y.
  Proof.
    intros f ims y H. open_def H.
    match goal with Hn : kind_valb (KStr _ _ _ CS_identifier) _ = true |- _ => apply kv_str in Hn; destruct Hn as [n ->] end.
    match goal with Ht : kind_valb (KLiteral _) _ = true |- _ => apply kv_lit in Ht; subst end.
    unfold pdef_of_fields, wf_name. cbn [mfield lookup_s String.eqb Ascii.eqb Bool.eqb].
    change (ptype_of_str (str_of_string "FLOAT")) with (Some FLOAT). cbv iota. cbn [is_numeric].
    step_single (fun a => exists q, default_num FLOAT a = Some q) ltac:(exact text_dec_ok) df Hdf.
    step_single (fun _ : num => True) ltac:(exact num_dec_ok) mn Hmn.
    step_single (fun _ : num => True) ltac:(exact num_dec_ok) mx Hmx.
    step_list ltac:(exact num_dec_ok') al.
    eexists. split; [reflexivity|]. split; [reflexivity|].
    intros _ t Ht. cbn [pdefault ptyp] in *. apply Hdf. exact Ht.
  Qed.

  Lemma string_def_pdef : forall f ims y, pc f "JobStringParameterDefinition" (JObj ims) = Ok y ->
    def_read "JobStringParameterDefinition" y.
  Proof.
    intros f ims y H. open_def H.
    match goal with Hn : kind_valb (KStr _ _ _ CS_identifier) _ = true |- _ => apply kv_str in Hn; destruct Hn as [n ->] end.
    match goal with Ht : kind_valb (KLiteral _) _ = true |- _ => apply kv_lit in Ht; subst end.
    unfold pdef_of_fields, wf_name. cbn [mfield lookup_s String.eqb Ascii.eqb Bool.eqb].
    change (ptype_of_str (str_of_string "STRING")) with (Some STRING). cbv iota. cbn [is_numeric ptype_eqb].
    step_single (fun _ : str => True) ltac:(apply (text_str_ok STRING); left; reflexivity) df Hdf.
    step_single (fun _ : Z => True) ltac:(exact len_ok_int) mn Hmn.
    step_single (fun _ : Z => True) ltac:(exact len_ok_int) mx Hmx.
    step_list ltac:(apply str_ok') al.
    eexists. split; [reflexivity|]. split; [reflexivity|].
    intros Hnum. discriminate Hnum.
  Qed.

  Lemma path_def_pdef : forall f ims y, pc f "JobPathParameterDefinition" (JObj ims) = Ok y ->
    def_read "JobPathParameterDefinition" y.
  Proof.
    intros f ims y H. open_def H.
    match goal with Hn : kind_valb (KStr _ _ _ CS_identifier) _ = true |- _ => apply kv_str in Hn; destruct Hn as [n ->] end.
    match goal with Ht : kind_valb (KLiteral _) _ = true |- _ => apply kv_lit in Ht; subst end.
    unfold pdef_of_fields, wf_name. cbn [mfield lookup_s String.eqb Ascii.eqb Bool.eqb].
    change (ptype_of_str (str_of_string "PATH")) with (Some PATH). cbv iota. cbn [is_numeric ptype_eqb].
    step_single (fun _ : str => True) ltac:(apply (text_str_ok PATH); right; reflexivity) df Hdf.
    step_single (fun _ : Z => True) ltac:(exact len_ok_int) mn Hmn.
    step_single (fun _ : Z => True) ltac:(exact len_ok_int) mx Hmx.
    step_list ltac:(apply str_ok') al.
    step_single (fun _ : objtype => True) ltac:(exact objtype_ok) ot Hot.
    step_single (fun _ : dataflow => True) ltac:(exact dataflow_ok) fl Hfl.
    eexists. split; [reflexivity|]. split; [reflexivity|].
    intros Hnum. discriminate Hnum.
  Qed.

  (* ---------------- any of the four classes: the record, its default text, the name create_job looks up *)
  Lemma param_def_pdef : forall c', In c' param_classes -> forall f ims y, pc f c' (JObj ims) = Ok y ->
    exists d, pdef_of_mval y = Ok d /\ wf_default d /\ adds_names Generated.schema y = [pname d].
  Proof.
    intros c' Hin f ims y H.
    destruct (param_def_inv classify c' Hin f ims y H) as [c [r [_ Ha]]].
    assert (Ej : j_adds_value (jcm_of Generated.schema c') = true).
    { unfold param_classes in Hin. destruct Hin as [<-|[<-|[<-|[<-|[]]]]]; vm_compute; reflexivity. }
    assert (R : def_read c' y).
    { unfold param_classes in Hin. destruct Hin as [<-|[<-|[<-|[<-|[]]]]].
      - eapply int_def_pdef; exact H.
      - eapply float_def_pdef; exact H.
      - eapply string_def_pdef; exact H.
      - eapply path_def_pdef; exact H. }
    destruct R as [fs [d [-> [Hp [Hn Hw]]]]]. exists d. split; [exact Hp|]. split; [exact Hw|].
    unfold wf_name in Hn. cbn [adds_names] in *. rewrite Hn, Ej in *. cbn [app] in *.
    injection Ha as _ E2. rewrite E2. reflexivity.
  Qed.

  Definition params_kind : kind :=
    KDisc "type" [("INT", "JobIntParameterDefinition"); ("FLOAT", "JobFloatParameterDefinition");
                  ("STRING", "JobStringParameterDefinition"); ("PATH", "JobPathParameterDefinition")].

  Lemma disc_param_pdef : forall f item y, pk f params_kind item = Ok y ->
    exists d, pdef_of_mval y = Ok d /\ wf_default d /\ adds_names Generated.schema y = [pname d].
  Proof.
    intros f item y H. destruct f as [|f]; [discriminate H|]. unfold params_kind in H. rewrite parse_kind_S in H. unfold disc_res in H.
    destruct item as [| | | | | |ims]; try discriminate H.
    destruct (assoc (str_of_string "type") ims) as [[| | | |s| |]|] eqn:Ea; try discriminate H.
    destruct (List.find _ _) as [[k' c']|] eqn:Ef; [|discriminate H].
    apply find_some in Ef. destruct Ef as [Hin _].
    assert (Hc : In c' param_classes).
    { destruct Hin as [E|[E|[E|[E|[]]]]]; injection E as <- <-; vm_compute; tauto. }
    exact (param_def_pdef c' Hc f ims y H).
  Qed.

  Lemma params_items_defs : forall f items l', mapM (pk f params_kind) items = Ok l' ->
    exists ds, mapM pdef_of_mval l' = Ok ds /\ Forall wf_default ds /\
               flat_map (adds_names Generated.schema) l' = map pname ds.
  Proof.
    intros f. induction items as [|item r IH]; intros l' H.
    - injection H as <-. exists []. split; [reflexivity|]. split; [constructor|reflexivity].
    - apply mapM_cons_ok in H. destruct H as [y [ys [Hy [Hr ->]]]].
      destruct (disc_param_pdef f item y Hy) as [d [Hd [Hw Ha]]].
      destruct (IH ys Hr) as [ds [Hds [Hws Has]]].
      exists (d :: ds). split; [cbn [mapM]; rewrite Hd, Hds; reflexivity|]. split; [constructor; assumption|].
      cbn [flat_map map]. rewrite Ha, Has. reflexivity.
  Qed.

  (* the parameterDefinitions field of either root class *)
  Lemma params_field_defs : forall f ms fl y,
    f_required fl = false -> (exists lo hi, f_shape fl = ListOf lo hi) -> f_kind fl = params_kind ->
    parse_field (pk f) ms fl = Ok y ->
    exists ds, defs_of_value (snd y) = Ok ds /\ Forall wf_default ds /\
               adds_names Generated.schema (snd y) = map pname ds.
  Proof.
    intros f ms fl y Hq [lo [hi Hs]] Hk H. unfold parse_field, parse_value in H. rewrite Hq, Hs, Hk in H.
    destruct (field_raw ms fl) as [|b|z|a e|s|items|ms'] eqn:Er; cbn [bind list_items] in H; try discriminate H.
    - injection H as <-. exists []. split; [reflexivity|]. split; [constructor|reflexivity].
    - destruct (len_ok_n lo hi (List.length items)); [|discriminate H].
      destruct (mapM (pk f params_kind) items) as [l'|e] eqn:Em; cbn [bind] in H; [|discriminate H].
      injection H as <-. cbn [snd defs_of_value adds_names]. eapply params_items_defs. exact Em.
  Qed.

  Lemma parse_field_name : forall f ms fl y, parse_field (pk f) ms fl = Ok y -> fst y = f_name fl.
  Proof.
    intros f ms fl y H. unfold parse_field in H. destruct (parse_value _ _ _); cbn [bind] in H; [|discriminate H].
    injection H as <-. reflexivity.
  Qed.

  (* ---------------- the two roots ---------------- *)
  Theorem decode_job_defs : forall j t, decode_job classify j = Ok t ->
    exists ds, defs_of_template t = Ok ds /\ Forall wf_default ds /\
               adds_names Generated.schema t = map pname ds.
  Proof.
    intros j t H. unfold decode_job in H.
    destruct j as [| | | | | |ms]; try discriminate H.
    destruct (version_ok Generated.job_template_versions (JObj ms)); [|discriminate H].
    unfold parse_template, parse_root in H.
    destruct (parse_fuel (JObj ms)) as [|f]; [discriminate H|].
    rewrite parse_cls_S in H.
    destruct (lookup_cls Generated.schema "JobTemplate") as [c0|] eqn:El; [|discriminate H].
    vm_compute in El. injection El as <-.
    destruct (negb (pre_hook "JobTemplate" (JObj ms))); [discriminate H|].
    match type of H with context [extra_bad ?a ?b] => destruct (extra_bad a b); [discriminate H|] end.
    cbn [c_fields] in H.
    match type of H with context [mapM ?g ?l] => destruct (mapM g l) as [fields|e] eqn:Em; cbn [bind] in H; [|discriminate H] end.
    match type of H with context [if ?b then _ else _] => destruct b; [|discriminate H] end.
    injection H as <-.
    apply mapM_cons_ok in Em. destruct Em as [y1 [r1 [H1 [Em ->]]]].
    apply mapM_cons_ok in Em. destruct Em as [y2 [r2 [H2 [Em ->]]]].
    apply mapM_cons_ok in Em. destruct Em as [y3 [r3 [H3 [Em ->]]]].
    apply mapM_cons_ok in Em. destruct Em as [y4 [r4 [H4 [Em ->]]]].
    apply mapM_cons_ok in Em. destruct Em as [y5 [r5 [H5 [Em ->]]]].
    apply mapM_cons_ok in Em. destruct Em as [y6 [r6 [H6 [Em ->]]]].
    apply mapM_cons_ok in Em. destruct Em as [y7 [r7 [H7 [Em ->]]]].
    injection Em as <-.
    match type of H5 with parse_field _ _ ?fl = _ =>
      destruct (params_field_defs f ms fl y5 eq_refl (ex_intro _ _ (ex_intro _ _ eq_refl)) eq_refl H5) as [ds [Hds [Hw Ha]]]
    end.
    exists ds.
    pose proof (parse_field_name _ _ _ _ H1) as N1. pose proof (parse_field_name _ _ _ _ H2) as N2.
    pose proof (parse_field_name _ _ _ _ H3) as N3. pose proof (parse_field_name _ _ _ _ H4) as N4.
    pose proof (parse_field_name _ _ _ _ H5) as N5. cbn [f_name] in N1, N2, N3, N4, N5.
    split.
    { destruct y1 as [n1 x1], y2 as [n2 x2], y3 as [n3 x3], y4 as [n4 x4], y5 as [n5 x5]. cbn [fst snd] in *. subst.
      unfold defs_of_template, mfield. cbn [lookup_s String.eqb Ascii.eqb Bool.eqb]. exact Hds. }
    split; [exact Hw|].
    cbn [adds_names].
    assert (Ej : j_adds_value (jcm_of Generated.schema "JobTemplate") = false) by (vm_compute; reflexivity).
    rewrite Ej. cbn [app flat_map].
    rewrite (field_adds_nil classify _ _ _ _ H1) by (vm_compute; reflexivity).
    rewrite (field_adds_nil classify _ _ _ _ H2) by (vm_compute; reflexivity).
    rewrite (field_adds_nil classify _ _ _ _ H3) by (vm_compute; reflexivity).
    rewrite (field_adds_nil classify _ _ _ _ H4) by (vm_compute; reflexivity).
    rewrite (field_adds_nil classify _ _ _ _ H6) by (vm_compute; reflexivity).
    rewrite (field_adds_nil classify _ _ _ _ H7) by (vm_compute; reflexivity).
    cbn [app]. rewrite app_nil_r. exact Ha.
  Qed.

  Theorem decode_env_defs : forall j t, decode_env classify j = Ok t ->
    exists ds, defs_of_template t = Ok ds /\ Forall wf_default ds.
  Proof.
    intros j t H. unfold decode_env in H.
    destruct j as [| | | | | |ms]; try discriminate H.
    destruct (version_ok Generated.env_template_versions (JObj ms)); [|discriminate H].
    unfold parse_template, parse_root in H.
    destruct (parse_fuel (JObj ms)) as [|f]; [discriminate H|].
    rewrite parse_cls_S in H.
    destruct (lookup_cls Generated.schema "EnvironmentTemplate") as [c0|] eqn:El; [|discriminate H].
    vm_compute in El. injection El as <-.
    destruct (negb (pre_hook "EnvironmentTemplate" (JObj ms))); [discriminate H|].
    match type of H with context [extra_bad ?a ?b] => destruct (extra_bad a b); [discriminate H|] end.
    cbn [c_fields] in H.
    match type of H with context [mapM ?g ?l] => destruct (mapM g l) as [fields|e] eqn:Em; cbn [bind] in H; [|discriminate H] end.
    match type of H with context [if ?b then _ else _] => destruct b; [|discriminate H] end.
    injection H as <-.
    apply mapM_cons_ok in Em. destruct Em as [y1 [r1 [H1 [Em ->]]]].
    apply mapM_cons_ok in Em. destruct Em as [y2 [r2 [H2 [Em ->]]]].
    apply mapM_cons_ok in Em. destruct Em as [y3 [r3 [H3 [Em ->]]]].
    injection Em as <-.
    match type of H2 with parse_field _ _ ?fl = _ =>
      destruct (params_field_defs f ms fl y2 eq_refl (ex_intro _ _ (ex_intro _ _ eq_refl)) eq_refl H2) as [ds [Hds [Hw _]]]
    end.
    exists ds. split; [|exact Hw].
    pose proof (parse_field_name _ _ _ _ H1) as N1. pose proof (parse_field_name _ _ _ _ H2) as N2. cbn [f_name] in N1, N2.
    destruct y1 as [n1 x1], y2 as [n2 x2]. cbn [fst snd] in *. subst.
    unfold defs_of_template, mfield. cbn [lookup_s String.eqb Ascii.eqb Bool.eqb]. exact Hds.
  Qed.
End Defs.

(* ------------------------------------------------------------------ 3. grouping and merging *)

Section Groups.
  Variable P : pdef -> Prop.

  Definition groups_good (gs : list (str * list pdef)) : Prop :=
    forall k g, In (k, g) gs -> g <> [] /\ Forall P g.

  Lemma group_add_good : forall d gs, P d -> groups_good gs -> groups_good (group_add d gs).
  Proof.
    intros d gs Pd. induction gs as [|[k0 g0] r IH]; intros G k g Hin.
    - cbn [group_add] in Hin. destruct Hin as [E|[]]. injection E as <- <-.
      split; [discriminate|]. constructor; [exact Pd|constructor].
    - cbn [group_add] in Hin. destruct (str_eqb (pname d) k0).
      + destruct Hin as [E|Hin].
        * injection E as <- <-. destruct (G k0 g0 (or_introl eq_refl)) as [_ F]. split.
          -- intros E. apply app_eq_nil in E. destruct E as [_ E]. discriminate E.
          -- apply Forall_app. split; [exact F|]. constructor; [exact Pd|constructor].
        * apply (G k g). right. exact Hin.
      + destruct Hin as [E|Hin].
        * injection E as <- <-. apply (G k0 g0). left. reflexivity.
        * apply (IH (fun k' g' H' => G k' g' (or_intror H')) k g Hin).
  Qed.

  Lemma collect_good : forall ds gs, Forall P ds -> groups_good gs ->
    groups_good (fold_left (fun gs d => group_add d gs) ds gs).
  Proof.
    induction ds as [|d r IH]; intros gs F G; [exact G|].
    cbn [fold_left]. apply IH; [inversion F; assumption|]. apply group_add_good; [inversion F; assumption|exact G].
  Qed.
End Groups.

Definition in_groups (x : pdef) (gs : list (str * list pdef)) : Prop := exists k g, In (k, g) gs /\ In x g.

Lemma group_add_self : forall d gs, in_groups d (group_add d gs).
Proof.
  intros d. induction gs as [|[k0 g0] r IH].
  - exists (pname d), [d]. split; left; reflexivity.
  - cbn [group_add]. destruct (str_eqb (pname d) k0).
    + exists k0, (g0 ++ [d]). split; [left; reflexivity|]. apply in_or_app. right. left. reflexivity.
    + destruct IH as [k [g [H1 H2]]]. exists k, g. split; [right; exact H1|exact H2].
Qed.

Lemma group_add_keeps : forall d x gs, in_groups x gs -> in_groups x (group_add d gs).
Proof.
  intros d x. induction gs as [|[k0 g0] r IH]; intros [k [g [H1 H2]]]; [destruct H1|].
  cbn [group_add]. destruct (str_eqb (pname d) k0).
  - destruct H1 as [E|H1].
    + injection E as <- <-. exists k0, (g0 ++ [d]). split; [left; reflexivity|]. apply in_or_app. left. exact H2.
    + exists k, g. split; [right; exact H1|exact H2].
  - destruct H1 as [E|H1].
    + injection E as <- <-. exists k0, g0. split; [left; reflexivity|exact H2].
    + destruct (IH (ex_intro _ k (ex_intro _ g (conj H1 H2)))) as [k' [g' [H1' H2']]].
      exists k', g'. split; [right; exact H1'|exact H2'].
Qed.

Lemma collect_covers : forall ds gs x, In x ds \/ in_groups x gs ->
  in_groups x (fold_left (fun gs d => group_add d gs) ds gs).
Proof.
  induction ds as [|d r IH]; intros gs x H.
  - destruct H as [[]|H]. exact H.
  - cbn [fold_left]. apply IH. destruct H as [[<-|H]|H].
    + right. apply group_add_self.
    + left. exact H.
    + right. apply group_add_keeps. exact H.
Qed.

(* a merged definition carries the name of every definition that went into it *)
Lemma merge_ok_name : forall g m, merge false g = Ok m -> forall d, In d g -> pname d = pname m.
Proof.
  intros g m H d Hd. unfold merge in H.
  destruct (last_opt g) as [dl|]; [|discriminate H].
  destruct (forallb (fun x => str_eqb (pname x) (pname dl)) g) eqn:Fn; cbn [negb] in H; [|discriminate H].
  destruct (negb (forallb (fun x => ptype_eqb (ptyp x) (ptyp dl)) g)); [discriminate H|].
  destruct (merge_errors false g dl); [discriminate H|].
  destruct (revalidate (candidate false g dl)) as [u|e]; [|discriminate H]. injection H as <-.
  rewrite forallb_forall in Fn. specialize (Fn d Hd). apply gl_str_eqb_eq in Fn. exact Fn.
Qed.

Lemma merge_groups_total : forall gs, groups_good wf_default gs -> exists x, merge_groups gs = Ok x.
Proof.
  induction gs as [|[k g] r IH]; intros G; [eexists; reflexivity|].
  destruct IH as [x Hx]; [intros k' g' H'; apply (G k' g'); right; exact H'|].
  destruct (G k g (or_introl eq_refl)) as [NE W].
  cbn [merge_groups]. destruct (merge false g) as [m|e] eqn:Em.
  - rewrite Hx. eexists. reflexivity.
  - rewrite (merge_raise g e NE W Em). rewrite Hx. eexists. reflexivity.
Qed.

Lemma merge_groups_clean : forall gs ms, merge_groups gs = Ok (ms, false) ->
  forall k g, In (k, g) gs -> exists m, In m ms /\ merge false g = Ok m.
Proof.
  induction gs as [|[k0 g0] r IH]; intros ms H k g Hin; [destruct Hin|].
  cbn [merge_groups] in H. destruct (merge false g0) as [m|e] eqn:Em.
  - destruct (merge_groups r) as [[ms' b]|e'] eqn:Er; cbn [bind fst snd] in H; [|discriminate H].
    injection H as <- ->. destruct Hin as [E|Hin].
    + injection E as <- <-. exists m. split; [left; reflexivity|exact Em].
    + destruct (IH ms' eq_refl k g Hin) as [m' [H1 H2]]. exists m'. split; [right; exact H1|exact H2].
  - destruct e; try discriminate H.
    destruct (merge_groups r) as [[ms' b]|e'] eqn:Er; cbn [bind fst snd] in H; discriminate H.
Qed.

Theorem merge_definitions_raise : forall eds jd e,
  Forall (Forall wf_default) eds -> Forall wf_default jd ->
  merge_definitions eds jd = Raise e -> e = CompatibilityError.
Proof.
  intros eds jd e We Wj H. unfold merge_definitions in H.
  assert (G : groups_good wf_default (collect_groups (List.concat eds ++ jd))).
  { unfold collect_groups. apply collect_good.
    - apply Forall_app. split; [|exact Wj]. apply Forall_concat. exact We.
    - intros k g []. }
  destruct (merge_groups_total _ G) as [[ms b] Hx]. rewrite Hx in H. cbn [bind fst snd] in H.
  destruct b; [injection H as <-; reflexivity|discriminate H].
Qed.

Theorem merge_definitions_names : forall eds jd defs, merge_definitions eds jd = Ok defs ->
  forall d, In d (List.concat eds ++ jd) -> In (pname d) (map pname defs).
Proof.
  intros eds jd defs H d Hd. unfold merge_definitions in H.
  destruct (merge_groups (collect_groups (List.concat eds ++ jd))) as [[ms b]|e] eqn:Em; cbn [bind fst snd] in H; [|discriminate H].
  destruct b; [discriminate H|]. injection H as <-.
  destruct (collect_covers (List.concat eds ++ jd) [] d (or_introl Hd)) as [k [g [Hg Hdg]]].
  destruct (merge_groups_clean _ _ Em k g Hg) as [m [Hm Hok]].
  rewrite (merge_ok_name g m Hok d Hdg). apply in_map. exact Hm.
Qed.

(* ------------------------------------------------------------------ 4. preprocessing *)

Theorem preprocess_server_raise : forall defs vals e, preprocess_server defs vals = Raise e -> e = ValueError.
Proof.
  intros defs vals e H. unfold preprocess_server in H. eapply preprocess_error; [|exact H].
  intros t e' Ht. rewrite server_default_verbatim in Ht. discriminate Ht.
Qed.

(* after a successful preprocessing every definition has an entry *)
Theorem preprocess_all_named : forall dir_ok path_in path_default defs vals r,
  preprocess false dir_ok path_in path_default defs vals = Ok r ->
  forall d, In d defs -> In (pname d) (map fst r).
Proof.
  intros dir_ok path_in path_default defs vals r H d Hd. unfold preprocess in H.
  destruct defs as [|d0 ds] eqn:Edefs; [destruct Hd|]. rewrite <- Edefs in *. clear Edefs.
  destruct (JobParams.collect_defaults dir_ok path_in path_default defs vals) as [rv|x].
  - destruct (check_all false defs rv) as [u|x].
    + apply finish_ok in H. destruct H as [Hz ->].
      assert (M : collect_missing defs rv = []) by (apply count_if_zero; lia).
      unfold collect_missing in M. rewrite filter_nil_iff in M.
      specialize (M (pname d) (in_map pname defs d Hd)).
      apply negb_false_iff in M. apply JobParamsProofs.mem_str_In in M. exact M.
    + destruct x; try discriminate H. apply finish_ok in H. destruct H as [Hz _]. lia.
  - destruct x; try discriminate H. apply finish_ok in H. destruct H as [Hz _]. lia.
Qed.

Lemma pvals_names : forall r, map v_name (pvals_of r) = map fst r.
Proof. intros r. unfold pvals_of. rewrite map_map. apply map_ext. intros [n [t v]]. reflexivity. Qed.

(* ------------------------------------------------------------------ 5. the composition *)

Definition accepted_envs (classify : N -> cclass) (envs : list mval) : Prop :=
  Forall (fun et => exists ej, decode_env classify ej = Ok et) envs.

Lemma env_defs_total : forall classify envs, accepted_envs classify envs ->
  exists eds, mapM defs_of_template envs = Ok eds /\ Forall (Forall wf_default) eds.
Proof.
  intros classify envs H. induction H as [|et r [ej Hej] _ IH].
  - exists []. split; [reflexivity|constructor].
  - destruct (decode_env_defs classify ej et Hej) as [ds [Hds Hw]]. destruct IH as [eds [Heds Hws]].
    exists (ds :: eds). split; [cbn [mapM]; rewrite Hds, Heds; reflexivity|constructor; assumption].
Qed.

(* the preprocessing block of create_job: DecodeValidationError or values for all parameters of the template *)
Theorem prep_full_spec : forall classify j t envs vals,
  decode_job classify j = Ok t -> accepted_envs classify envs ->
  (forall e, prep_full envs t vals = Raise e -> e = DecodeValidationError) /\
  (forall pvals, prep_full envs t vals = Ok pvals ->
     forall n, In n (adds_names Generated.schema t) -> In n (map v_name pvals)).
Proof.
  intros classify j t envs vals Hd He.
  destruct (env_defs_total classify envs He) as [eds [Heds Hwe]].
  destruct (decode_job_defs classify j t Hd) as [jd [Hjd [Hwj Ha]]].
  unfold prep_full. rewrite Heds, Hjd. cbn [bind].
  destruct (merge_definitions eds jd) as [defs|e0] eqn:Em.
  - destruct (preprocess_server defs vals) as [r|e1] eqn:Ep.
    + split; [intros e H; discriminate H|]. intros pvals H n Hn. injection H as <-.
      rewrite pvals_names. rewrite Ha in Hn. apply in_map_iff in Hn. destruct Hn as [d [<- Hdj]].
      assert (Hin : In (pname d) (map pname defs)).
      { eapply merge_definitions_names; [exact Em|]. apply in_or_app. right. exact Hdj. }
      apply in_map_iff in Hin. destruct Hin as [m [Enm Hm]]. rewrite <- Enm.
      unfold preprocess_server in Ep. eapply preprocess_all_named; eassumption.
    + apply preprocess_server_raise in Ep. subst e1. split; [|intros pvals H; discriminate H].
      intros e H. injection H as <-. reflexivity.
  - pose proof (merge_definitions_raise eds jd e0 Hwe Hwj Em) as ->. split; [|intros pvals H; discriminate H].
    intros e H. injection H as <-. reflexivity.
Qed.

(* instantiate_model on an accepted template with a value for each of its parameters *)
Lemma inst_only_fse : forall classify j t pvals e,
  decode_job classify j = Ok t ->
  (forall n, In n (adds_names Generated.schema t) -> In n (map v_name pvals)) ->
  inst Generated.schema (Export.fs_resolve classify) (symtab_of pvals) (S (mval_depth t)) t = Raise e ->
  e = FormatStringError.
Proof.
  intros classify j t pvals e Hd Hc H.
  assert (Hres : forall s e', Export.fs_resolve classify (symtab_of pvals) s = Raise e' -> e' = FormatStringError).
  { intros s e'. apply fs_resolve_only_fse. }
  destruct (inst_wk_raises Generated.schema _ _ Hres _ t (accepted_wk classify j t Hd) e H) as [E|[E|E]].
  - exact E.
  - exfalso. subst e. exact (inst_no_keyerror Generated.schema _ pvals Hres _ t Hc H).
  - exfalso. subst e. apply (inst_fuel_enough Generated.schema _ _ Hres (S (mval_depth t)) t); [lia|exact H].
Qed.

(* where a RuntimeError of the model can come from: only the job-side re-validation of the instantiated tree *)
Definition revalidation_outside_domain (classify : N -> cclass) (envs : list mval) (t : mval) (vals : list (str * str)) : Prop :=
  exists pvals job,
    prep_full envs t vals = Ok pvals /\
    inst Generated.schema (Export.fs_resolve classify) (symtab_of pvals) (S (mval_depth t)) t = Ok job /\
    nodes_ok classify (S (S (S (mval_depth t)))) (coerce_job (S (mval_depth t)) job) = Raise RuntimeError.

Theorem create_job_full_exn : forall classify j t envs vals e,
  decode_job classify j = Ok t -> accepted_envs classify envs ->
  create_job_full classify envs t vals = Raise e ->
  e = DecodeValidationError \/ (e = RuntimeError /\ revalidation_outside_domain classify envs t vals).
Proof.
  intros classify j t envs vals e Hd He H.
  destruct (prep_full_spec classify j t envs vals Hd He) as [Pr Pn].
  unfold create_job_full in H.
  destruct (prep_full envs t vals) as [pvals|e0] eqn:Ep; cbn [bind] in H.
  - destruct (inst Generated.schema (Export.fs_resolve classify) (symtab_of pvals) (S (mval_depth t)) t) as [job|e1] eqn:Ei.
    + destruct (nodes_ok classify (S (S (S (mval_depth t)))) (coerce_job (S (mval_depth t)) job)) as [b|e2] eqn:En.
      * destruct b; [discriminate H|]. injection H as <-. left. reflexivity.
      * injection H as <-. pose proof (nodes_ok_raises _ _ _ _ En) as ->. right. split; [reflexivity|].
        exists pvals, job. repeat split; assumption.
    + pose proof (inst_only_fse classify j t pvals e1 Hd (Pn pvals eq_refl) Ei) as ->.
      injection H as <-. left. reflexivity.
  - injection H as <-. left. apply Pr. reflexivity.
Qed.

(* the verdict of the whole function is the verdict model of Export.v on the model's own preprocessed values *)
Theorem create_job_full_verdict : forall classify envs t vals,
  match prep_full envs t vals with
  | Ok pvals =>
    match create_job_verdict classify pvals t with
    | Ok true => exists job, create_job_full classify envs t vals = Ok job
    | Ok false => create_job_full classify envs t vals = Raise DecodeValidationError
    | Raise e => create_job_full classify envs t vals = Raise e
    end
  | Raise e => create_job_full classify envs t vals = Raise e
  end.
Proof.
  intros classify envs t vals. unfold create_job_full, create_job_verdict.
  destruct (prep_full envs t vals) as [pvals|e0]; cbn [bind]; [|reflexivity].
  destruct (inst Generated.schema (Export.fs_resolve classify) (symtab_of pvals) (S (mval_depth t)) t) as [job|e1].
  - destruct (nodes_ok classify (S (S (S (mval_depth t)))) (coerce_job (S (mval_depth t)) job)) as [[|]|e2];
      [eexists; reflexivity|reflexivity|reflexivity].
  - destruct e1; reflexivity.
Qed.

(* from the raw documents *)
Lemma mapM_decode_envs : forall classify docs envs, mapM (decode_env classify) docs = Ok envs -> accepted_envs classify envs.
Proof.
  intros classify. induction docs as [|dj r IH]; intros envs H.
  - injection H as <-. constructor.
  - apply mapM_cons_ok in H. destruct H as [y [ys [Hy [Hr ->]]]]. constructor; [exists dj; exact Hy|apply IH; exact Hr].
Qed.

Theorem create_job_docs_exn : forall classify env_docs doc vals e,
  create_job_docs classify env_docs doc vals = Ok (Raise e) ->
  e = DecodeValidationError \/ e = RuntimeError.
Proof.
  intros classify env_docs doc vals e H. unfold create_job_docs in H.
  destruct (decode_job classify doc) as [t|e0] eqn:Ed; cbn [bind] in H; [|discriminate H].
  destruct (mapM (decode_env classify) env_docs) as [envs|e1] eqn:Ee; cbn [bind] in H; [|discriminate H].
  injection H as H.
  destruct (create_job_full classify envs t vals) as [job|e2] eqn:Ec; [discriminate H|]. injection H as <-.
  destruct (create_job_full_exn classify doc t envs vals e2 Ed (mapM_decode_envs _ _ _ Ee) Ec) as [->|[-> _]]; tauto.
Qed.

(* ------------------------------------------------------------------ 6. with CreateJobNoRT: no residue *)

(* the job-side re-validation never leaves the modelled domain (CreateJobNoRT.accepted_nodes_no_rt), so: *)
Theorem create_job_full_exn_strict : forall classify j t envs vals e,
  decode_job classify j = Ok t -> accepted_envs classify envs ->
  create_job_full classify envs t vals = Raise e -> e = DecodeValidationError.
Proof.
  intros classify j t envs vals e Hd He H.
  destruct (create_job_full_exn classify j t envs vals e Hd He H) as [E|[_ [pvals [job [_ [Hi Hn]]]]]]; [exact E|].
  exfalso. exact (accepted_nodes_no_rt classify j t _ _ job Hd Hi Hn).
Qed.

Theorem create_job_docs_exn_strict : forall classify env_docs doc vals e,
  create_job_docs classify env_docs doc vals = Ok (Raise e) -> e = DecodeValidationError.
Proof.
  intros classify env_docs doc vals e H. unfold create_job_docs in H.
  destruct (decode_job classify doc) as [t|e0] eqn:Ed; cbn [bind] in H; [|discriminate H].
  destruct (mapM (decode_env classify) env_docs) as [envs|e1] eqn:Ee; cbn [bind] in H; [|discriminate H].
  injection H as H.
  destruct (create_job_full classify envs t vals) as [job|e2] eqn:Ec; [discriminate H|]. injection H as <-.
  exact (create_job_full_exn_strict classify doc t envs vals e2 Ed (mapM_decode_envs _ _ _ Ee) Ec).
Qed.

(* create_job_full on accepted templates is total in the sense of the property: a Job or DecodeValidationError *)
Theorem create_job_full_total : forall classify j t envs vals,
  decode_job classify j = Ok t -> accepted_envs classify envs ->
  (exists job, create_job_full classify envs t vals = Ok job) \/
  create_job_full classify envs t vals = Raise DecodeValidationError.
Proof.
  intros classify j t envs vals Hd He.
  destruct (create_job_full classify envs t vals) as [job|e] eqn:Ec; [left; exists job; reflexivity|].
  right. rewrite (create_job_full_exn_strict classify j t envs vals e Hd He Ec). reflexivity.
Qed.

(* the statement props/C06.v lists as "NOT proved" (C06_create_exn_full): on an accepted template, with the
   implementation's preprocessed values covering the declarations, the verdict model answers, always *)
Theorem accepted_verdict_total : forall classify j t vals,
  decode_job classify j = Ok t -> covers (jget "parameterDefinitions" j) vals ->
  exists b, create_job_verdict classify vals t = Ok b.
Proof.
  intros classify j t vals Hd Hc.
  destruct (create_job_verdict classify vals t) as [b|e] eqn:Ev; [exists b; reflexivity|exfalso].
  pose proof (accepted_create_exn classify j t vals e Hd Hc Ev) as ->.
  unfold create_job_verdict in Ev.
  destruct (inst Generated.schema (Export.fs_resolve classify) (symtab_of vals) (S (mval_depth t)) t) as [job|e0] eqn:Ei.
  - exact (accepted_nodes_no_rt classify j t _ _ job Hd Ei Ev).
  - pose proof (accepted_inst_raises classify j t vals e0 Hd Hc Ei) as ->. discriminate Ev.
Qed.
