(* ExportCreated.v — p17j: C17 for CREATED Jobs.  Every Job the composed model [CreateJobFull.create_job_full] returns
   re-decodes from its own export (parse_model(Job, model_to_object(job))) to a Job that is equal to it as pydantic
   compares instances ([ExportCreatedRel.mval_equiv]: classes and field order ignored — the created Job holds the
   subclasses IntRangeListTaskParameterDefinition / FloatRangeListTaskParameterDefinition where the decoded one holds
   RangeListTaskParameterDefinition), and the re-decoded Job exports to the same document ([JsonEquiv.json_equiv]:
   member order ignored).

   Composition:
     decode_job = Ok t           -> t is a well-typed JobTemplate instance              (ConformTyped.decode_job_typed)
     inst ... t = Ok j0, coerce  -> [SEMC "Job"]: any successful parse of the export is equal to the Job
                                                                                         (ExportCreatedInst.job_sem)
     nodes_ok = Ok true          -> parse_model(Job, export) succeeds                   (ConformNodes.nodes_ok_all;
                                    create_job's own validation of the root node) *)
From Coq Require Import List NArith ZArith Bool String Lia.
Import ListNotations.
Require Import OJD.Base OJD.Lexer OJD.Json OJD.Schema OJD.Generated OJD.Charsets OJD.Numerals OJD.NumPrint
               OJD.FormatStr OJD.CreateJob OJD.CreateJobProofs OJD.Parse OJD.Validators OJD.Accept OJD.Export
               OJD.ExportProofs OJD.ExportJob OJD.JsonEquiv OJD.CreateJobExactLib OJD.WellKeyed
               OJD.CreateJobFull OJD.CreateJobFullProofs
               OJD.ConformLib OJD.ConformTyped OJD.ConformInst OJD.ConformNodes OJD.ConformProofs
               OJD.ExportCreatedRel OJD.ExportCreatedSem OJD.ExportCreatedCarried OJD.ExportCreatedInst OJD.ExportCreatedPlain.
Local Open Scope string_scope.
Local Open Scope list_scope.

(* the Job create_job_full returns: a "Job" node with the property SEMC (for any validators), validated by nodes_ok *)
Theorem created_job_sem : forall classify j t envs vals job,
  decode_job classify j = Ok t -> create_job_full classify envs t vals = Ok job ->
  (forall pre post, SEMC classify pre post "Job" job) /\ (exists fs, job = MModel "Job" fs)
  /\ nodes_ok classify (S (S (S (mval_depth t)))) job = Ok true.
Proof.
  intros classify j t envs vals job Hd H. unfold create_job_full in H.
  destruct (prep_full envs t vals) as [pvals|e0] eqn:Ep; cbn [bind] in H; [|discriminate H].
  destruct (inst Generated.schema (fs_resolve classify) (symtab_of pvals) (S (mval_depth t)) t) as [j0|e1] eqn:Ei;
    [|destruct e1; discriminate H].
  assert (Ec : coerce_job (S (mval_depth t)) j0 = coerce j0).
  { apply coerce_job_coerce. pose proof (CreateJobExactLib.inst_depth _ _ _ _ _ _ Ei). lia. }
  rewrite Ec in H.
  destruct (nodes_ok classify (S (S (S (mval_depth t)))) (coerce j0)) as [[|]|e2] eqn:En; try discriminate H.
  injection H as <-.
  split; [|split; [|exact En]].
  - intros pre post.
    exact (proj1 (job_sem classify pre post (fs_resolve classify) (symtab_of pvals) (mval_depth t) t j0
                          (decode_job_typed classify j t Hd) (Nat.le_refl _) Ei)).
  - exact (proj2 (job_sem classify pre_hook (post_hook classify) (fs_resolve classify) (symtab_of pvals) (mval_depth t) t j0
                          (decode_job_typed classify j t Hd) (Nat.le_refl _) Ei)).
Qed.

Theorem created_job_roundtrip : forall classify j t envs vals job,
  decode_job classify j = Ok t -> create_job_full classify envs t vals = Ok job ->
  exists v, parse_any classify "Job" (export job) = Ok v
            /\ mval_equiv v job
            /\ json_equiv (export v) (export job).
Proof.
  intros classify j t envs vals job Hd H.
  destruct (created_job_sem classify j t envs vals job Hd H) as [Hs [[fs Ej] Hn]].
  destruct (nodes_ok_all classify _ job Hn "Job" fs) as [v Hv]; [rewrite Ej; apply nodes_self|].
  rewrite <- Ej in Hv. exists v. split; [exact Hv|].
  unfold parse_any in Hv. rewrite export_tobj in Hv.
  destruct (Hs _ _ _ _ Hv) as [Hm Hj]. split; [exact Hm|]. rewrite !export_tobj. exact Hj.
Qed.

(* from the re-decoded Job on, export / decode is the identity: C17_roundtrip_job applies to it *)
Theorem created_job_stable : forall classify j t envs vals job,
  decode_job classify j = Ok t -> create_job_full classify envs t vals = Ok job ->
  exists v, parse_any classify "Job" (export job) = Ok v
            /\ snd (roundtrip classify "Job" v) = true
            /\ plain (export v) = true.
Proof.
  intros classify j t envs vals job Hd H.
  destruct (created_job_roundtrip classify j t envs vals job Hd H) as [v [Hv _]].
  exists v. split; [exact Hv|]. split; [eapply roundtrip_job; exact Hv|eapply decoded_exports_plain; exact Hv].
Qed.

(* the export of the created Job itself is plain data *)
Theorem created_job_plain : forall classify j t envs vals job,
  decode_job classify j = Ok t -> create_job_full classify envs t vals = Ok job ->
  plain (export job) = true.
Proof.
  intros classify j t envs vals job Hd H. unfold export. apply to_object_plain; [|lia].
  unfold create_job_full in H.
  destruct (prep_full envs t vals) as [pvals|e0] eqn:Ep; cbn [bind] in H; [|discriminate H].
  destruct (inst Generated.schema (fs_resolve classify) (symtab_of pvals) (S (mval_depth t)) t) as [j0|e1] eqn:Ei;
    [|destruct e1; discriminate H].
  assert (Ec : coerce_job (S (mval_depth t)) j0 = coerce j0).
  { apply coerce_job_coerce. pose proof (CreateJobExactLib.inst_depth _ _ _ _ _ _ Ei). lia. }
  rewrite Ec in H.
  destruct (nodes_ok classify (S (S (S (mval_depth t)))) (coerce j0)) as [[|]|e2]; try discriminate H.
  injection H as <-. apply coerce_nn. eapply inst_nn; [exact Ei|]. eapply decode_job_nn. exact Hd.
Qed.

(* from the raw documents: the document create_job + model_to_object produce is plain, parse_model(Job, .) accepts it,
   and exporting what it decodes to gives the same document again *)
Theorem created_docs_roundtrip : forall classify env_docs doc vals obj,
  create_job_docs classify env_docs doc vals = Ok (Ok obj) ->
  plain obj = true /\
  exists v, parse_any classify "Job" obj = Ok v /\ json_equiv (export v) obj
            /\ snd (roundtrip classify "Job" v) = true.
Proof.
  intros classify env_docs doc vals obj H. unfold create_job_docs in H.
  destruct (decode_job classify doc) as [t|e] eqn:Ed; cbn [bind] in H; [|discriminate H].
  destruct (mapM (decode_env classify) env_docs) as [envs|e] eqn:Ee; cbn [bind] in H; [|discriminate H].
  destruct (create_job_full classify envs t vals) as [job|e] eqn:Ej; [|discriminate H].
  injection H as <-. split; [eapply created_job_plain; eassumption|].
  destruct (created_job_roundtrip classify doc t envs vals job Ed Ej) as [v [Hv [_ Hj]]].
  exists v. split; [exact Hv|]. split; [exact Hj|eapply roundtrip_job; exact Hv].
Qed.

(* neither export holds a null member: the "null member = absent member" clause of json_equiv is not in play *)
Theorem exports_no_null_members : forall v, no_null_members (export v) = true.
Proof. intros v. rewrite export_tobj. apply nnm_tobj. Qed.

(* ... and when the two documents have pairwise distinct keys (two boolean functions of the VALUES; true of whatever
   a Python dict can hold) they are the same up to the ORDER of the members (JsonEquiv.json_perm) *)
Theorem created_job_roundtrip_perm : forall classify j t envs vals job,
  decode_job classify j = Ok t -> create_job_full classify envs t vals = Ok job ->
  exists v, parse_any classify "Job" (export job) = Ok v
            /\ mval_equiv v job
            /\ (distinct_keys (export v) = true -> distinct_keys (export job) = true ->
                json_perm (export v) (export job)).
Proof.
  intros classify j t envs vals job Hd H.
  destruct (created_job_roundtrip classify j t envs vals job Hd H) as [v [Hv [Hm Hj]]].
  exists v. split; [exact Hv|]. split; [exact Hm|]. intros D1 D2.
  apply json_equiv_perm; try assumption; apply exports_no_null_members.
Qed.
