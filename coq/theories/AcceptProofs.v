(* AcceptProofs.v — C01/C02: assembly.

   WHAT CARRIES CONTENT
     (A) C01_table / C02_table (computed) + AcceptMono.parse_monotone (proved for all kinds):
         the live table [Generated.schema] and the frozen table [spec_schema] accept the same
         documents with the same values, each direction separately.
     (B) the validator equivalences of AcceptRules.v / AcceptCap.v, collected here as
         [post_hook_iff] and [pre_hook_iff]: each validator AS CODED holds exactly when its
         declarative rule of WF.v holds.
   WHAT IS BY CONSTRUCTION
     [WFdoc] is phrased with the same structural engine (Parse.v, validated against pydantic by
     the C01 correspondence check, not verified) and with hooks that decide the rules; given (A)
     and (B), C01_sound / C02_complete follow by [parse_cls_hooks_ext] (the engine consults its
     hooks only through their boolean value).  C02_flip is the contrapositive of C01_sound. *)
From Coq Require Import List NArith ZArith Bool String Lia Permutation.
Import ListNotations.
Require Import OJD.Base OJD.Lexer OJD.Json OJD.Schema OJD.Generated OJD.SchemaSpec OJD.SchemaOrder
               OJD.Charsets OJD.Numerals OJD.FormatStr OJD.FsRefs OJD.CreateJob OJD.RangeExpr OJD.Comb
               OJD.CombProofs OJD.ScopeWalk OJD.DepGraph OJD.Parse OJD.Validators OJD.Accept
               OJD.WF OJD.AcceptMono OJD.AcceptRules OJD.AcceptCap.
Local Open Scope string_scope.
Local Open Scope list_scope.

(* ------------------------------------------------------------------ *)
(* A. the tables                                                         *)
(* ------------------------------------------------------------------ *)


Lemma spec_self_closed : self_closed spec_schema = true.
Proof. vm_compute. reflexivity. Qed.

(* Accept.parse_template / decode_* with the table as a parameter *)
Section On.
  Variable SC : schema_t.
  Variable classify : N -> cclass.

  Definition parse_template_on (root : string) (j : json) : outcome mval :=
    parse_root SC classify pre_hook (post_hook classify) root j.

  Definition decode_job_on (j : json) : outcome mval :=
    match j with
    | JObj _ => if version_ok Generated.job_template_versions j then parse_template_on "JobTemplate" j else Raise ValueError
    | _ => Raise RuntimeError
    end.

  Definition decode_env_on (j : json) : outcome mval :=
    match j with
    | JObj _ => if version_ok Generated.env_template_versions j then parse_template_on "EnvironmentTemplate" j else Raise ValueError
    | _ => Raise RuntimeError
    end.
End On.

Lemma decode_job_on_code classify j : decode_job classify j = decode_job_on Generated.schema classify j.
Proof. reflexivity. Qed.
Lemma decode_env_on_code classify j : decode_env classify j = decode_env_on Generated.schema classify j.
Proof. reflexivity. Qed.

Lemma decode_job_on_mono S1 S2 classify j v :
  schema_le S1 S2 = true -> decode_job_on S1 classify j = Ok v -> decode_job_on S2 classify j = Ok v.
Proof.
  intros H. unfold decode_job_on. destruct j; try (intros Hp; exact Hp).
  destruct (version_ok Generated.job_template_versions (JObj members)); [|intros Hp; exact Hp].
  apply parse_root_monotone. exact H.
Qed.

Lemma decode_env_on_mono S1 S2 classify j v :
  schema_le S1 S2 = true -> decode_env_on S1 classify j = Ok v -> decode_env_on S2 classify j = Ok v.
Proof.
  intros H. unfold decode_env_on. destruct j; try (intros Hp; exact Hp).
  destruct (version_ok Generated.env_template_versions (JObj members)); [|intros Hp; exact Hp].
  apply parse_root_monotone. exact H.
Qed.





(* ------------------------------------------------------------------ *)
(* B. the hooks as coded  <->  the rules                                 *)
(* ------------------------------------------------------------------ *)
Section Hooks.
Variable classify : N -> cclass.

Lemma ok_match_iff {A} (o : outcome A) :
  (match o with Ok _ => true | Raise _ => false end) = true <-> exists e, o = Ok e.
Proof.
  destruct o as [a|x]; split; intros H; try reflexivity; try discriminate.
  - exists a. reflexivity.
  - destruct H as (e & E). discriminate E.
Qed.

Theorem post_hook_iff : forall c raw fs, post_hook classify c raw fs = true <-> Rule classify c raw fs.
Proof.
  intros c raw fs. unfold post_hook, Rule.
  destruct (String.eqb c "StepScript" || String.eqb c "EnvironmentScript"); [apply embedded_files_rule_iff|].
  destruct (String.eqb c "IntTaskParameterDefinition"); [apply int_range_rule_iff|].
  destruct (String.eqb c "FloatTaskParameterDefinition"); [apply float_range_rule_iff|].
  destruct (String.eqb c "StepParameterSpaceDefinition"); [apply combination_rule_iff|].
  destruct (String.eqb c "Environment"); [apply env_rule_iff|].
  destruct (String.eqb c "JobStringParameterDefinition").
  { rewrite andb_true_iff, string_param_rule_iff, string_ui_rule_iff. reflexivity. }
  destruct (String.eqb c "JobPathParameterDefinition").
  { rewrite andb_true_iff, string_param_rule_iff, path_ui_rule_iff. reflexivity. }
  destruct (String.eqb c "JobIntParameterDefinition" || String.eqb c "JobFloatParameterDefinition").
  { rewrite andb_true_iff, num_param_rule_iff, num_ui_rule_iff. reflexivity. }
  destruct (String.eqb c "AmountRequirementTemplate"); [apply amount_rule_iff|].
  destruct (String.eqb c "AttributeRequirementTemplate"); [apply attribute_rule_iff|].
  destruct (String.eqb c "HostRequirementsTemplate"); [apply host_req_rule_iff|].
  destruct (String.eqb c "StepTemplate"); [cbv zeta; apply step_rule_iff|].
  destruct (String.eqb c "RangeExpressionTaskParameterDefinition"); [apply range_expr_ok_iff|].
  destruct (String.eqb c "IntRangeListTaskParameterDefinition").
  { unfold IntRangeListRule. rewrite forallb_forall. split; intros H it Hin; specialize (H it Hin).
    - destruct (parse_int (mstr it)) as [z|]; [exists z; reflexivity|discriminate].
    - destruct H as (z & E). rewrite E. reflexivity. }
  destruct (String.eqb c "FloatRangeListTaskParameterDefinition").
  { unfold FloatRangeListRule. rewrite forallb_forall. split; intros H it Hin; specialize (H it Hin).
    - destruct (parse_dec (mstr it)) as [[m e| |]|]; try discriminate. exists m, e. reflexivity.
    - destruct H as (m & e & E). rewrite E. reflexivity. }
  destruct (String.eqb c "StepParameterSpace").
  { unfold SpaceRule. destruct (fget "combination" fs) as [ | | | | |s| | | | ];
      try (split; [intros _ s9 E9; discriminate E9|reflexivity]).
    change (match Comb.dims_str classify (Comb.lookup_len (space_lens classify fs)) s with Ok _ => true | Raise _ => false end = true
            <-> (forall s0, MStr s = MStr s0 ->
                 exists n, Comb.dims_str classify (Comb.lookup_len (space_lens classify fs)) s0 = Ok n)).
    rewrite ok_match_iff. split.
    - intros H s0 E. inversion E. subst s0. exact H.
    - intros H. apply H. reflexivity. }
  destruct (String.eqb c "JobTemplate"); [apply job_template_rule_iff|].
  destruct (String.eqb c "EnvironmentTemplate"); [apply env_template_rule_iff|].
  split; [intros _; exact I|reflexivity].
Qed.

Lemma or_nonnull_iff a b : negb (is_null a) || negb (is_null b) = true <-> NonNull a \/ NonNull b.
Proof. rewrite orb_true_iff, !is_null_iff. reflexivity. Qed.

Theorem pre_hook_iff : forall c raw, pre_hook c raw = true <-> PreRule c raw.
Proof.
  intros c raw. unfold pre_hook, PreRule.
  destruct (String.eqb c "EnvironmentActions"); [apply or_nonnull_iff|].
  destruct (String.eqb c "Environment"); [apply or_nonnull_iff|].
  destruct (String.eqb c "AmountRequirementTemplate"); [apply or_nonnull_iff|].
  destruct (String.eqb c "AttributeRequirementTemplate"); [apply or_nonnull_iff|].
  destruct (String.eqb c "IntTaskParameterDefinition").
  { unfold IntRangeRawRule. apply arr_match_iff. exact raw_int_or_str_iff. }
  destruct (String.eqb c "FloatTaskParameterDefinition").
  { unfold FloatRangeRawRule. apply arr_match_iff. exact raw_num_or_str_iff. }
  destruct (String.eqb c "JobIntParameterDefinition").
  { unfold IntParamRawRule. rewrite !andb_true_iff, !raw_null_or_iff.
    rewrite (arr_match_iff (jget "allowedValues" raw) raw_int_or_str RawIntOrStr raw_int_or_str_iff). tauto. }
  split; [intros _; exact I|reflexivity].
Qed.
End Hooks.

(* ------------------------------------------------------------------ *)
(* C. documents                                                          *)
(* ------------------------------------------------------------------ *)
Lemma bool_iff_eq (a b : bool) (P : Prop) : (a = true <-> P) -> (b = true <-> P) -> a = b.
Proof. intros Ha Hb. destruct a, b; try reflexivity; [symmetry; apply Hb|]; apply Ha; [|apply Hb]; reflexivity. Qed.

(* an accepted root is an object *)
Lemma parse_cls_ok_obj SC classify pre post fuel root j v :
  parse_cls SC classify pre post fuel root j = Ok v -> exists ms, j = JObj ms.
Proof.
  destruct fuel as [|f]; [rewrite parse_cls_O; discriminate|]. rewrite parse_cls_S.
  destruct (lookup_cls SC root); destruct j; try discriminate. intros _. exists members. reflexivity.
Qed.

(* a class whose first field is a required literal only accepts objects carrying that literal *)
Lemma parse_first_literal SC classify pre post fuel root c name alias lit rest ms v :
  lookup_cls SC root = Some c ->
  c_fields c = mkField name alias true Single (KLiteral lit) :: rest ->
  parse_cls SC classify pre post fuel root (JObj ms) = Ok v ->
  exists s, jget alias (JObj ms) = JStr s /\ str_eqb s (str_of_string lit) = true.
Proof.
  intros L F. destruct fuel as [|f]; [rewrite parse_cls_O; discriminate|]. rewrite parse_cls_S, L, F.
  destruct (negb (pre root (JObj ms))); [discriminate|].
  destruct (extra_bad c ms); [discriminate|].
  cbn [mapM].
  destruct (parse_field (parse_kind SC classify pre post f) ms (mkField name alias true Single (KLiteral lit)))
    as [y|e] eqn:E; [|discriminate].
  intros _. unfold parse_field, field_raw in E. cbn [f_alias f_name] in E.
  unfold jget.
  destruct (assoc (str_of_string alias) ms) as [x|]; [|discriminate E].
  unfold parse_value in E. cbn [f_required f_shape f_kind] in E.
  destruct f as [|f'].
  - destruct x; try discriminate E; rewrite parse_kind_O in E; discriminate E.
  - destruct x; try discriminate E; rewrite parse_kind_S in E; cbn [parse_scalar] in E; try discriminate E.
    destruct (str_eqb s (str_of_string lit)) eqn:Es; [|discriminate E]. exists s. split; [reflexivity|exact Es].
Qed.

Lemma spec_job_version classify pre post fuel ms v :
  parse_cls spec_schema classify pre post fuel "JobTemplate" (JObj ms) = Ok v ->
  version_ok Generated.job_template_versions (JObj ms) = true.
Proof.
  intros H.
  destruct (lookup_cls spec_schema "JobTemplate") as [c|] eqn:L; [|vm_compute in L; discriminate L].
  assert (F : exists rest, c_fields c = mkField "specificationVersion" "specificationVersion" true Single (KLiteral "jobtemplate-2023-09") :: rest).
  { vm_compute in L. inversion L. eexists. reflexivity. }
  destruct F as (rest & F).
  destruct (parse_first_literal _ _ _ _ _ _ _ _ _ _ _ _ _ L F H) as (s & E1 & E2).
  unfold version_ok. rewrite E1. cbn [existsb Generated.job_template_versions]. rewrite E2. reflexivity.
Qed.

Lemma spec_env_version classify pre post fuel ms v :
  parse_cls spec_schema classify pre post fuel "EnvironmentTemplate" (JObj ms) = Ok v ->
  version_ok Generated.env_template_versions (JObj ms) = true.
Proof.
  intros H.
  destruct (lookup_cls spec_schema "EnvironmentTemplate") as [c|] eqn:L; [|vm_compute in L; discriminate L].
  assert (F : exists rest, c_fields c = mkField "specificationVersion" "specificationVersion" true Single (KLiteral "environment-2023-09") :: rest).
  { vm_compute in L. inversion L. eexists. reflexivity. }
  destruct F as (rest & F).
  destruct (parse_first_literal _ _ _ _ _ _ _ _ _ _ _ _ _ L F H) as (s & E1 & E2).
  unfold version_ok. rewrite E1. cbn [existsb Generated.env_template_versions]. rewrite E2. reflexivity.
Qed.

Section Docs.
Variable classify : N -> cclass.

(* the hooks as coded decide the rules (this is (B)) *)
Lemma code_decides_pre : decides_pre pre_hook.
Proof. intros c raw. apply pre_hook_iff. Qed.
Lemma code_decides_post : decides_post classify (post_hook classify).
Proof. intros c raw fs. apply post_hook_iff. Qed.

(* any deciders of the rules give the parse the coded hooks give *)
Lemma deciders_parse pre' post' root j :
  decides_pre pre' -> decides_post classify post' ->
  parse_root spec_schema classify pre' post' root j
  = parse_root spec_schema classify pre_hook (post_hook classify) root j.
Proof.
  intros Hpre Hpost. unfold parse_root. apply (parse_cls_hooks_ext spec_schema spec_self_closed).
  - intros c raw. exact (bool_iff_eq _ _ _ (Hpre c raw) (code_decides_pre c raw)).
  - intros c raw fs. exact (bool_iff_eq _ _ _ (Hpost c raw fs) (code_decides_post c raw fs)).
Qed.

Lemma WFdoc_iff_spec_parse root j :
  WFdoc classify root j <-> exists v, parse_template_on spec_schema classify root j = Ok v.
Proof.
  unfold WFdoc, parse_template_on. split.
  - intros (pre' & post' & v & Hpre & Hpost & H). exists v. rewrite <- (deciders_parse pre' post'); assumption.
  - intros (v & H). exists pre_hook, (post_hook classify), v.
    split; [exact code_decides_pre|]. split; [exact code_decides_post|exact H].
Qed.





End Docs.
