(* Validators.v — the repo-side validators of v2023_09/_model.py as boolean functions, written as
   coded: [pre_hook cls raw] = pre-root and pre-field validators on the raw object,
   [post_hook cls raw fields] = field and root validators on the parsed values.  A validator
   that raises (ValueError / TypeError / AssertionError are all turned into validation errors by
   pydantic) is [false].  Definitions only. *)
From Coq Require Import List NArith ZArith Bool String.
Import ListNotations.
Require Import OJD.Base OJD.Lexer OJD.Json OJD.Schema OJD.Generated OJD.Charsets OJD.Numerals OJD.FormatStr
               OJD.FsRefs OJD.CreateJob OJD.RangeExpr OJD.Comb OJD.ScopeWalk OJD.DepGraph.
Local Open Scope string_scope.
Local Open Scope list_scope.

Definition fget (name : string) (fields : list (string * mval)) : mval := mfield name fields.

Definition is_none (v : mval) : bool := match v with MNone => true | _ => false end.

Definition model_fields (v : mval) : list (string * mval) := match v with MModel _ fs => fs | _ => [] end.
Definition mitems (v : mval) : list mval := match v with MList l => l | _ => [] end.
Definition mstr (v : mval) : str := match v with MStr s | MFmt s => s | _ => [] end.

(* [x.name for x in lst] *)
Definition names_of (v : mval) : list str := map (fun m => mstr (fget "name" (model_fields m))) (mitems v).

Fixpoint nodupb (l : list str) : bool :=
  match l with
  | [] => true
  | x :: r => negb (mem_str x r) && nodupb r
  end.

(* validate_unique_elements on an optional list *)
Definition unique_names (v : mval) : bool := match v with MNone => true | _ => nodupb (names_of v) end.

Definition num_of (v : mval) : option num :=
  match v with
  | MInt z => Some (num_of_Z z)
  | MDec m e | MFloat m e => Some (mkNum m e)
  | _ => None
  end.

(* a <= b on optional numbers; true when either is absent *)
Definition opt_le (a b : mval) : bool :=
  match num_of a, num_of b with
  | Some x, Some y => num_leb x y
  | _, _ => true
  end.

Definition raw_int_or_str (j : json) : bool := match j with JInt _ | JStr _ => true | _ => false end.
Definition raw_num_or_str (j : json) : bool := match j with JInt _ | JDec _ _ | JStr _ => true | _ => false end.
Definition raw_null_or (p : json -> bool) (j : json) : bool := match j with JNull => true | _ => p j end.

Section V.
  Variable classify : N -> cclass.

  (* IntRangeExpr.from_str(s) does not raise.  A Python container holds at most 2^63 - 1 values: building an
     expression with more raises (OverflowError inside the parser, reported as ExpressionError), so the
     callers' "except Exception" branches reject it.  RangeExpr.v itself is unbounded. *)
  Definition range_expr_ok (s : str) : bool :=
    match RangeExpr.from_str false false classify s with
    | Ok e => Z.ltb (RangeExpr.elen e) (2 ^ 63)
    | Raise _ => false
    end.

  Definition refs_of (s : str) : list str := match fs_refs classify s with Some l => l | None => [] end.
  Definition has_refs (s : str) : bool := match refs_of s with [] => false | _ => true end.

  (* ------------------------------------------------------------ pre validators (raw data) *)
  Definition pre_hook (cname : string) (raw : json) : bool :=
    if String.eqb cname "EnvironmentActions" then negb (is_null (jget "onEnter" raw)) || negb (is_null (jget "onExit" raw))
    else if String.eqb cname "Environment" then negb (is_null (jget "script" raw)) || negb (is_null (jget "variables" raw))
    else if String.eqb cname "AmountRequirementTemplate" then negb (is_null (jget "min" raw)) || negb (is_null (jget "max" raw))
    else if String.eqb cname "AttributeRequirementTemplate" then negb (is_null (jget "anyOf" raw)) || negb (is_null (jget "allOf" raw))
    else if String.eqb cname "IntTaskParameterDefinition" then
      match jget "range" raw with JArr items => forallb raw_int_or_str items | _ => true end
    else if String.eqb cname "FloatTaskParameterDefinition" then
      match jget "range" raw with JArr items => forallb raw_num_or_str items | _ => true end
    else if String.eqb cname "JobIntParameterDefinition" then
      raw_null_or raw_int_or_str (jget "minValue" raw) && raw_null_or raw_int_or_str (jget "maxValue" raw)
      && raw_null_or raw_int_or_str (jget "default" raw)
      && match jget "allowedValues" raw with JArr items => forallb raw_int_or_str items | _ => true end
    else true.

  (* ------------------------------------------------------------ capability names *)
  Definition seg_ok (s : str) : bool :=
    match s with
    | c :: r => (is_lower c || N.eqb c 95) && forallb (fun x => is_lower x || is_digit09 x || N.eqb x 95) r
    | [] => false
    end.

  Fixpoint split_on (sep : N) (cur_rev : str) (s : str) : list str :=
    match s with
    | [] => [rev cur_rev]
    | c :: r => if N.eqb c sep then rev cur_rev :: split_on sep [] r else split_on sep (c :: cur_rev) r
    end.

  (* _name_regex.fullmatch on the lower-cased name: (vendor:)?(amount|attr)(.seg)+ ; vendor has >= 2 chars *)
  Definition cap_regex_ok (vendor : option str) (capability : str) : bool :=
    (match vendor with
     | None => true
     | Some v => seg_ok v && Nat.leb 2 (List.length v)
     end)
    && match split_on 46 [] capability with
       | kind :: seg1 :: segs =>
         (str_eqb kind $"amount" || str_eqb kind $"attr") && seg_ok seg1 && forallb seg_ok segs
       | _ => false
       end.

  (* str.split(":", 1) *)
  Fixpoint split_first (sep : N) (cur_rev : str) (s : str) : option (str * str) :=
    match s with
    | [] => None
    | c :: r => if N.eqb c sep then Some (rev cur_rev, r) else split_first sep (c :: cur_rev) r
    end.

  Definition capability_name_ok (standard : list string) (required_prefix : str) (name : str) : bool :=
    if has_refs name then true
    else
      let low := lower_s name in
      let '(vendor, capability) := match split_first 58 [] low with Some (v, c) => (Some v, c) | None => (None, low) end in
      (* the regex admits at most one ':' (vendor and segments contain none) *)
      if negb (cap_regex_ok vendor capability) then false
      else
        let no_vendor := match vendor with None => true | Some v => match v with [] => true | _ => false end end in
        if no_vendor && existsb (fun s => str_eqb capability (str_of_string s)) standard then true
        else if negb (str_prefix required_prefix capability) then false
        else
          match split_on 46 [] low with
          | _ :: scope :: _ => negb (existsb (fun r => str_eqb scope (str_of_string r)) Generated.reserved_scopes)
          | _ => false
          end.

  Definition attr_value_ok (s : str) : bool :=
    match s with
    | c :: r => ident_start c && forallb (fun x => ident_char x || N.eqb x 45) r
    | [] => false
    end.

  (* AttributeRequirementTemplate._validate_attribute_list *)
  Definition attribute_list_ok (name : mval) (v : mval) (is_allof : bool) : bool :=
    match v with
    | MNone => true
    | _ =>
      match name with
      | MFmt nm =>
        let low := lower_s nm in
        match List.find (fun e => str_eqb low (str_of_string (fst e))) Generated.std_attr_caps with
        | Some (_, (values, multivalued)) =>
          negb (is_allof && negb multivalued && Nat.ltb 1 (List.length (mitems v)))
          && forallb (fun it => has_refs (mstr it) || existsb (fun x => str_eqb (mstr it) (str_of_string x)) values) (mitems v)
        | None =>
          forallb (fun it => has_refs (mstr it)
                            || (attr_value_ok (mstr it) && N.leb (N.of_nat (List.length (mstr it))) Generated.attr_value_max_len))
                  (mitems v)
        end
      | _ => true          (* name failed validation: KeyError is swallowed *)
      end
    end.

  (* ------------------------------------------------------------ job parameter definitions *)
  Definition len_within (minl maxl : mval) (s : str) : bool :=
    let n := Z.of_nat (List.length s) in
    (match minl with MInt a => (a <=? n)%Z | _ => true end) && (match maxl with MInt b => (n <=? b)%Z | _ => true end).

  Definition string_param_ok (fields : list (string * mval)) : bool :=
    let minl := fget "minLength" fields in
    let maxl := fget "maxLength" fields in
    let allowed := fget "allowedValues" fields in
    let dflt := fget "default" fields in
    (match minl with MInt a => (0 <? a)%Z | _ => true end)
    && (match maxl with MInt b => (0 <? b)%Z | _ => true end)
    && opt_le minl maxl
    && forallb (fun it => len_within minl maxl (mstr it)) (mitems allowed)
    && (match dflt with
        | MStr d => len_within minl maxl d
                    && (match allowed with MNone => true | _ => existsb (fun it => str_eqb d (mstr it)) (mitems allowed) end)
        | _ => true
        end).

  Definition control_of (fields : list (string * mval)) : option str :=
    match fget "userInterface" fields with
    | MModel _ ui => Some (mstr (fget "control" ui))
    | _ => None
    end.

  Definition has_allowed (fields : list (string * mval)) : bool :=
    match fget "allowedValues" fields with MList (_ :: _) => true | _ => false end.

  Definition set_eq_str (a b : list str) : bool :=
    forallb (fun x => mem_str x b) a && forallb (fun x => mem_str x a) b.

  Definition string_ui_ok (fields : list (string * mval)) : bool :=
    match control_of fields with
    | None => true
    | Some ctl =>
      negb (has_allowed fields && (str_eqb ctl $"LINE_EDIT" || str_eqb ctl $"MULTILINE_EDIT"))
      && negb (negb (has_allowed fields) && str_eqb ctl $"DROPDOWN_LIST")
      && (if str_eqb ctl $"CHECK_BOX" then
            match fget "allowedValues" fields with
            | MNone => false                                   (* iterating None: TypeError -> validation error *)
            | av =>
              let up := map (fun it => upper_s (mstr it)) (mitems av) in
              existsb (fun st => set_eq_str up (map str_of_string st)) Generated.checkbox_sets
            end
          else true)
    end.

  Definition path_ui_ok (fields : list (string * mval)) : bool :=
    match fget "userInterface" fields with
    | MModel _ ui =>
      let ctl := mstr (fget "control" ui) in
      let chooser_file := str_eqb ctl $"CHOOSE_INPUT_FILE" || str_eqb ctl $"CHOOSE_OUTPUT_FILE" in
      let has_filters := (match fget "fileFilters" ui with MList (_ :: _) => true | _ => false end)
                         || negb (is_none (fget "fileFilterDefault" ui)) in
      let ot := mstr (fget "objectType" fields) in
      negb (has_allowed fields && (chooser_file || str_eqb ctl $"CHOOSE_DIRECTORY"))
      && negb (negb (has_allowed fields) && str_eqb ctl $"DROPDOWN_LIST")
      && negb (has_filters && negb chooser_file)
      && negb (str_eqb ot $"FILE" && str_eqb ctl $"CHOOSE_DIRECTORY")
      && negb (str_eqb ot $"DIRECTORY" && chooser_file)
    | _ => true
    end.

  Definition num_within (mn mx : mval) (v : mval) : bool := opt_le mn v && opt_le v mx.

  Definition num_param_ok (fields : list (string * mval)) : bool :=
    let mn := fget "minValue" fields in
    let mx := fget "maxValue" fields in
    let allowed := fget "allowedValues" fields in
    let dflt := fget "default" fields in
    opt_le mn mx
    && forallb (num_within mn mx) (mitems allowed)
    && (match num_of dflt with
        | Some d => num_within mn mx dflt
                    && (match allowed with
                        | MNone => true
                        | _ => existsb (fun it => match num_of it with Some x => num_eqb x d | None => false end) (mitems allowed)
                        end)
        | None => true
        end).

  Definition num_ui_ok (fields : list (string * mval)) : bool :=
    match fget "userInterface" fields with
    | MModel _ ui =>
      let ctl := mstr (fget "control" ui) in
      let delta := match num_of (fget "singleStepDelta" ui) with Some d => num_truthy d | None => false end in
      negb (has_allowed fields && str_eqb ctl $"SPIN_BOX")
      && negb (negb (has_allowed fields) && str_eqb ctl $"DROPDOWN_LIST")
      && negb (delta && negb (str_eqb ctl $"SPIN_BOX"))
    | _ => true
    end.

  (* ------------------------------------------------------------ steps and templates *)
  Definition dep_names (step : mval) : list str :=
    map (fun d => mstr (fget "dependsOn" (model_fields d))) (mitems (fget "dependencies" (model_fields step))).

  Fixpoint index_of (x : str) (l : list str) (i : N) : option N :=
    match l with
    | [] => None
    | y :: r => if str_eqb x y then Some i else index_of x r (i + 1)%N
    end.

  (* the dependency relation on step indices (unknown names -> an index that is no step) *)
  Definition dep_job (steps : mval) : DepGraph.job :=
    let names := names_of steps in
    let n := N.of_nat (List.length names) in
    map (fun iv => (N.of_nat (fst iv),
                    map (fun d => match index_of d names 0 with Some k => k | None => n end) (dep_names (snd iv))))
        (combine (seq 0 (List.length names)) (mitems steps)).

  Definition env_names (v : mval) : list str := names_of v.

  Definition job_template_ok (raw : json) (fields : list (string * mval)) : bool :=
    let steps := fget "steps" fields in
    let names := names_of steps in
    nodupb names
    && unique_names (fget "parameterDefinitions" fields)
    && unique_names (fget "jobEnvironments" fields)
    && (match prevalidate Generated.schema (fs_refs classify) "JobTemplate" raw with [] => true | _ => false end)
    && negb (DepGraph.has_cycle (dep_job steps))
    && forallb (fun st => forallb (fun d => mem_str d names) (dep_names st)) (mitems steps)
    && (let jenv := env_names (fget "jobEnvironments" fields) in
        forallb (fun st => forallb (fun e => negb (mem_str e jenv)) (env_names (fget "stepEnvironments" (model_fields st)))) (mitems steps)).

  (* ------------------------------------------------------------ post validators *)
  Definition post_hook (cname : string) (raw : json) (fields : list (string * mval)) : bool :=
    if String.eqb cname "StepScript" || String.eqb cname "EnvironmentScript" then unique_names (fget "embeddedFiles" fields)
    else if String.eqb cname "IntTaskParameterDefinition" then
      match fget "range" fields with
      | MList items => forallb (fun it => match it with MFmt s => has_refs s | _ => true end) items
      | MFmt s => if has_refs s then true
                  else range_expr_ok s
      | _ => true
      end
    else if String.eqb cname "FloatTaskParameterDefinition" then
      forallb (fun it => match it with MFmt s => has_refs s | _ => true end) (mitems (fget "range" fields))
    else if String.eqb cname "StepParameterSpaceDefinition" then
      let tps := fget "taskParameterDefinitions" fields in
      nodupb (names_of tps)
      && match fget "combination" fields with
         | MStr s => match Comb.parse_str classify s with
                     | Ok t => Comb.accounting false (names_of tps) (Comb.collect_ids t)
                     | Raise _ => false
                     end
         | _ => true
         end
    else if String.eqb cname "Environment" then
      match fget "variables" fields with MDict [] => false | _ => true end
    else if String.eqb cname "JobStringParameterDefinition" then string_param_ok fields && string_ui_ok fields
    else if String.eqb cname "JobPathParameterDefinition" then string_param_ok fields && path_ui_ok fields
    else if String.eqb cname "JobIntParameterDefinition" || String.eqb cname "JobFloatParameterDefinition" then
      num_param_ok fields && num_ui_ok fields
    else if String.eqb cname "AmountRequirementTemplate" then
      capability_name_ok Generated.std_amount_caps $"amount." (mstr (fget "name" fields))
      && (match num_of (fget "min" fields) with Some v => num_leb (num_of_Z 0) v | None => true end)
      && (match num_of (fget "max" fields) with Some v => num_ltb (num_of_Z 0) v | None => true end)
      && opt_le (fget "min" fields) (fget "max" fields)
    else if String.eqb cname "AttributeRequirementTemplate" then
      capability_name_ok (map fst Generated.std_attr_caps) $"attr." (mstr (fget "name" fields))
      && attribute_list_ok (fget "name" fields) (fget "anyOf" fields) false
      && attribute_list_ok (fget "name" fields) (fget "allOf" fields) true
    else if String.eqb cname "HostRequirementsTemplate" then
      let am := fget "amounts" fields in
      let at_ := fget "attributes" fields in
      (match am with MList [] => false | _ => true end)
      && (match at_ with MList [] => false | _ => true end)
      && negb (is_none am && is_none at_)
      && N.leb (N.of_nat (List.length (mitems am) + List.length (mitems at_))) Generated.max_requirements
    else if String.eqb cname "StepTemplate" then
      let deps := dep_names (MModel cname fields) in
      nodupb deps
      && unique_names (fget "stepEnvironments" fields)
      && negb (mem_str (mstr (fget "name" fields)) deps)
    (* ---- job-side target classes (re-validation after substitution) ---- *)
    else if String.eqb cname "RangeExpressionTaskParameterDefinition" then
      range_expr_ok (mstr (fget "range" fields))
    else if String.eqb cname "IntRangeListTaskParameterDefinition" then
      forallb (fun it => match parse_int (mstr it) with Some _ => true | None => false end) (mitems (fget "range" fields))
    else if String.eqb cname "FloatRangeListTaskParameterDefinition" then
      forallb (fun it => match parse_dec (mstr it) with Some (Fin _ _) => true | _ => false end) (mitems (fget "range" fields))
    else if String.eqb cname "StepParameterSpace" then
      match fget "combination" fields with
      | MStr s =>
        let lens :=
          flat_map (fun kv =>
                      match fget "range" (model_fields (snd kv)) with
                      | MList items => [(fst kv, N.of_nat (List.length items))]
                      | MFmt r | MStr r =>
                        match RangeExpr.from_str false false classify r with
                        | Ok e => if Z.ltb (RangeExpr.elen e) (2 ^ 63) then [(fst kv, Z.to_N (RangeExpr.elen e))] else []
                        | Raise _ => []
                        end
                      | _ => []
                      end)
                   (match fget "taskParameterDefinitions" fields with MDict l => l | _ => [] end) in
        match Comb.dims_str classify (Comb.lookup_len lens) s with Ok _ => true | Raise _ => false end
      | _ => true
      end
    else if String.eqb cname "JobTemplate" then job_template_ok raw fields
    else if String.eqb cname "EnvironmentTemplate" then
      unique_names (fget "parameterDefinitions" fields)
      && (match prevalidate Generated.schema (fs_refs classify) "EnvironmentTemplate" raw with [] => true | _ => false end)
    else true.
End V.
