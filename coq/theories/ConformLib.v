(* ConformLib.v — small schema-independent lemmas for the C09x development (Conform*.v):
   mapM / fold_left over outcomes, Forall helpers.  Names are prefixed [cf_]. *)
From Coq Require Import List NArith ZArith Bool String Lia.
Import ListNotations.
Require Import OJD.Base OJD.Json OJD.CreateJob.
Local Open Scope list_scope.

Lemma cf_mapM_in_fwd : forall (A B : Type) (f : A -> outcome B) l ys,
  mapM f l = Ok ys -> forall x, In x l -> exists y, In y ys /\ f x = Ok y.
Proof.
  induction l as [|a r IH]; intros ys H x Hx; [destruct Hx|].
  cbn [mapM] in H. destruct (f a) as [b|e] eqn:Ea; cbn [bind] in H; [|discriminate H].
  destruct (mapM f r) as [bs|e] eqn:Er; cbn [bind] in H; [|discriminate H].
  injection H as <-. destruct Hx as [<-|Hx].
  - exists b. split; [left; reflexivity|exact Ea].
  - destruct (IH bs eq_refl x Hx) as [y [Hy Hf]]. exists y. split; [right; exact Hy|exact Hf].
Qed.

Lemma cf_mapM_in_bwd : forall (A B : Type) (f : A -> outcome B) l ys,
  mapM f l = Ok ys -> forall y, In y ys -> exists x, In x l /\ f x = Ok y.
Proof.
  induction l as [|a r IH]; intros ys H y Hy.
  - injection H as <-. destruct Hy.
  - cbn [mapM] in H. destruct (f a) as [b|e] eqn:Ea; cbn [bind] in H; [|discriminate H].
    destruct (mapM f r) as [bs|e] eqn:Er; cbn [bind] in H; [|discriminate H].
    injection H as <-. destruct Hy as [<-|Hy].
    + exists a. split; [left; reflexivity|exact Ea].
    + destruct (IH bs eq_refl y Hy) as [x [Hx Hf]]. exists x. split; [right; exact Hx|exact Hf].
Qed.

Lemma cf_mapM_cons : forall (A B : Type) (f : A -> outcome B) a r ys,
  mapM f (a :: r) = Ok ys -> exists y ys', f a = Ok y /\ mapM f r = Ok ys' /\ ys = y :: ys'.
Proof.
  intros A B f a r ys H. cbn [mapM] in H.
  destruct (f a) as [b|e]; cbn [bind] in H; [|discriminate H].
  destruct (mapM f r) as [bs|e]; cbn [bind] in H; [|discriminate H].
  injection H as <-. exists b, bs. repeat split; reflexivity.
Qed.

Lemma cf_mapM_Forall2 : forall (A B : Type) (f : A -> outcome B) l ys,
  mapM f l = Ok ys -> Forall2 (fun x y => f x = Ok y) l ys.
Proof.
  induction l as [|a r IH]; intros ys H.
  - injection H as <-. constructor.
  - apply cf_mapM_cons in H. destruct H as [y [ys' [Hy [Hr ->]]]]. constructor; [exact Hy|apply IH; exact Hr].
Qed.

(* the "all" loop of Export.nodes_ok *)
Lemma cf_all_fold_true : forall (A : Type) (G : A -> outcome bool) l acc,
  fold_left (fun (a : outcome bool) x => do b <- a; if b then G x else Ok false) l acc = Ok true ->
  acc = Ok true /\ forall x, In x l -> G x = Ok true.
Proof.
  intros A G. induction l as [|x r IH]; intros acc H.
  - cbn [fold_left] in H. split; [exact H|]. intros x [].
  - cbn [fold_left] in H. destruct (IH _ H) as [Hs Hr].
    destruct acc as [b|e]; cbn [bind] in Hs; [|discriminate Hs].
    destruct b; [|discriminate Hs]. split; [reflexivity|].
    intros y [<-|Hy]; [exact Hs|apply Hr; exact Hy].
Qed.

Lemma cf_Forall_map_ex : forall (A B : Type) (g : B -> A) (l : list A),
  Forall (fun x => exists s, x = g s) l -> exists ss, l = map g ss.
Proof.
  intros A B g. induction l as [|x r IH]; intros H; [exists []; reflexivity|].
  inversion H as [|? ? [s ->] Hr]; subst. destruct (IH Hr) as [ss ->]. exists (s :: ss). reflexivity.
Qed.

Lemma cf_str_eqb_refl : forall a, str_eqb a a = true.
Proof. induction a as [|x a IH]; simpl; [reflexivity|]. rewrite N.eqb_refl. exact IH. Qed.

Lemma cf_str_eqb_eq : forall a b, str_eqb a b = true -> a = b.
Proof.
  induction a as [|x a IH]; intros [|y b] H; simpl in H; try reflexivity; try discriminate.
  apply andb_true_iff in H. destruct H as [H1 H2]. apply N.eqb_eq in H1. apply IH in H2. subst. reflexivity.
Qed.
