"""C03 — variable references are accepted exactly where the variable is in scope."""
import random
import re
import sys
from pathlib import Path

sys.path.insert(0, str(Path(__file__).resolve().parent))
import core  # noqa: E402
import gen_template as G  # noqa: E402

from openjd.model import decode_job_template, decode_environment_template, DecodeValidationError  # noqa: E402
from openjd.model._internal._variable_reference_validation import prevalidate_model_template_variable_references  # noqa: E402
from openjd.model.v2023_09 import JobTemplate, EnvironmentTemplate  # noqa: E402

_SRC_CHARS = "".join(sorted({c for c in Path(G.__file__).read_text() if ord(c) > 127}))
EXTRA = "٣　 ²"
_MSG = re.compile(r"Variable (.*?) does not exist at this location\.")


def loc_str(loc):
    return "/".join(str(x) for x in loc)


# ------------------------------------------------------------------ format-string sites of a document
def env_sites(env, base):
    out = []
    if not isinstance(env, dict):
        return out
    sc = env.get("script")
    if isinstance(sc, dict):
        acts = sc.get("actions")
        if isinstance(acts, dict):
            for an in ("onEnter", "onExit"):
                a = acts.get(an)
                if isinstance(a, dict):
                    out.append(base + ("script", "actions", an, "command"))
                    for i, _ in enumerate(a.get("args") or []):
                        out.append(base + ("script", "actions", an, "args", i))
        for i, f in enumerate(sc.get("embeddedFiles") or []):
            out.append(base + ("script", "embeddedFiles", i, "data"))
    for k in (env.get("variables") or {}):
        out.append(base + ("variables", k))
    return out


def job_sites(doc):
    out = [("name",)]
    for si, st in enumerate(doc.get("steps") or []):
        b = ("steps", si)
        sc = st.get("script") or {}
        a = (sc.get("actions") or {}).get("onRun") or {}
        out.append(b + ("script", "actions", "onRun", "command"))
        for i, _ in enumerate(a.get("args") or []):
            out.append(b + ("script", "actions", "onRun", "args", i))
        for i, _ in enumerate(sc.get("embeddedFiles") or []):
            out.append(b + ("script", "embeddedFiles", i, "data"))
        for ei, env in enumerate(st.get("stepEnvironments") or []):
            out += env_sites(env, b + ("stepEnvironments", ei))
        ps = st.get("parameterSpace") or {}
        for ti, tp in enumerate(ps.get("taskParameterDefinitions") or []):
            r = tp.get("range")
            if isinstance(r, list):
                for i, _ in enumerate(r):
                    out.append(b + ("parameterSpace", "taskParameterDefinitions", ti, "range", i))
            else:
                out.append(b + ("parameterSpace", "taskParameterDefinitions", ti, "range"))
        hr = st.get("hostRequirements") or {}
        for i, am in enumerate(hr.get("amounts") or []):
            out.append(b + ("hostRequirements", "amounts", i, "name"))
        for i, at in enumerate(hr.get("attributes") or []):
            out.append(b + ("hostRequirements", "attributes", i, "name"))
            for k in ("anyOf", "allOf"):
                for j, _ in enumerate(at.get(k) or []):
                    out.append(b + ("hostRequirements", "attributes", i, k, j))
    for ei, env in enumerate(doc.get("jobEnvironments") or []):
        out += env_sites(env, ("jobEnvironments", ei))
    return out


def non_fs_sites(doc):
    """string fields that are NOT format strings: '{{' there is not a reference"""
    out = []
    if "description" in doc:
        out.append(("description",))
    for i, p in enumerate(doc.get("parameterDefinitions") or []):
        if p["type"] in ("STRING", "PATH") and "default" in p and "allowedValues" not in p and "minLength" not in p and "maxLength" not in p:
            out.append(("parameterDefinitions", i, "default"))
        if "description" in p:
            out.append(("parameterDefinitions", i, "description"))
    for si, st in enumerate(doc.get("steps") or []):
        if "description" in st:
            out.append(("steps", si, "description"))
        for i, f in enumerate((st.get("script") or {}).get("embeddedFiles") or []):
            if "filename" in f:
                out.append(("steps", si, "script", "embeddedFiles", i, "filename"))
    return out


def get_at(doc, path):
    for p in path:
        doc = doc[p]
    return doc


def set_at(doc, path, value):
    for p in path[:-1]:
        doc = doc[p]
    doc[path[-1]] = value


def all_symbols(doc):
    """every symbol some object of the document defines, plus near misses"""
    syms = list(G.SESSION_CONSTS)
    for p in doc.get("parameterDefinitions") or []:
        syms += ["Param." + p["name"], "RawParam." + p["name"]]

    def env_syms(env):
        for f in ((env.get("script") or {}).get("embeddedFiles") or []):
            syms.append("Env.File." + f["name"])

    for st in doc.get("steps") or []:
        for tp in (st.get("parameterSpace") or {}).get("taskParameterDefinitions") or []:
            syms += ["Task.Param." + tp["name"], "Task.RawParam." + tp["name"]]
        for f in (st.get("script") or {}).get("embeddedFiles") or []:
            syms.append("Task.File." + f["name"])
        for env in st.get("stepEnvironments") or []:
            env_syms(env)
    for env in doc.get("jobEnvironments") or []:
        env_syms(env)
    if "environment" in doc:
        env_syms(doc["environment"])
    misses = ["Param.Nope", "RawParam.Nope", "Task.Param.Nope", "Task.File.Nope", "Env.File.Nope", "Session.Nope", "Param", "Task", "Session",
              "Session.workingdirectory", "Job.Name", "Step.Name", "Task.Param", "nope"]
    return list(dict.fromkeys(syms)), misses


def misspell(rng, s):
    i = rng.randrange(len(s))
    k = rng.random()
    if k < 0.3:
        return s[:i] + s[i + 1:]
    if k < 0.6:
        return s[:i] + rng.choice("xQ_9") + s[i:]
    if k < 0.8:
        return s[:i] + s[i].swapcase() + s[i + 1:]
    return s + "s"


def place(rng, doc, site, sym, how):
    """put a reference to `sym` at `site` (replace or append)"""
    cur = get_at(doc, site)
    r = G.ref(rng, sym) if how != "tight" else "{{" + sym + "}}"
    if isinstance(cur, str) and how == "append" and "range" not in site and "name" != site[-1]:
        new = cur + " " + r
    else:
        new = r
    if site[-1] == "name" and "hostRequirements" in site:
        new = ("amount." if "amounts" in site else "attr.") + r
    set_at(doc, site, new)


JUNK = [None, True, 0, -1, 1.5, "", "x", "{{Param.X}}", [], [None], {}, {"x": 1}, {"name": "N", "type": "INT"}, [{"name": "Z", "type": "PATH"}], "{{ Session.WorkingDirectory }}"]


def all_paths(x, base=()):
    out = [base] if base else []
    if isinstance(x, dict):
        for k, v in x.items():
            out += all_paths(v, base + (k,))
    elif isinstance(x, list):
        for i, v in enumerate(x):
            out += all_paths(v, base + (i,))
    return out


class C03(core.PropBase):
    id = "C03"
    component = "scope"
    extract_file = "ExtractScope.v"
    chars = _SRC_CHARS + EXTRA
    uses_table = True
    chunk_size = 60
    theorem_for_mismatch = "C03_exact (walker on Generated.schema = document-level scope specification); model = implementation correspondence"
    assumptions = [
        "format-string front end (FormatString(value).expressions) is the FormatStr.v model, validated by the C16 check",
        "classes \\s \\w \\d of the characters used are read from Python's re on every run (ascii_ok checked by the driver)",
        "pydantic 1.10 ModelField introspection as read by tools/regen_schema.py",
    ]

    # ---------------- cases
    def base_doc(self, rng, kind):
        if kind == "env":
            return G.gen_env_template(rng, full=rng.random() < 0.5)
        return G.gen_job_template(rng, full=rng.random() < 0.5)

    def rich_job(self, rng):
        doc = G.gen_job_template(rng, full=True)
        # make the second step rich too (own vs sibling symbols)
        if len(doc["steps"]) > 1:
            params = doc.get("parameterDefinitions")
            tmpl, sess = G.param_symbols(params)
            env_names = {e["name"] for e in doc.get("jobEnvironments") or []} | {e["name"] for s in doc["steps"] for e in s.get("stepEnvironments") or []}
            st = G.gen_step(rng, doc["steps"][1]["name"], tmpl, sess, env_names, [], [], full=True)
            if "dependencies" in doc["steps"][1]:
                st["dependencies"] = doc["steps"][1]["dependencies"]
            doc["steps"][1] = st
        return doc

    def cases(self, tier, seed):
        rng = random.Random(seed * 7919 + 3)
        thorough = tier == "thorough"
        # 1. valid documents (references in scope by construction): no error expected
        for i in range(600 if thorough else 120):
            kind = "env" if i % 4 == 3 else "job"
            yield {"kind": kind, "doc": self.base_doc(rng, kind), "decode": True, "tag": "valid"}
        # 2. the location x symbol matrix on rich documents
        nrich = 6 if thorough else 2
        for r in range(nrich):
            doc = self.rich_job(rng)
            syms, misses = all_symbols(doc)
            sites = job_sites(doc)
            for site in sites:
                for sym in syms + misses + [misspell(rng, rng.choice(syms)) for _ in range(2)]:
                    d = G.deep(doc)
                    place(rng, d, site, sym, rng.choice(["replace", "append", "tight"]))
                    yield {"kind": "job", "doc": d, "decode": True, "tag": "matrix"}
            for site in non_fs_sites(doc):
                d = G.deep(doc)
                set_at(d, site, "{{Param.Nope}} {{ Task.File.x }}")
                yield {"kind": "job", "doc": d, "decode": True, "tag": "nonfs"}
        for r in range(8 if thorough else 3):
            doc = G.gen_env_template(rng, full=True)
            syms, misses = all_symbols(doc)
            for site in env_sites(doc["environment"], ("environment",)):
                for sym in syms + misses + ["Task.Param.X", "Task.File.f", "Env.File.other"]:
                    d = G.deep(doc)
                    place(rng, d, site, sym, rng.choice(["replace", "append", "tight"]))
                    yield {"kind": "env", "doc": d, "decode": True, "tag": "matrix-env"}
        # 2b. the SAME text at several sites (in scope at some, out of scope at others): a verdict cached per
        #     string instead of per location would mask the later ones
        for r in range(12 if thorough else 4):
            doc = self.rich_job(rng)
            syms, misses = all_symbols(doc)
            sites = [st for st in job_sites(doc) if isinstance(get_at(doc, st), str)]
            for sym in syms + misses[:3]:
                for _ in range(3 if thorough else 2):
                    d = G.deep(doc)
                    text = "{{" + sym + "}}"
                    chosen = rng.sample(sites, min(len(sites), rng.choice([2, 3, 4])))
                    for site in chosen:
                        if site[-1] == "name" and "hostRequirements" in site:
                            continue
                        set_at(d, site, text)
                    c = {"kind": "job", "doc": d, "decode": True, "tag": "same-text"}
                    if rng.random() < 0.5:
                        c["as_fs"] = text
                    yield c
        # 2c. crowded scopes: 16-48 job parameters (so 32-100 symbols are visible everywhere) and references that are
        #     out of scope there — one-component names ('Frame'), names without the prefix, misspellings; whatever the
        #     size of the scope, each offending reference is named
        for r in range(10 if thorough else 3):
            doc = self.rich_job(rng)
            pds = doc.setdefault("parameterDefinitions", [])
            have = {p["name"] for p in pds}
            for k in range(rng.choice([16, 24, 48]) - len(pds)):
                nm = f"Crowd{k}x{rng.randint(0, 99)}"
                if nm not in have and len(pds) < 50:
                    pds.append({"name": nm, "type": rng.choice(["STRING", "INT", "PATH", "FLOAT"])})
            syms, misses = all_symbols(doc)
            sites = [st for st in job_sites(doc) if isinstance(get_at(doc, st), str)]
            loose = ["Frame", "Zqx", "P", "Param", "Task", "Crowd0", rng.choice(pds)["name"], "Session", "RawParam"] + [misspell(rng, rng.choice(syms)).replace(".", "") for _ in range(3)]
            for sym in loose + misses[:4] + [misspell(rng, rng.choice(syms)) for _ in range(3)]:
                for site in rng.sample(sites, min(len(sites), 4 if thorough else 2)):
                    d = G.deep(doc)
                    place(rng, d, site, sym, rng.choice(["replace", "append", "tight"]))
                    yield {"kind": "job", "doc": d, "decode": True, "tag": "crowded"}
        # 2c'. undeclared names longer than any fixed-width counter of the "did you mean" helper holds (2**16 and around),
        #      next to an ordinary offending reference elsewhere: both are named
        for n in (65535, 65536, 70001) if thorough else (65536,):
            for where in ("name", "args"):
                d = {"specificationVersion": "jobtemplate-2023-09", "name": "J", "parameterDefinitions": [{"name": "P", "type": "STRING"}],
                     "steps": [{"name": "S", "script": {"actions": {"onRun": {"command": "{{Param.Nope}}", "args": ["{{Param.P}}"]}}}}]}
                long = "{{ Param." + "Q" * n + " }}"
                if where == "name":
                    d["name"] = long
                else:
                    d["steps"][0]["script"]["actions"]["onRun"]["args"].append(long)
                yield {"kind": "job", "doc": d, "decode": True, "tag": "long-undeclared"}
        # 2d. the SAME Python object at two places of the document (what a YAML alias gives: `script: *s`): step 2 reusing
        #     step 1's script / action / args list / parameter space / environments, with references that are in scope at
        #     one of the two places only.  Every place is checked for itself.
        for r in range(40 if thorough else 10):
            doc = self.rich_job(rng)
            if len(doc["steps"]) < 2:
                continue
            a, b = doc["steps"][0], doc["steps"][1]
            what = rng.choice(["script", "onRun", "args", "parameterSpace", "stepEnvironments", "hostRequirements", "embeddedFiles"])
            try:
                if what == "script":
                    b["script"] = a["script"]
                elif what == "onRun":
                    b["script"]["actions"]["onRun"] = a["script"]["actions"]["onRun"]
                elif what == "args":
                    a["script"]["actions"]["onRun"].setdefault("args", ["x"])
                    b["script"]["actions"]["onRun"]["args"] = a["script"]["actions"]["onRun"]["args"]
                elif what == "embeddedFiles":
                    b["script"]["embeddedFiles"] = a["script"]["embeddedFiles"]
                else:
                    b[what] = a[what]
            except (KeyError, TypeError):
                continue
            yield {"kind": "job", "doc": doc, "decode": True, "tag": "shared-object"}
            # and with an out-of-scope / in-scope-at-one-place reference put into the shared part
            syms, misses = all_symbols(doc)
            sites = [st for st in job_sites(doc) if isinstance(get_at(doc, st), str) and st[:2] == ("steps", 0)]
            for sym in rng.sample(syms, min(len(syms), 4)) + misses[:2]:
                if not sites:
                    break
                d = doc            # NOT a deep copy per variant: copy once, keeping the aliasing, then place
                d = G.deep(doc)
                place(rng, d, rng.choice(sites), sym, "tight")
                yield {"kind": "job", "doc": d, "decode": True, "tag": "shared-object"}
        # 3. several references at once (errors must not mask one another)
        for i in range(3000 if thorough else 500):
            doc = self.rich_job(rng) if i % 3 else G.gen_job_template(rng)
            syms, misses = all_symbols(doc)
            sites = job_sites(doc)
            for _ in range(rng.randint(2, 6)):
                site = rng.choice(sites)
                sym = rng.choice(syms) if rng.random() < 0.6 else (rng.choice(misses) if rng.random() < 0.5 else misspell(rng, rng.choice(syms)))
                if isinstance(get_at(doc, site), str):
                    place(rng, doc, site, sym, rng.choice(["replace", "append", "tight"]))
            yield {"kind": "job", "doc": doc, "decode": True, "tag": "multi"}
        # 4. junk: the walker on documents that do not match the model (direct call only)
        for i in range(4000 if thorough else 700):
            kind = "env" if i % 5 == 4 else "job"
            doc = self.base_doc(rng, kind)
            paths = all_paths(doc)
            for _ in range(rng.choice([1, 1, 2, 3])):
                p = rng.choice(paths)
                try:
                    get_at(doc, p)          # the path must still exist (an earlier junk value may have replaced it)
                    set_at(doc, p, G.deep(rng.choice(JUNK)))
                except (KeyError, IndexError, TypeError):
                    pass
            yield {"kind": kind, "doc": doc, "decode": False, "tag": "junk"}

    def rule(self, tier):
        return ("valid generated job/environment templates (references in scope by construction); full matrix: every format-string site of rich "
                "2-3 step templates x every symbol defined anywhere in the document (own and sibling step/environment), near misses and misspellings, "
                "placed replace/append/tight; documents in which two steps share one Python object (script / action / args / parameter space / environments: what a YAML alias produces); crowded scopes (16-48 job parameters) x one-component / prefix-less / misspelt names; '{{' in non-format-string fields; 2-6 simultaneous references; junk documents (type confusion at 1-3 random "
                "positions) through the walker only. distinct = by document; non-trivial = document with at least one placed reference or junk value")

    def samples(self, tier, seed):
        rng = random.Random(seed)
        doc = G.gen_job_template(rng)
        sites = job_sites(doc)
        return [{"site": loc_str(s)} for s in sites[:6]] + [{"symbols": all_symbols(doc)[0][:8]}]

    def nontrivial(self, case):
        return case["tag"] != "valid"

    # ---------------- implementation
    def impl(self, case):
        doc = case["doc"]
        if case.get("as_fs"):
            # the caller assembled the template from parts: every occurrence of this text is ONE FormatString instance (a str)
            from openjd.model._format_strings import FormatString
            try:
                inst = FormatString(case["as_fs"])
            except Exception:  # noqa: BLE001
                inst = None
            if inst is not None:
                def swap(x):
                    if isinstance(x, dict):
                        return {k: swap(v) for k, v in x.items()}
                    if isinstance(x, list):
                        return [swap(v) for v in x]
                    return inst if isinstance(x, str) and x == case["as_fs"] else x
                doc = swap(doc)
        cls = JobTemplate if case["kind"] == "job" else EnvironmentTemplate
        before = G.deep(doc)
        try:
            errs = prevalidate_model_template_variable_references(cls, doc)
            direct = []
            for e in errs:
                m = _MSG.search(str(e.exc))
                direct.append([loc_str(e.loc_tuple()), m.group(1) if m else "?" + str(e.exc)[:40]])
            direct.sort()
        except BaseException as e:  # noqa: BLE001
            direct = ["raise", type(e).__name__]
        if doc != before:
            direct = ["input-mutated"]
        out = {"direct": direct}
        if case["decode"]:
            try:
                (decode_job_template if case["kind"] == "job" else decode_environment_template)(template=doc)
                out["decode"] = ["names", []]
            except DecodeValidationError as e:
                # the names reported through the public API; a rejection for other reasons too (the placed
                # reference made e.g. a name too long) is not attributed to scoping: only the names compare
                out["decode"] = ["names", sorted(_MSG.findall(str(e)))]
            except BaseException as e:  # noqa: BLE001
                out["decode"] = ["raise", type(e).__name__]
        return out

    # ---------------- model
    def requests(self, case):
        missing = core.doc_chars(case["doc"]) - set(self.chars)
        if missing:
            raise RuntimeError(f"characters not in the class table: {missing!r}")
        j = core.json_sx(case["doc"])
        k = "job" if case["kind"] == "job" else "env"
        return [[f"model_{k}", j], [f"spec_{k}", j]]

    @staticmethod
    def _errs(reply):
        out = []
        for e in reply:
            if e == "fuel":
                return ["model-out-of-fuel"]
            _, loc, name = e
            out.append(["/".join(core.uncps(x[1]) if x[0] == "k" else str(x[1]) for x in loc), core.uncps(name)])
        return sorted(out)

    def model_obs(self, case, replies):
        m, s = self._errs(replies[0]), self._errs(replies[1])
        if m != s:
            return {"model-spec-disagree": [m, s]}
        out = {"direct": m}
        if case["decode"]:
            out["decode"] = ["names", sorted(n for _, n in m)]
        return out

    def classify_case(self, case, obs):
        ks = [case["tag"]]
        d = obs.get("direct")
        if isinstance(d, list) and d and isinstance(d[0], list):
            ks.append(f"errors={min(len(d), 5)}")
        elif d == []:
            ks.append("errors=0")
        return ks

    def spec_obs(self, case):
        return "see 'model' (model and spec oracle agree unless the observable says model-spec-disagree)"

    def still_fails(self, case):
        drv = core.Driver(self.component)
        replies, _ = drv.ask(self.requests(case), self.prelude())
        i, m = self.impl(case), self.model_obs(case, replies)
        # shrink only along the primary observable, so that a candidate that merely became invalid for
        # another reason is not mistaken for the same failure
        return "direct" in m and i.get("direct") != m.get("direct")

    def shrink_candidates(self, case):
        doc = case["doc"]
        # drop steps / environments / optional members
        for p in all_paths(doc):
            parent = get_at(doc, p[:-1]) if len(p) > 1 else doc
            if isinstance(parent, list) and len(parent) > 1:
                d = G.deep(doc)
                del get_at(d, p[:-1])[p[-1]]
                yield dict(case, doc=d)
            elif isinstance(parent, dict) and p[-1] not in ("name", "type", "specificationVersion"):
                d = G.deep(doc)
                par = get_at(d, p[:-1]) if len(p) > 1 else d
                del par[p[-1]]
                yield dict(case, doc=d)


PROP = C03()

if __name__ == "__main__":
    sys.exit(core.main(PROP, sys.argv[1:]))
