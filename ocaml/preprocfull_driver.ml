(* preprocfull_driver.ml — serves PreprocessFull.preprocess_docs: the mode, the two directory strings, the
   walk-up flag, the RAW environment template documents, the RAW job template document and the caller's
   values in; the returned (name, type, value) list or the exception family out.
   Integers travel with arbitrary precision in both directions (conv.ml: decimal atoms below 2^61,
   b<bits> / b-<bits> beyond); strings are code-point lists. *)
open Sx
open Model
open Conv
open Convjson

let table : (int, cclass) Hashtbl.t = Hashtbl.create 64
let class_of_name = function
  | "space" -> CSpace | "namestart" -> CNameStart | "digit" -> CDigit | "udigit" -> CUDigit
  | "dot" -> CDot | "star" -> CStar | "lparen" -> CLParen | "rparen" -> CRParen
  | "comma" -> CComma | "hyphen" -> CHyphen | "colon" -> CColon | "other" -> COther
  | s -> failwith ("class " ^ s)
let classify (c : n) : cclass =
  let i = match c with N0 -> 0 | Npos p -> (match int_of_pos p with Some v -> v | None -> -1) in
  match Hashtbl.find_opt table i with
  | Some cl -> cl
  | None -> if i >= 0 && i < 128 then ascii_class c else COther

let ptype_name = function STRING -> "STRING" | PATH -> "PATH" | INT -> "INT" | FLOAT -> "FLOAT"
let pair_of_sx = function L [k; v] -> (str_of_sx k, str_of_sx v) | _ -> failwith "pair"
let sx_of_entry (n, (t, v)) = L [sx_of_str n; A (ptype_name t); sx_of_str v]
let mode_of_sx = function A "client" -> Client | A "server" -> Server | _ -> failwith "mode"

let sx_of_num (x : num) = L [sx_of_z x.mant; sx_of_z x.expo]
(* the wire form of harness/jobparams_common.def_sx (debugging aid: `defs` requests) *)
let sx_of_def (d : pdef) : Sx.t =
  L [ sx_of_str d.pname; A (ptype_name d.ptyp);
      sx_of_opt sx_of_num d.pminv; sx_of_opt sx_of_num d.pmaxv;
      sx_of_opt (sx_of_list sx_of_num) d.pallowed_n; sx_of_opt (sx_of_list sx_of_str) d.pallowed_s;
      sx_of_opt sx_of_z d.pminlen; sx_of_opt sx_of_z d.pmaxlen;
      sx_of_opt sx_of_str d.pdefault;
      sx_of_opt (function OT_FILE -> A "FILE" | OT_DIRECTORY -> A "DIRECTORY") d.pobjtype;
      sx_of_opt (function DF_NONE -> A "NONE" | DF_IN -> A "IN" | DF_OUT -> A "OUT" | DF_INOUT -> A "INOUT") d.pdataflow ]

let reply_of (r : ((str * (ptype * str)) list) outcome outcome) : Sx.t =
  match r with
  | Raise e -> L [A "rejected"; A (exn_name e)]
  | Ok x -> sx_of_outcome (sx_of_list sx_of_entry) x

let handle (req : Sx.t) : Sx.t =
  match req with
  | L (A "table" :: entries) ->
    Hashtbl.reset table;
    List.iter (function L [A cp; A cl] -> Hashtbl.replace table (int_of_string cp) (class_of_name cl) | _ -> failwith "table") entries;
    L [A "table-ok"; sx_of_bool (ascii_ok classify)]
  (* (prefull <client|server> <dir> <cwd> <walk> (<env doc> ...) <doc> ((name value) ...)) ->
       (rejected E)                      a template is not accepted by the decode model
       (ok ((name TYPE value) ...)) | (raise E)      what preprocess_job_parameters does *)
  | L [A "prefull"; mode; dir; cwd; walk; envs; doc; vals] ->
    reply_of (preprocess_docs classify (mode_of_sx mode) (str_of_sx dir) (str_of_sx cwd) (bool_of_sx walk)
                (list_of_sx json_of_sx envs) (json_of_sx doc) (list_of_sx pair_of_sx vals))
  (* the same documents against several (mode dir cwd walk vals) tuples: one reply (a list) *)
  | L [A "prefull_many"; envs; doc; L calls] ->
    let e = list_of_sx json_of_sx envs and d = json_of_sx doc in
    L (List.map (function
         | L [mode; dir; cwd; walk; vals] ->
           reply_of (preprocess_docs classify (mode_of_sx mode) (str_of_sx dir) (str_of_sx cwd) (bool_of_sx walk) e d (list_of_sx pair_of_sx vals))
         | _ -> failwith "call") calls)
  | L [A "defs"; A "sources"; envs; doc] ->
    sx_of_outcome (sx_of_list sx_of_def) (docs_sources classify (list_of_sx json_of_sx envs) (json_of_sx doc))
  | L [A "defs"; A "merged"; envs; doc] ->
    sx_of_outcome (sx_of_list sx_of_def) (docs_merged classify (list_of_sx json_of_sx envs) (json_of_sx doc))
  | _ -> failwith "unknown-request"

let () = serve handle
