(* props/C05x.v — C05_exact: "a created Job is the template with creation-time substitutions, nothing else",
   END TO END on the raw document.

   For every job-template DOCUMENT j that the acceptance model accepts (decode_job, Accept.v, on the live
   schema Generated.schema) and every list of values, if the instantiation model returns a Job
   (create_job_object, CreateJob.v: instantiate_model on the decoded instance tree, the job-side range
   coercion, model_to_object), then the document-level specification expected_job (CreateJobSpec.v: written
   on the raw document, no metadata) also returns a Job, and the two are the same JSON value up to
   [json_equiv] (JsonEquiv.v):

       scalars equal; arrays pointwise; objects as finite maps — a member whose value is null is the same as
       no member, member order is irrelevant, same keys, equivalent values.

   Hypotheses on the document, each a boolean function of the document alone (no schema):

     distinct_keys j      every object of j has pairwise distinct keys.  True of every value a JSON / YAML
                          parser returns (a Python dict cannot hold a key twice); needed because [jget] and the
                          parser read the FIRST member with a key while "explicit nulls are absent" may
                          uncover a later one.  Only used inside scripts, environments, dependencies.
     lax_ints_native j    the two lax integer fields of the carried classes, "timeout" and
                          "notifyPeriodInSeconds", are integers in the document (pydantic accepts "5", true,
                          5.0 there and stores 5; the Job would then differ from the document).  Members of an
                          environment's "variables" are exempt.
     canonical_numbers j  a STRING item of an INT (FLOAT) range list that int() (Decimal()) accepts, and an
                          amount bound given as a string, is written the way str() prints the number
                          ("5" not "+5"/" 5"/"0_5"; "1.50" is fine, "1.5e0" is not).  The template stores the
                          NUMBER and create_job writes str(number); the specification substitutes into the
                          string as written.

   No hypothesis on the values: [covers] is not needed (a missing value makes the model raise KeyError, and
   the theorem speaks about returned Jobs); the corollary C05_exact states it in the requested form. *)
From Coq Require Import List NArith ZArith Bool String.
Import ListNotations.
Require Import OJD.Base OJD.Lexer OJD.Json OJD.Schema OJD.Generated OJD.CreateJob OJD.CreateJobSpec OJD.Accept OJD.Export
               OJD.NoMissingVar OJD.JsonEquiv OJD.CreateJobExactCarried OJD.CreateJobExactSpace OJD.CreateJobExactHost
               OJD.CreateJobExact.
Local Open Scope string_scope.
Local Open Scope list_scope.

(* ------------------------------------------------------------------ the equivalence *)
Theorem C05x_equiv_refl : forall j, json_equiv j j.
Proof. exact json_equiv_refl. Qed.
Print Assumptions C05x_equiv_refl.

Theorem C05x_equiv_sym : forall a b, json_equiv a b -> json_equiv b a.
Proof. exact json_equiv_sym. Qed.
Print Assumptions C05x_equiv_sym.

Theorem C05x_equiv_trans : forall a b c, json_equiv a b -> json_equiv b c -> json_equiv a c.
Proof. exact json_equiv_trans. Qed.
Print Assumptions C05x_equiv_trans.

(* ------------------------------------------------------------------ the theorem *)
Theorem C05_exact_full : forall classify j t vals job,
  ascii_ok classify = true ->
  decode_job classify j = Ok t ->
  distinct_keys j = true -> lax_ints_native j = true -> canonical_numbers j = true ->
  create_job_object Generated.schema (fs_resolve classify) vals t = Ok job ->
  exists job', expected_job (fs_resolve classify) (symtab_of vals) j = Ok job' /\ json_equiv job job'.
Proof. exact CreateJobExact.C05_exact_full. Qed.
Print Assumptions C05_exact_full.

(* ... in the form of the design document (the [covers] premise is not used) *)
Theorem C05_exact : forall classify j t vals job,
  ascii_ok classify = true ->
  decode_job classify j = Ok t ->
  covers (jget "parameterDefinitions" j) vals ->
  distinct_keys j = true -> lax_ints_native j = true -> canonical_numbers j = true ->
  create_job_object Generated.schema (fs_resolve classify) vals t = Ok job ->
  exists job', expected_job (fs_resolve classify) (symtab_of vals) j = Ok job' /\ json_equiv job job'.
Proof. intros classify j t vals job Ha Hd _. exact (CreateJobExact.C05_exact_full classify j t vals job Ha Hd). Qed.
Print Assumptions C05_exact.

(* templates whose steps have neither parameterSpace nor hostRequirements: name substitution, parameters map,
   everything else carried over; any [resolve], any [classify], no condition on numerals *)
Theorem C05_exact_partial_1 : forall classify resolve j t vals job,
  decode_job classify j = Ok t ->
  distinct_keys j = true -> lax_ints_native j = true -> plain_steps j = true ->
  create_job_object Generated.schema resolve vals t = Ok job ->
  exists job', expected_job resolve (symtab_of vals) j = Ok job' /\ json_equiv job job'.
Proof. exact CreateJobExact.C05_exact_plain. Qed.
Print Assumptions C05_exact_partial_1.

(* templates without hostRequirements *)
Theorem C05_exact_partial_2 : forall classify j t vals job,
  ascii_ok classify = true ->
  decode_job classify j = Ok t ->
  distinct_keys j = true -> lax_ints_native j = true -> no_host_steps j = true ->
  forallb (fun st => canon_space (jget "parameterSpace" st)) (items (jget "steps" j)) = true ->
  create_job_object Generated.schema (fs_resolve classify) vals t = Ok job ->
  exists job', expected_job (fs_resolve classify) (symtab_of vals) j = Ok job' /\ json_equiv job job'.
Proof. exact CreateJobExact.C05_exact_space. Qed.
Print Assumptions C05_exact_partial_2.

(* equality up to member ORDER ([json_perm]: scalars equal, arrays pointwise, objects a permutation of members with
   equal keys and values): holds as soon as the two Jobs have pairwise distinct keys and the specification's Job has
   no null member -- three boolean functions of the two VALUES (that the model's Job has no null member is proved).
   Not proved here: that these three always hold for accepted documents (see the report). *)
Theorem C05_exact_perm : forall classify j t vals job job',
  ascii_ok classify = true ->
  decode_job classify j = Ok t ->
  distinct_keys j = true -> lax_ints_native j = true -> canonical_numbers j = true ->
  create_job_object Generated.schema (fs_resolve classify) vals t = Ok job ->
  expected_job (fs_resolve classify) (symtab_of vals) j = Ok job' ->
  distinct_keys job = true -> distinct_keys job' = true -> no_null_members job' = true ->
  json_perm job job'.
Proof. exact CreateJobExact.C05_exact_perm. Qed.
Print Assumptions C05_exact_perm.

Theorem C05x_model_job_no_null : forall resolve vals t job,
  create_job_object Generated.schema resolve vals t = Ok job -> no_null_members job = true.
Proof. exact create_job_object_nnm. Qed.
Print Assumptions C05x_model_job_no_null.

Theorem C05x_equiv_perm : forall a b,
  json_equiv a b ->
  no_null_members a = true -> no_null_members b = true -> distinct_keys a = true -> distinct_keys b = true ->
  json_perm a b.
Proof. exact json_equiv_perm. Qed.
Print Assumptions C05x_equiv_perm.

(* ================================================================== non-vacuity *)
Example ascii_class_ok : ascii_ok ascii_class = true.
Proof. vm_compute. reflexivity. Qed.

Definition ex_env (name : string) : json :=
  JObj [($"description", JNull); ($"name", JStr $name);
        ($"variables", JObj [($"V", JStr $"{{Param.S}}"); ($"timeout", JStr $"5")])].

Definition ex_script (arg : string) : json :=
  JObj [($"embeddedFiles", JArr [JObj [($"type", JStr $"TEXT"); ($"name", JStr $"f"); ($"data", JStr $"{{RawParam.P}}");
                                      ($"runnable", JNull)]]);
        ($"actions", JObj [($"onRun", JObj [($"args", JArr [JStr $arg; JStr $"{{Param.S}}"]);
                                            ($"command", JStr $"echo {{Param.S}} {{Task.File.f}}");
                                            ($"timeout", JInt 5);
                                            ($"cancelation", JObj [($"notifyPeriodInSeconds", JInt 10);
                                                                   ($"mode", JStr $"NOTIFY_THEN_TERMINATE")])])])].

Definition ex_space : json :=
  JObj [($"combination", JStr $"(i,k) * x * s");
        ($"taskParameterDefinitions",
         JArr [JObj [($"name", JStr $"i"); ($"type", JStr $"INT"); ($"range", JStr $"1-{{Param.I}}")];
               JObj [($"range", JArr [JInt 7; JStr $"3"; JStr $"{{Param.I}}"]); ($"type", JStr $"INT"); ($"name", JStr $"k")];
               JObj [($"name", JStr $"x"); ($"type", JStr $"FLOAT"); ($"range", JArr [JDec 25 (-1); JStr $"1.50"; JInt 2; JStr $"{{Param.I}}"])];
               JObj [($"name", JStr $"s"); ($"type", JStr $"STRING"); ($"range", JArr [JStr $"a{{Param.I}}"; JStr $"007"])]])].

Definition ex_host : json :=
  JObj [($"attributes", JArr [JObj [($"name", JStr $"attr.worker.os.family"); ($"anyOf", JArr [JStr $"linux"]); ($"allOf", JNull)];
                              JObj [($"name", JStr $"attr.{{Param.S}}"); ($"allOf", JArr [JStr $"{{Param.S}}"; JStr $"b"])]]);
        ($"amounts", JArr [JObj [($"max", JStr $"2.5"); ($"name", JStr $"amount.worker.vcpu"); ($"min", JInt 1)];
                           JObj [($"name", JStr $"amount.{{Param.S}}"); ($"min", JDec 5 (-1))]])].

(* two steps; members deliberately not in schema order, some explicit nulls *)
Definition ex_doc : json :=
  JObj [($"steps",
         JArr [JObj [($"hostRequirements", ex_host); ($"script", ex_script "{{Task.Param.i}}"); ($"name", JStr $"a");
                     ($"parameterSpace", ex_space); ($"stepEnvironments", JArr [ex_env "se"]); ($"description", JStr $"first {{Param.S}}")];
               JObj [($"name", JStr $"b"); ($"dependencies", JArr [JObj [($"dependsOn", JStr $"a")]]); ($"script", ex_script "{{RawParam.P}}");
                     ($"parameterSpace", JNull)]]);
        ($"specificationVersion", JStr $"jobtemplate-2023-09");
        ($"jobEnvironments", JArr [ex_env "e"]);
        ($"$schema", JStr $"http://x");
        ($"description", JStr $"d {{Param.S}}");
        ($"parameterDefinitions",
         JArr [JObj [($"name", JStr $"S"); ($"type", JStr $"STRING"); ($"description", JStr $"a string"); ($"default", JStr $"x")];
               JObj [($"type", JStr $"PATH"); ($"name", JStr $"P"); ($"description", JNull)];
               JObj [($"name", JStr $"I"); ($"type", JStr $"INT"); ($"minValue", JStr $"1")]]);
        ($"name", JStr $"job {{Param.S}} {{RawParam.P}}")].

(* the value of S looks like a reference: it is not expanded again *)
Definition ex_vals : list (str * str * str) :=
  [($"S", $"STRING", $"{{Param.I}}"); ($"P", $"PATH", $"/tmp"); ($"I", $"INT", $"3")].

Definition ex_decoded : outcome mval := decode_job ascii_class ex_doc.
Definition ex_job : outcome json :=
  match ex_decoded with
  | Ok t => create_job_object Generated.schema (fs_resolve ascii_class) ex_vals t
  | Raise e => Raise e
  end.

(* every hypothesis of C05_exact_full holds of the example, and the Job has a parameter space and host requirements *)
Example C05_exact_nonvacuous :
  ascii_ok ascii_class = true /\
  is_ok ex_decoded = true /\
  distinct_keys ex_doc = true /\ lax_ints_native ex_doc = true /\ canonical_numbers ex_doc = true /\
  is_ok ex_job = true /\
  plain_steps ex_doc = false /\ no_host_steps ex_doc = false.
Proof. vm_compute. repeat split. Qed.

(* ... hence its conclusion: the specification's Job exists and is equivalent to the model's *)
Example C05_exact_example :
  exists t job job', decode_job ascii_class ex_doc = Ok t /\
    create_job_object Generated.schema (fs_resolve ascii_class) ex_vals t = Ok job /\
    expected_job (fs_resolve ascii_class) (symtab_of ex_vals) ex_doc = Ok job' /\ json_equiv job job'.
Proof.
  destruct (decode_job ascii_class ex_doc) as [t|e] eqn:Ed; [|vm_compute in Ed; discriminate Ed].
  destruct (create_job_object Generated.schema (fs_resolve ascii_class) ex_vals t) as [job|e] eqn:Ej.
  - assert (K1 : distinct_keys ex_doc = true) by (vm_compute; reflexivity).
    assert (K2 : lax_ints_native ex_doc = true) by (vm_compute; reflexivity).
    assert (K3 : canonical_numbers ex_doc = true) by (vm_compute; reflexivity).
    destruct (C05_exact_full ascii_class ex_doc t ex_vals job ascii_class_ok Ed K1 K2 K3 Ej) as [job' [H1 H2]].
    exists t, job, job'. repeat split; assumption.
  - exfalso. assert (K : is_ok ex_job = true) by (vm_compute; reflexivity).
    unfold ex_job, ex_decoded in K. rewrite Ed, Ej in K. discriminate K.
Qed.

(* ... and, the three value conditions of C05_exact_perm being true of the two Jobs, they are equal up to member order *)
Definition ex_t : mval := Eval vm_compute in match decode_job ascii_class ex_doc with Ok t => t | Raise _ => MNone end.
Definition ex_model_job : json :=
  Eval vm_compute in match create_job_object Generated.schema (fs_resolve ascii_class) ex_vals ex_t with Ok x => x | Raise _ => JNull end.
Definition ex_spec_job : json :=
  Eval vm_compute in match expected_job (fs_resolve ascii_class) (symtab_of ex_vals) ex_doc with Ok x => x | Raise _ => JNull end.

Example C05_exact_perm_example :
  decode_job ascii_class ex_doc = Ok ex_t /\
  create_job_object Generated.schema (fs_resolve ascii_class) ex_vals ex_t = Ok ex_model_job /\
  expected_job (fs_resolve ascii_class) (symtab_of ex_vals) ex_doc = Ok ex_spec_job /\
  json_perm ex_model_job ex_spec_job.
Proof.
  assert (H1 : decode_job ascii_class ex_doc = Ok ex_t) by (vm_compute; reflexivity).
  assert (H2 : create_job_object Generated.schema (fs_resolve ascii_class) ex_vals ex_t = Ok ex_model_job) by (vm_compute; reflexivity).
  assert (H3 : expected_job (fs_resolve ascii_class) (symtab_of ex_vals) ex_doc = Ok ex_spec_job) by (vm_compute; reflexivity).
  split; [exact H1|]. split; [exact H2|]. split; [exact H3|].
  apply (C05_exact_perm ascii_class ex_doc ex_t ex_vals ex_model_job ex_spec_job ascii_class_ok H1); try assumption;
    vm_compute; reflexivity.
Qed.

(* the canonical-number condition cannot be dropped: with "+3" in an INT range the model's Job holds "3", the
   specification's "+3" *)
Definition ex_noncanon : json :=
  JObj [($"specificationVersion", JStr $"jobtemplate-2023-09"); ($"name", JStr $"n");
        ($"steps", JArr [JObj [($"name", JStr $"a");
                               ($"script", JObj [($"actions", JObj [($"onRun", JObj [($"command", JStr $"c")])])]);
                               ($"parameterSpace",
                                JObj [($"taskParameterDefinitions",
                                       JArr [JObj [($"name", JStr $"k"); ($"type", JStr $"INT"); ($"range", JArr [JStr $"+3"])]])])]])].

Example C05_canonical_needed :
  canonical_numbers ex_noncanon = false /\
  exists t job job', decode_job ascii_class ex_noncanon = Ok t /\
    create_job_object Generated.schema (fs_resolve ascii_class) [] t = Ok job /\
    expected_job (fs_resolve ascii_class) [] ex_noncanon = Ok job' /\ job <> job' /\
    jget "range" (jget "k" (jget "taskParameterDefinitions" (jget "parameterSpace" (match jget "steps" job with JArr (s :: _) => s | _ => JNull end))))
      = JArr [JStr $"3"] /\
    jget "range" (jget "k" (jget "taskParameterDefinitions" (jget "parameterSpace" (match jget "steps" job' with JArr (s :: _) => s | _ => JNull end))))
      = JArr [JStr $"+3"].
Proof.
  split; [vm_compute; reflexivity|].
  eexists. eexists. eexists. split; [vm_compute; reflexivity|]. split; [vm_compute; reflexivity|].
  split; [vm_compute; reflexivity|]. split; [intros E; vm_compute in E; discriminate E|].
  split; vm_compute; reflexivity.
Qed.
