# C01 / C02 probe: rule-violating and boundary-valid mutations of a rich template; expected verdict from the rule inventory (DESIGN App. C).
import copy, sys
from openjd.model import decode_job_template, decode_environment_template, DecodeValidationError
src = open("/verif/notes/probes/p05_p17_p19_job.py").read().split("FS = re.compile")[0]
ns = {}; exec(src, ns)
base = ns["template"]()
def verdict(d):
    try: decode_job_template(template=d); return True
    except DecodeValidationError: return False
    except Exception as e: return "EXC:" + type(e).__name__
assert verdict(base) is True
S0 = lambda d: d["steps"][0]; PS = lambda d: S0(d)["parameterSpace"]; TP = lambda d: PS(d)["taskParameterDefinitions"]
PD = lambda d: d["parameterDefinitions"]; HR = lambda d: S0(d)["hostRequirements"]; ACT = lambda d: S0(d)["script"]["actions"]["onRun"]
JE = lambda d: d["jobEnvironments"][0]
def noref(d):
    S0(d)["script"] = {"actions": {"onRun": {"command": "c"}}}
def ident(n): return ("A" * n)
M = []   # (label, fn, expected_accept)
def m(label, exp):
    def deco(fn): M.append((label, fn, exp)); return fn
    return deco
# --- limits (boundary valid / invalid)
for n, exp in ((64, True), (65, False)):
    m(f"step name len {n}", exp)(lambda d, n=n: S0(d).__setitem__("name", "s" * n) or d["steps"][1]["dependencies"][0].__setitem__("dependsOn", "s" * n))
    m(f"job param name len {n}", exp)(lambda d, n=n: PD(d).append({"name": ident(n), "type": "INT"}))
    m(f"task param name len {n}", exp)(lambda d, n=n: (TP(d)[4].__setitem__("name", ident(n)), PS(d).__setitem__("combination", f"(Ti, Tf, Ts, {ident(n)}) * Tr")))
    m(f"env name len {n}", exp)(lambda d, n=n: JE(d).__setitem__("name", "e" * n))
    m(f"embedded file name len {n}", exp)(lambda d, n=n: S0(d)["script"]["embeddedFiles"].append({"name": ident(n), "type": "TEXT", "data": "x"}))
    m(f"filename len {n}", exp)(lambda d, n=n: S0(d)["script"]["embeddedFiles"][0].__setitem__("filename", "f" * n))
    m(f"ui label len {n}", exp)(lambda d, n=n: PD(d)[0]["userInterface"].__setitem__("label", "l" * n))
for n, exp in ((2048, True), (2049, False)):
    m(f"description len {n}", exp)(lambda d, n=n: d.__setitem__("description", "d" * n))
    m(f"env var value len {n}", exp)(lambda d, n=n: JE(d)["variables"].__setitem__("V1", "v" * n))
for n, exp in ((256, True), (257, False)):
    m(f"env var name len {n}", exp)(lambda d, n=n: JE(d)["variables"].__setitem__("K" * n, "v"))
for n, exp in ((1024, True), (1025, False)):
    m(f"string default len {n}", exp)(lambda d, n=n: PD(d).append({"name": "Q", "type": "STRING", "default": "q" * n}))
    m(f"range items {n}", exp)(lambda d, n=n: (noref(d), TP(d).__setitem__(slice(0, 5), [{"name": "Ts", "type": "STRING", "range": ["x"] * n}]), PS(d).pop("combination")))
for n, exp in ((16, True), (17, False)):
    m(f"task params {n}", exp)(lambda d, n=n: (noref(d), PS(d).pop("combination"), TP(d).__setitem__(slice(0, 5), [{"name": f"T{i}", "type": "STRING", "range": ["x"]} for i in range(n)])))
for n, exp in ((50, True), (51, False)):
    m(f"job params {n}", exp)(lambda d, n=n: PD(d).extend({"name": f"X{i}", "type": "STRING"} for i in range(n - 4)))
    m(f"host requirements total {n}", exp)(lambda d, n=n: HR(d).__setitem__("amounts", [{"name": f"amount.c{i}", "min": 1} for i in range(n - 3)]))
    m(f"attribute values {n}", exp)(lambda d, n=n: HR(d)["attributes"][2].__setitem__("allOf", [f"v{i}" for i in range(n)]))
for n, exp in ((100, True), (101, False)):
    m(f"capability name len {n}", exp)(lambda d, n=n: HR(d)["amounts"][0].__setitem__("name", "amount." + "c" * (n - 7)))
    m(f"attribute value len {n}", exp)(lambda d, n=n: HR(d)["attributes"][2].__setitem__("allOf", ["v" * n]))
for n, exp in ((1280, True), (1281, False)):
    m(f"combination len {n}", exp)(lambda d, n=n: PS(d).__setitem__("combination", "(Ti, Tf, Ts, Tp) * Tr" + " " * (n - 21)))
for n, exp in ((600, True), (601, False), (1, True), (0, False)):
    m(f"notify period {n}", exp)(lambda d, n=n: JE(d)["script"]["actions"]["onEnter"]["cancelation"].__setitem__("notifyPeriodInSeconds", n))
for n, exp in ((20, True), (21, False)):
    m(f"file filters {n}", exp)(lambda d, n=n: PD(d)[3]["userInterface"].__setitem__("fileFilters", [{"label": "x", "patterns": ["*"]}] * n))
    m(f"filter patterns {n}", exp)(lambda d, n=n: PD(d)[3]["userInterface"]["fileFilters"][0].__setitem__("patterns", ["*.a"] * n))
    m(f"filter pattern len {n}", exp)(lambda d, n=n: PD(d)[3]["userInterface"]["fileFilters"][0].__setitem__("patterns", ["*." + "a" * (n - 2)]))
# --- character sets
for ch, exp in (("\x1f", False), ("\x7f", False), ("\x9f", False), ("\xa0", True), (" ", True), ("é", True), ("\n", False), ("\t", False)):
    m(f"step name char {ch!r}", exp)(lambda d, ch=ch: (S0(d).__setitem__("name", "s" + ch), d["steps"][1]["dependencies"][0].__setitem__("dependsOn", "s" + ch)))
    m(f"command char {ch!r}", exp)(lambda d, ch=ch: ACT(d).__setitem__("command", "c" + ch))
    m(f"arg char {ch!r}", exp)(lambda d, ch=ch: ACT(d).__setitem__("args", ["a" + ch]))
for ch, exp in (("\n", True), ("\t", True), ("\r", True), ("\x0b", False), ("\x85", False)):
    m(f"description char {ch!r}", exp)(lambda d, ch=ch: d.__setitem__("description", "d" + ch))
for nm, exp in (("a", True), ("_", True), ("a1_", True), ("1a", False), ("a-b", False), ("a.b", False), ("é", False), ("a ", False), ("", False), ("a\n", False)):
    m(f"identifier {nm!r}", exp)(lambda d, nm=nm: PD(d).append({"name": nm, "type": "INT"}))
    m(f"env var name {nm!r}", exp)(lambda d, nm=nm: JE(d)["variables"].__setitem__(nm, "v"))
for pat, exp in (("*", True), ("*.*", True), ("*.png", True), ("*.é", True), ("png", False), ("*.", False), ("*.a/b", False), ("*.a*", False), ("*.a?", False), ("*.[a]", False), ("*.a b", True), ("**", False), ("*.a\\", False), ("*.a:", False)):
    m(f"filter pattern {pat!r}", exp)(lambda d, pat=pat: PD(d)[3]["userInterface"]["fileFilters"][0].__setitem__("patterns", [pat]))
for cap, exp in (("amount.worker.vcpu", True), ("AMOUNT.Worker.VCPU", True), ("amount.worker.foo", False), ("amount.job.x", False), ("amount.step.x", False), ("amount.task.x", False), ("amount.x", True), ("amount.x.y_1", True),
                 ("acme:amount.x", True), ("a:amount.x", False), ("acme:amount.worker.vcpu", False), ("acme:amount.worker.x", False), ("attr.x", False), ("amount", False), ("amount.", False), ("amount.1x", False), ("amount.x-y", False), ("amount.x\n", False), ("amount.{{Param.Ps}}", True), ("x{{Param.Ps}}", True)):
    m(f"amount capability {cap!r}", exp)(lambda d, cap=cap: HR(d)["amounts"][0].__setitem__("name", cap))
for cap, vals, key, exp in (("attr.worker.os.family", ["linux"], "anyOf", True), ("attr.worker.os.family", ["beos"], "anyOf", False), ("attr.worker.os.family", ["linux", "macos"], "anyOf", True),
                            ("attr.worker.os.family", ["linux", "macos"], "allOf", False), ("attr.worker.cpu.arch", ["arm64"], "allOf", True), ("ATTR.Worker.OS.Family", ["linux"], "anyOf", True),
                            ("attr.worker.os.family", ["Linux"], "anyOf", False), ("attr.x", ["9x"], "anyOf", False), ("attr.x", ["a-b_c"], "anyOf", True), ("attr.x", [""], "anyOf", False), ("attr.x", ["a b"], "anyOf", False),
                            ("attr.x", ["a\n"], "anyOf", False), ("attr.x", ["{{Param.Ps}}"], "anyOf", True), ("amount.x", ["a"], "anyOf", False), ("attr.worker.x", ["a"], "anyOf", False)):
    m(f"attribute {cap} {key}={vals}", exp)(lambda d, cap=cap, vals=vals, key=key: HR(d)["attributes"].__setitem__(0, {"name": cap, key: vals}))
# --- cross-field rules
m("duplicate step name", False)(lambda d: d["steps"].append(copy.deepcopy(d["steps"][1])))
m("duplicate job param", False)(lambda d: PD(d).append({"name": "Pi", "type": "STRING"}))
m("duplicate task param", False)(lambda d: TP(d).append(copy.deepcopy(TP(d)[0])))
m("duplicate embedded file", False)(lambda d: S0(d)["script"]["embeddedFiles"].append(copy.deepcopy(S0(d)["script"]["embeddedFiles"][0])))
m("duplicate job env", False)(lambda d: d["jobEnvironments"].append(copy.deepcopy(JE(d))))
m("duplicate step env", False)(lambda d: S0(d)["stepEnvironments"].append(copy.deepcopy(S0(d)["stepEnvironments"][0])))
m("step env named like job env", False)(lambda d: S0(d)["stepEnvironments"][0].__setitem__("name", "JE1"))
m("same env name in two steps", True)(lambda d: d["steps"][1].__setitem__("stepEnvironments", copy.deepcopy(S0(d)["stepEnvironments"])))
m("dangling dependency", False)(lambda d: d["steps"][1]["dependencies"][0].__setitem__("dependsOn", "Nope"))
m("self dependency", False)(lambda d: d["steps"][1]["dependencies"][0].__setitem__("dependsOn", "S2"))
m("duplicate dependency", False)(lambda d: d["steps"][1]["dependencies"].append({"dependsOn": "S1"}))
m("2-cycle", False)(lambda d: S0(d).__setitem__("dependencies", [{"dependsOn": "S2"}]))
m("3-cycle", False)(lambda d: (d["steps"].append({"name": "S3", "dependencies": [{"dependsOn": "S2"}], "script": d["steps"][1]["script"]}), S0(d).__setitem__("dependencies", [{"dependsOn": "S3"}])))
m("diamond", True)(lambda d: (d["steps"].append({"name": "S3", "dependencies": [{"dependsOn": "S1"}], "script": d["steps"][1]["script"]}), d["steps"].append({"name": "S4", "dependencies": [{"dependsOn": "S2"}, {"dependsOn": "S3"}], "script": d["steps"][1]["script"]})))
m("empty dependencies", False)(lambda d: d["steps"][1].__setitem__("dependencies", []))
m("empty steps", False)(lambda d: d.__setitem__("steps", []))
for comb, exp in (("(Ti, Tf, Ts, Tp) * Tr", True), ("Tr * (Ti, Tf, Ts, Tp)", True), ("Ti * Tf * Ts * Tp * Tr", True), ("(Ti, Tf, Ts, Tp) * Zz", False), ("(Ti, Tf, Ts, Tp)", False), ("(Ti, Tf, Ts, Tp) * Tr * Tr", False),
                  ("(Ti, Tf, Ts, Tp) * Tr * Zz", False), ("(Ti, Tf, Ts, Tp) *", False), ("(Ti) * Tf * Ts * Tp * Tr", False), ("((Ti, Tf), (Ts, Tp)) * Tr", True), ("", False), (" ", False), ("Ti*Tf*Ts*Tp*Tr", True), ("Ti\t* Tf * Ts * Tp * Tr", False)):
    m(f"combination {comb!r}", exp)(lambda d, comb=comb: PS(d).__setitem__("combination", comb))
m("env without script or variables", False)(lambda d: (JE(d).pop("script"), JE(d).pop("variables")))
m("env null script and variables", False)(lambda d: (JE(d).__setitem__("script", None), JE(d).__setitem__("variables", None)))
m("env only variables", True)(lambda d: JE(d).pop("script"))
m("env empty variables", False)(lambda d: JE(d).__setitem__("variables", {}))
m("env actions neither", False)(lambda d: JE(d)["script"].__setitem__("actions", {}))
m("env actions both null", False)(lambda d: JE(d)["script"].__setitem__("actions", {"onEnter": None, "onExit": None}))
m("env actions only onExit", True)(lambda d: JE(d)["script"]["actions"].pop("onEnter") and JE(d)["script"].pop("embeddedFiles"))
m("empty embeddedFiles", False)(lambda d: S0(d)["script"].__setitem__("embeddedFiles", []))
m("empty args", False)(lambda d: ACT(d).__setitem__("args", []))
m("timeout 0", False)(lambda d: ACT(d).__setitem__("timeout", 0))
m("timeout 1", True)(lambda d: ACT(d).__setitem__("timeout", 1))
m("unknown cancelation mode", False)(lambda d: ACT(d).__setitem__("cancelation", {"mode": "X"}))
m("notify period on TERMINATE", False)(lambda d: ACT(d).__setitem__("cancelation", {"mode": "TERMINATE", "notifyPeriodInSeconds": 5}))
m("runnable as int", False)(lambda d: S0(d)["script"]["embeddedFiles"][0].__setitem__("runnable", 1))
m("unknown key", False)(lambda d: S0(d).__setitem__("extra", 1))
m("explicit null optional", True)(lambda d: S0(d).__setitem__("description", None))
# job parameter cross-field
def sp(**kw): return lambda d: PD(d).__setitem__(0, {"name": "Ps", "type": "STRING", **kw})
def ip(**kw): return lambda d: PD(d).__setitem__(1, {"name": "Pi", "type": "INT", **kw})
def fp(**kw): return lambda d: PD(d).__setitem__(2, {"name": "Pf", "type": "FLOAT", **kw})
def pp(**kw): return lambda d: PD(d).__setitem__(3, {"name": "Pp", "type": "PATH", **kw})
for label, fn, exp in (
    ("minLength 0", sp(minLength=0), False), ("minLength 1", sp(minLength=1), True), ("maxLength 0", sp(maxLength=0), False), ("min>max length", sp(minLength=3, maxLength=2), False), ("min=max length", sp(minLength=2, maxLength=2), True),
    ("minLength bool", sp(minLength=True), False), ("minLength str", sp(minLength="1"), False), ("allowed shorter than min", sp(minLength=3, allowedValues=["ab"]), False), ("allowed longer than max", sp(maxLength=1, allowedValues=["ab"]), False),
    ("default shorter", sp(minLength=3, default="ab"), False), ("default longer", sp(maxLength=1, default="ab"), False), ("default not allowed", sp(allowedValues=["a"], default="b"), False), ("default allowed", sp(allowedValues=["a"], default="a"), True),
    ("empty allowed", sp(allowedValues=[]), False), ("default empty string", sp(default=""), True), ("default empty with minLength", sp(minLength=1, default=""), False),
    ("LINE_EDIT with allowed", sp(allowedValues=["a"], userInterface={"control": "LINE_EDIT"}), False), ("MULTILINE with allowed", sp(allowedValues=["a"], userInterface={"control": "MULTILINE_EDIT"}), False),
    ("DROPDOWN without allowed", sp(userInterface={"control": "DROPDOWN_LIST"}), False), ("HIDDEN", sp(userInterface={"control": "HIDDEN"}), True),
    ("CHECK_BOX true/false", sp(allowedValues=["True", "false"], userInterface={"control": "CHECK_BOX"}), True), ("CHECK_BOX yes/no/NO", sp(allowedValues=["yes", "no", "NO"], userInterface={"control": "CHECK_BOX"}), True),
    ("CHECK_BOX 1/0", sp(allowedValues=["1", "0"], userInterface={"control": "CHECK_BOX"}), True), ("CHECK_BOX on/no", sp(allowedValues=["on", "no"], userInterface={"control": "CHECK_BOX"}), False),
    ("CHECK_BOX none", sp(userInterface={"control": "CHECK_BOX"}), False), ("CHECK_BOX one", sp(allowedValues=["true"], userInterface={"control": "CHECK_BOX"}), False),
    ("int min>max", ip(minValue=3, maxValue=2), False), ("int min=max", ip(minValue=0, maxValue=0), True), ("int min float", ip(minValue=1.5), False), ("int min bool", ip(minValue=True), False), ("int min str", ip(minValue="3"), True), ("int min str float", ip(minValue="3.5"), False),
    ("int allowed below min", ip(minValue=0, allowedValues=[-1]), False), ("int allowed above max", ip(maxValue=0, allowedValues=[1]), False), ("int allowed at bounds", ip(minValue=0, maxValue=0, allowedValues=[0]), True),
    ("int default below min 0", ip(minValue=0, default=-1), False), ("int default above max 0", ip(maxValue=0, default=1), False), ("int default not allowed", ip(allowedValues=[1], default=2), False), ("int default bool", ip(default=True), False),
    ("int SPIN with allowed", ip(allowedValues=[1], userInterface={"control": "SPIN_BOX"}), False), ("int DROPDOWN without", ip(userInterface={"control": "DROPDOWN_LIST"}), False), ("int delta with DROPDOWN", ip(allowedValues=[1], userInterface={"control": "DROPDOWN_LIST", "singleStepDelta": 1}), False),
    ("int delta 0", ip(userInterface={"control": "SPIN_BOX", "singleStepDelta": 0}), False),
    ("float min>max", fp(minValue=0.5, maxValue=0.25), False), ("float min=max 0", fp(minValue=0, maxValue=0.0), True), ("float NaN bound", fp(minValue="NaN"), False), ("float inf bound", fp(maxValue="Infinity"), False), ("float allowed below min 0", fp(minValue=0, allowedValues=[-0.5]), False),
    ("float default above max 0", fp(maxValue=0, default=0.5), False), ("float default str", fp(default="1.5"), True), ("float default junk", fp(default="x"), False), ("float decimals 0", fp(userInterface={"control": "SPIN_BOX", "decimals": 0}), False),
    ("float delta with HIDDEN", fp(userInterface={"control": "HIDDEN", "singleStepDelta": 0.5}), False),
    ("path objectType junk", pp(objectType="X"), False), ("path dataFlow junk", pp(dataFlow="X"), False), ("path CHOOSE_DIRECTORY + FILE", pp(objectType="FILE", userInterface={"control": "CHOOSE_DIRECTORY"}), False),
    ("path CHOOSE_INPUT_FILE + DIRECTORY", pp(objectType="DIRECTORY", userInterface={"control": "CHOOSE_INPUT_FILE"}), False), ("path CHOOSE_DIRECTORY + filters", pp(userInterface={"control": "CHOOSE_DIRECTORY", "fileFilters": [{"label": "x", "patterns": ["*"]}]}), False),
    ("path HIDDEN + filterDefault", pp(userInterface={"control": "HIDDEN", "fileFilterDefault": {"label": "x", "patterns": ["*"]}}), False), ("path chooser with allowed", pp(allowedValues=["a"], userInterface={"control": "CHOOSE_INPUT_FILE"}), False),
    ("path DROPDOWN with allowed", pp(allowedValues=["a"], userInterface={"control": "DROPDOWN_LIST"}), True), ("path CHOOSE_INPUT_FILE no objectType", pp(userInterface={"control": "CHOOSE_INPUT_FILE"}), True)):
    M.append(("param: " + label, fn, exp))
# host requirements
for label, fn, exp in (
    ("amount min -1", lambda d: HR(d)["amounts"][0].__setitem__("min", -1), False), ("amount min 0", lambda d: HR(d)["amounts"][0].__setitem__("min", 0), True), ("amount max 0", lambda d: HR(d)["amounts"][0].__setitem__("max", 0), False),
    ("amount min>max", lambda d: HR(d)["amounts"].__setitem__(0, {"name": "amount.x", "min": 3, "max": 2}), False), ("amount min=max", lambda d: HR(d)["amounts"].__setitem__(0, {"name": "amount.x", "min": 2, "max": 2}), True),
    ("amount neither", lambda d: HR(d)["amounts"].__setitem__(0, {"name": "amount.x"}), False), ("amount null min only", lambda d: HR(d)["amounts"].__setitem__(0, {"name": "amount.x", "min": None}), False),
    ("amount null min, max 1", lambda d: HR(d)["amounts"].__setitem__(0, {"name": "amount.x", "min": None, "max": 1}), True), ("amount min NaN", lambda d: HR(d)["amounts"][0].__setitem__("min", "NaN"), False),
    ("attribute neither", lambda d: HR(d)["attributes"].__setitem__(0, {"name": "attr.x"}), False), ("attribute null anyOf", lambda d: HR(d)["attributes"].__setitem__(0, {"name": "attr.x", "anyOf": None}), False),
    ("attribute empty anyOf", lambda d: HR(d)["attributes"].__setitem__(0, {"name": "attr.x", "anyOf": []}), False),
    ("host {}", lambda d: S0(d).__setitem__("hostRequirements", {}), False), ("host null amounts", lambda d: S0(d).__setitem__("hostRequirements", {"amounts": None}), False), ("host empty amounts", lambda d: HR(d).__setitem__("amounts", []), False),
    ("host only attributes", lambda d: HR(d).pop("amounts"), True)):
    M.append(("host: " + label, fn, exp))
# task parameter ranges
def tr(ty, rng): return lambda d: (noref(d), TP(d).__setitem__(slice(0, 5), [{"name": "T", "type": ty, "range": rng}]), PS(d).pop("combination"))
for label, fn, exp in (
    ("int [1,'2']", tr("INT", [1, "2"]), True), ("int ['1.5']", tr("INT", ["1.5"]), False), ("int [1.5]", tr("INT", [1.5]), False), ("int [True]", tr("INT", [True]), False), ("int ['x']", tr("INT", ["x"]), False), ("int ['{{Param.Pi}}']", tr("INT", ["{{Param.Pi}}"]), True),
    ("int []", tr("INT", []), False), ("int '1-3'", tr("INT", "1-3"), True), ("int '3-1'", tr("INT", "3-1"), False), ("int '1-3,3-5'", tr("INT", "1-3,3-5"), False), ("int ''", tr("INT", ""), False), ("int '1-{{Param.Pi}}'", tr("INT", "1-{{Param.Pi}}"), True),
    ("int 'x'", tr("INT", "x"), False), ("int 5", tr("INT", 5), False), ("int ' 1 - 3 '", tr("INT", " 1 - 3 "), True), ("int ['1_0']", tr("INT", ["1_0"]), True),
    ("float [1.5,'2',3]", tr("FLOAT", [1.5, "2", 3]), True), ("float ['x']", tr("FLOAT", ["x"]), False), ("float ['NaN']", tr("FLOAT", ["NaN"]), False), ("float ['inf']", tr("FLOAT", ["inf"]), False), ("float [True]", tr("FLOAT", [True]), False),
    ("float '1-3'", tr("FLOAT", "1-3"), False), ("float ['{{Param.Pf}}']", tr("FLOAT", ["{{Param.Pf}}"]), True), ("float ['1e400']", tr("FLOAT", ["1e400"]), True),
    ("string [1]", tr("STRING", [1]), False), ("string ['']", tr("STRING", [""]), True), ("string '1-3'", tr("STRING", "1-3"), False), ("path ['a', '{{RawParam.Pp}}']", tr("PATH", ["a", "{{RawParam.Pp}}"]), True), ("unknown type", tr("BOOL", ["a"]), False)):
    M.append(("range: " + label, fn, exp))
bad = 0
for label, fn, exp in M:
    d = copy.deepcopy(base)
    try: fn(d)
    except Exception as e: print("MUTATION FAILED", label, type(e).__name__, e); continue
    v = verdict(d)
    if v != exp: bad += 1; print(("FALSE-ACCEPT " if v is True else "FALSE-REJECT " if v is False else "CRASH ") + label, "->", v)
print("mutations", len(M), "unexpected verdicts", bad)
