(* UsableParse.v — what "the node is accepted by its own class" (Export.parse_any on the node's export, the
   job-side re-validation of create_job) says for the two kinds of node of a parameter space:

     expr_def_node   a RangeExpressionTaskParameterDefinition node: its range string is a range expression
                     (Validators.range_expr_ok, the _validate_range_expression validator);
     space_node      a StepParameterSpace node with a combination: the dimension check
                     (StepParameterSpace._validate_parameter_space = Comb.dims_str) returns, over the lengths
                     [sps_entry] reads from the node's OWN definitions (the validator reads them from the
                     re-parsed copy; the two agree).
   The parser is inverted on the exported object, for any pre-validator table and any fuel. *)
From Coq Require Import List NArith ZArith Bool String Lia.
Import ListNotations.
Require Import OJD.Base OJD.Lexer OJD.Json OJD.Schema OJD.Generated OJD.Charsets OJD.Numerals OJD.NumPrint
               OJD.FormatStr OJD.CreateJob OJD.CreateJobProofs OJD.Parse OJD.Validators OJD.Accept OJD.Export
               OJD.ExportProofs OJD.AcceptMono OJD.DecodeInv OJD.JsonEquiv OJD.CreateJobExactLib OJD.CreateJobExactCarried
               OJD.CreateJobExactParams OJD.CreateJobExactSteps OJD.RangeExpr OJD.Comb
               OJD.UsableGlue OJD.UsableShape.
Local Open Scope string_scope.
Local Open Scope list_scope.

Lemma export_tobj : forall v, export v = tobj G v.
Proof. intros v. unfold export. apply to_object_tobj. lia. Qed.

Definition def_alts : kind :=
  KUnion [UScalar (KModel "RangeListTaskParameterDefinition"); UScalar (KModel "RangeExpressionTaskParameterDefinition")].

Section DefClasses.
  Variable classify : N -> cclass.
  Variable pre : string -> json -> bool.
  Notation pk := (parse_kind G classify pre (post_hook classify)).
  Notation pc := (parse_cls G classify pre (post_hook classify)).

  Lemma pfield_single : forall f ms fl y raw,
    parse_field (pk f) ms fl = Ok y -> f_shape fl = Single -> field_raw ms fl = raw -> raw <> JNull ->
    exists x, y = (f_name fl, x) /\ pk f (f_kind fl) raw = Ok x.
  Proof.
    intros f ms fl y raw H Hs Hr Hn. apply parse_field_inv in H. destruct H as [x [-> Hv]]. rewrite Hr in Hv.
    exists x. split; [reflexivity|]. exact (parse_value_single G classify pre (post_hook classify) f fl raw x Hs Hn Hv).
  Qed.

  Lemma pfield_name : forall f ms fl y, parse_field (pk f) ms fl = Ok y -> exists x, y = (f_name fl, x).
  Proof. intros f ms fl y H. apply parse_field_inv in H. destruct H as [x [-> _]]. exists x. reflexivity. Qed.

  Lemma kformat_inv : forall f c lo hi cs it m, pk f (KFormat c lo hi cs) it = Ok m -> exists s, it = JStr s /\ m = MFmt s.
  Proof.
    intros f c lo hi cs it m H. destruct f as [|f]; [discriminate H|]. rewrite parse_kind_S in H. cbn [parse_scalar] in H.
    destruct it as [| | | |s| |]; try discriminate H.
    destruct (len_ok lo hi s && cs_ok cs s && fs_ok classify s); [|discriminate H]. injection H as <-.
    exists s. split; reflexivity.
  Qed.

  Lemma Forall2_length {A B} (R : A -> B -> Prop) l l' : Forall2 R l l' -> List.length l = List.length l'.
  Proof. induction 1 as [|a b l l' _ _ IH]; [reflexivity|]. cbn [List.length]. rewrite IH. reflexivity. Qed.

  (* the two job-side definition classes, on an exported definition object *)
  Lemma expr_cls_inv : forall f ty r v',
    pc f "RangeExpressionTaskParameterDefinition" (JObj [($"type", JStr ty); ($"range", r)]) = Ok v' ->
    r <> JNull ->
    exists rs t', r = JStr rs /\ v' = MModel "RangeExpressionTaskParameterDefinition" [("type", t'); ("range", MFmt rs)] /\
               range_expr_ok classify rs = true.
  Proof.
    intros f ty r v' H Hn. cls_open H. subst v'.
    assert (Ems : ms = [($"type", JStr ty); ($"range", r)]) by congruence. subst ms. clear Ev.
    next_field Hm y1 r1 H1. next_field Hm y2 r2 H2. injection Hm as <-.
    apply pfield_name in H1. destruct H1 as [t' ->].
    apply (pfield_single _ _ _ _ r) in H2; [|reflexivity|reflexivity|exact Hn]. destruct H2 as [x [-> Hx]].
    cbn [f_name f_kind] in *.
    apply kformat_inv in Hx. destruct Hx as [rs [-> ->]].
    exists rs, t'. split; [reflexivity|]. split; [reflexivity|].
    change (post_hook classify "RangeExpressionTaskParameterDefinition" (JObj [($"type", JStr ty); ($"range", JStr rs)])
                      [("type", t'); ("range", MFmt rs)])
      with (range_expr_ok classify (mstr (fget "range" [("type", t'); ("range", MFmt rs)]))) in Hpost.
    exact Hpost.
  Qed.

  Lemma list_cls_inv : forall f c ty r v', In c list_classes ->
    pc f c (JObj [($"type", JStr ty); ($"range", r)]) = Ok v' ->
    r <> JNull ->
    exists its t' l', r = JArr its /\ v' = MModel c [("type", t'); ("range", MList l')] /\
                      List.length l' = List.length its.
  Proof.
    intros f c ty r v' Hc H Hn.
    destruct Hc as [<-|[<-|[<-|[]]]].
    all: cls_open H; subst v';
      assert (Ems : ms = [($"type", JStr ty); ($"range", r)]) by congruence; subst ms; clear Ev;
      next_field Hm y1 r1 H1; next_field Hm y2 r2 H2; injection Hm as <-;
      apply pfield_name in H1; destruct H1 as [t' ->];
      apply parse_field_inv in H2; destruct H2 as [x [-> Hv]];
      change (field_raw [($"type", JStr ty); ($"range", r)] _) with r in Hv;
      match type of Hv with parse_value _ ?fl _ = _ =>
        destruct (parse_value_list G classify pre (post_hook classify) f' fl None None r x eq_refl Hn Hv) as [its [l' [-> [-> HF]]]] end;
      exists its, t', l'; split; [reflexivity|]; split; [reflexivity|];
      symmetry; exact (Forall2_length _ _ _ HF).
  Qed.

  Lemma def_union_inv : forall f ty r y,
    pk f def_alts (JObj [($"type", JStr ty); ($"range", r)]) = Ok y -> r <> JNull ->
    (exists rs t', r = JStr rs /\ y = MModel "RangeExpressionTaskParameterDefinition" [("type", t'); ("range", MFmt rs)]) \/
    (exists its t' l', r = JArr its /\ y = MModel "RangeListTaskParameterDefinition" [("type", t'); ("range", MList l')] /\
                       List.length l' = List.length its).
  Proof.
    intros f ty r y H Hn. destruct f as [|f]; [discriminate H|]. unfold def_alts in H. rewrite parse_kind_S in H.
    apply (DecodeInv.try_alts_ok G classify pre (post_hook classify)) in H. destruct H as [a [Ha H]].
    destruct Ha as [<-|[<-|[]]]; cbn [alt_res] in H.
    - destruct f as [|f]; [discriminate H|]. rewrite parse_kind_S in H.
      destruct (list_cls_inv f "RangeListTaskParameterDefinition" ty r y (or_intror (or_intror (or_introl eq_refl))) H Hn)
        as [its [t' [l' [-> [-> Hl]]]]].
      right. exists its, t', l'. repeat split. exact Hl.
    - destruct f as [|f]; [discriminate H|]. rewrite parse_kind_S in H.
      destruct (expr_cls_inv f ty r y H Hn) as [rs [t' [-> [-> _]]]].
      left. exists rs, t'. split; reflexivity.
  Qed.
End DefClasses.

Section SpaceNode.
  Variable classify : N -> cclass.

  Definition sps_entry (kv : str * mval) : list (str * N) :=
    match fget "range" (model_fields (snd kv)) with
    | MList items => [(fst kv, N.of_nat (List.length items))]
    | MFmt r | MStr r =>
      match RangeExpr.from_str false false classify r with
      | Ok e => if Z.ltb (RangeExpr.elen e) (2 ^ 63) then [(fst kv, Z.to_N (RangeExpr.elen e))] else []
      | Raise _ => []
      end
    | _ => []
    end.

  Lemma sps_post : forall raw l' s,
    post_hook classify "StepParameterSpace" raw [("taskParameterDefinitions", MDict l'); ("combination", MStr s)] =
    match Comb.dims_str classify (Comb.lookup_len (flat_map sps_entry l')) s with Ok _ => true | Raise _ => false end.
  Proof. reflexivity. Qed.

  Lemma tobj_space : forall kys s,
    tobj G (MModel "StepParameterSpace" [("taskParameterDefinitions", MDict kys); ("combination", MStr s)])
    = JObj [($"taskParameterDefinitions", tobj G (MDict kys)); ($"combination", JStr s)].
  Proof. reflexivity. Qed.

  Lemma tobj_expr_def : forall ty rs,
    tobj G (MModel "RangeExpressionTaskParameterDefinition" [("type", MStr ty); ("range", MStr rs)])
    = JObj [($"type", JStr ty); ($"range", JStr rs)].
  Proof. reflexivity. Qed.

  Lemma tobj_list_def : forall c ty items, In c list_classes ->
    tobj G (MModel c [("type", MStr ty); ("range", MList items)])
    = JObj [($"type", JStr ty); ($"range", JArr (map (tobj G) items))].
  Proof. intros c ty items [<-|[<-|[<-|[]]]]; reflexivity. Qed.

  Lemma tobj_defs : forall P kys, Forall (fun kv => def_shape P (snd kv)) kys ->
    tobj G (MDict kys) = JObj (map (fun kv => (fst kv, tobj G (snd kv))) kys).
  Proof.
    intros P kys H. cbn [tobj]. f_equal. induction H as [|[k d] r Hd _ IH]; [reflexivity|].
    cbn [flat_map map fst snd]. rewrite IH. cbn [snd] in Hd. destruct Hd; reflexivity.
  Qed.
End SpaceNode.

Lemma dict_entries_inv : forall (pkf : kind -> json -> outcome mval) kk k members l',
  mapM (dict_entry pkf kk k) members = Ok l' ->
  Forall2 (fun m ky => fst ky = fst m /\ pkf k (snd m) = Ok (snd ky)) members l'.
Proof.
  intros pkf kk k. induction members as [|m r IH]; intros l' H.
  - injection H as <-. constructor.
  - cbn [mapM] in H. destruct (dict_entry pkf kk k m) as [ky|e] eqn:E; cbn [bind] in H; [|discriminate H].
    destruct (mapM (dict_entry pkf kk k) r) as [kys|e] eqn:Er; cbn [bind] in H; [|discriminate H].
    injection H as <-. constructor; [|apply IH; reflexivity].
    unfold dict_entry in E. destruct (pkf kk (JStr (fst m))); cbn [bind] in E; [|discriminate E].
    destruct (pkf k (snd m)) as [y|e]; cbn [bind] in E; [|discriminate E]. injection E as <-. split; reflexivity.
Qed.

Section SpaceParse.
  Variable classify : N -> cclass.
  Variable pre : string -> json -> bool.
  Notation pk := (parse_kind G classify pre (post_hook classify)).
  Notation pc := (parse_cls G classify pre (post_hook classify)).

  Lemma entries_eq : forall f kys l',
    Forall (fun kv => def_shape is_mstr (snd kv)) kys ->
    Forall2 (fun m ky => fst ky = fst m /\ pk f def_alts (snd m) = Ok (snd ky))
            (map (fun kv => (fst kv, tobj G (snd kv))) kys) l' ->
    flat_map (sps_entry classify) l' = flat_map (sps_entry classify) kys.
  Proof.
    intros f kys. induction kys as [|[k d] r IH]; intros l' HD HF.
    - inversion HF. reflexivity.
    - cbn [map fst snd] in HF. inversion HF as [|m [k' y] ms l'' [Hk Hy] HF']; subst. cbn [fst snd] in Hk, Hy. subst k'.
      inversion HD as [|? ? Hd HD']; subst. cbn [snd] in Hd.
      cbn [flat_map]. rewrite (IH l'' HD' HF'). f_equal.
      destruct Hd as [ty rs Hty|c ty items Hc Hty Hne Hit].
      + rewrite tobj_expr_def in Hy.
        destruct (def_union_inv classify pre f ty (JStr rs) y Hy ltac:(discriminate)) as [[rs' [t' [E ->]]]|[its [t' [l0 [E _]]]]];
          [|discriminate E]. injection E as <-. reflexivity.
      + rewrite (tobj_list_def c ty items Hc) in Hy.
        destruct (def_union_inv classify pre f ty (JArr (map (tobj G) items)) y Hy ltac:(discriminate))
          as [[rs' [t' [E _]]]|[its [t' [l0 [E [-> Hl]]]]]]; [discriminate E|]. injection E as <-.
        unfold sps_entry. cbn [fget mfield lookup_s model_fields snd fst String.eqb Ascii.eqb Bool.eqb].
        rewrite Hl, map_length. reflexivity.
  Qed.

  Lemma space_cls_inv : forall f kys s v',
    Forall (fun kv => def_shape is_mstr (snd kv)) kys ->
    pc f "StepParameterSpace" (JObj [($"taskParameterDefinitions", tobj G (MDict kys)); ($"combination", JStr s)]) = Ok v' ->
    exists n, Comb.dims_str classify (Comb.lookup_len (flat_map (sps_entry classify) kys)) s = Ok n.
  Proof.
    intros f kys s v' HD H. rewrite (tobj_defs is_mstr kys HD) in H.
    cls_open H. subst v'.
    match type of Ev with JObj ?a = JObj _ => assert (Ems : ms = a) by congruence end. subst ms. clear Ev.
    next_field Hm y1 r1 H1. next_field Hm y2 r2 H2. injection Hm as <-.
    apply parse_field_inv in H1. destruct H1 as [x1 [-> Hv1]].
    match type of Hv1 with parse_value _ _ ?raw = _ =>
      change raw with (JObj (map (fun kv => (fst kv, tobj G (snd kv))) kys)) in Hv1 end.
    cbn [parse_value f_shape f_kind f_required] in Hv1.
    match type of Hv1 with context [mapM ?g ?l] => destruct (mapM g l) as [l'|e] eqn:Em; cbn [bind] in Hv1; [|discriminate Hv1] end.
    injection Hv1 as <-. apply dict_entries_inv in Em.
    apply (pfield_single classify pre _ _ _ _ (JStr s)) in H2; [|reflexivity|reflexivity|discriminate].
    destruct H2 as [x2 [-> Hx2]]. cbn [f_name f_kind] in *.
    destruct f' as [|f2]; [discriminate Hx2|]. rewrite parse_kind_S in Hx2. cbn [parse_scalar] in Hx2.
    apply check_str_ok in Hx2. destruct Hx2 as [-> _].
    rewrite sps_post in Hpost.
    rewrite (entries_eq (S f2) kys l' HD Em) in Hpost.
    destruct (dims_str classify (lookup_len (flat_map (sps_entry classify) kys)) s) as [n|e]; [exists n; reflexivity|discriminate Hpost].
  Qed.
End SpaceParse.

(* ------------------------------------------------------------------ the two kinds of node *)
Section Nodes.
  Variable classify : N -> cclass.

  Theorem expr_def_node : forall ty rs,
    node_accepted classify (MModel "RangeExpressionTaskParameterDefinition" [("type", MStr ty); ("range", MStr rs)]) ->
    range_expr_ok classify rs = true.
  Proof.
    intros ty rs [v' H]. rewrite export_tobj, tobj_expr_def in H. unfold parse_any in H.
    destruct (expr_cls_inv classify _ _ ty (JStr rs) v' H ltac:(discriminate)) as [rs' [t' [E [_ Hok]]]].
    injection E as <-. exact Hok.
  Qed.

  Theorem space_node : forall kys s,
    Forall (fun kv => def_shape is_mstr (snd kv)) kys ->
    node_accepted classify
      (MModel "StepParameterSpace" [("taskParameterDefinitions", MDict kys); ("combination", MStr s)]) ->
    exists n, Comb.dims_str classify (Comb.lookup_len (flat_map (sps_entry classify) kys)) s = Ok n.
  Proof.
    intros kys s HD [v' H]. rewrite export_tobj, tobj_space in H. unfold parse_any in H.
    exact (space_cls_inv classify _ _ kys s v' HD H).
  Qed.
End Nodes.
