(* props/C17.v — "Serialisation is faithful and round-trips".

   Models: CreateJob.v ([to_object] = model_to_object: dict(by_alias) + the None / Decimal walk),
   Parse.v ([parse_kind] / [parse_cls] = the structural decoder driven by a schema), Validators.v (the
   repo-side validators), Export.v ([export], [parse_any], [roundtrip]).  Lemmas: ExportProofs.v,
   NumRoundtrip.v.  Everything is for ALL values / documents / fuels; statements about the 2023-09
   classes are about Generated.schema (read from the live classes by tools/regen.py).

     C17_plain, C17_plain_decoded      the export is plain data: no null, JSON scalars only
     C17_alias, C17_alias_read,
     C17_names_distinct                every key is emitted under the name the decoder reads
     C17_int_text, C17_decimal_text    int(str(z)) = z,  Decimal(str(d)) = d  (all z, all m, e)
     C17_roundtrip_scalar              decode(export x) = x for every scalar kind
     C17_roundtrip_generic             decode(export x) = x, any schema, under a computed schema
                                       condition + "validators accept the re-export"
     C17_pre_hook_stable               ... which holds of every pre-validator of the live schema
     C17_roundtrip_inner,
     C17_roundtrip_below_roots         unconditional round trip of every template class below the roots
     C17_fuel_enough                   the decoder fuel is never exhausted on the live schema
     C17_roundtrip_partial             the function [roundtrip] on the template roots, under one named
                                       hypothesis (see the comment at C17_roundtrip below) *)
From Coq Require Import List NArith ZArith String.
Import ListNotations.
Require Import OJD.Base OJD.Lexer OJD.Json OJD.Schema OJD.Generated OJD.Numerals OJD.NumPrint OJD.CreateJob
               OJD.Parse OJD.Validators OJD.Accept OJD.Export OJD.FsRefs OJD.ScopeWalk
               OJD.NumRoundtrip OJD.ExportProofs.
Local Open Scope string_scope.
Local Open Scope list_scope.

(* ------------------------------------------------------------------ plain data *)

(* [plain j]: no JNull anywhere (top, list item, member value); leaves are JBool / JInt / JStr / JDec
   (a float).  The type [json] has no constructor for a Decimal, a FormatString or an Enum member: that
   none is needed is part of the statement — [to_object] prints a Decimal (MDec) as text.
   Side condition: the instance tree is not None and has no None as a LIST item; None dictionary values
   and None model fields are allowed (they are dropped). *)
Theorem C17_plain : forall SC fuel v,
  no_none_items v = true -> mval_depth v < fuel -> plain (to_object SC fuel v) = true.
Proof. exact to_object_plain. Qed.
Print Assumptions C17_plain.

(* the side condition holds of everything the decoder returns: every decoded model exports plain *)
Theorem C17_plain_decoded : forall classify root j v,
  parse_any classify root j = Ok v -> plain (export v) = true.
Proof. exact decoded_exports_plain. Qed.
Print Assumptions C17_plain_decoded.

(* ------------------------------------------------------------------ keys *)

(* the key [to_object] emits for a field is its alias ... *)
Theorem C17_alias : forall SC c k fl,
  lookup_cls SC c = Some k -> NoDup (map f_name (c_fields k)) -> In fl (c_fields k) ->
  alias_of SC c (f_name fl) = f_alias fl.
Proof. exact alias_of_field. Qed.
Print Assumptions C17_alias.

(* ... and the member [parse_cls] looks up for the field ([assoc (f_alias fl)]) is the one emitted for
   it: absent when the value is None, the export of the value otherwise *)
Theorem C17_alias_read : forall SC f c k (vals : list mval) fl x,
  lookup_cls SC c = Some k ->
  NoDup (map f_name (c_fields k)) -> NoDup (map f_alias (c_fields k)) ->
  List.length vals = List.length (c_fields k) ->
  In (fl, x) (combine (c_fields k) vals) ->
  exists ms,
    to_object SC (S f) (MModel c (combine (map f_name (c_fields k)) vals)) = JObj ms /\
    assoc (str_of_string (f_alias fl)) ms = option_map (to_object SC f) (present x).
Proof. exact alias_read. Qed.
Print Assumptions C17_alias_read.

Theorem C17_names_distinct : forall c k, lookup_cls Generated.schema c = Some k ->
  NoDup (map f_name (c_fields k)) /\ NoDup (map f_alias (c_fields k)).
Proof. exact generated_names_distinct. Qed.
Print Assumptions C17_names_distinct.

(* '$schema' included *)
Example C17_schema_key : alias_of Generated.schema "JobTemplate" "schemaStr" = "$schema".
Proof. vm_compute. reflexivity. Qed.

(* ------------------------------------------------------------------ numerals *)

Theorem C17_int_text : forall z, parse_int (print_Z z) = Some z.
Proof. exact parse_int_print_Z. Qed.
Print Assumptions C17_int_text.

(* same coefficient and exponent, plain and scientific notation alike *)
Theorem C17_decimal_text : forall m e, parse_dec (print_dec m e) = Some (Fin m e).
Proof. exact parse_dec_print_dec. Qed.
Print Assumptions C17_decimal_text.

(* ------------------------------------------------------------------ scalars *)

Theorem C17_roundtrip_scalar : forall SC classify pre post fuel f' k v x,
  scalar_kind k = true ->
  parse_kind SC classify pre post (S fuel) k v = Ok x ->
  parse_kind SC classify pre post (S fuel) k (to_object SC (S f') x) = Ok x.
Proof. exact roundtrip_scalar. Qed.
Print Assumptions C17_roundtrip_scalar.

(* ------------------------------------------------------------------ the generic round trip *)

(* [schema_rt_ok SC CL] (computable): for every class of CL — field names distinct, aliases distinct,
   every class a field refers to is in CL, every discriminated union's key is a single string-valued
   field of each member class, and in an ordered union every alternative after the first accepts a value
   only in the form in which it is exported again.
   [hooks_stable]: the validators accept the re-export of an instance they accepted.
   [exp SC x] = [to_object] with the canonical fuel. *)
Theorem C17_roundtrip_generic : forall SC classify pre post CL,
  schema_rt_ok SC CL = true ->
  hooks_stable SC classify pre post CL ->
  forall f,
    (forall k v x, kind_ok SC CL k = true ->
                   parse_kind SC classify pre post f k v = Ok x ->
                   parse_kind SC classify pre post f k (exp SC x) = Ok x)
    /\ (forall c v x, In c CL ->
                      parse_cls SC classify pre post f c v = Ok x ->
                      parse_cls SC classify pre post f c (exp SC x) = Ok x).
Proof. exact roundtrip_generic. Qed.
Print Assumptions C17_roundtrip_generic.

Theorem C17_exp_is_to_object : forall SC F x, mval_depth x < F -> to_object SC F x = exp SC x.
Proof. exact to_object_exp. Qed.
Print Assumptions C17_exp_is_to_object.

(* the live schema: every class but one meets the structural condition *)
Theorem C17_schema_ok :
  schema_rt_ok Generated.schema template_classes = true
  /\ filter (fun c => negb (cls_ok Generated.schema (map fst Generated.schema) c)) (map fst Generated.schema)
     = ["StepParameterSpace"].
Proof. exact live_schema_ok. Qed.
Print Assumptions C17_schema_ok.

(* every pre-validator of the live schema accepts the re-export of what it accepted *)
Theorem C17_pre_hook_stable : forall classify post f c v x,
  parse_cls Generated.schema classify pre_hook post f c v = Ok x ->
  pre_hook c (exp Generated.schema x) = true.
Proof. exact pre_hook_stable. Qed.
Print Assumptions C17_pre_hook_stable.

(* no hypothesis left for the template classes below the two roots (StepTemplate, Environment, the
   parameter definitions, scripts, host requirements, ...): decode (export x) = x at every fuel *)
Theorem C17_roundtrip_inner : forall classify f c v x,
  In c inner_classes ->
  parse_cls Generated.schema classify pre_hook (post_hook classify) f c v = Ok x ->
  parse_cls Generated.schema classify pre_hook (post_hook classify) f c (exp Generated.schema x) = Ok x.
Proof. exact roundtrip_inner. Qed.
Print Assumptions C17_roundtrip_inner.

(* ... and as the function [roundtrip] computes it (fuel recomputed from the exported document, job-side
   pre-validators installed): unconditional for the classes below the roots *)
Theorem C17_roundtrip_below_roots : forall classify c j v,
  In c inner_classes ->
  parse_any classify c j = Ok v ->
  snd (roundtrip classify c v) = true.
Proof. exact roundtrip_live_inner. Qed.
Print Assumptions C17_roundtrip_below_roots.

(* the fuel [parse_fuel] is never the reason for an outcome on the live schema: any larger fuel gives the
   same result (unions nest at most 3 deep, each JSON level costs at most 4) *)
Theorem C17_fuel_enough : forall classify pre post f c v,
  parse_fuel v <= f ->
  parse_cls Generated.schema classify pre post f c v
  = parse_cls Generated.schema classify pre post (parse_fuel v) c v.
Proof. exact parse_fuel_enough. Qed.
Print Assumptions C17_fuel_enough.

(* C17_roundtrip, full statement (NOT proved):

     forall classify root j v,
       parse_any classify root j = Ok v -> snd (roundtrip classify root v) = true.

   Proved: [C17_roundtrip_below_roots] (every template class except the two roots, no hypothesis) and
   [C17_roundtrip_partial]: root = any template class, the two roots included, under ONE hypothesis:

   [prevalidate_stable classify]: the variable-reference walk (C03's [prevalidate] — the only validator
   code besides the pre-validators that reads the RAW document; it is run by the root validators of
   JobTemplate and EnvironmentTemplate) reports nothing on the re-export of a template it reported
   nothing on.  Missing: invariance of the walker under  j |-> export (decode j)  (null members dropped,
   numbers re-typed as text, lax strings re-typed).  Every other validator is covered by
   [C17_pre_hook_stable] (pre-validators) or does not look at the raw document.

   Not covered: root = "Job" (and "Step", "StepParameterSpace", and the job-side requirement classes):
   StepParameterSpace holds an ordered union of two MODEL classes, outside the structural condition
   (C17_schema_ok), and the job-side AmountRequirement / AttributeRequirement pre-validator re-parses the raw
   object as the template class. *)
Theorem C17_roundtrip_partial : forall classify root j v,
  In root template_classes ->
  parse_any classify root j = Ok v ->
  prevalidate_stable classify ->
  snd (roundtrip classify root v) = true.
Proof. exact roundtrip_live. Qed.
Print Assumptions C17_roundtrip_partial.

Theorem C17_prevalidate_stable_def : forall classify,
  prevalidate_stable classify <->
  (forall f root ms flds,
      root = "JobTemplate" \/ root = "EnvironmentTemplate" ->
      parse_cls Generated.schema classify pre_hook (post_hook classify) f root (JObj ms) = Ok (MModel root flds) ->
      prevalidate Generated.schema (fs_refs classify) root (exp Generated.schema (MModel root flds)) = []).
Proof. exact (fun classify => iff_refl _). Qed.
Print Assumptions C17_prevalidate_stable_def.

(* ================================================================== non-vacuity *)

(* C17_plain: an instance with a None field, a None dictionary value, a Decimal and a float *)
Definition ex_val : mval :=
  MModel "AmountRequirement"
    [("name", MStr $"amount.x"); ("min", MDec 15 (-1)); ("max", MNone)].
Example C17_plain_nonvacuous :
  no_none_items ex_val = true /\ mval_depth ex_val < 3
  /\ to_object Generated.schema 3 ex_val = JObj [($"name", JStr $"amount.x"); ($"min", JStr $"1.5")]
  /\ no_none_items (MDict [($"a", MNone); ($"b", MFloat 25 (-1))]) = true.
Proof. repeat split; try (vm_compute; repeat constructor). Qed.

(* the side condition is needed: a None list item is exported as null *)
Example C17_plain_side_condition :
  plain (to_object Generated.schema 3 (MList [MNone])) = false.
Proof. reflexivity. Qed.

Example C17_alias_nonvacuous :
  exists k fl, lookup_cls Generated.schema "JobTemplate" = Some k /\ In fl (c_fields k)
               /\ f_name fl = "schemaStr" /\ f_alias fl = "$schema".
Proof.
  destruct (lookup_cls Generated.schema "JobTemplate") as [k|] eqn:E; [|vm_compute in E; discriminate].
  vm_compute in E. inversion E. subst k. eexists. eexists. split; [reflexivity|].
  split; [cbn; do 6 right; left; reflexivity|]. split; reflexivity.
Qed.

Example C17_decimal_text_examples :
  print_dec 15 (-1) = $"1.5" /\ print_dec 5 3 = $"5E+3" /\ print_dec (-12) (-9) = $"-1.2E-8"
  /\ print_dec 0 (-2) = $"0.00" /\ print_dec 100 0 = $"100".
Proof. vm_compute. repeat split. Qed.

(* scalar round trip: a lax string field given an int, a Decimal given a float and an int *)
Example C17_roundtrip_scalar_nonvacuous :
  parse_kind Generated.schema ascii_class pre_hook (post_hook ascii_class) 1 (KStr false None None CS_any) (JInt 12)
  = Ok (MStr $"12")
  /\ parse_kind Generated.schema ascii_class pre_hook (post_hook ascii_class) 1 KDec (JDec 15 (-1)) = Ok (MDec 15 (-1))
  /\ parse_kind Generated.schema ascii_class pre_hook (post_hook ascii_class) 1 KDec (JStr $"1e3") = Ok (MDec 1 3)
  /\ scalar_kind KDec = true.
Proof. vm_compute. repeat split. Qed.

(* a job template document using coercions: an INT default given as text, a FLOAT bound given as a
   float, a null member, a range list mixing ints and strings *)
Definition ex_action : json :=
  JObj [($"command", JStr $"echo"); ($"args", JArr [JStr $"{{Param.N}}"; JStr $"{{Task.Param.i}}"]); ($"timeout", JInt 30)].
Definition ex_step : json :=
  JObj [($"name", JStr $"s1");
        ($"description", JNull);
        ($"script", JObj [($"actions", JObj [($"onRun", ex_action)])]);
        ($"parameterSpace",
         JObj [($"taskParameterDefinitions",
                JArr [JObj [($"name", JStr $"i"); ($"type", JStr $"INT"); ($"range", JArr [JInt 1; JStr $"2"; JStr $"{{Param.N}}"])];
                      JObj [($"name", JStr $"x"); ($"type", JStr $"FLOAT"); ($"range", JArr [JDec 15 (-1); JInt 2; JStr $"{{Param.F}}"])]])]);
        ($"hostRequirements",
         JObj [($"amounts", JArr [JObj [($"name", JStr $"amount.worker.vcpu"); ($"min", JInt 2)]])])].
Definition ex_doc : json :=
  JObj [($"specificationVersion", JStr $"jobtemplate-2023-09");
        ($"$schema", JStr $"http://example");
        ($"name", JStr $"job {{Param.N}}");
        ($"parameterDefinitions",
         JArr [JObj [($"name", JStr $"N"); ($"type", JStr $"INT"); ($"default", JStr $"5"); ($"minValue", JInt 1)];
               JObj [($"name", JStr $"F"); ($"type", JStr $"FLOAT"); ($"maxValue", JDec 25 (-1))]]);
        ($"steps", JArr [ex_step])].

Example C17_roundtrip_partial_nonvacuous :
  In "JobTemplate" template_classes
  /\ exists v,
      parse_any ascii_class "JobTemplate" ex_doc = Ok v
      /\ prevalidate Generated.schema (fs_refs ascii_class) "JobTemplate" (export v) = []
      /\ plain (export v) = true
      /\ snd (roundtrip ascii_class "JobTemplate" v) = true
      /\ export v <> ex_doc.
Proof.
  split; [vm_compute; tauto|].
  destruct (parse_any ascii_class "JobTemplate" ex_doc) as [v|] eqn:E; [|vm_compute in E; discriminate].
  exists v. split; [reflexivity|]. vm_compute in E. inversion E. subst v. clear E.
  split; [vm_compute; reflexivity|].
  split; [vm_compute; reflexivity|].
  split; [vm_compute; reflexivity|].
  vm_compute. discriminate.
Qed.

(* an inner class: a step template on its own (C17_roundtrip_inner needs no hypothesis) *)
Example C17_roundtrip_inner_nonvacuous :
  In "StepTemplate" inner_classes
  /\ exists x, parse_cls Generated.schema ascii_class pre_hook (post_hook ascii_class) 40 "StepTemplate" ex_step = Ok x.
Proof.
  split; [vm_compute; tauto|].
  destruct (parse_cls Generated.schema ascii_class pre_hook (post_hook ascii_class) 40 "StepTemplate" ex_step) as [x|] eqn:E;
    [|vm_compute in E; discriminate].
  exists x. reflexivity.
Qed.

(* the structural condition is not vacuous and really excludes something *)
Example C17_roundtrip_generic_nonvacuous :
  In "JobTemplate" template_classes /\ In "EnvironmentTemplate" template_classes
  /\ ~ In "Job" template_classes
  /\ kind_ok Generated.schema template_classes
             (KUnion [UScalar KDec; UScalar (KFormat "TaskParameterStringValue" None None CS_any)]) = true
  /\ kind_ok Generated.schema (map fst Generated.schema)
             (KUnion [UScalar (KModel "RangeListTaskParameterDefinition");
                      UScalar (KModel "RangeExpressionTaskParameterDefinition")]) = false.
Proof.
  split; [vm_compute; tauto|]. split; [vm_compute; tauto|].
  split; [vm_compute; intuition discriminate|]. split; vm_compute; reflexivity.
Qed.
