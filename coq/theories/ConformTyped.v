(* ConformTyped.v — decoded instance trees are WELL TYPED with respect to the schema that decoded them.

   [tk SC k m] : the instance value [m] has kind [k];  [tc SC c m] : [m] is an instance of class [c]
   (its fields are the class's fields, in declaration order, each of its field's shape and kind).
   The judgment records the representation only (which constructor of [mval], which class, which literal),
   not the constraints (lengths apart, which are needed below).

     parse_typed       : whatever Parse.parse_kind / parse_cls accept is well typed  (any schema, hooks, fuel)
     decode_job_typed  : an accepted job template is a well-typed instance of "JobTemplate"

   and inversion lemmas that turn [tc] / [tv] / [tk] on CONCRETE kinds into shapes. *)
From Coq Require Import List NArith ZArith Bool String Lia.
Import ListNotations.
Require Import OJD.Base OJD.Lexer OJD.Json OJD.Schema OJD.Generated OJD.Charsets OJD.Numerals OJD.NumPrint
               OJD.FormatStr OJD.CreateJob OJD.Parse OJD.Validators OJD.Accept OJD.AcceptMono OJD.DecodeInv
               OJD.ConformLib.
Local Open Scope string_scope.
Local Open Scope list_scope.

Section Judgment.
  Variable SC : schema_t.

  Inductive tk : kind -> mval -> Prop :=
  | tk_lit : forall lit, tk (KLiteral lit) (MStr (str_of_string lit))
  | tk_enum : forall ms s, existsb (fun m => str_eqb s (str_of_string m)) ms = true -> tk (KEnum ms) (MStr s)
  | tk_str : forall st lo hi cs s, len_ok lo hi s = true -> tk (KStr st lo hi cs) (MStr s)
  | tk_fmt : forall c lo hi cs s, tk (KFormat c lo hi cs) (MFmt s)
  | tk_bool : forall st b, tk (KBool st) (MBool b)
  | tk_int : forall st ge le gt z, tk (KInt st ge le gt) (MInt z)
  | tk_float : forall gt m e, tk (KFloat gt) (MFloat m e)
  | tk_dec : forall m e, tk KDec (MDec m e)
  | tk_model : forall c m, tc c m -> tk (KModel c) m
  | tk_disc : forall key mp k c m, In (k, c) mp -> tc c m -> tk (KDisc key mp) m
  | tk_union : forall alts a m, In a alts -> ta a m -> tk (KUnion alts) m
  with ta : ualt -> mval -> Prop :=
  | ta_scalar : forall k m, tk k m -> ta (UScalar k) m
  | ta_list : forall lo hi k l, Forall (tk k) l -> ta (UList lo hi k) (MList l)
  with tc : string -> mval -> Prop :=
  | tc_intro : forall c c0 fs, lookup_cls SC c = Some c0 -> Forall2 tf (c_fields c0) fs -> tc c (MModel c fs)
  with tf : field -> string * mval -> Prop :=
  | tf_intro : forall fl x, tv fl x -> tf fl (f_name fl, x)
  with tv : field -> mval -> Prop :=
  | tv_none : forall fl, f_required fl = false -> tv fl MNone
  | tv_single : forall fl x, f_shape fl = Single -> tk (f_kind fl) x -> tv fl x
  | tv_list : forall fl lo hi l, f_shape fl = ListOf lo hi -> Forall (tk (f_kind fl)) l -> tv fl (MList l)
  | tv_dict : forall fl kk l, f_shape fl = DictOf kk ->
                              Forall (fun kv : str * mval => tk (f_kind fl) (snd kv)) l -> tv fl (MDict l).

  (* ---------------------------------------------------------------- scalars *)
  Lemma parse_scalar_typed : forall classify k v m, parse_scalar classify k v = Ok m -> tk k m.
  Proof.
    intros classify k v m H.
    destruct k as [lit|enum|strict lo hi cs|c lo hi cs|strict|strict ge le gt|gt| |c|key mp|alts];
      cbn [parse_scalar] in H; try discriminate H.
    - destruct v as [|b|z|dm de|s|l|members]; try discriminate H.
      destruct (str_eqb s (str_of_string lit)) eqn:E; [|discriminate H].
      injection H as <-. apply cf_str_eqb_eq in E. subst s. constructor.
    - destruct v as [|b|z|dm de|s|l|members]; try discriminate H.
      destruct (existsb _ enum) eqn:E; [|discriminate H]. injection H as <-. constructor. exact E.
    - destruct v as [|b|z|dm de|s|l|members]; try discriminate H; try (destruct strict; try discriminate H);
        apply check_str_ok in H; destruct H as [-> Hl]; constructor; exact Hl.
    - destruct v as [|b|z|dm de|s|l|members]; try discriminate H.
      destruct (len_ok lo hi s && cs_ok cs s && fs_ok classify s); [|discriminate H].
      injection H as <-. constructor.
    - destruct v; try (destruct strict; discriminate H). injection H as <-. constructor.
    - assert (F : forall z, (if zopt_ok ge le gt z then Ok (MInt z) else reject) = Ok m -> tk (KInt strict ge le gt) m).
      { intros z Hz. destruct (zopt_ok ge le gt z); [|discriminate Hz]. injection Hz as <-. constructor. }
      destruct v as [|b|z|dm de|s|l|members]; try discriminate H; try (destruct strict; try discriminate H); try (eapply F; exact H).
      + destruct (dec_integral dm de); [eapply F; exact H|discriminate H].
      + destruct (parse_int s); [eapply F; exact H|discriminate H].
    - assert (F : forall a x, match gt with
                              | Some b => if num_ltb (num_of_Z b) (mkNum a x) then Ok (MFloat a x) else reject
                              | None => Ok (MFloat a x)
                              end = Ok m -> tk (KFloat gt) m).
      { intros a x Hz. destruct gt as [b|]; [|injection Hz as <-; constructor].
        destruct (num_ltb (num_of_Z b) (mkNum a x)); [|discriminate Hz]. injection Hz as <-. constructor. }
      destruct v; try discriminate H; eapply F; exact H.
    - destruct v as [|b|z|dm de|s|l|members]; try discriminate H; try (injection H as <-; constructor).
      destruct (parse_dec s) as [[a x|b|]|]; try discriminate H. injection H as <-. constructor.
  Qed.

  (* ---------------------------------------------------------------- the structural layer *)
  Variable classify : N -> cclass.
  Variable pre : string -> json -> bool.
  Variable post : string -> json -> list (string * mval) -> bool.
  Notation pk := (parse_kind SC classify pre post).
  Notation pc := (parse_cls SC classify pre post).

  Lemma list_items_typed : forall f lo hi k v m,
    (forall k v m, pk f k v = Ok m -> tk k m) ->
    list_items (pk f) lo hi k v = Ok m -> exists l, m = MList l /\ Forall (tk k) l.
  Proof.
    intros f lo hi k v m IH H. unfold list_items in H. destruct v as [|b|z|dm de|s|l|members]; try discriminate H.
    destruct (len_ok_n lo hi (List.length l)); [|discriminate H].
    destruct (mapM (pk f k) l) as [l'|e] eqn:Em; cbn [bind] in H; [|discriminate H].
    injection H as <-. exists l'. split; [reflexivity|]. apply Forall_forall. intros y Hy.
    destruct (cf_mapM_in_bwd _ _ _ _ _ Em y Hy) as [x [_ Hx]]. exact (IH _ _ _ Hx).
  Qed.

  Lemma parse_value_typed : forall f fl raw x,
    (forall k v m, pk f k v = Ok m -> tk k m) -> parse_value (pk f) fl raw = Ok x -> tv fl x.
  Proof.
    intros f fl raw x IH H. unfold parse_value in H.
    assert (K : match f_shape fl with
                | Single => pk f (f_kind fl) raw
                | ListOf minl maxl => list_items (pk f) minl maxl (f_kind fl) raw
                | DictOf kk =>
                  match raw with
                  | JObj members => do l' <- mapM (dict_entry (pk f) kk (f_kind fl)) members; Ok (MDict l')
                  | _ => reject
                  end
                end = Ok x -> tv fl x).
    { clear H. intros H. destruct (f_shape fl) as [|lo hi|kk] eqn:Es.
      - apply tv_single; [exact Es|]. eapply IH; exact H.
      - destruct (list_items_typed _ _ _ _ _ _ IH H) as [l [-> Hl]]. eapply tv_list; [exact Es|exact Hl].
      - destruct raw as [|b|z|a e|s|l|ms]; try discriminate H.
        destruct (mapM (dict_entry (pk f) kk (f_kind fl)) ms) as [l'|e] eqn:Em; cbn [bind] in H; [|discriminate H].
        injection H as <-. eapply tv_dict; [exact Es|]. apply Forall_forall. intros kv' Hy.
        destruct (cf_mapM_in_bwd _ _ _ _ _ Em kv' Hy) as [kv [_ Hx]]. unfold dict_entry in Hx.
        destruct (pk f kk (JStr (fst kv))) as [y1|e1]; cbn [bind] in Hx; [|discriminate Hx].
        destruct (pk f (f_kind fl) (snd kv)) as [y2|e2] eqn:E2; cbn [bind] in Hx; [|discriminate Hx].
        injection Hx as <-. cbn [snd]. exact (IH _ _ _ E2). }
    destruct raw; try (apply K; exact H).
    destruct (f_required fl) eqn:Eq; [discriminate H|]. injection H as <-. apply tv_none. exact Eq.
  Qed.

  Lemma parse_fields_typed' : forall f ms fls fs,
    (forall k v m, pk f k v = Ok m -> tk k m) ->
    mapM (parse_field (pk f) ms) fls = Ok fs -> Forall2 tf fls fs.
  Proof.
    intros f ms fls fs IH H. apply cf_mapM_Forall2 in H.
    induction H as [|fl fv fls fs Hf _ IHf]; constructor; [|exact IHf].
    unfold parse_field in Hf.
    destruct (parse_value (pk f) fl (field_raw ms fl)) as [x|e] eqn:Ev; cbn [bind] in Hf; [|discriminate Hf].
    injection Hf as <-. constructor. eapply parse_value_typed; eassumption.
  Qed.

  Theorem parse_typed : forall fuel,
    (forall k v m, pk fuel k v = Ok m -> tk k m) /\ (forall c v m, pc fuel c v = Ok m -> tc c m).
  Proof.
    induction fuel as [|f [IHk IHc]].
    - split; intros x v m H; [rewrite parse_kind_O in H|rewrite parse_cls_O in H]; discriminate H.
    - split.
      + intros k v m H. rewrite parse_kind_S in H.
        destruct k as [lit|members|strict lo hi cs|c lo hi cs|strict|strict ge le gt|gt| |c|key mp|alts];
          try (eapply parse_scalar_typed; exact H).
        * constructor. exact (IHc c v m H).
        * unfold disc_res in H. destruct v as [|b|z|dm de|s|l|members]; try discriminate H.
          destruct (assoc (str_of_string key) members) as [[| | | |s| |]|]; try discriminate H.
          destruct (List.find _ mp) as [[k' c']|] eqn:Ef; [|discriminate H].
          apply find_some in Ef. destruct Ef as [Hin _].
          eapply tk_disc; [exact Hin|]. exact (IHc c' _ m H).
        * apply try_alts_ok in H. destruct H as [a [Ha Hr]].
          eapply tk_union; [exact Ha|].
          destruct a as [k'|lo hi k']; cbn [alt_res] in Hr.
          -- constructor. exact (IHk k' v m Hr).
          -- destruct (list_items_typed _ _ _ _ _ _ IHk Hr) as [l [-> Hl]]. constructor. exact Hl.
      + intros c v m H. rewrite parse_cls_S in H.
        destruct (lookup_cls SC c) as [c0|] eqn:El; [|discriminate H].
        destruct v as [|b|z|a e|s|l|ms]; try discriminate H.
        destruct (negb (pre c (JObj ms))); [discriminate H|].
        destruct (extra_bad c0 ms); [discriminate H|].
        destruct (mapM (parse_field (pk f) ms) (c_fields c0)) as [fields|e'] eqn:Em; cbn [bind] in H; [|discriminate H].
        destruct (post c (JObj ms) fields); [|discriminate H]. injection H as <-.
        eapply tc_intro; [exact El|]. eapply parse_fields_typed'; eassumption.
  Qed.

  (* ---------------------------------------------------------------- inversion on concrete kinds *)
  Lemma tk_lit_inv : forall lit m, tk (KLiteral lit) m -> m = MStr (str_of_string lit).
  Proof. intros lit m H. inversion H; subst. reflexivity. Qed.
  Lemma tk_enum_inv : forall ms m, tk (KEnum ms) m -> exists s, m = MStr s.
  Proof. intros ms m H. inversion H; subst. eexists. reflexivity. Qed.
  Lemma tk_str_inv : forall st lo hi cs m, tk (KStr st lo hi cs) m -> exists s, m = MStr s /\ len_ok lo hi s = true.
  Proof. intros st lo hi cs m H. inversion H; subst. eexists. split; [reflexivity|assumption]. Qed.
  Lemma tk_fmt_inv : forall c lo hi cs m, tk (KFormat c lo hi cs) m -> exists s, m = MFmt s.
  Proof. intros c lo hi cs m H. inversion H; subst. eexists. reflexivity. Qed.
  Lemma tk_int_inv : forall st ge le gt m, tk (KInt st ge le gt) m -> exists z, m = MInt z.
  Proof. intros st ge le gt m H. inversion H; subst. eexists. reflexivity. Qed.
  Lemma tk_dec_inv : forall m, tk KDec m -> exists a e, m = MDec a e.
  Proof. intros m H. inversion H; subst. eexists. eexists. reflexivity. Qed.
  Lemma tk_model_inv : forall c m, tk (KModel c) m -> tc c m.
  Proof. intros c m H. inversion H; subst. assumption. Qed.
  Lemma tk_disc_inv : forall key mp m, tk (KDisc key mp) m -> exists k c, In (k, c) mp /\ tc c m.
  Proof. intros key mp m H. inversion H; subst. eexists. eexists. split; eassumption. Qed.
  Lemma tk_union_inv : forall alts m, tk (KUnion alts) m -> exists a, In a alts /\ ta a m.
  Proof. intros alts m H. inversion H; subst. eexists. split; eassumption. Qed.
  Lemma ta_scalar_inv : forall k m, ta (UScalar k) m -> tk k m.
  Proof. intros k m H. inversion H; subst. assumption. Qed.
  Lemma ta_list_inv : forall lo hi k m, ta (UList lo hi k) m -> exists l, m = MList l /\ Forall (tk k) l.
  Proof. intros lo hi k m H. inversion H; subst. eexists. split; [reflexivity|assumption]. Qed.

  Lemma tc_inv : forall c m, tc c m ->
    exists c0 fs, lookup_cls SC c = Some c0 /\ m = MModel c fs /\ Forall2 tf (c_fields c0) fs.
  Proof. intros c m H. inversion H; subst. eexists. eexists. split; [eassumption|]. split; [reflexivity|assumption]. Qed.

  Lemma tf_inv : forall fl fv, tf fl fv -> fst fv = f_name fl /\ tv fl (snd fv).
  Proof. intros fl fv H. inversion H; subst. split; [reflexivity|assumption]. Qed.

  (* an optional / required Single field *)
  Lemma tv_single_inv : forall fl x, f_shape fl = Single -> tv fl x ->
    (x = MNone /\ f_required fl = false) \/ tk (f_kind fl) x.
  Proof.
    intros fl x Hs H. inversion H; subst.
    - left. split; [reflexivity|assumption].
    - right. assumption.
    - congruence.
    - congruence.
  Qed.

  Lemma tv_list_inv : forall fl lo hi x, f_shape fl = ListOf lo hi -> tv fl x ->
    (x = MNone /\ f_required fl = false) \/ exists l, x = MList l /\ Forall (tk (f_kind fl)) l.
  Proof.
    intros fl lo hi x Hs H. inversion H; subst.
    - left. split; [reflexivity|assumption].
    - congruence.
    - right. eexists. split; [reflexivity|assumption].
    - congruence.
  Qed.
End Judgment.

(* ------------------------------------------------------------------ the live schema *)
Theorem decode_job_typed : forall classify j t, decode_job classify j = Ok t -> tc Generated.schema "JobTemplate" t.
Proof.
  intros classify j t H. unfold decode_job in H.
  destruct j as [| | | | | |ms]; try discriminate H.
  destruct (version_ok Generated.job_template_versions (JObj ms)); [|discriminate H].
  unfold parse_template, parse_root in H.
  exact (proj2 (parse_typed Generated.schema classify pre_hook (post_hook classify) _) _ _ _ H).
Qed.
