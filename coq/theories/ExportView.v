(* ExportView.v — C17, the template roots: what the reference specification of C03 (ScopeSpec.v) reads of a
   document is preserved by  j |-> export (decode j).

   1. field-by-field inversion of a successful class parse together with the shape of its re-export
      ([fld_exp] and its corollaries by shape / kind: [fld_exact], [fld_model], [fld_models], [fld_discs],
      [fld_dict], [fld_lit], [fld_raw]);  the relation  [dx c v v']  =  "v decodes as class c to some x and
      v' is the export of x";
   2. one lemma per model class the specification walks through: the specification's value on v' equals
      its value on v (scripts, environments, host requirements, declared names), or — task parameter ranges,
      where an INT item given as text is exported as a number and a FLOAT item as Decimal text — is empty
      whenever it is empty on v;
   3. [spec_job_stable] / [spec_env_stable]: the specification reports nothing on the re-export of an
      accepted root whose source it reported nothing on.
   Lemmas only. *)
From Coq Require Import List NArith ZArith Bool String Lia Arith.
Import ListNotations.
Require Import OJD.Base OJD.Lexer OJD.Json OJD.Schema OJD.Generated OJD.Charsets OJD.Numerals OJD.NumPrint
               OJD.CreateJob OJD.Parse OJD.ScopeWalk OJD.ScopeSpec OJD.NumRoundtrip OJD.ExportProofs.
Local Open Scope string_scope.
Local Open Scope list_scope.

(* ------------------------------------------------------------------------------------------ *)
(* 0. lists                                                                                    *)

Lemma F2_flat_map_eq : forall (A B : Type) (R : A -> A -> Prop) (f g : A -> list B) l l',
  Forall2 R l l' -> (forall a a', R a a' -> g a' = f a) -> flat_map g l' = flat_map f l.
Proof.
  intros A B R f g l l' H Hfg. induction H as [|a a' l l' Ha _ IH]; [reflexivity|].
  cbn [flat_map]. rewrite (Hfg _ _ Ha), IH. reflexivity.
Qed.

Lemma F2_flat_map_nil : forall (A B : Type) (R : A -> A -> Prop) (f g : A -> list B) l l',
  Forall2 R l l' -> (forall a a', R a a' -> f a = [] -> g a' = []) -> flat_map f l = [] -> flat_map g l' = [].
Proof.
  intros A B R f g l l' H Hfg. induction H as [|a a' l l' Ha _ IH]; intros Hn; [reflexivity|].
  cbn [flat_map] in *. apply app_eq_nil in Hn. destruct Hn as [H1 H2].
  rewrite (Hfg _ _ Ha H1), (IH H2). reflexivity.
Qed.

Lemma F2_concat_seq_eq : forall (A B : Type) (R : A -> A -> Prop) (f g : nat * A -> list B) l l',
  Forall2 R l l' -> (forall i a a', R a a' -> g (i, a') = f (i, a)) ->
  forall s, List.concat (map g (combine (seq s (List.length l')) l')) = List.concat (map f (combine (seq s (List.length l)) l)).
Proof.
  intros A B R f g l l' H Hfg. induction H as [|a a' l l' Ha _ IH]; intros s; [reflexivity|].
  cbn [List.length seq combine map List.concat]. rewrite (Hfg _ _ _ Ha), IH. reflexivity.
Qed.

Lemma F2_concat_seq_nil : forall (A B : Type) (R : A -> A -> Prop) (f g : nat * A -> list B) l l',
  Forall2 R l l' -> (forall i a a', R a a' -> f (i, a) = [] -> g (i, a') = []) ->
  forall s, List.concat (map f (combine (seq s (List.length l)) l)) = [] ->
            List.concat (map g (combine (seq s (List.length l')) l')) = [].
Proof.
  intros A B R f g l l' H Hfg. induction H as [|a a' l l' Ha _ IH]; intros s Hn; [reflexivity|].
  cbn [List.length seq combine map List.concat] in *. apply app_eq_nil in Hn. destruct Hn as [H1 H2].
  rewrite (Hfg _ _ _ Ha H1), (IH _ H2). reflexivity.
Qed.

Lemma app_nil_2 : forall (A : Type) (a b a' b' : list A),
  (a = [] -> a' = []) -> (b = [] -> b' = []) -> a ++ b = [] -> a' ++ b' = [].
Proof.
  intros A a b a' b' Ha Hb H. apply app_eq_nil in H. destruct H as [H1 H2].
  rewrite (Ha H1), (Hb H2). reflexivity.
Qed.

(* ------------------------------------------------------------------------------------------ *)
(* 1. a successful class parse and its re-export, field by field                               *)

Definition is_single (s : shape) : bool := match s with Single => true | _ => false end.
Definition is_listof (s : shape) : bool := match s with ListOf _ _ => true | _ => false end.
Definition is_dictof (s : shape) : bool := match s with DictOf _ => true | _ => false end.
Definition kind_model_is (c : string) (k : kind) : bool :=
  match k with KModel c' => String.eqb c' c | _ => false end.
Definition kind_disc_in (cs : list string) (k : kind) : bool :=
  match k with KDisc _ mapping => forallb (fun kc => mem_s (snd kc) cs) mapping | _ => false end.
Definition kind_lit_is (lit : string) (k : kind) : bool :=
  match k with KLiteral l => String.eqb l lit | _ => false end.

(* stored as given: exact kind, single or list *)
Definition exact_fld (fl : field) : bool :=
  exact_kind (f_kind fl) && (is_single (f_shape fl) || is_listof (f_shape fl)).

(* field number [i] of live class [c] is read under the key [a] and satisfies [p] *)
Definition fld_is (c : string) (i : nat) (a : string) (p : field -> bool) : bool :=
  match lookup_cls Generated.schema c with
  | Some k => Nat.ltb i (List.length (c_fields k)) && String.eqb (f_alias (nth i (c_fields k) dflt_field)) a
              && p (nth i (c_fields k) dflt_field)
  | None => false
  end.

Lemma fld_is_inv : forall c i a p, fld_is c i a p = true ->
  exists k, lookup_cls Generated.schema c = Some k /\ In (fld c i) (c_fields k)
            /\ f_alias (fld c i) = a /\ p (fld c i) = true.
Proof.
  intros c i a p H. unfold fld_is in H. unfold fld.
  destruct (lookup_cls Generated.schema c) as [k|]; [|discriminate].
  apply andb_true_iff in H. destruct H as [H Hp]. apply andb_true_iff in H. destruct H as [Hi Ha].
  apply Nat.ltb_lt in Hi. apply String.eqb_eq in Ha.
  exists k. repeat split; try assumption. apply nth_In. exact Hi.
Qed.

Definition nul2 (R : json -> json -> Prop) (v v' : json) : Prop := (v = JNull /\ v' = JNull) \/ R v v'.
Definition arr2 (R : json -> json -> Prop) (v v' : json) : Prop :=
  exists items items', v = JArr items /\ v' = JArr items' /\ Forall2 R items items'.

Section Tool.
  Variable classify : N -> cclass.
  Variable pre : string -> json -> bool.
  Variable post : string -> json -> list (string * mval) -> bool.
  Notation G := Generated.schema.
  Notation PK := (parse_kind G classify pre post).
  Notation PC := (parse_cls G classify pre post).
  Notation EXP := (exp G).

  (* v decodes as class c, v' is the export of the result *)
  Definition dx (c : string) (v v' : json) : Prop := exists g x, PC g c v = Ok x /\ v' = EXP x.
  Definition dx_any (cs : list string) (v v' : json) : Prop := exists c, In c cs /\ dx c v v'.

  Lemma fld_exp : forall f c v x k fl,
    PC f c v = Ok x -> lookup_cls G c = Some k -> In fl (c_fields k) ->
    exists f' y, f = S f' /\ field_value (PK f') fl (jget (f_alias fl) v) = Ok y
                 /\ jget (f_alias fl) (EXP x) = EXP y.
  Proof.
    intros f c v x k fl H Hl Hfl.
    destruct (parse_cls_inv _ _ _ _ _ _ _ _ H) as [f' [k' [ms [vals [Ef [Hl' [Ev [_ [Hf [Ex _]]]]]]]]]].
    rewrite Hl in Hl'. inversion Hl'. subst k'. clear Hl'.
    destruct (generated_names_distinct c k Hl) as [Hn1 Hn2].
    assert (Hlen : List.length vals = List.length (c_fields k)) by (symmetry; eapply Forall2_length'; exact Hf).
    subst x v. rewrite (exp_model G c k vals Hl Hn1 Hlen).
    assert (Hy : exists y, In (fl, y) (combine (c_fields k) vals)).
    { clear - Hfl Hlen. revert vals Hlen. induction (c_fields k) as [|a r IH]; intros vals Hlen; [destruct Hfl|].
      destruct vals as [|y vals]; [discriminate|]. destruct Hfl as [Hfl|Hfl].
      - subst. exists y. left. reflexivity.
      - destruct (IH Hfl vals) as [y' Hy']; [cbn in Hlen; lia|]. exists y'. right. exact Hy'. }
    destruct Hy as [y Hy].
    pose proof (Forall2_combine_in _ _ _ _ _ _ _ Hf Hy) as Hfv. cbn beta in Hfv.
    assert (Hal2 : NoDup (map (fun p : field * mval => f_alias (fst p)) (combine (c_fields k) vals))).
    { rewrite <- (map_map fst f_alias). rewrite map_fst_combine by exact Hlen. exact Hn2. }
    exists f', y. split; [exact Ef|]. split; [exact Hfv|].
    unfold jget. rewrite (assoc_emit EXP _ fl y Hal2 Hy). destruct y; reflexivity.
  Qed.

  Lemma fld_raw : forall f c v x i a p,
    PC f c v = Ok x -> fld_is c i a p = true ->
    exists f' y, f = S f' /\ field_value (PK f') (fld c i) (jget a v) = Ok y /\ jget a (EXP x) = EXP y
                 /\ p (fld c i) = true.
  Proof.
    intros f c v x i a p H Hi. destruct (fld_is_inv _ _ _ _ Hi) as [k [Hl [Hin [Ha Hp]]]].
    destruct (fld_exp f c v x k _ H Hl Hin) as [f' [y [Ef [Hfv He]]]]. rewrite Ha in *.
    exists f', y. auto.
  Qed.

  Lemma dx_obj : forall c v v', dx c v v' -> is_obj v = true /\ is_obj v' = true.
  Proof.
    intros c v v' [g [x [H Ev']]].
    destruct (parse_cls_inv _ _ _ _ _ _ _ _ H) as [f' [k [ms [vals [Ef [Hl [Ev [_ [Hf [Ex _]]]]]]]]]].
    destruct (generated_names_distinct c k Hl) as [Hn1 _].
    assert (Hlen : List.length vals = List.length (c_fields k)) by (symmetry; eapply Forall2_length'; exact Hf).
    subst. rewrite (exp_model G c k vals Hl Hn1 Hlen). split; reflexivity.
  Qed.

  (* ---- by shape and kind ---- *)
  Lemma list_value_inv : forall (pk : kind -> json -> outcome mval) minl maxl k raw y,
    list_value pk minl maxl k raw = Ok y ->
    exists items ys, raw = JArr items /\ y = MList ys /\ Forall2 (fun it z => pk k it = Ok z) items ys.
  Proof.
    intros pk minl maxl k raw y H. unfold list_value in H. destruct raw as [| | | | |items|]; try discriminate.
    destruct (len_ok_n minl maxl (List.length items)); [|discriminate].
    destruct (mapM (pk k) items) as [ys|] eqn:E; [|discriminate]. cbn [bind] in H. inversion H. subst y.
    exists items, ys. repeat split. apply mapM_Forall2. exact E.
  Qed.

  Lemma fv_list : forall f' fl raw y, is_listof (f_shape fl) = true ->
    field_value (PK f') fl raw = Ok y ->
    (raw = JNull /\ y = MNone)
    \/ exists items ys, raw = JArr items /\ y = MList ys /\ Forall2 (fun it z => PK f' (f_kind fl) it = Ok z) items ys.
  Proof.
    intros f' fl raw y Hs H. destruct (field_value_cases _ _ _ _ H) as [[Er [Ey _]]|[Er Hsv]]; [left; auto|right].
    unfold shape_value in Hsv. destruct (f_shape fl); try discriminate. eapply list_value_inv. exact Hsv.
  Qed.

  Lemma exp_items_exact : forall f' k items ys, exact_kind k = true ->
    Forall2 (fun it z => PK f' k it = Ok z) items ys -> map EXP ys = items.
  Proof.
    intros f' k items ys Hk H. induction H as [|a b l l' Hab _ IH]; [reflexivity|].
    cbn [map]. rewrite IH. rewrite (pk_exact _ _ _ _ _ _ _ _ Hk Hab). reflexivity.
  Qed.

  Lemma fv_exact : forall f' fl raw y, exact_fld fl = true -> field_value (PK f') fl raw = Ok y -> EXP y = raw.
  Proof.
    intros f' fl raw y He H. unfold exact_fld in He. apply andb_true_iff in He. destruct He as [Hk Hs].
    destruct (field_value_cases _ _ _ _ H) as [[Er [Ey _]]|[Er Hsv]]; [subst; reflexivity|].
    unfold shape_value in Hsv. destruct (f_shape fl); try discriminate.
    - eapply pk_exact; eassumption.
    - destruct (list_value_inv _ _ _ _ _ _ Hsv) as [items [ys [E1 [E2 HF]]]]. subst.
      rewrite exp_list. f_equal. eapply exp_items_exact; eassumption.
  Qed.

  Lemma pk_model : forall f' c' it z, PK f' (KModel c') it = Ok z -> exists g, PC g c' it = Ok z.
  Proof.
    intros f' c' it z H. destruct f' as [|g]; [discriminate|]. rewrite parse_kind_S in H. cbn [kind_body] in H.
    exists g. exact H.
  Qed.

  Lemma pk_disc : forall f' key mapping it z cs, forallb (fun kc => mem_s (snd kc) cs) mapping = true ->
    PK f' (KDisc key mapping) it = Ok z -> exists c' g, In c' cs /\ PC g c' it = Ok z.
  Proof.
    intros f' key mapping it z cs Hm H. destruct f' as [|g]; [discriminate|]. rewrite parse_kind_S in H.
    cbn [kind_body] in H. unfold disc_value in H. destruct it as [| | | | | |ms]; try discriminate.
    destruct (assoc $key ms) as [[| | | |s| |]|]; try discriminate.
    destruct (List.find (fun kc => str_eqb $(fst kc) s) mapping) as [[t c']|] eqn:Ef; [|discriminate].
    apply find_some in Ef. destruct Ef as [Hin _]. rewrite forallb_forall in Hm. specialize (Hm _ Hin).
    cbn [snd] in Hm. apply mem_s_In in Hm. exists c', g. split; assumption.
  Qed.

  Lemma F2_impl : forall (A B : Type) (R R' : A -> B -> Prop) l l',
    (forall a b, R a b -> R' a b) -> Forall2 R l l' -> Forall2 R' l l'.
  Proof. intros A B R R' l l' H HF. induction HF; constructor; auto. Qed.

  Lemma F2_map_r : forall (A B C : Type) (R : A -> C -> Prop) (h : B -> C) l l',
    Forall2 (fun a b => R a (h b)) l l' -> Forall2 R l (map h l').
  Proof. intros A B C R h l l' HF. induction HF; cbn [map]; constructor; auto. Qed.

  (* ---- the live classes, field by index ---- *)
  Lemma fld_exact : forall f c v x i a,
    PC f c v = Ok x -> fld_is c i a exact_fld = true -> jget a (EXP x) = jget a v.
  Proof.
    intros f c v x i a H Hi. destruct (fld_raw _ _ _ _ _ _ _ H Hi) as [f' [y [_ [Hfv [He Hp]]]]].
    rewrite He. eapply fv_exact; eassumption.
  Qed.

  Lemma fld_model : forall f c v x i a c',
    PC f c v = Ok x -> fld_is c i a (fun fl => is_single (f_shape fl) && kind_model_is c' (f_kind fl)) = true ->
    nul2 (dx c') (jget a v) (jget a (EXP x)).
  Proof.
    intros f c v x i a c' H Hi. destruct (fld_raw _ _ _ _ _ _ _ H Hi) as [f' [y [_ [Hfv [He Hp]]]]].
    apply andb_true_iff in Hp. destruct Hp as [Hs Hk]. rewrite He.
    destruct (field_value_cases _ _ _ _ Hfv) as [[Er [Ey _]]|[Er Hsv]]; [left; subst y; rewrite Er; auto|right].
    unfold shape_value in Hsv. destruct (f_shape (fld c i)); try discriminate.
    destruct (f_kind (fld c i)) as [| | | | | | | |c''| |]; try discriminate. cbn [kind_model_is] in Hk.
    apply String.eqb_eq in Hk. subst c''. destruct (pk_model _ _ _ _ Hsv) as [g Hg]. exists g, y. auto.
  Qed.

  Lemma fld_models : forall f c v x i a c',
    PC f c v = Ok x -> fld_is c i a (fun fl => is_listof (f_shape fl) && kind_model_is c' (f_kind fl)) = true ->
    nul2 (arr2 (dx c')) (jget a v) (jget a (EXP x)).
  Proof.
    intros f c v x i a c' H Hi. destruct (fld_raw _ _ _ _ _ _ _ H Hi) as [f' [y [_ [Hfv [He Hp]]]]].
    apply andb_true_iff in Hp. destruct Hp as [Hs Hk]. rewrite He.
    destruct (fv_list _ _ _ _ Hs Hfv) as [[Er Ey]|[items [ys [Er [Ey HF]]]]]; [left; subst y; rewrite Er; auto|right].
    destruct (f_kind (fld c i)) as [| | | | | | | |c''| |]; try discriminate. cbn [kind_model_is] in Hk.
    apply String.eqb_eq in Hk. subst c''. subst y. rewrite Er, exp_list.
    exists items, (map EXP ys). repeat split. apply F2_map_r. eapply F2_impl; [|exact HF].
    intros it z Hz. cbn beta in Hz. destruct (pk_model _ _ _ _ Hz) as [g Hg]. exists g, z. auto.
  Qed.

  Lemma fld_discs : forall f c v x i a cs,
    PC f c v = Ok x -> fld_is c i a (fun fl => is_listof (f_shape fl) && kind_disc_in cs (f_kind fl)) = true ->
    nul2 (arr2 (dx_any cs)) (jget a v) (jget a (EXP x)).
  Proof.
    intros f c v x i a cs H Hi. destruct (fld_raw _ _ _ _ _ _ _ H Hi) as [f' [y [_ [Hfv [He Hp]]]]].
    apply andb_true_iff in Hp. destruct Hp as [Hs Hk]. rewrite He.
    destruct (fv_list _ _ _ _ Hs Hfv) as [[Er Ey]|[items [ys [Er [Ey HF]]]]]; [left; subst y; rewrite Er; auto|right].
    destruct (f_kind (fld c i)) as [| | | | | | | | |key mapping|]; try discriminate. cbn [kind_disc_in] in Hk.
    subst y. rewrite Er, exp_list.
    exists items, (map EXP ys). repeat split. apply F2_map_r. eapply F2_impl; [|exact HF].
    intros it z Hz. cbn beta in Hz. destruct (pk_disc _ _ _ _ _ _ Hk Hz) as [c' [g [Hc Hg]]].
    exists c'. split; [exact Hc|]. exists g, z. auto.
  Qed.

  (* a required literal field holds its literal *)
  Lemma fld_lit : forall f c v x i a lit,
    PC f c v = Ok x ->
    fld_is c i a (fun fl => is_single (f_shape fl) && f_required fl && kind_lit_is lit (f_kind fl)) = true ->
    jget a v = JStr $lit.
  Proof.
    intros f c v x i a lit H Hi. destruct (fld_raw _ _ _ _ _ _ _ H Hi) as [f' [y [_ [Hfv [_ Hp]]]]].
    apply andb_true_iff in Hp. destruct Hp as [Hp Hk]. apply andb_true_iff in Hp. destruct Hp as [Hs Hr].
    destruct (field_value_cases _ _ _ _ Hfv) as [[_ [_ Erq]]|[Er Hsv]]; [rewrite Erq in Hr; discriminate|].
    unfold shape_value in Hsv. destruct (f_shape (fld c i)); try discriminate.
    destruct (f_kind (fld c i)) as [l| | | | | | | | | |]; try discriminate. cbn [kind_lit_is] in Hk.
    apply String.eqb_eq in Hk. subst l. destruct f' as [|g]; [discriminate|]. rewrite parse_kind_S in Hsv.
    cbn [kind_body scalar_body] in Hsv. destruct (jget a v); try discriminate.
    destruct (str_eqb s $lit) eqn:E; [|discriminate]. apply str_eqb_true2 in E. subst s. reflexivity.
  Qed.

  (* a dictionary of exactly-stored values: exported as given; dict("") and dict([]) become {} *)
  Lemma fld_dict : forall f c v x i a,
    PC f c v = Ok x -> fld_is c i a (fun fl => is_dictof (f_shape fl) && exact_kind (f_kind fl)) = true ->
    jget a (EXP x) = jget a v \/ (jget a (EXP x) = JObj [] /\ (jget a v = JStr [] \/ jget a v = JArr [])).
  Proof.
    intros f c v x i a H Hi. destruct (fld_raw _ _ _ _ _ _ _ H Hi) as [f' [y [_ [Hfv [He Hp]]]]].
    apply andb_true_iff in Hp. destruct Hp as [Hs Hk]. rewrite He.
    destruct (field_value_cases _ _ _ _ Hfv) as [[Er [Ey _]]|[Er Hsv]]; [left; subst y; rewrite Er; reflexivity|].
    unfold shape_value in Hsv. destruct (f_shape (fld c i)) as [| |kk]; try discriminate.
    unfold dict_value in Hsv. destruct (jget a v) as [| | | |s|l|members]; try discriminate.
    - left. destruct (mapM (dict_member (PK f') kk (f_kind (fld c i))) members) as [l'|] eqn:E; [|discriminate].
      cbn [bind] in Hsv. inversion Hsv. subst y. apply mapM_Forall2 in E.
      destruct (parse_nn G classify pre post f') as [NNk _].
      assert (Hm : Forall2 (fun (a0 : str * json) (b : str * mval) =>
                              a0 = (fst b, EXP (snd b)) /\ mnone (snd b) = false) members l').
      { eapply F2_impl; [|exact E]. intros a0 b Hab. cbn beta in Hab. unfold dict_member in Hab.
        destruct (PK f' kk (JStr (fst a0))); [|discriminate]. cbn [bind] in Hab.
        destruct (PK f' (f_kind (fld c i)) (snd a0)) as [z|] eqn:Ez; [|discriminate]. cbn [bind] in Hab.
        inversion Hab. subst b. cbn [fst snd]. rewrite (pk_exact _ _ _ _ _ _ _ _ Hk Ez). split; [destruct a0; reflexivity|].
        apply nn_not_none. eapply NNk. exact Ez. }
      rewrite exp_dict.
      + f_equal. clear - Hm. induction Hm as [|a0 b l l' [Hab _] _ IH]; [reflexivity|].
        cbn [map]. rewrite IH, <- Hab. reflexivity.
      + intros kv Hkv. clear - Hm Hkv. induction Hm as [|a0 b l l' [_ Hab] _ IH]; [destruct Hkv|].
        destruct Hkv as [Hkv|Hkv]; [subst; exact Hab|apply IH; exact Hkv].
  Qed.
End Tool.

(* ------------------------------------------------------------------------------------------ *)
(* 2. the specification of C03 on a document and on its re-export, class by class              *)

Definition task_def_classes : list string :=
  ["IntTaskParameterDefinition"; "FloatTaskParameterDefinition"; "StringTaskParameterDefinition"; "PathTaskParameterDefinition"].
Definition job_def_classes : list string :=
  ["JobIntParameterDefinition"; "JobFloatParameterDefinition"; "JobStringParameterDefinition"; "JobPathParameterDefinition"].

Lemma decl_name_eq : forall o o', is_obj o' = is_obj o -> jget "name" o' = jget "name" o -> decl_name o' = decl_name o.
Proof.
  intros o o' Ho Hn. destruct o, o'; cbn [is_obj] in Ho; try discriminate; try reflexivity.
  unfold decl_name. rewrite Hn. reflexivity.
Qed.

Lemma type_is_eq : forall o o' t, jget "type" o' = jget "type" o -> type_is o' t = type_is o t.
Proof. intros o o' t H. unfold type_is. rewrite H. reflexivity. Qed.

Lemma has_param_type_eq : forall o o', jget "type" o' = jget "type" o -> has_param_type o' = has_param_type o.
Proof. intros o o' H. unfold has_param_type. rewrite !(type_is_eq o o' _ H). reflexivity. Qed.

Definition same_decl (o o' : json) : Prop :=
  is_obj o' = is_obj o /\ jget "name" o' = jget "name" o /\ jget "type" o' = jget "type" o.

Lemma declared_eq : forall (ok : json -> bool) items items',
  Forall2 same_decl items items' ->
  (forall o o', jget "type" o' = jget "type" o -> ok o' = ok o) ->
  declared ok (JArr items') = declared ok (JArr items).
Proof.
  intros ok items items' HF Hok. unfold declared, obj_list.
  eapply F2_flat_map_eq; [exact HF|]. intros a a' [H1 [H2 H3]].
  rewrite (Hok _ _ H3), (decl_name_eq _ _ H1 H2). reflexivity.
Qed.

Section View.
  Variable classify : N -> cclass.
  Variable pre : string -> json -> bool.
  Variable post : string -> json -> list (string * mval) -> bool.
  Notation G := Generated.schema.
  Notation PK := (parse_kind G classify pre post).
  Notation PC := (parse_cls G classify pre post).
  Notation EXP := (exp G).
  Notation DX := (dx classify pre post).
  Notation DXA := (dx_any classify pre post).

  Variable refs : str -> option (list str).
  (* no reference is read off the string *)
  Definition quiet (s : str) : Prop := refs s = None \/ refs s = Some [].
  Hypothesis Hq : forall m e, quiet (print_dec m e).

  Lemma chk_quiet : forall vis l s, quiet s -> chk refs vis l (JStr s) = [].
  Proof. intros vis l s [H|H]; cbn [chk]; rewrite H; reflexivity. Qed.

  (* ---- Action ---- *)
  Lemma v_action : forall vis l a a', nul2 (DX "Action") a a' -> spec_action refs vis l a' = spec_action refs vis l a.
  Proof.
    intros vis l a a' [[-> ->]|H]; [reflexivity|].
    destruct (dx_obj _ _ _ _ _ _ H) as [Ho Ho']. destruct H as [g [x [H ->]]].
    unfold spec_action. rewrite Ho, Ho'.
    rewrite (fld_exact _ _ _ g "Action" a x 0 "command" H eq_refl).
    rewrite (fld_exact _ _ _ g "Action" a x 1 "args" H eq_refl). reflexivity.
  Qed.

  (* ---- embedded files ---- *)
  Lemma v_file : forall it it', DX "EmbeddedFileText" it it' ->
    is_obj it' = is_obj it /\ jget "name" it' = jget "name" it /\ jget "data" it' = jget "data" it.
  Proof.
    intros it it' H. destruct (dx_obj _ _ _ _ _ _ H) as [Ho Ho']. destruct H as [g [x [H ->]]].
    split; [congruence|]. split.
    - exact (fld_exact _ _ _ g "EmbeddedFileText" it x 0 "name" H eq_refl).
    - exact (fld_exact _ _ _ g "EmbeddedFileText" it x 2 "data" H eq_refl).
  Qed.

  Lemma v_files : forall vis l fs fs', nul2 (arr2 (DX "EmbeddedFileText")) fs fs' ->
    spec_files refs vis l fs' = spec_files refs vis l fs /\ file_names fs' = file_names fs.
  Proof.
    intros vis l fs fs' [[-> ->]|[items [items' [-> [-> HF]]]]]; [split; reflexivity|]. split.
    - unfold spec_files, indexed. eapply F2_concat_seq_eq; [exact HF|]. intros i a a' Ha. cbn [fst snd].
      destruct (v_file _ _ Ha) as [H1 [H2 H3]]. rewrite H1, H3. reflexivity.
    - unfold file_names, declared, obj_list. eapply F2_flat_map_eq; [exact HF|]. intros a a' Ha.
      destruct (v_file _ _ Ha) as [H1 [H2 H3]]. rewrite (decl_name_eq _ _ H1 H2). reflexivity.
  Qed.

  (* ---- environments ---- *)
  Lemma v_env_script : forall base l s s', nul2 (DX "EnvironmentScript") s s' ->
    spec_env_script refs base l s' = spec_env_script refs base l s.
  Proof.
    intros base l s s' [[-> ->]|H]; [reflexivity|].
    destruct (dx_obj _ _ _ _ _ _ H) as [Ho Ho']. destruct H as [g [x [H ->]]].
    pose proof (fld_model _ _ _ g "EnvironmentScript" s x 0 "actions" "EnvironmentActions" H eq_refl) as Ha.
    pose proof (fld_models _ _ _ g "EnvironmentScript" s x 1 "embeddedFiles" "EmbeddedFileText" H eq_refl) as Hf.
    unfold spec_env_script. rewrite Ho, Ho'. cbv zeta.
    destruct (v_files (fun _ => true) [] _ _ Hf) as [_ Hfn]. rewrite Hfn.
    f_equal; [|apply v_files; exact Hf].
    destruct Ha as [[-> ->]|Ha]; [reflexivity|].
    destruct (dx_obj _ _ _ _ _ _ Ha) as [Hoa Hoa']. rewrite Hoa, Hoa'. destruct Ha as [g2 [x2 [H2 ->]]].
    f_equal; apply v_action.
    - exact (fld_model _ _ _ g2 "EnvironmentActions" _ x2 0 "onEnter" "Action" H2 eq_refl).
    - exact (fld_model _ _ _ g2 "EnvironmentActions" _ x2 1 "onExit" "Action" H2 eq_refl).
  Qed.

  Lemma v_env : forall base l e e', nul2 (DX "Environment") e e' -> spec_env refs base l e' = spec_env refs base l e.
  Proof.
    intros base l e e' [[-> ->]|H]; [reflexivity|].
    destruct (dx_obj _ _ _ _ _ _ H) as [Ho Ho']. destruct H as [g [x [H ->]]].
    unfold spec_env. rewrite Ho, Ho'. f_equal.
    - apply v_env_script. exact (fld_model _ _ _ g "Environment" e x 1 "script" "EnvironmentScript" H eq_refl).
    - destruct (fld_dict _ _ _ g "Environment" e x 2 "variables" H eq_refl) as [E|[E [E2|E2]]];
        rewrite E; try rewrite E2; reflexivity.
  Qed.

  Lemma v_env_list : forall base l envs envs', nul2 (arr2 (DX "Environment")) envs envs' ->
    spec_env_list refs base l envs' = spec_env_list refs base l envs.
  Proof.
    intros base l envs envs' [[-> ->]|[items [items' [-> [-> HF]]]]]; [reflexivity|].
    unfold spec_env_list, indexed. eapply F2_concat_seq_eq; [exact HF|]. intros i a a' Ha. cbn [fst snd].
    apply v_env. right. exact Ha.
  Qed.

  (* ---- step scripts ---- *)
  Lemma v_step_script : forall base tps l s s', nul2 (DX "StepScript") s s' ->
    spec_step_script refs base tps l s' = spec_step_script refs base tps l s.
  Proof.
    intros base tps l s s' [[-> ->]|H]; [reflexivity|].
    destruct (dx_obj _ _ _ _ _ _ H) as [Ho Ho']. destruct H as [g [x [H ->]]].
    pose proof (fld_model _ _ _ g "StepScript" s x 0 "actions" "StepActions" H eq_refl) as Ha.
    pose proof (fld_models _ _ _ g "StepScript" s x 1 "embeddedFiles" "EmbeddedFileText" H eq_refl) as Hf.
    unfold spec_step_script. rewrite Ho, Ho'. cbv zeta.
    destruct (v_files (fun _ => true) [] _ _ Hf) as [_ Hfn]. rewrite Hfn.
    f_equal; [|apply v_files; exact Hf].
    destruct Ha as [[-> ->]|Ha]; [reflexivity|].
    destruct (dx_obj _ _ _ _ _ _ Ha) as [Hoa Hoa']. rewrite Hoa, Hoa'. destruct Ha as [g2 [x2 [H2 ->]]].
    apply v_action. exact (fld_model _ _ _ g2 "StepActions" _ x2 0 "onRun" "Action" H2 eq_refl).
  Qed.

  (* ---- host requirements ---- *)
  Lemma v_host_req : forall vis l h h', nul2 (DX "HostRequirementsTemplate") h h' ->
    spec_host_req refs vis l h' = spec_host_req refs vis l h.
  Proof.
    intros vis l h h' [[-> ->]|H]; [reflexivity|].
    destruct (dx_obj _ _ _ _ _ _ H) as [Ho Ho']. destruct H as [g [x [H ->]]].
    unfold spec_host_req. rewrite Ho, Ho'. f_equal.
    - destruct (fld_models _ _ _ g "HostRequirementsTemplate" h x 0 "amounts" "AmountRequirementTemplate" H eq_refl)
        as [[E E']|[items [items' [E [E' HF]]]]]; rewrite E, E'; [reflexivity|].
      unfold indexed. eapply F2_concat_seq_eq; [exact HF|]. intros i a a' Ha. cbn [fst snd].
      destruct (dx_obj _ _ _ _ _ _ Ha) as [Hoa Hoa']. rewrite Hoa, Hoa'. destruct Ha as [g2 [x2 [H2 ->]]].
      rewrite (fld_exact _ _ _ g2 "AmountRequirementTemplate" a x2 0 "name" H2 eq_refl). reflexivity.
    - destruct (fld_models _ _ _ g "HostRequirementsTemplate" h x 1 "attributes" "AttributeRequirementTemplate" H eq_refl)
        as [[E E']|[items [items' [E [E' HF]]]]]; rewrite E, E'; [reflexivity|].
      unfold indexed. eapply F2_concat_seq_eq; [exact HF|]. intros i a a' Ha. cbn [fst snd]. cbv zeta.
      destruct (dx_obj _ _ _ _ _ _ Ha) as [Hoa Hoa']. rewrite Hoa, Hoa'. destruct Ha as [g2 [x2 [H2 ->]]].
      rewrite (fld_exact _ _ _ g2 "AttributeRequirementTemplate" a x2 0 "name" H2 eq_refl).
      rewrite (fld_exact _ _ _ g2 "AttributeRequirementTemplate" a x2 1 "anyOf" H2 eq_refl).
      rewrite (fld_exact _ _ _ g2 "AttributeRequirementTemplate" a x2 2 "allOf" H2 eq_refl). reflexivity.
  Qed.

  (* ---- parameter definitions: name and type are stored as given ---- *)
  Lemma v_task_def : forall it it', DXA task_def_classes it it' -> same_decl it it'.
  Proof.
    intros it it' [c [Hc H]]. destruct (dx_obj _ _ _ _ _ _ H) as [Ho Ho']. destruct H as [g [x [H ->]]].
    split; [congruence|].
    destruct Hc as [<-|[<-|[<-|[<-|[]]]]];
      (split; [exact (fld_exact _ _ _ g _ it x 0 "name" H eq_refl)|exact (fld_exact _ _ _ g _ it x 1 "type" H eq_refl)]).
  Qed.

  Lemma v_job_def : forall it it', DXA job_def_classes it it' -> same_decl it it'.
  Proof.
    intros it it' [c [Hc H]]. destruct (dx_obj _ _ _ _ _ _ H) as [Ho Ho']. destruct H as [g [x [H ->]]].
    split; [congruence|].
    destruct Hc as [<-|[<-|[<-|[<-|[]]]]];
      (split; [exact (fld_exact _ _ _ g _ it x 0 "name" H eq_refl)|exact (fld_exact _ _ _ g _ it x 1 "type" H eq_refl)]).
  Qed.

  Lemma v_pdefs : forall pd pd', nul2 (arr2 (DXA job_def_classes)) pd pd' ->
    all_params pd' = all_params pd /\ nonpath_params pd' = nonpath_params pd /\ path_params pd' = path_params pd.
  Proof.
    intros pd pd' [[-> ->]|[items [items' [-> [-> HF]]]]]; [repeat split; reflexivity|].
    assert (HF' : Forall2 same_decl items items') by (eapply F2_impl; [|exact HF]; apply v_job_def).
    unfold all_params, nonpath_params, path_params. repeat split; apply declared_eq; try exact HF'.
    - apply has_param_type_eq.
    - intros o o' Ht. rewrite (has_param_type_eq _ _ Ht), (type_is_eq _ _ _ Ht). reflexivity.
    - intros o o' Ht. apply type_is_eq. exact Ht.
  Qed.

  (* ---- task parameter ranges ---- *)
  Lemma stp_cong : forall vis l tp tp',
    is_obj tp' = is_obj tp -> jget "type" tp' = jget "type" tp -> jget "range" tp' = jget "range" tp ->
    spec_task_param refs vis l tp' = spec_task_param refs vis l tp.
  Proof.
    intros vis l tp tp' Ho Ht Hr. unfold spec_task_param. rewrite Ho. cbv zeta. rewrite Hr.
    rewrite !(type_is_eq _ _ _ Ht). reflexivity.
  Qed.

  Lemma pk_dec : forall g a z, PK g KDec a = Ok z -> exists m e, z = MDec m e.
  Proof.
    intros g a z H. destruct g as [|g]; [discriminate|]. rewrite parse_kind_S in H. cbn [kind_body scalar_body] in H.
    unfold reject in H. destruct a; try discriminate; try (inversion H; eauto).
    destruct (parse_dec s) as [[m e| |]|]; try discriminate. inversion H. eauto.
  Qed.

  Notation K_int_item := (KUnion [UScalar (KInt false None None None);
                                  UScalar (KFormat "TaskParameterStringValue" None None CS_any)]).
  Notation K_float_item := (KUnion [UScalar KDec; UScalar (KFormat "TaskParameterStringValue" None None CS_any)]).

  Lemma int_item : forall g a z, PK g K_int_item a = Ok z -> EXP z = a \/ exists n, EXP z = JInt n.
  Proof.
    intros g a z H. destruct g as [|g]; [discriminate|]. rewrite parse_kind_S in H. cbn [kind_body try_alts alt_value] in H.
    destruct (PK g (KInt false None None None) a) as [y|e] eqn:E1.
    - inversion H. subst y. right. pose proof (pk_jt _ _ _ _ _ _ _ _ E1) as Ht. cbn [jt] in Ht.
      destruct (EXP z); try discriminate. eauto.
    - assert (H2 : PK g (KFormat "TaskParameterStringValue" None None CS_any) a = Ok z).
      { destruct e; try discriminate;
          (destruct (PK g (KFormat "TaskParameterStringValue" None None CS_any) a) as [y|e2]; [exact H|destruct e2; discriminate]). }
      left. eapply pk_exact; [|exact H2]. reflexivity.
  Qed.

  Lemma float_item : forall g a z, PK g K_float_item a = Ok z -> EXP z = a \/ exists m e, EXP z = JStr (print_dec m e).
  Proof.
    intros g a z H. destruct g as [|g]; [discriminate|]. rewrite parse_kind_S in H. cbn [kind_body try_alts alt_value] in H.
    destruct (PK g KDec a) as [y|e] eqn:E1.
    - inversion H. subst y. right. destruct (pk_dec _ _ _ E1) as [m [e Ez]]. subst z. exists m, e. reflexivity.
    - assert (H2 : PK g (KFormat "TaskParameterStringValue" None None CS_any) a = Ok z).
      { destruct e; try discriminate;
          (destruct (PK g (KFormat "TaskParameterStringValue" None None CS_any) a) as [y|e2]; [exact H|destruct e2; discriminate]). }
      left. eapply pk_exact; [|exact H2]. reflexivity.
  Qed.

  Lemma v_task_param : forall vis l it it', DXA task_def_classes it it' ->
    spec_task_param refs vis l it = [] -> spec_task_param refs vis l it' = [].
  Proof.
    intros vis l it it' Hd. destruct (v_task_def _ _ Hd) as [Ho [_ Ht]].
    destruct Hd as [c [Hc H]]. destruct (dx_obj _ _ _ _ _ _ H) as [Hoi Hoi']. destruct H as [g [x [H ->]]].
    destruct Hc as [<-|[<-|[<-|[<-|[]]]]].
    - (* INT *)
      pose proof (fld_lit _ _ _ g _ it x 1 "type" "INT" H eq_refl) as Ety.
      destruct (fld_raw _ _ _ g _ it x 2 "range" (fun _ => true) H eq_refl) as [f' [y [_ [Hfv [He _]]]]].
      assert (Eint : type_is it "INT" = true) by (unfold type_is; rewrite Ety; reflexivity).
      unfold spec_task_param. rewrite Hoi, Hoi'. cbv zeta. rewrite !(type_is_eq _ _ _ Ht), Eint. rewrite He.
      set (F := fld "IntTaskParameterDefinition" 2) in Hfv. vm_compute in F. subst F.
      destruct (field_value_cases _ _ _ _ Hfv) as [[_ [_ Erq]]|[_ Hsv]]; [discriminate|].
      unfold shape_value in Hsv. cbn [f_shape f_kind] in Hsv.
      destruct f' as [|f']; [discriminate|]. rewrite parse_kind_S in Hsv. cbn [kind_body try_alts alt_value] in Hsv.
      destruct (list_value (PK f') (Some 1%N) (Some 1024%N) K_int_item (jget "range" it)) as [y0|e] eqn:E1.
      + inversion Hsv. subst y0. destruct (list_value_inv _ _ _ _ _ _ E1) as [items [ys [Er [Ey HF]]]].
        subst y. rewrite Er, exp_list.
        apply (F2_flat_map_nil _ _ (fun a a' => a' = a \/ exists n, a' = JInt n)).
        * apply F2_map_r. eapply F2_impl; [|exact HF]. intros a z Hz. cbn beta in Hz. eapply int_item. exact Hz.
        * intros a a' [->|[n ->]] Hn; [exact Hn|reflexivity].
      + assert (H2 : PK f' (KFormat "RangeString" (Some 1%N) None CS_any) (jget "range" it) = Ok y).
        { destruct e; try discriminate;
            (destruct (PK f' (KFormat "RangeString" (Some 1%N) None CS_any) (jget "range" it)) as [y1|e2];
             [exact Hsv|destruct e2; discriminate]). }
        rewrite (pk_exact _ _ _ _ _ (KFormat "RangeString" (Some 1%N) None CS_any) _ _ eq_refl H2). auto.
    - (* FLOAT *)
      pose proof (fld_lit _ _ _ g _ it x 1 "type" "FLOAT" H eq_refl) as Ety.
      destruct (fld_raw _ _ _ g _ it x 2 "range" (fun _ => true) H eq_refl) as [f' [y [_ [Hfv [He _]]]]].
      assert (Eint : type_is it "INT" = false) by (unfold type_is; rewrite Ety; reflexivity).
      assert (Eflt : type_is it "FLOAT" = true) by (unfold type_is; rewrite Ety; reflexivity).
      unfold spec_task_param. rewrite Hoi, Hoi'. cbv zeta. rewrite !(type_is_eq _ _ _ Ht), Eint, Eflt.
      cbn [orb]. rewrite He.
      set (F := fld "FloatTaskParameterDefinition" 2) in Hfv. vm_compute in F. subst F.
      eapply fv_list in Hfv; [|reflexivity]. destruct Hfv as [[Er Ey]|[items [ys [Er [Ey HF]]]]].
      + subst y. rewrite Er. auto.
      + subst y. rewrite Er, exp_list. cbn [f_kind] in HF. unfold chk_list, indexed.
        apply (F2_concat_seq_nil _ _ (fun a a' => a' = a \/ exists m e, a' = JStr (print_dec m e))).
        * apply F2_map_r. eapply F2_impl; [|exact HF]. intros a z Hz. cbn beta in Hz. eapply float_item. exact Hz.
        * intros i a a' [->|[m [e ->]]] Hn; [exact Hn|]. cbn [snd fst]. apply chk_quiet. apply Hq.
    - (* STRING *)
      intros Hn. rewrite (stp_cong vis l it _ (eq_trans Hoi' (eq_sym Hoi)) Ht
                                   (fld_exact _ _ _ g _ it x 2 "range" H eq_refl)). exact Hn.
    - (* PATH *)
      intros Hn. rewrite (stp_cong vis l it _ (eq_trans Hoi' (eq_sym Hoi)) Ht
                                   (fld_exact _ _ _ g _ it x 2 "range" H eq_refl)). exact Hn.
  Qed.

  Lemma v_param_space : forall ps ps', nul2 (DX "StepParameterSpaceDefinition") ps ps' ->
    task_param_names ps' = task_param_names ps
    /\ forall vis l, spec_param_space refs vis l ps = [] -> spec_param_space refs vis l ps' = [].
  Proof.
    intros ps ps' [[-> ->]|H]; [split; [reflexivity|auto]|].
    destruct (dx_obj _ _ _ _ _ _ H) as [Ho Ho']. destruct H as [g [x [H ->]]].
    unfold task_param_names, spec_param_space. rewrite Ho, Ho'.
    destruct (fld_discs _ _ _ g "StepParameterSpaceDefinition" ps x 0 "taskParameterDefinitions" task_def_classes H eq_refl)
      as [[E E']|[items [items' [E [E' HF]]]]]; rewrite E, E'; [split; [reflexivity|auto]|].
    split.
    - apply declared_eq; [|apply has_param_type_eq]. eapply F2_impl; [|exact HF]. apply v_task_def.
    - intros vis l. unfold indexed. apply (F2_concat_seq_nil _ _ (DXA task_def_classes)); [exact HF|].
      intros i a a' Ha. cbn [fst snd]. apply v_task_param. exact Ha.
  Qed.

  (* ---- steps ---- *)
  Lemma vis_eq : forall pd pd',
    all_params pd' = all_params pd -> nonpath_params pd' = nonpath_params pd -> path_params pd' = path_params pd ->
    vis_template pd' = vis_template pd /\ vis_session pd' = vis_session pd.
  Proof.
    intros pd pd' H1 H2 H3. unfold vis_session, vis_template. rewrite H1, H2, H3. split; reflexivity.
  Qed.

  Lemma v_step : forall pd pd' l st st', DX "StepTemplate" st st' ->
    vis_template pd' = vis_template pd -> vis_session pd' = vis_session pd ->
    spec_step refs pd l st = [] -> spec_step refs pd' l st' = [].
  Proof.
    intros pd pd' l st st' H Evt Evs.
    destruct (dx_obj _ _ _ _ _ _ H) as [Ho Ho']. destruct H as [g [x [H ->]]].
    unfold spec_step. rewrite Ho, Ho', Evt, Evs.
    destruct (v_param_space _ _ (fld_model _ _ _ g "StepTemplate" st x 4 "parameterSpace" "StepParameterSpaceDefinition" H eq_refl))
      as [Etp Hps].
    rewrite Etp.
    rewrite (v_step_script _ _ _ _ _ (fld_model _ _ _ g "StepTemplate" st x 2 "script" "StepScript" H eq_refl)).
    rewrite (v_env_list _ _ _ _ (fld_models _ _ _ g "StepTemplate" st x 3 "stepEnvironments" "Environment" H eq_refl)).
    rewrite (v_host_req _ _ _ _ (fld_model _ _ _ g "StepTemplate" st x 5 "hostRequirements" "HostRequirementsTemplate" H eq_refl)).
    apply app_nil_2; [auto|]. apply app_nil_2; [auto|]. apply app_nil_2; [apply Hps|auto].
  Qed.

  (* ---- the roots ---- *)
  Theorem spec_job_stable : forall f v x,
    PC f "JobTemplate" v = Ok x -> spec_job_template refs v = [] -> spec_job_template refs (EXP x) = [].
  Proof.
    intros f v x H. unfold spec_job_template. cbv zeta.
    destruct (v_pdefs _ _ (fld_discs _ _ _ f "JobTemplate" v x 4 "parameterDefinitions" job_def_classes H eq_refl))
      as [H1 [H2 H3]].
    destruct (vis_eq _ _ H1 H2 H3) as [Evt Evs]. rewrite Evt, Evs.
    rewrite (fld_exact _ _ _ f "JobTemplate" v x 1 "name" H eq_refl).
    rewrite (v_env_list _ _ _ _ (fld_models _ _ _ f "JobTemplate" v x 5 "jobEnvironments" "Environment" H eq_refl)).
    apply app_nil_2; [auto|]. apply app_nil_2; [|auto].
    destruct (fld_models _ _ _ f "JobTemplate" v x 2 "steps" "StepTemplate" H eq_refl)
      as [[E E']|[items [items' [E [E' HF]]]]]; rewrite E, E'; [auto|].
    unfold indexed. apply (F2_concat_seq_nil _ _ (DX "StepTemplate")); [exact HF|].
    intros i a a' Ha. cbn [fst snd]. apply v_step; assumption.
  Qed.

  Theorem spec_env_stable : forall f v x,
    PC f "EnvironmentTemplate" v = Ok x -> spec_env_template refs (EXP x) = spec_env_template refs v.
  Proof.
    intros f v x H. unfold spec_env_template. cbv zeta.
    destruct (v_pdefs _ _ (fld_discs _ _ _ f "EnvironmentTemplate" v x 1 "parameterDefinitions" job_def_classes H eq_refl))
      as [H1 [H2 H3]].
    destruct (vis_eq _ _ H1 H2 H3) as [_ Evs]. rewrite Evs.
    apply v_env. exact (fld_model _ _ _ f "EnvironmentTemplate" v x 2 "environment" "Environment" H eq_refl).
  Qed.
End View.
