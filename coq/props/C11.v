(* props/C11.v — PATH defaults cannot escape the template directory; joining is as documented.
   POSIX flavour only.  Model: OJD.Paths (pathlib/posixpath 3.12 + _create_job.py);
   specification: OJD.PathsSpec.  All statements quantify over ALL strings (list N). *)
From Coq Require Import List NArith Bool.
Import ListNotations.
Require Import OJD.Base OJD.Paths OJD.PathsSpec OJD.PathsProofs.
Local Open Scope N_scope.

(* concrete strings for the non-vacuity examples *)
Definition s_t_dir  : str := [47;116;47;100;105;114].                 (* "/t/dir"   *)
Definition s_t_dir2 : str := [47;116;47;100;105;114;50].              (* "/t/dir2"  *)
Definition s_a_x    : str := [97;47;46;47;47;120].                    (* "a/.//x"   *)
Definition s_climb  : str := [97;47;46;46;47;46;46;47;120].           (* "a/../../x" *)
Definition s_sib    : str := [46;46;47;100;105;114;50;47;120].        (* "../dir2/x" *)
Definition s_back   : str := [46;46;47;100;105;114;47;120].           (* "../dir/x" *)
Definition s_abs    : str := [47;97].                                 (* "/a"       *)
Definition s_rel    : str := [114;47;100].                            (* "r/d"      *)
Definition s_cwd    : str := [47;99;119;100].                         (* "/cwd"     *)
Definition s_tidy   : str := [97;47;47;98;47;46;47;46;46;47].         (* "a//b/./../" *)
Definition s_dd_dir : str := [47;116;47;46;46;47;117].                (* "/t/../u"  *)

(* 0. the specification reads path strings exactly as pathlib does *)
Theorem C11_parts_spec : forall s, parts s = spec_parts s /\ is_absolute s = spec_abs s.
Proof. intro s. split; [apply parts_spec|apply is_absolute_spec]. Qed.
Print Assumptions C11_parts_spec.

(* key lemma: normpath of an absolute path is absolute and has no ".." component *)
Theorem C11_normpath_abs_no_dotdot : forall s, spec_abs s = true ->
  normpath s = canon (spec_root s) (resolve (spec_comps s))
  /\ spec_abs (normpath s) = true /\ ~ In s_dotdot (spec_parts (normpath s)).
Proof. intros s H. split; [apply normpath_abs; exact H|apply normpath_abs_no_dotdot; exact H]. Qed.
Print Assumptions C11_normpath_abs_no_dotdot.

(* 1. containment: walk-up disallowed, a non-empty value produced from a default is absolute,
      has the directory's parts as a prefix of its parts, and contains no ".." *)
Theorem C11_contained : forall dir default v,
  collect_path_default dir false default = Ok v -> v <> [] ->
  spec_abs v = true /\ prefix (spec_parts dir) (spec_parts v) /\ ~ In s_dotdot (spec_parts v).
Proof. exact contained_thm. Qed.
Print Assumptions C11_contained.
Example C11_contained_nonvacuous :
  collect_path_default s_t_dir false s_a_x = Ok [47;116;47;100;105;114;47;97;47;120] (* "/t/dir/a/x" *)
  /\ containedb s_t_dir [47;116;47;100;105;114;47;97;47;120] = true
  /\ collect_path_default s_t_dir false s_back = Ok [47;116;47;100;105;114;47;120].   (* "../dir/x" re-enters: "/t/dir/x" *)
Proof. vm_compute. repeat split. Qed.

(* the same at the level of preprocess_job_parameters (any number of PATH parameters) *)
Theorem C11_contained_all : forall dir cwd ps l,
  preprocess_paths dir cwd false ps = Ok l ->
  Forall2 (fun p v => match p with
                      | PSupplied x => v = spec_supplied cwd x
                      | PDefault d => v = [] \/ contained dir v
                      | PRequired => False
                      end) ps l.
Proof.
  intros dir cwd ps l H. apply preprocess_ok in H.
  induction H as [|p v ps' l' R _ IH]; constructor; [|exact IH].
  destruct p as [x|d|]; cbn in R |- *.
  - rewrite <- supplied_exact. exact R.
  - destruct v as [|c v']; [left; reflexivity|right]. eapply contained_thm; [exact R|intro; discriminate].
  - exact R.
Qed.
Print Assumptions C11_contained_all.
Example C11_contained_all_nonvacuous :
  preprocess_paths s_t_dir s_cwd false [PDefault s_a_x; PSupplied s_rel; PDefault []]
  = Ok [[47;116;47;100;105;114;47;97;47;120]; [47;99;119;100;47;114;47;100]; []].
Proof. vm_compute. reflexivity. Qed.

(* 2. the complete behaviour for a default, walk-up disallowed (one equation) *)
Theorem C11_default_exact : forall dir default,
  collect_path_default dir false default = spec_default dir default.
Proof. exact default_exact. Qed.
Print Assumptions C11_default_exact.

(* 3. the three rejections *)
Theorem C11_reject_abs : forall dir default, spec_abs default = true ->
  collect_path_default dir false default = Raise ValueError.
Proof. exact reject_abs. Qed.
Print Assumptions C11_reject_abs.
Example C11_reject_abs_nonvacuous :
  spec_abs s_abs = true /\ collect_path_default s_t_dir false s_abs = Raise ValueError.
Proof. vm_compute. split; reflexivity. Qed.

Theorem C11_reject_climb : forall dir default, default <> [] -> ~ lex_inside dir default ->
  collect_path_default dir false default = Raise ValueError.
Proof. exact reject_climb. Qed.
Print Assumptions C11_reject_climb.
Example C11_reject_climb_nonvacuous :
  prefixb (spec_comps s_t_dir) (lex_target s_t_dir s_climb) = false
  /\ collect_path_default s_t_dir false s_climb = Raise ValueError
  /\ collect_path_default s_t_dir false s_sib = Raise ValueError       (* sibling "/t/dir2" *)
  /\ collect_path_default s_t_dir2 false [46;46;47;100;105;114] = Raise ValueError.  (* "../dir" from /t/dir2 *)
Proof. vm_compute. repeat split. Qed.

(* ... and nothing that stays inside is rejected *)
Theorem C11_accept_inside : forall dir default,
  spec_abs dir = true -> default <> [] -> spec_abs default = false -> lex_inside dir default ->
  collect_path_default dir false default = Ok (canon (spec_root dir) (lex_target dir default)).
Proof. exact accept_inside. Qed.
Print Assumptions C11_accept_inside.
Example C11_accept_inside_nonvacuous :
  spec_abs s_t_dir = true /\ spec_abs s_a_x = false
  /\ prefixb (spec_comps s_t_dir) (lex_target s_t_dir s_a_x) = true.
Proof. vm_compute. repeat split. Qed.

(* a template directory that itself contains ".." rejects every relative non-empty default
   (the code compares the normalised value with the un-normalised directory) *)
Theorem C11_dotdot_dir_rejects : forall dir default,
  In s_dotdot (spec_comps dir) -> default <> [] ->
  collect_path_default dir false default = Raise ValueError.
Proof.
  intros dir default Hin Hne. apply reject_climb; [exact Hne|].
  intros [r E]. pose proof (resolve_nodd (spec_comps dir ++ spec_comps default)) as Hd.
  unfold lex_target in E. rewrite E in Hd. unfold nodd in Hd. rewrite Forall_forall in Hd.
  assert (F : is_dotdot s_dotdot = false) by (apply Hd; apply in_or_app; left; exact Hin).
  discriminate F.
Qed.
Print Assumptions C11_dotdot_dir_rejects.
Example C11_dotdot_dir_rejects_nonvacuous :
  mem_str s_dotdot (spec_comps s_dd_dir) = true
  /\ collect_path_default s_dd_dir false [97] = Raise ValueError.
Proof. vm_compute. split; reflexivity. Qed.

Theorem C11_reldir : forall dir, spec_abs dir = false ->
  (forall default, collect_path_default dir false default = Raise ValueError)
  /\ (forall cwd ps, ps <> [] -> preprocess_paths dir cwd false ps = Raise ValueError).
Proof.
  intros dir H. split; [intro; apply reldir_default; exact H|intros; apply reldir_preprocess; assumption].
Qed.
Print Assumptions C11_reldir.
Example C11_reldir_nonvacuous :
  spec_abs s_rel = false
  /\ preprocess_paths s_rel s_cwd false [PSupplied s_abs] = Raise ValueError
  /\ collect_path_default s_rel true s_a_x = Ok s_a_x.   (* walk-up allowed: verbatim, relative *)
Proof. vm_compute. repeat split. Qed.

Theorem C11_only_ValueError : forall dir cwd walkup ps e,
  preprocess_paths dir cwd walkup ps = Raise e -> e = ValueError.
Proof. exact preprocess_only_ValueError. Qed.
Print Assumptions C11_only_ValueError.
Example C11_only_ValueError_nonvacuous :
  preprocess_paths s_t_dir s_cwd true [PRequired] = Raise ValueError.
Proof. vm_compute. reflexivity. Qed.

(* 4. supplied values *)
Theorem C11_supplied : forall cwd v,
  path_supplied cwd v = spec_supplied cwd v
  /\ (v = [] \/ spec_abs v = true -> path_supplied cwd v = v)
  /\ (v <> [] -> spec_abs v = false ->
      spec_parts (path_supplied cwd v) = spec_parts cwd ++ spec_parts v
      /\ spec_abs (path_supplied cwd v) = spec_abs cwd).
Proof.
  intros cwd v. split; [apply supplied_exact|]. split; [|apply supplied_parts].
  intro H. rewrite supplied_exact. unfold spec_supplied.
  destruct H as [H|H]; [subst; reflexivity|]. rewrite H, orb_true_r. reflexivity.
Qed.
Print Assumptions C11_supplied.
Example C11_supplied_nonvacuous :
  path_supplied s_cwd s_tidy = [47;99;119;100;47;97;47;98;47;46;46]   (* "/cwd/a/b/.." : ".." kept *)
  /\ path_supplied s_cwd [] = [] /\ path_supplied s_cwd s_abs = s_abs.
Proof. vm_compute. repeat split. Qed.

(* 5. server mode: Path() for both directories, walk-up allowed *)
Theorem C11_server : forall v,
  server_value v = spec_server v
  /\ (v = [] \/ spec_abs v = true -> server_value v = v)
  /\ (v <> [] -> spec_parts (server_value v) = spec_parts v)
  /\ server_default v = Ok v.
Proof.
  intro v. split; [apply server_exact|]. split; [|split; [apply server_parts|apply server_default_verbatim]].
  intro H. rewrite server_exact. apply spec_server_fix_abs.
  destruct H as [H|H]; [subst; reflexivity|]. rewrite H, orb_true_r. reflexivity.
Qed.
Print Assumptions C11_server.
Example C11_server_nonvacuous :
  server_value s_tidy = [97;47;98;47;46;46]          (* "a//b/./../" -> "a/b/.." *)
  /\ server_value [46] = [46]                        (* "." -> "." *)
  /\ server_value [47;47;97;47;47;46;46;47] = [47;47;97;47;47;46;46;47]   (* absolute: verbatim *)
  /\ server_default s_tidy = Ok s_tidy.
Proof. vm_compute. repeat split. Qed.

(* 6. what create_job stores = re-preprocessing in server mode *)
Theorem C11_idempotent :
  (forall v, server_value (server_value v) = server_value v)
  /\ (forall cwd v, server_value (path_supplied cwd v) = path_supplied cwd v)
  /\ (forall dir walkup default w, collect_path_default dir walkup default = Ok w ->
        spec_abs dir = true \/ walkup = false -> server_value w = w).
Proof. split; [exact server_idempotent|split; [exact server_fix_supplied|exact server_fix_default]]. Qed.
Print Assumptions C11_idempotent.

(* the one case in which the Job's value is not textually the preprocessed one: walk-up
   allowed AND a relative template directory return a relative default verbatim, and
   create_job then tidies it (same parts) *)
Theorem C11_walkup_default : forall dir default,
  collect_path_default dir true default =
  Ok (if negb (is_nil default) && negb (spec_abs default) && spec_abs dir
      then canon (spec_root dir) (lex_target dir default) else default).
Proof. exact default_walkup. Qed.
Print Assumptions C11_walkup_default.
Theorem C11_untidy_default_witness : exists dir default w,
  collect_path_default dir true default = Ok w /\ server_value w <> w
  /\ spec_parts (server_value w) = spec_parts w.
Proof. exists s_rel, s_a_x, s_a_x. vm_compute. repeat split. discriminate. Qed.
Print Assumptions C11_untidy_default_witness.

(* 7. the executable oracle used by the check (PathsSpec.spec_preprocess) IS the model *)
Theorem C11_preprocess_spec : forall dir cwd walkup ps,
  preprocess_paths dir cwd walkup ps = spec_preprocess dir cwd walkup ps.
Proof. exact preprocess_spec. Qed.
Print Assumptions C11_preprocess_spec.
