# C18 probe: all interleavings of <=5 calls by two clients sharing one decoded template vs isolated results; frozen models.
import copy, itertools, sys
from pathlib import Path
from openjd.model import decode_job_template, preprocess_job_parameters, create_job, StepParameterSpaceIterator, StepDependencyGraph
from openjd.model._parse import model_to_object
src = open("/verif/notes/probes/p05_p17_p19_job.py").read().split("FS = re.compile")[0]
ns = {}; exec(src, ns)
doc = ns["template"]()
VALS = {"A": {"Ps": "ab", "Pi": "3", "Pf": "2.5"}, "B": {"Ps": "{{Param.Pi}}", "Pi": "7", "Pf": "1.50", "Pp": "/q"}}
def canon(x): return repr(x)
class Client:
    def __init__(self, jt, who): self.jt = jt; self.v = dict(VALS[who]); self.job = None; self.it = None; self.iter = None
    def op(self, name):
        if name == "create":
            snap = copy.deepcopy(self.v)
            pv = preprocess_job_parameters(job_template=self.jt, job_parameter_values=self.v, job_template_dir=Path("/t"), current_working_dir=Path("/c"))
            self.job = create_job(job_template=self.jt, job_parameter_values=pv)
            assert self.v == snap, "value map mutated"
            return canon(model_to_object(model=self.job))
        if name == "toobj": return canon(model_to_object(model=self.jt))
        if name == "iter":
            if self.job is None: return "nojob"
            self.it = StepParameterSpaceIterator(space=self.job.steps[0].parameterSpace); self.iter = iter(self.it); return len(self.it)
        if name == "next":
            if self.iter is None: return "noiter"
            try: return canon(next(self.iter))
            except StopIteration: return "STOP"
        if name == "index":
            if self.it is None: return "noiter"
            return canon(self.it[-1])
        if name == "graph":
            if self.job is None: return "nojob"
            return [s.name for s in StepDependencyGraph(job=self.job).topo_sorted()]
OPS = ["create", "toobj", "iter", "next", "index", "graph"]
def isolated(who, seq):
    c = Client(decode_job_template(template=copy.deepcopy(doc)), who); return [c.op(o) for o in seq]
bad = n = 0
shared_doc = copy.deepcopy(doc)
import random; rnd = random.Random(2)
for _ in range(int(sys.argv[1]) if len(sys.argv) > 1 else 1500):
    L = rnd.randint(2, 5); sched = [(rnd.choice("AB"), rnd.choice(OPS if rnd.random() < .6 else ["create", "iter", "next"])) for _ in range(L)]
    jt = decode_job_template(template=shared_doc); before = canon(model_to_object(model=jt)); braw = repr(jt)
    cl = {"A": Client(jt, "A"), "B": Client(jt, "B")}; got = {"A": [], "B": []}
    for who, o in sched: got[who].append(cl[who].op(o))
    for who in "AB":
        seq = [o for w, o in sched if w == who]
        if got[who] != isolated(who, seq): bad += 1; print("CROSSTALK", sched)
    if canon(model_to_object(model=jt)) != before or repr(jt) != braw: bad += 1; print("TEMPLATE CHANGED", sched)
    n += 1
if shared_doc != doc: bad += 1; print("INPUT DOC MUTATED")
print("histories", n, "bad", bad)
jt = decode_job_template(template=doc)
for obj, attr in ((jt, "name"), (jt.steps[0], "name"), (jt.steps[0].script.actions.onRun, "command")):
    try: setattr(obj, attr, "z"); print("ASSIGNMENT ACCEPTED", type(obj).__name__)
    except TypeError: pass
print("frozen ok")
