"""gen_template.py — generator of 2023-09 job / environment templates (DESIGN.md Appendix F).

Valid-by-construction documents that cover every optional field, every union alternative and the
boundary values of the limits, with format-string references that are in scope by construction.
Everything is drawn from the `random.Random` instance passed in, so a (seed, index) pair replays.
Numbers stay in the validated domain: |int| < 10**9, decimals with <= 6 significant digits.
"""
from __future__ import annotations

import copy
import random

IDENT_START = "ABCDEFGHIJKLMNOPQRSTUVWXYZabcdefghijklmnopqrstuvwxyz_"
IDENT_REST = IDENT_START + "0123456789"
WORDS = ["Frame", "Scene", "Out", "In", "Cam", "Tile", "Chunk", "Seed", "Res", "Mode", "File_1", "a", "A", "A_", "_x", "P9", "Q", "data_dir"]
TEXT_CHUNKS = ["render", " -f ", "x", "--", " ", "é", "日本", "a b", "1", "/tmp/out", "{ }", "$", "%d", "'q'", '"']


def ident(rng, used, maxlen=12):
    for _ in range(200):
        if rng.random() < 0.6:
            s = rng.choice(WORDS)
            if rng.random() < 0.5:
                s += str(rng.randint(0, 99))
        else:
            n = rng.choice([1, 2, 3, 5, 8, maxlen])
            s = rng.choice(IDENT_START) + "".join(rng.choice(IDENT_REST) for _ in range(n - 1))
        if rng.random() < 0.03:
            s = (s + "_" * 64)[:64]
        if s not in used:
            used.add(s)
            return s
    raise RuntimeError("ident pool exhausted")


def std_name(rng, used):
    for _ in range(200):
        s = rng.choice(["Step", "Render", "Env", "Setup", "bake é", "a b", "X-1", "s.1", "(p)", "名前"]) + rng.choice(["", "", str(rng.randint(0, 99)), " " + str(rng.randint(0, 9))])
        if rng.random() < 0.03:
            s = (s + "x" * 64)[:64]
        if s not in used:
            used.add(s)
            return s
    raise RuntimeError("name pool exhausted")


def blank(rng):
    return rng.choice(["", "", " ", "  "])


def ref(rng, sym):
    parts = sym.split(".")
    sep = [blank(rng) for _ in range(len(parts) - 1)]
    body = parts[0] + "".join(a + "." + b + p for a, b, p in zip(sep, [blank(rng) for _ in sep], parts[1:]))
    return "{{" + blank(rng) + body + blank(rng) + "}}"


def fmt(rng, syms, min_len=0, allow_ctl=False, p_ref=0.5, max_chunks=3):
    """format string with 0..2 in-scope references"""
    out = []
    for _ in range(rng.randint(1, max_chunks)):
        if syms and rng.random() < p_ref:
            out.append(ref(rng, rng.choice(syms)))
        else:
            c = rng.choice(TEXT_CHUNKS)
            out.append(c)
    s = "".join(out)
    if allow_ctl and rng.random() < 0.2:
        s += rng.choice(["\n", "\t", "\r\n"])
    if len(s) < min_len:
        s += "x" * (min_len - len(s))
    return s


def description(rng):
    return rng.choice(["A description.", "multi\nline\ttext", "{{ not.a.ref }} in a description", "d" * 2048, "é"])


class Ctx:
    """names in scope while building"""

    def __init__(self):
        self.template = []   # visible at TEMPLATE-scope sites
        self.session = []    # additionally visible inside environments / step scripts


def gen_job_params(rng, n=None, names=None):
    names = names if names is not None else set()
    n = rng.choice([1, 2, 3, 4, 6]) if n is None else n
    out = []
    for _ in range(n):
        t = rng.choice(["STRING", "PATH", "INT", "FLOAT"])
        out.append(gen_job_param(rng, t, ident(rng, names)))
    return out


def _ui_common(rng, d):
    if rng.random() < 0.5:
        d["label"] = rng.choice(["Label", "L é", "x" * 64])
    if rng.random() < 0.3:
        d["groupLabel"] = rng.choice(["Group", "g"])
    return d


def gen_job_param(rng, t, name):
    p = {"name": name, "type": t}
    if rng.random() < 0.3:
        p["description"] = description(rng)
    if t in ("STRING", "PATH"):
        minl = maxl = None
        if rng.random() < 0.4:
            minl = rng.choice([1, 2, 3])
            p["minLength"] = minl
        if rng.random() < 0.4:
            maxl = rng.choice([3, 5, 10, 1024])
            p["maxLength"] = maxl
        lo, hi = (minl or 0), (maxl if maxl is not None else 12)

        def val():
            n = rng.randint(lo, max(lo, min(hi, 8)))
            return "".join(rng.choice("abcXYZ/._ -é") for _ in range(n)) if t == "STRING" else "".join(rng.choice("ab/._") for _ in range(n))
        allowed = None
        if rng.random() < 0.35:
            allowed = list(dict.fromkeys(val() for _ in range(rng.randint(1, 3))))
            p["allowedValues"] = allowed
        if rng.random() < 0.5:
            p["default"] = rng.choice(allowed) if allowed else val()
        if t == "PATH":
            if rng.random() < 0.4:
                p["objectType"] = rng.choice(["FILE", "DIRECTORY"])
            if rng.random() < 0.4:
                p["dataFlow"] = rng.choice(["NONE", "IN", "OUT", "INOUT"])
        if rng.random() < 0.4:
            if t == "STRING":
                if allowed:
                    ctl = rng.choice(["DROPDOWN_LIST", "HIDDEN"])
                else:
                    ctl = rng.choice(["LINE_EDIT", "MULTILINE_EDIT", "HIDDEN"])
                    if rng.random() < 0.25 and minl is None and maxl is None:
                        ctl = "CHECK_BOX"
                        pair = rng.choice([["true", "false"], ["YES", "no"], ["On", "OFF"], ["1", "0"]])
                        p["allowedValues"] = pair
                        if "default" in p:
                            p["default"] = rng.choice(pair)
                p["userInterface"] = _ui_common(rng, {"control": ctl})
            else:
                ot = p.get("objectType")
                if allowed:
                    ctl = rng.choice(["DROPDOWN_LIST", "HIDDEN"])
                elif ot == "FILE":
                    ctl = rng.choice(["CHOOSE_INPUT_FILE", "CHOOSE_OUTPUT_FILE", "HIDDEN"])
                elif ot == "DIRECTORY":
                    ctl = rng.choice(["CHOOSE_DIRECTORY", "HIDDEN"])
                else:
                    ctl = rng.choice(["CHOOSE_INPUT_FILE", "CHOOSE_OUTPUT_FILE", "CHOOSE_DIRECTORY", "HIDDEN"])
                ui = _ui_common(rng, {"control": ctl})
                if ctl in ("CHOOSE_INPUT_FILE", "CHOOSE_OUTPUT_FILE") and rng.random() < 0.6:
                    flt = {"label": "Images", "patterns": rng.choice([["*.png", "*.jpg"], ["*"], ["*.*"], ["*.é"], ["*.tar.gz"]])}
                    if rng.random() < 0.7:
                        ui["fileFilters"] = [flt] + ([{"label": "All", "patterns": ["*"]}] if rng.random() < 0.5 else [])
                    if rng.random() < 0.5:
                        ui["fileFilterDefault"] = {"label": "All", "patterns": ["*.*"]}
                p["userInterface"] = ui
    else:
        isint = t == "INT"

        def num(lo=-20, hi=20):
            if isint:
                v = rng.randint(lo, hi)
                return v if rng.random() < 0.8 else str(v)
            k = rng.random()
            v = rng.randint(lo * 4, hi * 4) / 4
            if k < 0.4:
                return v
            if k < 0.7:
                return str(v)
            return int(v)

        def nv(x):
            return float(x)
        mn = mx = None
        if rng.random() < 0.45:
            mn = num(-10, 5) if rng.random() < 0.8 else 0
            p["minValue"] = mn
        if rng.random() < 0.45:
            base = nv(mn) if mn is not None else -5
            mx = num(int(base), int(base) + 15) if rng.random() < 0.8 else (0 if base <= 0 else int(base) + 1)
            if nv(mx) < base:
                mx = mn
            p["maxValue"] = mx
        lo = int(nv(mn)) if mn is not None else -20
        hi = int(nv(mx)) if mx is not None else 20
        if lo > hi:
            lo = hi
        allowed = None
        if rng.random() < 0.35:
            allowed = []
            for _ in range(rng.randint(1, 3)):
                v = num(lo, hi)
                if mn is not None and nv(v) < nv(mn):
                    v = mn
                if mx is not None and nv(v) > nv(mx):
                    v = mx
                allowed.append(v)
            p["allowedValues"] = allowed
        if rng.random() < 0.5:
            if allowed:
                p["default"] = rng.choice(allowed)
            else:
                v = num(lo, hi)
                if mn is not None and nv(v) < nv(mn):
                    v = mn
                if mx is not None and nv(v) > nv(mx):
                    v = mx
                p["default"] = v
        if rng.random() < 0.4:
            ctl = rng.choice(["DROPDOWN_LIST", "HIDDEN"]) if allowed else rng.choice(["SPIN_BOX", "HIDDEN"])
            ui = _ui_common(rng, {"control": ctl})
            if ctl == "SPIN_BOX":
                if rng.random() < 0.5:
                    ui["singleStepDelta"] = rng.choice([1, 5]) if isint else rng.choice([0.5, 1, 2.25])
                if not isint and rng.random() < 0.5:
                    ui["decimals"] = rng.choice([1, 3])
            p["userInterface"] = ui
    return p


def param_symbols(params):
    tmpl, sess = [], []
    for p in params or []:
        tmpl.append("RawParam." + p["name"])
        if p["type"] == "PATH":
            sess.append("Param." + p["name"])
        else:
            tmpl.append("Param." + p["name"])
    return tmpl, sess


SESSION_CONSTS = ["Session.WorkingDirectory", "Session.HasPathMappingRules", "Session.PathMappingRulesFile"]


def gen_action(rng, syms):
    a = {"command": fmt(rng, syms, min_len=1)}
    if rng.random() < 0.6:
        a["args"] = [fmt(rng, syms, allow_ctl=False) for _ in range(rng.choice([1, 1, 2, 3]))]
    if rng.random() < 0.3:
        a["timeout"] = rng.choice([1, 60, 86400])
    if rng.random() < 0.4:
        if rng.random() < 0.5:
            a["cancelation"] = {"mode": "TERMINATE"}
        else:
            c = {"mode": "NOTIFY_THEN_TERMINATE"}
            if rng.random() < 0.6:
                c["notifyPeriodInSeconds"] = rng.choice([1, 30, 600])
            a["cancelation"] = c
    return a


def gen_files(rng, prefix, base_syms):
    """-> (files, symbols they define)"""
    names = set()
    n = rng.choice([1, 1, 2, 3])
    fnames = [ident(rng, names) for _ in range(n)]
    syms = [prefix + "File." + f for f in fnames]
    files = []
    for f in fnames:
        e = {"name": f, "type": "TEXT", "data": fmt(rng, base_syms + syms, min_len=1, allow_ctl=True)}
        if rng.random() < 0.4:
            e["filename"] = rng.choice(["run.sh", "a b.txt", "f" * 64])
        if rng.random() < 0.4:
            e["runnable"] = rng.random() < 0.5
        files.append(e)
    return files, syms


def gen_environment(rng, name, base_syms, force_script=None):
    env = {"name": name}
    has_script = rng.random() < 0.7 if force_script is None else force_script
    has_vars = (not has_script) or rng.random() < 0.5
    if rng.random() < 0.2:
        env["description"] = description(rng)
    if has_script:
        script_syms = base_syms + SESSION_CONSTS
        script = {}
        if rng.random() < 0.5:
            files, fsyms = gen_files(rng, "Env.", script_syms)
            script["embeddedFiles"] = files
            script_syms = script_syms + fsyms
            # data of files may reference all files of the script
        acts = {}
        k = rng.random()
        if k < 0.4 or k >= 0.7:
            acts["onEnter"] = gen_action(rng, script_syms)
        if k >= 0.4:
            acts["onExit"] = gen_action(rng, script_syms)
        script["actions"] = acts
        env["script"] = script
    if has_vars:
        vs = {}
        for _ in range(rng.choice([1, 2, 3])):
            k = rng.choice(["PATH", "FOO", "_x", "a1", "Z_9", "v" * 256])
            vs[k] = fmt(rng, base_syms, allow_ctl=True) if rng.random() < 0.9 else ""
        env["variables"] = vs
    return env


def gen_range_int(rng, tmpl_syms_int):
    k = rng.random()
    if k < 0.35:
        n = rng.choice([1, 2, 3, 4])
        out = []
        for _ in range(n):
            v = rng.randint(-9, 30)
            j = rng.random()
            if j < 0.6:
                out.append(v)
            elif j < 0.8:
                out.append(str(v))
            elif tmpl_syms_int:
                out.append(ref(rng, rng.choice(tmpl_syms_int)))
            else:
                out.append(v)
        return out
    if k < 0.9 or not tmpl_syms_int:
        a = rng.randint(-5, 20)
        cnt = rng.randint(0, 4)
        s = rng.choice([1, 1, 2, 3, -1, -2])
        b = a + s * cnt
        if cnt == 0 and rng.random() < 0.5:
            return str(a)
        sp = blank(rng)
        if s == 1 and rng.random() < 0.5:
            return f"{a}{sp}-{sp}{b}"
        return f"{a}-{b}{sp}:{sp}{s}"
    return f"1-{ref(rng, rng.choice(tmpl_syms_int))}"


def gen_param_space(rng, tmpl_syms, int_syms, float_syms):
    names = set()
    n = rng.choice([1, 1, 2, 2, 3, 4])
    tps = []
    for _ in range(n):
        t = rng.choice(["INT", "INT", "FLOAT", "STRING", "PATH"])
        nm = ident(rng, names)
        if t == "INT":
            r = gen_range_int(rng, int_syms)
        elif t == "FLOAT":
            r = []
            for _ in range(rng.choice([1, 2, 3])):
                j = rng.random()
                v = rng.randint(-40, 40) / 4
                if j < 0.4:
                    r.append(v)
                elif j < 0.6:
                    r.append(str(v))
                elif j < 0.75:
                    r.append(int(v))
                elif float_syms:
                    r.append(ref(rng, rng.choice(float_syms)))
                else:
                    r.append(v)
        else:
            r = [fmt(rng, tmpl_syms, p_ref=0.3) for _ in range(rng.choice([1, 2, 3]))]
        tps.append({"name": nm, "type": t, "range": r})
    ps = {"taskParameterDefinitions": tps}
    return ps


def range_len(r):
    """length of a task parameter range WITHOUT references (None if unknown)"""
    if isinstance(r, list):
        return len(r)
    if "{{" in r:
        return None
    try:
        from openjd.model import IntRangeExpr
        return len(IntRangeExpr.from_str(r))
    except Exception:  # noqa: BLE001
        return None


def gen_combination(rng, ps):
    """random canonical expression over the declared parameters; associations only over operands of equal
    known length (otherwise products)"""
    tps = ps["taskParameterDefinitions"]
    items = [(tp["name"], range_len(tp["range"])) for tp in tps]
    rng.shuffle(items)

    def build(items):
        if len(items) == 1:
            return items[0]
        # try an association of equal-length prefixes
        if rng.random() < 0.5:
            groups = {}
            for nm, ln in items:
                groups.setdefault(ln, []).append((nm, ln))
            eq = [g for ln, g in groups.items() if ln is not None and len(g) >= 2]
            if eq:
                g = rng.choice(eq)
                k = rng.randint(2, len(g))
                chosen = g[:k]
                rest = [it for it in items if it not in chosen]
                assoc = ("(" + ("," + blank(rng)).join(c[0] for c in chosen) + ")", chosen[0][1])
                return build(rest + [assoc]) if rest else assoc
        k = rng.randint(1, len(items) - 1)
        left, right = build(items[:k]), build(items[k:])
        ln = None if left[1] is None or right[1] is None else left[1] * right[1]
        return (left[0] + blank(rng) + "*" + blank(rng) + right[0], ln)

    return build(items)[0]


AMOUNT_NAMES = ["amount.worker.vcpu", "amount.worker.memory", "amount.worker.gpu", "amount.worker.gpu.memory", "amount.worker.disk.scratch",
                "amount.custom", "vendor:amount.licenses.nuke", "ab:amount.x_1", "AMOUNT.Worker.VCPU", "amount._a", "amount.jobslots", "acme:amount.steps_2", "amount.workers"]
ATTR_NAMES = ["attr.worker.os.family", "attr.worker.cpu.arch", "attr.custom", "vendor:attr.software.name", "attr.a.b.c", "ATTR.Worker.OS.Family", "attr.jobtype", "attr.tasks.kind"]


def gen_host_req(rng, tmpl_syms):
    h = {}
    k = rng.random()
    if k < 0.7:
        ams = []
        used = set()
        for _ in range(rng.choice([1, 1, 2])):
            nm = rng.choice(AMOUNT_NAMES)
            if nm in used:
                continue
            used.add(nm)
            if tmpl_syms and rng.random() < 0.15:
                nm = "amount." + ref(rng, rng.choice(tmpl_syms))
            a = {"name": nm}
            j = rng.random()
            lo = rng.choice([0, 1, 2, 0.25, "1.5"])
            if j < 0.4:
                a["min"] = lo
            elif j < 0.7:
                a["max"] = rng.choice([1, 8, 0.5, "16"])
            else:
                a["min"] = lo
                a["max"] = rng.choice([2, 8, 16.5, "64"])
            ams.append(a)
        h["amounts"] = ams
    if k >= 0.4:
        ats = []
        used = set()
        for _ in range(rng.choice([1, 1, 2])):
            nm = rng.choice(ATTR_NAMES)
            if nm in used:
                continue
            used.add(nm)
            low = nm.lower()
            a = {"name": nm}
            if low == "attr.worker.os.family":
                vals = ["linux", "windows", "macos"]
            elif low == "attr.worker.cpu.arch":
                vals = ["x86_64", "arm64"]
            else:
                vals = ["v1", "nuke-13", "_x", "A_b-c"]
            std = low.startswith("attr.worker.")
            j = rng.random()
            if j < 0.5:
                a["anyOf"] = rng.sample(vals, rng.randint(1, min(3, len(vals))))
            elif j < 0.8:
                a["allOf"] = [rng.choice(vals)] if std else rng.sample(vals, rng.randint(1, 2))
            else:
                a["anyOf"] = rng.sample(vals, rng.randint(1, 2))
                a["allOf"] = [rng.choice(vals)]
            if tmpl_syms and rng.random() < 0.15:
                key = "anyOf" if "anyOf" in a else "allOf"
                a[key] = [ref(rng, rng.choice(tmpl_syms))]
            ats.append(a)
        h["attributes"] = ats
    return h


_STEP_ENV_POOL = {}


def gen_step(rng, name, tmpl_syms, sess_syms, env_names, int_syms, float_syms, full=False):
    st = {"name": name}
    if full or rng.random() < 0.2:
        st["description"] = description(rng)
    task_syms = []
    if full or rng.random() < 0.6:
        ps = gen_param_space(rng, tmpl_syms, int_syms, float_syms)
        if full or rng.random() < 0.6:
            ps["combination"] = gen_combination(rng, ps)
        st["parameterSpace"] = ps
        for tp in ps["taskParameterDefinitions"]:
            task_syms += ["Task.Param." + tp["name"], "Task.RawParam." + tp["name"]]
    script_syms = tmpl_syms + sess_syms + SESSION_CONSTS + task_syms
    script = {}
    if full or rng.random() < 0.5:
        files, fsyms = gen_files(rng, "Task.", script_syms)
        script["embeddedFiles"] = files
        script_syms = script_syms + fsyms
    script["actions"] = {"onRun": gen_action(rng, script_syms)}
    st["script"] = script
    if full or rng.random() < 0.35:
        # names are unique within the step and differ from the job-level environments; OTHER steps may use the same
        # name again (and half of the time do: env_names only ever holds the job-level names plus a pool to reuse)
        pool = _STEP_ENV_POOL.setdefault(id(env_names), [])
        local = set(env_names)
        envs = []
        for _ in range(rng.choice([1, 1, 2])):
            reuse = [n for n in pool if n not in local]
            if reuse and rng.random() < 0.5:
                nm = rng.choice(reuse)
                local.add(nm)
            else:
                nm = std_name(rng, local)
                pool.append(nm)
            envs.append(gen_environment(rng, nm, tmpl_syms + sess_syms))
        if len(_STEP_ENV_POOL) > 64:
            _STEP_ENV_POOL.clear()
        st["stepEnvironments"] = envs
    if full or rng.random() < 0.4:
        st["hostRequirements"] = gen_host_req(rng, tmpl_syms)
    return st


def gen_job_template(rng, full=False):
    """-> document (dict).  `full` populates every optional field."""
    doc = {"specificationVersion": "jobtemplate-2023-09"}
    if full or rng.random() < 0.3:
        doc["$schema"] = "https://example.invalid/schema.json"
    params = gen_job_params(rng) if (full or rng.random() < 0.75) else None
    if full and params is not None:
        have = {p["type"] for p in params}
        names = {p["name"] for p in params}
        for t in ("STRING", "PATH", "INT", "FLOAT"):
            if t not in have:
                params.append(gen_job_param(rng, t, ident(rng, names)))
    tmpl_syms, sess_syms = param_symbols(params)
    int_syms = [s for p in (params or []) if p["type"] == "INT" for s in ("Param." + p["name"], "RawParam." + p["name"])]
    float_syms = [s for p in (params or []) if p["type"] in ("FLOAT", "INT") for s in ("Param." + p["name"],)]
    if params is not None:
        doc["parameterDefinitions"] = params
    doc["name"] = fmt(rng, tmpl_syms, min_len=1)
    if full or rng.random() < 0.3:
        doc["description"] = description(rng)
    env_names = set()
    if full or rng.random() < 0.4:
        doc["jobEnvironments"] = [gen_environment(rng, std_name(rng, env_names), tmpl_syms + sess_syms) for _ in range(rng.choice([1, 2]))]
    step_names = set()
    nsteps = rng.choice([1, 1, 2, 3, 4]) if not full else 3
    names = [std_name(rng, step_names) for _ in range(nsteps)]
    steps = [gen_step(rng, nm, tmpl_syms, sess_syms, env_names, int_syms, float_syms, full=full and i == 0) for i, nm in enumerate(names)]
    # dependencies: a random DAG over a random topological order (edges in both declaration directions)
    order = list(range(nsteps))
    rng.shuffle(order)
    pos = {s: i for i, s in enumerate(order)}
    for i, st in enumerate(steps):
        cands = [j for j in range(nsteps) if pos[j] < pos[i]]
        if cands and (rng.random() < 0.5 or (full and i == 0)):
            deps = rng.sample(cands, rng.randint(1, len(cands)))
            st["dependencies"] = [{"dependsOn": names[j]} for j in deps]
    doc["steps"] = steps
    return doc


def gen_env_template(rng, full=False):
    doc = {"specificationVersion": "environment-2023-09"}
    params = gen_job_params(rng) if (full or rng.random() < 0.6) else None
    tmpl_syms, sess_syms = param_symbols(params)
    if params is not None:
        doc["parameterDefinitions"] = params
    doc["environment"] = gen_environment(rng, std_name(rng, set()), tmpl_syms + sess_syms, force_script=True if full else None)
    return doc


# ---------------------------------------------------------------- accepted parameter values
def value_for(rng, p, adversarial=False):
    """a value string the definition accepts (best effort; callers check)"""
    t = p["type"]
    if "allowedValues" in p and rng.random() < 0.9:
        return str(rng.choice(p["allowedValues"]))
    if t in ("STRING", "PATH"):
        lo = p.get("minLength") or 0
        hi = p.get("maxLength") if p.get("maxLength") is not None else 10
        n = rng.randint(lo, max(lo, min(hi, 9)))
        pool = ["abc", "x y", "{{Param.Q}}", "{{", "}}", "1-3", "é", "/a/b", "a/../b", ""] if t == "STRING" else ["/abs/p", "rel/p", "a", "", "/"]
        s = rng.choice(pool)
        if len(s) < lo:
            s += "z" * (lo - len(s))
        if len(s) > hi:
            s = s[:hi]
        if "allowedValues" in p and s not in p["allowedValues"]:
            return str(rng.choice(p["allowedValues"]))
        return s
    lo = float(p["minValue"]) if p.get("minValue") is not None else -20.0
    hi = float(p["maxValue"]) if p.get("maxValue") is not None else 20.0
    if "allowedValues" in p:
        return str(rng.choice(p["allowedValues"]))
    if t == "INT":
        import math
        a, b = math.ceil(lo), math.floor(hi)
        if a > b:
            return str(a)
        return str(rng.randint(a, b))
    v = lo + (hi - lo) * rng.choice([0, 0.25, 0.5, 1])
    return str(round(v * 4) / 4) if lo <= round(v * 4) / 4 <= hi else str(lo)


def gen_values(rng, doc, p_omit_default=0.5):
    vals = {}
    for p in doc.get("parameterDefinitions") or []:
        if "default" in p and rng.random() < p_omit_default:
            continue
        vals[p["name"]] = value_for(rng, p)
    return vals


def deep(doc):
    return copy.deepcopy(doc)
