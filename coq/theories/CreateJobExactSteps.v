(* CreateJobExactSteps.v — C05_exact: steps and the template root, with the treatment of a step's
   parameterSpace and hostRequirements left abstract (Section hypotheses [Hps], [Hhr]); they are
   supplied by CreateJobExactSpace.v / CreateJobExactHost.v. *)
From Coq Require Import List NArith ZArith Bool String Lia.
Import ListNotations.
Require Import OJD.Base OJD.Lexer OJD.Json OJD.Schema OJD.Generated OJD.Charsets OJD.Numerals OJD.NumPrint
               OJD.FormatStr OJD.CreateJob OJD.CreateJobProofs OJD.CreateJobSpec OJD.Parse OJD.Validators OJD.Accept
               OJD.ExportProofs OJD.AcceptMono OJD.DecodeInv OJD.JsonEquiv OJD.CreateJobExactLib OJD.CreateJobExactCarried
               OJD.CreateJobExactParams.
Local Open Scope string_scope.
Local Open Scope list_scope.

(* ------------------------------------------------------------------ document conditions *)
Definition carried_ok (v : json) : bool := lax_ints_native v && keys_distinct v.

Lemma carried_ok_arr : forall l, carried_ok (JArr l) = true ->
  forallb lax_ints_native l = true /\ forallb keys_distinct l = true.
Proof. intros l H. unfold carried_ok in H. apply andb_true_iff in H. exact H. Qed.

Lemma carried_closed : closedb G carried_classes = true.
Proof. vm_compute. reflexivity. Qed.

(* ------------------------------------------------------------------ generic field inversions *)
Section FieldInv.
  Variable classify : N -> cclass.
  Notation pk := (parse_kind G classify pre_hook (post_hook classify)).
  Notation pc := (parse_cls G classify pre_hook (post_hook classify)).

  Lemma pk_classes_carried : forall f k v m, pk f k v = Ok m -> incl (kind_classes k) carried_classes ->
    incl (classes_in m) carried_classes.
  Proof.
    intros f. exact (proj1 (parse_classes G classify pre_hook (post_hook classify) carried_classes
                                          (closedb_sound _ _ carried_closed) f)).
  Qed.

  Lemma field_single_inv : forall f ms fl y, parse_field (pk f) ms fl = Ok y -> f_shape fl = Single ->
    exists x, y = (f_name fl, x) /\
              ((field_raw ms fl = JNull /\ x = MNone /\ f_required fl = false) \/
               (field_raw ms fl <> JNull /\ pk f (f_kind fl) (field_raw ms fl) = Ok x)).
  Proof.
    intros f ms fl y H Hs. apply parse_field_inv in H. destruct H as [x [-> Hv]]. exists x. split; [reflexivity|].
    destruct (field_raw ms fl) as [|rb|rz|rm re|rs|rl|rms] eqn:Eraw.
    1: { left. cbn [parse_value] in Hv. destruct (f_required fl); [discriminate Hv|]. injection Hv as <-. repeat split. }
    all: right; split; [discriminate|]; rewrite <- Eraw in *;
      assert (Hn : field_raw ms fl <> JNull) by (rewrite Eraw; discriminate);
      exact (parse_value_single G classify pre_hook (post_hook classify) f fl _ x Hs Hn Hv).
  Qed.

  Lemma field_list_inv : forall f ms fl lo hi y, parse_field (pk f) ms fl = Ok y -> f_shape fl = ListOf lo hi ->
    exists x, y = (f_name fl, x) /\
              ((field_raw ms fl = JNull /\ x = MNone /\ f_required fl = false) \/
               (exists items l, field_raw ms fl = JArr items /\ x = MList l /\
                                Forall2 (fun it m => pk f (f_kind fl) it = Ok m) items l)).
  Proof.
    intros f ms fl lo hi y H Hs. apply parse_field_inv in H. destruct H as [x [-> Hv]]. exists x. split; [reflexivity|].
    destruct (field_raw ms fl) as [|rb|rz|rm re|rs|rl|rms] eqn:Eraw.
    1: { left. cbn [parse_value] in Hv. destruct (f_required fl); [discriminate Hv|]. injection Hv as <-. repeat split. }
    all: right; rewrite <- Eraw in *;
      assert (Hn : field_raw ms fl <> JNull) by (rewrite Eraw; discriminate);
      destruct (parse_value_list G classify pre_hook (post_hook classify) f fl lo hi _ x Hs Hn Hv) as [items [l [E1 [E2 HF]]]];
      exists items, l; repeat split; try assumption; rewrite <- E1; reflexivity.
  Qed.

  Lemma pk_model_shape : forall f c v x, pk f (KModel c) v = Ok x -> exists fs, x = MModel c fs.
  Proof.
    intros f c v x H. destruct f as [|f]; [discriminate H|]. rewrite parse_kind_S in H.
    destruct (pc_inv _ _ _ _ _ _ _ _ H) as [f' [c0 [ms [fields [_ [_ [_ [-> _]]]]]]]]. exists fields. reflexivity.
  Qed.

  (* ---- carried values at document level ---- *)
  Lemma carried_single : forall f k raw x, ckind_ok k = true -> pk f k raw = Ok x -> carried_ok raw = true ->
    json_equiv (jobj G x) (same raw).
  Proof.
    intros f k raw x Hk H Hc. unfold carried_ok in Hc. apply andb_true_iff in Hc. destruct Hc as [Hl Hd].
    apply json_equiv_same_r. exact (carried_kind classify f k raw x Hk H Hl Hd).
  Qed.

  Lemma carried_list : forall f k items l, ckind_ok k = true ->
    Forall2 (fun it m => pk f k it = Ok m) items l -> carried_ok (JArr items) = true ->
    json_equiv (jobj G (MList l)) (same (JArr items)).
  Proof.
    intros f k items l Hk HF Hc. destruct (carried_ok_arr _ Hc) as [Hl Hd].
    apply json_equiv_same_r. cbn [jobj]. constructor.
    exact (carried_items classify f k items l (carried_kind classify f) Hk HF Hl Hd).
  Qed.

  Lemma list_classes_carried : forall f k items l, incl (kind_classes k) carried_classes ->
    Forall2 (fun it m => pk f k it = Ok m) items l -> incl (classes_in (MList l)) carried_classes.
  Proof.
    intros f k items l Hk HF c Hc. cbn [classes_in] in Hc. apply in_flat_map in Hc. destruct Hc as [m [Hm Hc]].
    clear - HF Hm Hc Hk. induction HF as [|it m' r r' Hp _ IH]; [destruct Hm|].
    destruct Hm as [<-|Hm]; [exact (pk_classes_carried f k it m' Hp Hk c Hc)|exact (IH Hm)].
  Qed.
End FieldInv.

Lemma same_null : same JNull = JNull.
Proof. reflexivity. Qed.

Lemma jobj_list : forall l, jobj G (MList l) = JArr (map (jobj G) l).
Proof. reflexivity. Qed.

Lemma field_depth_lt : forall c (fs : list (string * mval)) n x, In (n, x) fs -> mval_depth x < mval_depth (MModel c fs).
Proof. intros c fs n x H. exact (field_depth c fs (n, x) H). Qed.

(* ------------------------------------------------------------------ one step, the root *)
Section Steps.
  Variable classify : N -> cclass.
  Variable resolve : symtab -> str -> outcome str.
  Variable sigma : symtab.
  Notation pk := (parse_kind G classify pre_hook (post_hook classify)).
  Notation pc := (parse_cls G classify pre_hook (post_hook classify)).

  (* conditions on, and treatment of, the two rewritten sub-documents of a step *)
  Variable Pps Phr : json -> Prop.
  Hypothesis Hps : forall f raw x F y, raw <> JNull -> Pps raw ->
    pk f (KModel "StepParameterSpaceDefinition") raw = Ok x -> mval_depth x < F -> inst G resolve sigma F x = Ok y ->
    exists s, param_space resolve sigma raw = Ok s /\ json_equiv (jobj G y) s /\ y <> MNone /\ s <> JNull.
  Hypothesis Hhr : forall f raw x F y, raw <> JNull -> Phr raw ->
    pk f (KModel "HostRequirementsTemplate") raw = Ok x -> mval_depth x < F -> inst G resolve sigma F x = Ok y ->
    exists s, host_req resolve sigma raw = Ok s /\ json_equiv (jobj G y) s /\ y <> MNone /\ s <> JNull.

  Definition step_ok (st : json) : Prop :=
    carried_ok (jget "script" st) = true /\ carried_ok (jget "stepEnvironments" st) = true /\
    carried_ok (jget "dependencies" st) = true /\
    (jget "parameterSpace" st <> JNull -> Pps (jget "parameterSpace" st)) /\
    (jget "hostRequirements" st <> JNull -> Phr (jget "hostRequirements" st)).

  (* an optional sub-model that is instantiated *)
  Lemma sub_model_equiv : forall (P : json -> Prop) c (spec : json -> outcome json),
    (forall f raw x F y, raw <> JNull -> P raw -> pk f (KModel c) raw = Ok x -> mval_depth x < F ->
                         inst G resolve sigma F x = Ok y ->
                         exists s, spec raw = Ok s /\ json_equiv (jobj G y) s /\ y <> MNone /\ s <> JNull) ->
    spec JNull = Ok JNull ->
    forall f raw x F y,
      (raw = JNull /\ x = MNone \/ raw <> JNull /\ pk f (KModel c) raw = Ok x) ->
      (raw <> JNull -> P raw) -> mval_depth x < F -> inst_elem (inst G resolve sigma F) x = Ok y ->
      exists s, spec raw = Ok s /\ opt_rel json_equiv (onn (jobj G y)) (onn s).
  Proof.
    intros P c spec Hsub Hnull f raw x F y [[-> ->]|[Hn Hp]] HP HF Hy.
    - cbn [inst_elem] in Hy. injection Hy as <-. exists JNull. split; [exact Hnull|constructor].
    - destruct (pk_model_shape classify f c raw x Hp) as [fs ->]. cbn [inst_elem] in Hy.
      destruct (Hsub f raw _ F y Hn (HP Hn) Hp HF Hy) as [s [Hs [He _]]].
      exists s. split; [exact Hs|apply onn_equiv; exact He].
  Qed.

  Theorem step_equiv : forall f it x F y,
    pk f (KModel "StepTemplate") it = Ok x -> step_ok it -> mval_depth x < F -> inst G resolve sigma F x = Ok y ->
    exists s, step resolve sigma it = Ok s /\ json_equiv (jobj G y) s.
  Proof.
    intros f it x F y H [Csc [Cse [Cdp [Cps Chr]]]] HF Hy.
    destruct f as [|f]; [discriminate H|]. rewrite parse_kind_S in H.
    cls_open H. subst it x. subst f. rename f' into f.
    next_field Hm y1 r1 H1. next_field Hm y2 r2 H2. next_field Hm y3 r3 H3. next_field Hm y4 r4 H4.
    next_field Hm y5 r5 H5. next_field Hm y6 r6 H6. next_field Hm y7 r7 H7. injection Hm as <-.
    apply field_exact_inv in H1; [|reflexivity|reflexivity]. destruct H1 as [n [-> [Hln Hn]]].
    apply field_exact_inv in H2; [|reflexivity|reflexivity]. destruct H2 as [d [-> [Hld Hd]]].
    apply field_single_inv in H3; [|reflexivity]. destruct H3 as [sc [-> Hsc]].
    apply (field_list_inv classify _ _ _ (Some 1%N) None) in H4; [|reflexivity]. destruct H4 as [se [-> Hse]].
    apply field_single_inv in H5; [|reflexivity]. destruct H5 as [ps [-> Hpsf]].
    apply field_single_inv in H6; [|reflexivity]. destruct H6 as [hr [-> Hhrf]].
    apply (field_list_inv classify _ _ _ (Some 1%N) None) in H7; [|reflexivity]. destruct H7 as [dp [-> Hdp]].
    cbn [f_name f_kind f_required] in *.
    set (st := JObj ms) in *.
    change (field_raw ms (mkField "name" "name" true Single (KStr true (Some 1%N) (Some 64%N) CS_standard)))
      with (jget "name" st) in *.
    change (field_raw ms (mkField "description" "description" false Single (KStr true (Some 1%N) (Some 2048%N) CS_description)))
      with (jget "description" st) in *.
    change (field_raw ms (mkField "script" "script" true Single (KModel "StepScript"))) with (jget "script" st) in *.
    change (field_raw ms (mkField "stepEnvironments" "stepEnvironments" false (ListOf (Some 1%N) None) (KModel "Environment")))
      with (jget "stepEnvironments" st) in *.
    change (field_raw ms (mkField "parameterSpace" "parameterSpace" false Single (KModel "StepParameterSpaceDefinition")))
      with (jget "parameterSpace" st) in *.
    change (field_raw ms (mkField "hostRequirements" "hostRequirements" false Single (KModel "HostRequirementsTemplate")))
      with (jget "hostRequirements" st) in *.
    change (field_raw ms (mkField "dependencies" "dependencies" false (ListOf (Some 1%N) None) (KModel "StepDependency")))
      with (jget "dependencies" st) in *.
    (* the script is present *)
    destruct Hsc as [[_ [_ Hreq]]|[Hscn Hscp]]; [discriminate Hreq|].
    destruct (pk_model_shape classify f _ _ _ Hscp) as [scf Esc].
    (* shapes and classes *)
    assert (Sps : single ps = true).
    { destruct Hpsf as [[_ [-> _]]|[_ Hp]]; [reflexivity|]. destruct (pk_model_shape classify f _ _ _ Hp) as [fs ->]. reflexivity. }
    assert (Shr : single hr = true).
    { destruct Hhrf as [[_ [-> _]]|[_ Hp]]; [reflexivity|]. destruct (pk_model_shape classify f _ _ _ Hp) as [fs ->]. reflexivity. }
    assert (Sse : opt_list se = true /\ incl (classes_in se) carried_classes).
    { destruct Hse as [[_ [-> _]]|[items [l [_ [-> HF2]]]]]; [split; [reflexivity|intros c []]|].
      split; [reflexivity|]. apply (list_classes_carried classify f (KModel "Environment") items l); [|exact HF2].
      intros c [<-|[]]. apply (proj1 (DecodeInv.mem_s_In _ _)). reflexivity. }
    assert (Sdp : opt_list dp = true /\ incl (classes_in dp) carried_classes).
    { destruct Hdp as [[_ [-> _]]|[items [l [_ [-> HF2]]]]]; [split; [reflexivity|intros c []]|].
      split; [reflexivity|]. apply (list_classes_carried classify f (KModel "StepDependency") items l); [|exact HF2].
      intros c [<-|[]]. apply (proj1 (DecodeInv.mem_s_In _ _)). reflexivity. }
    destruct Sse as [Sse Kse]. destruct Sdp as [Sdp Kdp].
    assert (Ksc : incl (classes_in sc) carried_classes).
    { apply (pk_classes_carried classify f _ _ _ Hscp). intros c [<-|[]]. apply (proj1 (DecodeInv.mem_s_In _ _)). reflexivity. }
    destruct F as [|F]; [lia|].
    set (t := MModel "StepTemplate" _) in *.
    assert (Dsc : mval_depth sc < mval_depth t) by (apply (field_depth_lt _ _ "script"); in_tac).
    assert (Dse : mval_depth se < mval_depth t) by (apply (field_depth_lt _ _ "stepEnvironments"); in_tac).
    assert (Dps : mval_depth ps < mval_depth t) by (apply (field_depth_lt _ _ "parameterSpace"); in_tac).
    assert (Dhr : mval_depth hr < mval_depth t) by (apply (field_depth_lt _ _ "hostRequirements"); in_tac).
    assert (Ddp : mval_depth dp < mval_depth t) by (apply (field_depth_lt _ _ "dependencies"); in_tac).
    subst t.
    rewrite (shape_StepTemplate_carried resolve sigma F n d sc se ps hr dp) in Hy; try assumption; try lia;
      [|rewrite Esc; reflexivity].
    destruct (inst_elem (inst G resolve sigma F) ps) as [ps'|e] eqn:Eps; cbn [bind] in Hy; [|discriminate Hy].
    destruct (inst_elem (inst G resolve sigma F) hr) as [hr'|e] eqn:Ehr; cbn [bind] in Hy; [|discriminate Hy].
    injection Hy as <-.
    (* the specification's two rewritten members *)
    destruct (sub_model_equiv Pps "StepParameterSpaceDefinition" (param_space resolve sigma) Hps eq_refl
                              f (jget "parameterSpace" st) ps F ps') as [sps [Esps Rps]];
      [destruct Hpsf as [[E1 [E2 _]]|[E1 E2]]; [left; split; assumption|right; split; assumption]|exact Cps|lia|exact Eps|].
    destruct (sub_model_equiv Phr "HostRequirementsTemplate" (host_req resolve sigma) Hhr eq_refl
                              f (jget "hostRequirements" st) hr F hr') as [shr [Eshr Rhr]];
      [destruct Hhrf as [[E1 [E2 _]]|[E1 E2]]; [left; split; assumption|right; split; assumption]|exact Chr|lia|exact Ehr|].
    unfold step. rewrite Esps. cbn [bind]. rewrite Eshr. cbn [bind]. eexists. split; [reflexivity|].
    model_members. rewrite (leaf_jobj G n Hln), (leaf_jobj G d Hld), Hn, Hd.
    eapply json_equiv_meq_r; [cbn [app]; meq_tac|].
    apply (json_equiv_obj_keys [$"name"; $"script"; $"description"; $"stepEnvironments"; $"parameterSpace";
                                $"hostRequirements"; $"dependencies"]); [incl_tac|incl_tac|].
    keys_split; jf.
    - apply onn_equiv. apply json_equiv_refl.
    - apply onn_equiv. apply (carried_single classify f (KModel "StepScript")); [reflexivity|exact Hscp|exact Csc].
    - apply onn_equiv. apply json_equiv_refl.
    - apply onn_equiv. destruct Hse as [[-> [-> _]]|[items [l [Er [-> HF2]]]]]; [rewrite same_null; constructor|].
      rewrite Er in *. apply (carried_list classify f (KModel "Environment")); [reflexivity|exact HF2|exact Cse].
    - exact Rps.
    - exact Rhr.
    - apply onn_equiv. destruct Hdp as [[-> [-> _]]|[items [l [Er [-> HF2]]]]]; [rewrite same_null; constructor|].
      rewrite Er in *. apply (carried_list classify f (KModel "StepDependency")); [reflexivity|exact HF2|exact Cdp].
  Qed.
End Steps.

(* ------------------------------------------------------------------ the template root *)
Section Root.
  Variable classify : N -> cclass.
  Variable resolve : symtab -> str -> outcome str.
  Variable sigma : symtab.
  Notation pk := (parse_kind G classify pre_hook (post_hook classify)).
  Notation pc := (parse_cls G classify pre_hook (post_hook classify)).

  Variable Pps Phr : json -> Prop.
  Hypothesis Hps : forall f raw x F y, raw <> JNull -> Pps raw ->
    pk f (KModel "StepParameterSpaceDefinition") raw = Ok x -> mval_depth x < F -> inst G resolve sigma F x = Ok y ->
    exists s, param_space resolve sigma raw = Ok s /\ json_equiv (jobj G y) s /\ y <> MNone /\ s <> JNull.
  Hypothesis Hhr : forall f raw x F y, raw <> JNull -> Phr raw ->
    pk f (KModel "HostRequirementsTemplate") raw = Ok x -> mval_depth x < F -> inst G resolve sigma F x = Ok y ->
    exists s, host_req resolve sigma raw = Ok s /\ json_equiv (jobj G y) s /\ y <> MNone /\ s <> JNull.

  (* the conditions on the document, as far as they concern the carried subtrees and the (abstract)
     conditions on parameter spaces and host requirements *)
  Definition doc_ok (j : json) : Prop :=
    carried_ok (jget "jobEnvironments" j) = true /\
    forall st, In st (items (jget "steps" j)) -> step_ok Pps Phr st.

  Lemma steps_equiv : forall f F items l l',
    Forall2 (fun it m => pk f (KModel "StepTemplate") it = Ok m) items l ->
    (forall st, In st items -> step_ok Pps Phr st) ->
    (forall m, In m l -> mval_depth m < F) ->
    mapM (inst_elem (inst G resolve sigma F)) l = Ok l' ->
    exists ss, mapM (step resolve sigma) items = Ok ss /\ Forall2 json_equiv (map (jobj G) l') ss.
  Proof.
    intros f F items l l' HF. revert l'. induction HF as [|it m r r' Hp _ IH]; intros l' Hok Hd Hm.
    - injection Hm as <-. exists []. split; [reflexivity|constructor].
    - cbn [mapM] in Hm. destruct (inst_elem (inst G resolve sigma F) m) as [y|e] eqn:Ey; cbn [bind] in Hm; [|discriminate Hm].
      destruct (mapM _ r') as [ys|e] eqn:Er; cbn [bind] in Hm; [|discriminate Hm]. injection Hm as <-.
      destruct (pk_model_shape classify f _ _ _ Hp) as [fs Em]. rewrite Em in Ey. cbn [inst_elem] in Ey. rewrite <- Em in Ey.
      destruct (step_equiv classify resolve sigma Pps Phr Hps Hhr f it m F y Hp (Hok it (or_introl eq_refl))
                           (Hd m (or_introl eq_refl)) Ey) as [s [Hs He]].
      destruct (IH ys (fun st Hst => Hok st (or_intror Hst)) (fun m' Hm' => Hd m' (or_intror Hm')) eq_refl) as [ss [Hss HF2]].
      exists (s :: ss). split.
      + cbn [mapM]. rewrite Hs. cbn [bind]. rewrite Hss. reflexivity.
      + cbn [map]. constructor; assumption.
  Qed.

  Theorem root_equiv : forall j t F y,
    decode_job classify j = Ok t -> doc_ok j -> mval_depth t < F -> inst G resolve sigma F t = Ok y ->
    exists s, expected_job resolve sigma j = Ok s /\ json_equiv (jobj G y) s.
  Proof.
    intros j t F y H [Cje Cst] HF Hy. unfold decode_job in H.
    destruct j as [| | | | | |ms]; try discriminate H.
    destruct (version_ok Generated.job_template_versions (JObj ms)); [|discriminate H].
    unfold parse_template, parse_root in H.
    cls_open H. injection Ev as <-. subst t.
    next_field Hm y1 r1 H1. next_field Hm y2 r2 H2. next_field Hm y3 r3 H3. next_field Hm y4 r4 H4.
    next_field Hm y5 r5 H5. next_field Hm y6 r6 H6. next_field Hm y7 r7 H7. injection Hm as <-.
    apply field_any_inv in H1. destruct H1 as [sv ->].
    apply format_field_inv in H2. destruct H2 as [s [-> [Hs _]]].
    apply (field_list_inv classify _ _ _ (Some 1%N) None) in H3; [|reflexivity]. destruct H3 as [st [-> Hst]].
    apply field_exact_inv in H4; [|reflexivity|reflexivity]. destruct H4 as [d [-> [Hld Hd]]].
    apply (field_list_inv classify _ _ _ (Some 1%N) (Some 50%N)) in H5; [|reflexivity]. destruct H5 as [pd [-> Hpd]].
    apply (field_list_inv classify _ _ _ (Some 1%N) None) in H6; [|reflexivity]. destruct H6 as [je [-> Hje]].
    apply field_any_inv in H7. destruct H7 as [ss ->].
    cbn [f_name f_kind f_required] in *.
    set (j := JObj ms) in *.
    assert (Hname : jget "name" j = JStr s) by (cbn [jget j]; rewrite Hs; reflexivity).
    change (field_raw ms (mkField "steps" "steps" true (ListOf (Some 1%N) None) (KModel "StepTemplate"))) with (jget "steps" j) in *.
    change (field_raw ms (mkField "description" "description" false Single (KStr true (Some 1%N) (Some 2048%N) CS_description)))
      with (jget "description" j) in *.
    match type of Hpd with context [field_raw ms ?fl] => change (field_raw ms fl) with (jget "parameterDefinitions" j) in * end.
    change (field_raw ms (mkField "jobEnvironments" "jobEnvironments" false (ListOf (Some 1%N) None) (KModel "Environment")))
      with (jget "jobEnvironments" j) in *.
    (* steps are present *)
    destruct Hst as [[_ [_ Hreq]]|[sitems [l [Esteps [-> HFst]]]]]; [discriminate Hreq|].
    destruct F as [|F]; [lia|].
    set (t := MModel "JobTemplate" _) in *.
    assert (Dst : mval_depth (MList l) < mval_depth t) by (apply (field_depth_lt _ _ "steps"); in_tac).
    assert (Dpd : mval_depth pd < mval_depth t) by (apply (field_depth_lt _ _ "parameterDefinitions"); in_tac).
    assert (Dje : mval_depth je < mval_depth t) by (apply (field_depth_lt _ _ "jobEnvironments"); in_tac).
    subst t.
    assert (Spd : opt_list pd = true) by (destruct Hpd as [[_ [-> _]]|[it' [l' [_ [-> _]]]]]; reflexivity).
    assert (Sje : opt_list je = true /\ incl (classes_in je) carried_classes).
    { destruct Hje as [[_ [-> _]]|[it' [l' [_ [-> HF2]]]]]; [split; [reflexivity|intros c []]|].
      split; [reflexivity|]. apply (list_classes_carried classify f' (KModel "Environment") it' l'); [|exact HF2].
      intros c [<-|[]]. apply (proj1 (DecodeInv.mem_s_In _ _)). reflexivity. }
    destruct Sje as [Sje Kje].
    rewrite (shape_JobTemplate resolve sigma F sv s (MList l) d pd je ss) in Hy; try assumption; try reflexivity.
    destruct (resolve sigma s) as [n|e] eqn:En; cbn [bind] in Hy; [|discriminate Hy].
    cbn [elems] in Hy.
    destruct (mapM (inst_elem (inst G resolve sigma F)) l) as [l'|e] eqn:El; cbn [bind] in Hy; [|discriminate Hy].
    destruct (keyed (inst G resolve sigma F) "name" pd) as [p|e] eqn:Ep; cbn [bind] in Hy; [|discriminate Hy].
    rewrite (elems_unchanged resolve sigma F je) in Hy;
      [|intros c Hc; apply carried_are_trivial, Kje, Hc|lia].
    cbn [bind] in Hy. injection Hy as <-.
    (* steps *)
    rewrite Esteps in Cst. cbn [items] in Cst.
    destruct (steps_equiv f' F sitems l l' HFst Cst) as [sts [Hsts HF2]]; [|exact El|].
    { intros m Hm. pose proof (item_depth l m Hm). lia. }
    (* parameters *)
    assert (Hparams : exists ps, match jget "parameterDefinitions" j with
                                 | JNull => Ok JNull
                                 | pdj => do ps <- mapM (CreateJobSpec.job_param sigma) (items pdj); Ok (JObj ps)
                                 end = Ok ps /\ opt_rel json_equiv (onn (jobj G p)) (onn ps)).
    { destruct Hpd as [[-> [-> _]]|[pitems [pl [Er [-> HFp]]]]].
      - cbn [keyed] in Ep. injection Ep as <-. exists JNull. split; [reflexivity|constructor].
      - rewrite Er. cbn [items].
        assert (Hnd : nodupb (map (fun m => mstr (fget "name" (model_fields m))) pl) = true).
        { change (post_hook classify "JobTemplate" j _) with
            (job_template_ok classify j
               [("specificationVersion", sv); ("name", MFmt s); ("steps", MList l); ("description", d);
                ("parameterDefinitions", MList pl); ("jobEnvironments", je); ("schemaStr", ss)]) in Hpost.
          unfold job_template_ok in Hpost. repeat (apply andb_true_iff in Hpost; destruct Hpost as [Hpost ?]).
          match goal with HU : unique_names (fget "parameterDefinitions" _) = true |- _ => exact HU end. }
        assert (Hitem : forall it m k y0, pk f' kdisc_params it = Ok m /\ mval_depth m < F -> key_of m "name" = Ok k ->
                  inst_elem (inst G resolve sigma F) m = Ok y0 ->
                  exists s0, CreateJobSpec.job_param sigma it = Ok (k, s0) /\ json_equiv (jobj G y0) s0 /\ y0 <> MNone).
        { intros it m k y0 [Hq1 Hq2] Hk Hy0. exact (job_param_item classify resolve sigma f' F it m k y0 Hq1 Hk Hq2 Hy0). }
        destruct (keyed_dict_equiv (inst G resolve sigma F) "name"
                    (fun it m => pk f' kdisc_params it = Ok m /\ mval_depth m < F)
                    (CreateJobSpec.job_param sigma) Hitem pitems pl p) as [ps [Hps1 Hps2]].
        + assert (Hdl : forall m, In m pl -> mval_depth m < F) by (intros m Hm; pose proof (item_depth pl m Hm); lia).
          clear - HFp Hdl. induction HFp as [|it m r r' Hp _ IH]; constructor.
          * split; [exact Hp|apply Hdl; left; reflexivity].
          * apply IH. intros m' Hm'. apply Hdl. right. exact Hm'.
        + exact Hnd.
        + exact Ep.
        + exists (JObj ps). rewrite Hps1. cbn [bind]. split; [reflexivity|]. apply onn_equiv. exact Hps2. }
    destruct Hparams as [ps [Hps1 Hps2]].
    unfold expected_job. rewrite Hname. cbn [subst]. rewrite En. cbn [bind]. rewrite Esteps.
    change (items (JArr sitems)) with sitems. rewrite Hsts. cbn [bind]. rewrite Hps1. cbn [bind]. eexists. split; [reflexivity|].
    model_members. rewrite (leaf_jobj G d Hld), Hd.
    eapply json_equiv_meq_r; [cbn [app]; meq_tac|].
    apply (json_equiv_obj_keys [$"name"; $"steps"; $"description"; $"parameters"; $"jobEnvironments"]); [incl_tac|incl_tac|].
    keys_split; jf.
    - apply onn_equiv. apply json_equiv_refl.
    - apply onn_equiv. rewrite jobj_list. constructor. exact HF2.
    - apply onn_equiv. apply json_equiv_refl.
    - exact Hps2.
    - apply onn_equiv. destruct Hje as [[-> [-> _]]|[it' [l2 [Er [-> HF3]]]]]; [rewrite same_null; constructor|].
      rewrite Er in *. apply (carried_list classify f' (KModel "Environment")); [reflexivity|exact HF3|exact Cje].
  Qed.
End Root.
