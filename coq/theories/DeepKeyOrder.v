(* DeepKeyOrder.v — lemmas behind props/C19x.v (C19_deep_key_order): invariance under permuting the
   members of the objects of a document at EVERY nesting level at once.

   [jperm j j'] : same scalars, arrays pointwise, objects: distinct keys, and the members of the
   second are a permutation of the first's with jperm-related values.

   Part A (reference walk): [Permutation (spec_job_template refs j) (spec_job_template refs j')].
     Every piece of the specification is EQUAL on jperm-related inputs except the walk over the
     members of an Environment's [variables] object, which reports its errors in member order:
     errors carry their location, so the two error lists are permutations of one another.
   Part B (acceptance model): the structural parser returns outcomes that are equal up to the
     member order of dictionaries ([mperm]); every validator of Validators.v is invariant under
     [mperm] of its parsed fields and [jperm] of its raw object. *)
From Coq Require Import List NArith ZArith Bool String Lia Permutation.
Import ListNotations.
Require Import OJD.Base OJD.Lexer OJD.Json OJD.Schema OJD.Generated OJD.Charsets OJD.FormatStr OJD.FsRefs
               OJD.CreateJob OJD.Parse OJD.Validators OJD.Accept OJD.AcceptMono OJD.ScopeWalk OJD.ScopeSpec
               OJD.ScopeProofs OJD.GlueLib OJD.KeyOrder.
Require OJD.RangeExpr OJD.Comb OJD.CombProofs.
Local Open Scope string_scope.
Local Open Scope list_scope.

(* ------------------------------------------------------------------ the relation *)

Definition mrel {K A : Type} (R : A -> A -> Prop) (a b : K * A) : Prop :=
  fst a = fst b /\ R (snd a) (snd b).

Inductive jperm : json -> json -> Prop :=
| JP_null : jperm JNull JNull
| JP_bool : forall b, jperm (JBool b) (JBool b)
| JP_int : forall z, jperm (JInt z) (JInt z)
| JP_dec : forall m e, jperm (JDec m e) (JDec m e)
| JP_str : forall s, jperm (JStr s) (JStr s)
| JP_arr : forall l l', Forall2 jperm l l' -> jperm (JArr l) (JArr l')
| JP_obj : forall ms mid ms',
    NoDup (map fst ms) -> Forall2 (mrel jperm) ms mid -> Permutation mid ms' ->
    jperm (JObj ms) (JObj ms').

(* case analysis on a [jperm a b] whose sides are arbitrary terms *)
Ltac jcase H :=
  match type of H with
  | jperm ?a ?b =>
    let x := fresh "x" in let y := fresh "y" in
    set (x := a) in *; set (y := b) in *; clearbody x y; destruct H
  end.

(* ------------------------------------------------------------------ lists *)

Lemma F2_keys : forall (K A : Type) (R : A -> A -> Prop) (a b : list (K * A)),
  Forall2 (mrel R) a b -> map fst a = map fst b.
Proof.
  intros K A R a b H. induction H as [|x y l l' [Hk _] _ IH]; [reflexivity|].
  cbn [map]. rewrite Hk, IH. reflexivity.
Qed.

Lemma assoc_F2 : forall (A : Type) (R : A -> A -> Prop) (a b : list (str * A)),
  Forall2 (mrel R) a b -> forall k,
  match assoc k a, assoc k b with
  | Some x, Some y => R x y
  | None, None => True
  | _, _ => False
  end.
Proof.
  intros A R a b H k. induction H as [|[kx x] [ky y] l l' [Hk Hv] _ IH]; [exact I|].
  cbn [fst snd] in Hk, Hv. subst ky. cbn [assoc]. destruct (str_eqb k kx); [exact Hv|exact IH].
Qed.

Lemma F2_eq : forall (A : Type) (l l' : list A), Forall2 eq l l' -> l = l'.
Proof. intros A l l' H. induction H as [|x y l l' E _ IH]; [reflexivity|]. rewrite E, IH. reflexivity. Qed.

Lemma concat_F2_perm : forall (A : Type) (ls ls' : list (list A)),
  Forall2 (@Permutation A) ls ls' -> Permutation (List.concat ls) (List.concat ls').
Proof.
  intros A ls ls' H. induction H as [|x y l l' E _ IH]; [apply perm_nil|].
  cbn [List.concat]. apply Permutation_app; assumption.
Qed.

Lemma perm_concat_map : forall (A B : Type) (f : A -> list B) l l',
  Permutation l l' -> Permutation (List.concat (map f l)) (List.concat (map f l')).
Proof.
  intros A B f l l' H. induction H as [|x l l' _ IH|x y l|l l' l'' _ IH1 _ IH2].
  - apply perm_nil.
  - cbn [map List.concat]. apply Permutation_app_head. exact IH.
  - cbn [map List.concat]. rewrite !app_assoc. apply Permutation_app_tail. apply Permutation_app_comm.
  - eapply perm_trans; eassumption.
Qed.

Lemma map_F2 : forall (A B : Type) (R : A -> A -> Prop) (Q : B -> B -> Prop) (F G : A -> B) l l',
  Forall2 R l l' -> (forall x y, R x y -> Q (F x) (G y)) -> Forall2 Q (map F l) (map G l').
Proof.
  intros A B R Q F G l l' H HQ. induction H as [|x y l l' E _ IH]; [constructor|].
  cbn [map]. constructor; [apply HQ; exact E|exact IH].
Qed.

Lemma combine_seq_F2 : forall (A B : Type) (R : A -> A -> Prop) (Q : B -> B -> Prop) (F G : nat * A -> B) l l',
  Forall2 R l l' -> (forall i x y, R x y -> Q (F (i, x)) (G (i, y))) ->
  forall s, Forall2 Q (map F (combine (seq s (List.length l)) l)) (map G (combine (seq s (List.length l')) l')).
Proof.
  intros A B R Q F G l l' H HQ. induction H as [|x y l l' E _ IH]; intros s; [constructor|].
  cbn [List.length seq combine map]. constructor; [apply HQ; exact E|apply IH].
Qed.

Lemma indexed_F2 : forall (A B : Type) (R : A -> A -> Prop) (Q : B -> B -> Prop) (F G : nat * A -> B) l l',
  Forall2 R l l' -> (forall i x y, R x y -> Q (F (i, x)) (G (i, y))) ->
  Forall2 Q (map F (indexed l)) (map G (indexed l')).
Proof. intros. unfold indexed. eapply combine_seq_F2; eassumption. Qed.

(* equal / permuted concatenations over the items of related arrays *)
Lemma concat_indexed_eq : forall (A B : Type) (R : A -> A -> Prop) (F G : nat * A -> list B) l l',
  Forall2 R l l' -> (forall i x y, R x y -> F (i, x) = G (i, y)) ->
  List.concat (map F (indexed l)) = List.concat (map G (indexed l')).
Proof. intros A B R F G l l' H HQ. f_equal. apply F2_eq. eapply indexed_F2; eassumption. Qed.

Lemma concat_indexed_perm : forall (A B : Type) (R : A -> A -> Prop) (F G : nat * A -> list B) l l',
  Forall2 R l l' -> (forall i x y, R x y -> Permutation (F (i, x)) (G (i, y))) ->
  Permutation (List.concat (map F (indexed l))) (List.concat (map G (indexed l'))).
Proof. intros A B R F G l l' H HQ. apply concat_F2_perm. eapply indexed_F2; eassumption. Qed.

Lemma flat_map_F2_eq : forall (A B : Type) (R : A -> A -> Prop) (F G : A -> list B) l l',
  Forall2 R l l' -> (forall x y, R x y -> F x = G y) -> flat_map F l = flat_map G l'.
Proof.
  intros A B R F G l l' H HQ. induction H as [|x y l l' E _ IH]; [reflexivity|].
  cbn [flat_map]. rewrite (HQ x y E), IH. reflexivity.
Qed.

(* ------------------------------------------------------------------ one object *)

Lemma jperm_jget : forall j j', jperm j j' -> forall name, jperm (jget name j) (jget name j').
Proof.
  intros j j' H name. destruct H as [|b|z|m e|s|l l' Hl|ms mid ms' Hnd Hm Hp]; try (cbn [jget]; constructor).
  cbn [jget].
  assert (Hnd' : NoDup (map fst mid)) by (rewrite <- (F2_keys _ _ _ _ _ Hm); exact Hnd).
  rewrite <- (assoc_perm _ mid ms' Hnd' Hp (str_of_string name)).
  pose proof (assoc_F2 _ _ _ _ Hm (str_of_string name)) as Ha.
  destruct (assoc (str_of_string name) ms) as [x|], (assoc (str_of_string name) mid) as [y|];
    try contradiction; [exact Ha|constructor].
Qed.

Lemma jperm_is_obj : forall j j', jperm j j' -> is_obj j = is_obj j'.
Proof. intros j j' H. destruct H; reflexivity. Qed.

Lemma jperm_is_null : forall j j', jperm j j' -> is_null j = is_null j'.
Proof. intros j j' H. destruct H; reflexivity. Qed.

Section SpecA.
  Variable refs : str -> option (list str).

  Lemma chk_jperm : forall vis l v v', jperm v v' -> chk refs vis l v = chk refs vis l v'.
  Proof. intros vis l v v' H. destruct H; reflexivity. Qed.

  Lemma chk_list_jperm : forall vis l v v', jperm v v' -> chk_list refs vis l v = chk_list refs vis l v'.
  Proof.
    intros vis l v v' H. destruct H as [|b|z|m e|s|a a' Ha|ms mid ms' Hnd Hm Hp]; try reflexivity.
    cbn [chk_list]. apply (concat_indexed_eq _ _ jperm); [exact Ha|].
    intros i x y Hxy. cbn [fst snd]. apply chk_jperm. exact Hxy.
  Qed.

  Lemma decl_name_jperm : forall o o', jperm o o' -> decl_name o = decl_name o'.
  Proof.
    intros o o' H. pose proof (jperm_jget _ _ H "name") as Hn. unfold decl_name.
    destruct H; try reflexivity. jcase Hn; try reflexivity.
  Qed.

  Lemma type_is_jperm : forall o o' t, jperm o o' -> type_is o t = type_is o' t.
  Proof.
    intros o o' t H. pose proof (jperm_jget _ _ H "type") as Hn. unfold type_is.
    jcase Hn; reflexivity.
  Qed.

  Lemma has_param_type_jperm : forall o o', jperm o o' -> has_param_type o = has_param_type o'.
  Proof. intros o o' H. unfold has_param_type. rewrite !(type_is_jperm o o' _ H). reflexivity. Qed.

  Lemma declared_jperm : forall ok v v', (forall o o', jperm o o' -> ok o = ok o') ->
    jperm v v' -> declared ok v = declared ok v'.
  Proof.
    intros ok v v' Hok H. unfold declared.
    destruct H as [|b|z|m e|s|a a' Ha|ms mid ms' Hnd Hm Hp]; try reflexivity.
    cbn [obj_list]. apply (flat_map_F2_eq _ _ jperm); [exact Ha|].
    intros x y Hxy. rewrite (Hok x y Hxy), (decl_name_jperm x y Hxy). reflexivity.
  Qed.

  Lemma all_params_jperm : forall v v', jperm v v' -> all_params v = all_params v'.
  Proof. intros v v' H. apply declared_jperm; [apply has_param_type_jperm|exact H]. Qed.

  Lemma nonpath_params_jperm : forall v v', jperm v v' -> nonpath_params v = nonpath_params v'.
  Proof.
    intros v v' H. apply declared_jperm; [|exact H]. intros o o' Ho.
    rewrite (has_param_type_jperm o o' Ho), (type_is_jperm o o' _ Ho). reflexivity.
  Qed.

  Lemma path_params_jperm : forall v v', jperm v v' -> path_params v = path_params v'.
  Proof. intros v v' H. apply declared_jperm; [|exact H]. intros o o' Ho. apply type_is_jperm. exact Ho. Qed.

  Lemma file_names_jperm : forall v v', jperm v v' -> file_names v = file_names v'.
  Proof. intros v v' H. apply declared_jperm; [reflexivity|exact H]. Qed.

  Lemma vis_template_jperm : forall v v', jperm v v' -> vis_template v = vis_template v'.
  Proof.
    intros v v' H. unfold vis_template.
    rewrite (all_params_jperm v v' H), (nonpath_params_jperm v v' H). reflexivity.
  Qed.

  Lemma vis_session_jperm : forall v v', jperm v v' -> vis_session v = vis_session v'.
  Proof.
    intros v v' H. unfold vis_session.
    rewrite (vis_template_jperm v v' H), (path_params_jperm v v' H). reflexivity.
  Qed.

  Lemma task_param_names_jperm : forall v v', jperm v v' -> task_param_names v = task_param_names v'.
  Proof.
    intros v v' H. unfold task_param_names. rewrite (jperm_is_obj v v' H).
    destruct (is_obj v'); [|reflexivity].
    apply declared_jperm; [apply has_param_type_jperm|apply jperm_jget; exact H].
  Qed.

  Lemma spec_action_jperm : forall vis l a a', jperm a a' -> spec_action refs vis l a = spec_action refs vis l a'.
  Proof.
    intros vis l a a' H. unfold spec_action. rewrite (jperm_is_obj a a' H).
    rewrite (chk_jperm vis _ _ _ (jperm_jget a a' H "command")).
    rewrite (chk_list_jperm vis _ _ _ (jperm_jget a a' H "args")). reflexivity.
  Qed.

  Lemma spec_files_jperm : forall vis l v v', jperm v v' -> spec_files refs vis l v = spec_files refs vis l v'.
  Proof.
    intros vis l v v' H. destruct H as [|b|z|m e|s|a a' Ha|ms mid ms' Hnd Hm Hp]; try reflexivity.
    cbn [spec_files]. apply (concat_indexed_eq _ _ jperm); [exact Ha|].
    intros i x y Hxy. cbn [fst snd]. rewrite (jperm_is_obj x y Hxy).
    rewrite (chk_jperm vis _ _ _ (jperm_jget x y Hxy "data")). reflexivity.
  Qed.

  Lemma spec_env_script_jperm : forall base l s s', jperm s s' ->
    spec_env_script refs base l s = spec_env_script refs base l s'.
  Proof.
    intros base l s s' H. unfold spec_env_script. rewrite (jperm_is_obj s s' H).
    destruct (is_obj s'); [|reflexivity].
    rewrite (file_names_jperm _ _ (jperm_jget s s' H "embeddedFiles")).
    pose proof (jperm_jget s s' H "actions") as Ha.
    rewrite (jperm_is_obj _ _ Ha).
    rewrite (spec_action_jperm _ _ _ _ (jperm_jget _ _ Ha "onEnter")).
    rewrite (spec_action_jperm _ _ _ _ (jperm_jget _ _ Ha "onExit")).
    rewrite (spec_files_jperm _ _ _ _ (jperm_jget s s' H "embeddedFiles")). reflexivity.
  Qed.

  (* the one place where member order shows: the errors of [variables] come in member order *)
  Lemma spec_env_jperm : forall base l e e', jperm e e' ->
    Permutation (spec_env refs base l e) (spec_env refs base l e').
  Proof.
    intros base l e e' H. unfold spec_env. rewrite (jperm_is_obj e e' H).
    destruct (is_obj e'); [|apply perm_nil].
    rewrite (spec_env_script_jperm _ _ _ _ (jperm_jget e e' H "script")).
    apply Permutation_app_head.
    pose proof (jperm_jget e e' H "variables") as Hv.
    jcase Hv; try apply Permutation_refl.
    rename H0 into Hnd, H1 into Hm, H2 into Hp.
    set (G := fun kv : str * json => chk refs base (l ++ [key "variables"; LKey (fst kv)]) (snd kv)).
    assert (E : map G ms = map G mid).
    { apply F2_eq. apply (map_F2 _ _ (mrel jperm)); [exact Hm|].
      intros [k1 v1] [k2 v2] [Hk Hvv]. cbn [fst snd] in Hk, Hvv. subst k2. unfold G. cbn [fst snd].
      apply chk_jperm. exact Hvv. }
    rewrite E. apply perm_concat_map. exact Hp.
  Qed.

  Lemma spec_env_list_jperm : forall base l v v', jperm v v' ->
    Permutation (spec_env_list refs base l v) (spec_env_list refs base l v').
  Proof.
    intros base l v v' H. destruct H as [|b|z|m e|s|a a' Ha|ms mid ms' Hnd Hm Hp]; try apply Permutation_refl.
    cbn [spec_env_list]. apply (concat_indexed_perm _ _ jperm); [exact Ha|].
    intros i x y Hxy. cbn [fst snd]. apply spec_env_jperm. exact Hxy.
  Qed.

  Lemma spec_task_param_jperm : forall vis l t t', jperm t t' ->
    spec_task_param refs vis l t = spec_task_param refs vis l t'.
  Proof.
    intros vis l t t' H. unfold spec_task_param. rewrite (jperm_is_obj t t' H).
    rewrite !(type_is_jperm t t' _ H).
    rewrite (chk_list_jperm vis _ _ _ (jperm_jget t t' H "range")).
    pose proof (jperm_jget t t' H "range") as Hr.
    destruct (is_obj t'); [|reflexivity]. destruct (type_is t' "INT"); [|reflexivity].
    jcase Hr; try reflexivity.
    apply (flat_map_F2_eq _ _ jperm); [assumption|]. intros a b Hab. apply chk_jperm. exact Hab.
  Qed.

  Lemma spec_param_space_jperm : forall vis l p p', jperm p p' ->
    spec_param_space refs vis l p = spec_param_space refs vis l p'.
  Proof.
    intros vis l p p' H. unfold spec_param_space. rewrite (jperm_is_obj p p' H).
    destruct (is_obj p'); [|reflexivity].
    pose proof (jperm_jget p p' H "taskParameterDefinitions") as Ht.
    jcase Ht; try reflexivity.
    apply (concat_indexed_eq _ _ jperm); [assumption|].
    intros i a b Hab. cbn [fst snd]. apply spec_task_param_jperm. exact Hab.
  Qed.

  Lemma spec_host_req_jperm : forall vis l h h', jperm h h' ->
    spec_host_req refs vis l h = spec_host_req refs vis l h'.
  Proof.
    intros vis l h h' H. unfold spec_host_req. rewrite (jperm_is_obj h h' H).
    destruct (is_obj h'); [|reflexivity].
    pose proof (jperm_jget h h' H "amounts") as Ham.
    pose proof (jperm_jget h h' H "attributes") as Hat.
    f_equal.
    - jcase Ham; try reflexivity.
      apply (concat_indexed_eq _ _ jperm); [assumption|].
      intros i a b Hab. cbn [fst snd]. rewrite (jperm_is_obj a b Hab).
      rewrite (chk_jperm vis _ _ _ (jperm_jget a b Hab "name")). reflexivity.
    - jcase Hat; try reflexivity.
      apply (concat_indexed_eq _ _ jperm); [assumption|].
      intros i a b Hab. cbn [fst snd]. rewrite (jperm_is_obj a b Hab).
      rewrite (chk_jperm vis _ _ _ (jperm_jget a b Hab "name")).
      rewrite (chk_list_jperm vis _ _ _ (jperm_jget a b Hab "anyOf")).
      rewrite (chk_list_jperm vis _ _ _ (jperm_jget a b Hab "allOf")). reflexivity.
  Qed.

  Lemma spec_step_script_jperm : forall base tps l s s', jperm s s' ->
    spec_step_script refs base tps l s = spec_step_script refs base tps l s'.
  Proof.
    intros base tps l s s' H. unfold spec_step_script. rewrite (jperm_is_obj s s' H).
    destruct (is_obj s'); [|reflexivity].
    rewrite (file_names_jperm _ _ (jperm_jget s s' H "embeddedFiles")).
    pose proof (jperm_jget s s' H "actions") as Ha.
    rewrite (jperm_is_obj _ _ Ha).
    rewrite (spec_action_jperm _ _ _ _ (jperm_jget _ _ Ha "onRun")).
    rewrite (spec_files_jperm _ _ _ _ (jperm_jget s s' H "embeddedFiles")). reflexivity.
  Qed.

  Lemma spec_step_jperm : forall pdefs l s s', jperm s s' ->
    Permutation (spec_step refs pdefs l s) (spec_step refs pdefs l s').
  Proof.
    intros pdefs l s s' H. unfold spec_step. rewrite (jperm_is_obj s s' H).
    destruct (is_obj s'); [|apply perm_nil].
    rewrite (task_param_names_jperm _ _ (jperm_jget s s' H "parameterSpace")).
    rewrite (spec_step_script_jperm _ _ _ _ _ (jperm_jget s s' H "script")).
    rewrite (spec_param_space_jperm _ _ _ _ (jperm_jget s s' H "parameterSpace")).
    rewrite (spec_host_req_jperm _ _ _ _ (jperm_jget s s' H "hostRequirements")).
    apply Permutation_app_head. apply Permutation_app_tail.
    apply spec_env_list_jperm. apply jperm_jget. exact H.
  Qed.

  Theorem spec_job_jperm : forall j j', jperm j j' ->
    Permutation (spec_job_template refs j) (spec_job_template refs j').
  Proof.
    intros j j' H. unfold spec_job_template.
    pose proof (jperm_jget j j' H "parameterDefinitions") as Hpd.
    rewrite (vis_template_jperm _ _ Hpd), (vis_session_jperm _ _ Hpd).
    rewrite (chk_jperm _ _ _ _ (jperm_jget j j' H "name")).
    apply Permutation_app_head. apply Permutation_app.
    - pose proof (jperm_jget j j' H "steps") as Hs. jcase Hs; try apply Permutation_refl.
      apply (concat_indexed_perm _ _ jperm); [assumption|].
      intros i a b Hab. cbn [fst snd].
      eapply perm_trans; [apply spec_step_jperm; exact Hab|].
      (* the visibility of the step is computed from the other document's definitions *)
      unfold spec_step.
      rewrite (vis_template_jperm _ _ Hpd), (vis_session_jperm _ _ Hpd). apply Permutation_refl.
    - apply spec_env_list_jperm. apply jperm_jget. exact H.
  Qed.

  Theorem spec_env_template_jperm : forall j j', jperm j j' ->
    Permutation (spec_env_template refs j) (spec_env_template refs j').
  Proof.
    intros j j' H. unfold spec_env_template.
    rewrite (vis_session_jperm _ _ (jperm_jget j j' H "parameterDefinitions")).
    apply spec_env_jperm. apply jperm_jget. exact H.
  Qed.
End SpecA.

Definition no_errors (l : list werr) : bool := match l with [] => true | _ => false end.

Lemma no_errors_perm : forall l l', Permutation l l' -> no_errors l = no_errors l'.
Proof.
  intros l l' H. destruct l as [|x l], l' as [|y l']; try reflexivity.
  - apply Permutation_nil in H. discriminate H.
  - apply Permutation_sym, Permutation_nil in H. discriminate H.
Qed.

Theorem prevalidate_jperm : forall refs j j', jperm j j' ->
  Permutation (prevalidate Generated.schema refs "JobTemplate" j) (prevalidate Generated.schema refs "JobTemplate" j') /\
  Permutation (prevalidate Generated.schema refs "EnvironmentTemplate" j)
              (prevalidate Generated.schema refs "EnvironmentTemplate" j').
Proof.
  intros refs j j' H. rewrite !exact_job, !exact_env. split.
  - apply spec_job_jperm. exact H.
  - apply spec_env_template_jperm. exact H.
Qed.

(* ================================================================== Part B: the acceptance model *)

(* ------------------------------------------------------------------ depth *)
Section JsonInd.
  Variable P : json -> Prop.
  Hypothesis HNull : P JNull.
  Hypothesis HBool : forall b, P (JBool b).
  Hypothesis HInt : forall z, P (JInt z).
  Hypothesis HDec : forall m e, P (JDec m e).
  Hypothesis HStr : forall s, P (JStr s).
  Hypothesis HArr : forall l, Forall P l -> P (JArr l).
  Hypothesis HObj : forall ms, Forall (fun kv => P (snd kv)) ms -> P (JObj ms).

  Fixpoint json_ind2 (v : json) : P v :=
    match v with
    | JNull => HNull
    | JBool b => HBool b
    | JInt z => HInt z
    | JDec m e => HDec m e
    | JStr s => HStr s
    | JArr l =>
      HArr l ((fix go (l : list json) : Forall P l :=
                 match l with
                 | [] => Forall_nil _
                 | x :: r => Forall_cons x (json_ind2 x) (go r)
                 end) l)
    | JObj ms =>
      HObj ms ((fix go (l : list (str * json)) : Forall (fun kv => P (snd kv)) l :=
                  match l with
                  | [] => Forall_nil _
                  | x :: r => Forall_cons x (json_ind2 (snd x)) (go r)
                  end) ms)
    end.
End JsonInd.

Lemma json_depth_jperm : forall j j', jperm j j' -> json_depth j = json_depth j'.
Proof.
  intros j. induction j as [|b|z|m e|s|l IH|ms IH] using json_ind2; intros j' H;
    inversion H as [|b'|z'|m' e'|s'|a a' Ha|a mid a' Hnd Hm Hp]; subst; try reflexivity.
  - cbn [json_depth]. f_equal. clear H. induction Ha as [|x y r r' Hxy Hr IHr]; [reflexivity|].
    cbn [fold_right]. inversion IH as [|? ? Px Pr]; subst. rewrite (Px y Hxy), (IHr Pr). reflexivity.
  - cbn [json_depth]. f_equal. rewrite <- (depth_perm mid a' Hp). clear H Hp Hnd.
    induction Hm as [|x y r r' [_ Hxy] Hr IHr]; [reflexivity|].
    cbn [fold_right]. inversion IH as [|? ? Px Pr]; subst. rewrite (Px _ Hxy), (IHr Pr). reflexivity.
Qed.

(* ------------------------------------------------------------------ parsed values up to dict order *)

Inductive mperm : mval -> mval -> Prop :=
| MP_none : mperm MNone MNone
| MP_bool : forall b, mperm (MBool b) (MBool b)
| MP_int : forall z, mperm (MInt z) (MInt z)
| MP_dec : forall m e, mperm (MDec m e) (MDec m e)
| MP_float : forall m e, mperm (MFloat m e) (MFloat m e)
| MP_str : forall s, mperm (MStr s) (MStr s)
| MP_fmt : forall s, mperm (MFmt s) (MFmt s)
| MP_list : forall l l', Forall2 mperm l l' -> mperm (MList l) (MList l')
| MP_dict : forall l mid l', Forall2 (mrel mperm) l mid -> Permutation mid l' -> mperm (MDict l) (MDict l')
| MP_model : forall c fs fs', Forall2 (mrel mperm) fs fs' -> mperm (MModel c fs) (MModel c fs').

Notation frel := (Forall2 (@mrel string mval mperm)).

Fixpoint mperm_refl (v : mval) : mperm v v :=
  match v with
  | MNone => MP_none
  | MBool b => MP_bool b
  | MInt z => MP_int z
  | MDec m e => MP_dec m e
  | MFloat m e => MP_float m e
  | MStr s => MP_str s
  | MFmt s => MP_fmt s
  | MList l =>
    MP_list l l ((fix go (l : list mval) : Forall2 mperm l l :=
                    match l with
                    | [] => Forall2_nil _
                    | x :: r => Forall2_cons x x (mperm_refl x) (go r)
                    end) l)
  | MDict l =>
    MP_dict l l l ((fix go (l : list (str * mval)) : Forall2 (mrel mperm) l l :=
                      match l with
                      | [] => Forall2_nil _
                      | x :: r => Forall2_cons x x (conj eq_refl (mperm_refl (snd x))) (go r)
                      end) l) (Permutation_refl l)
  | MModel c fs =>
    MP_model c fs fs ((fix go (l : list (string * mval)) : Forall2 (mrel mperm) l l :=
                         match l with
                         | [] => Forall2_nil _
                         | x :: r => Forall2_cons x x (conj eq_refl (mperm_refl (snd x))) (go r)
                         end) fs)
  end.

Lemma mrel_refl_list : forall (K : Type) (l : list (K * mval)), Forall2 (mrel mperm) l l.
Proof. intros K l. induction l as [|x r IH]; constructor; [split; [reflexivity|apply mperm_refl]|exact IH]. Qed.

(* outcomes related: same exception, or accepted values related *)
Inductive olrel {A : Type} (Q : A -> A -> Prop) : outcome A -> outcome A -> Prop :=
| OL_ok : forall a b, Q a b -> olrel Q (Ok a) (Ok b)
| OL_raise : forall e, olrel Q (Raise e) (Raise e).

Notation orel := (olrel mperm).

Lemma orel_eq : forall x y : outcome mval, x = y -> orel x y.
Proof. intros x y <-. destruct x; constructor. apply mperm_refl. Qed.

Lemma olrel_is_ok : forall (A : Type) (Q : A -> A -> Prop) x y, olrel Q x y -> is_ok x = is_ok y.
Proof. intros A Q x y H. destruct H; reflexivity. Qed.

Lemma mapM_F2 : forall (A B : Type) (R : A -> A -> Prop) (Q : B -> B -> Prop) (f g : A -> outcome B) l l',
  Forall2 R l l' -> (forall x y, R x y -> olrel Q (f x) (g y)) ->
  olrel (Forall2 Q) (mapM f l) (mapM g l').
Proof.
  intros A B R Q f g l l' H Hfg. induction H as [|x y l l' Hxy _ IH]; [constructor; constructor|].
  cbn [mapM]. destruct (Hfg x y Hxy) as [a b Hab|e]; cbn [bind]; [|constructor].
  destruct IH as [u w Huw|e]; cbn [bind]; constructor. constructor; assumption.
Qed.

Lemma mapM_raise_in : forall (A B : Type) (f : A -> outcome B) l e,
  mapM f l = Raise e -> exists x, In x l /\ f x = Raise e.
Proof.
  intros A B f l e. induction l as [|a r IH]; intros H; [discriminate H|].
  cbn [mapM] in H. destruct (f a) as [b|e1] eqn:Ea; cbn [bind] in H.
  - destruct (mapM f r) as [bs|e2]; cbn [bind] in H; [discriminate H|].
    injection H as ->. destruct (IH eq_refl) as [x [Hx Hf]]. exists x. split; [right; exact Hx|exact Hf].
  - injection H as ->. exists a. split; [left; reflexivity|exact Ea].
Qed.

(* mapping a function whose only failure is ValueError over a permuted list *)
Lemma mapM_perm : forall (A B : Type) (f : A -> outcome B),
  (forall x e, f x = Raise e -> e = ValueError) ->
  forall l l', Permutation l l' -> olrel (@Permutation B) (mapM f l) (mapM f l').
Proof.
  intros A B f Hf l l' H.
  assert (Hm : forall l e, mapM f l = Raise e -> e = ValueError).
  { intros l0 e He. destruct (mapM_raise_in _ _ _ _ _ He) as [x [_ Hx]]. exact (Hf x e Hx). }
  induction H as [|x l l' Hp IH|x y l|l l' l'' Hp1 IH1 Hp2 IH2].
  - constructor. apply perm_nil.
  - cbn [mapM]. destruct (f x) as [b|e]; cbn [bind]; [|constructor].
    destruct IH as [u w Huw|e]; cbn [bind]; constructor. apply perm_skip. exact Huw.
  - cbn [mapM]. destruct (f x) as [b|e] eqn:Ex; destruct (f y) as [c|e'] eqn:Ey; cbn [bind].
    + destruct (mapM f l) as [u|e]; cbn [bind]; constructor. apply perm_swap.
    + constructor.
    + constructor.
    + rewrite (Hf x e Ex), (Hf y e' Ey). constructor.
  - destruct IH1 as [u w Huw|e]; inversion IH2; subst; constructor.
    eapply perm_trans; eassumption.
Qed.

(* ------------------------------------------------------------------ classes below a kind (as in DecodeInv.v) *)
Fixpoint dk_kind_classes (k : kind) : list string :=
  match k with
  | KModel c => [c]
  | KDisc _ mapping => map snd mapping
  | KUnion alts =>
    (fix go (l : list ualt) : list string :=
       match l with
       | [] => []
       | a :: r => dk_ualt_classes a ++ go r
       end) alts
  | _ => []
  end
with dk_ualt_classes (a : ualt) : list string :=
  match a with
  | UScalar k => dk_kind_classes k
  | UList _ _ k => dk_kind_classes k
  end.

Lemma dk_union_cons : forall a r, dk_kind_classes (KUnion (a :: r)) = dk_ualt_classes a ++ dk_kind_classes (KUnion r).
Proof. reflexivity. Qed.

(* a dictionary-valued field whose keys are strings and whose values are format strings: at
   positive fuel neither the key check nor the value check can leave the modelled domain, so the
   only failure of an entry is the validation error *)
Definition dict_simple (fl : field) : bool :=
  match f_shape fl with
  | DictOf (KStr _ _ _ _) => match f_kind fl with KFormat _ _ _ _ => true | _ => false end
  | DictOf _ => false
  | _ => true
  end.

Definition dk_closedb (SC : schema_t) (R : list string) : bool :=
  forallb (fun c => match lookup_cls SC c with
                    | Some c0 => forallb (fun fl => forallb (fun x => mem_s x R) (dk_kind_classes (f_kind fl))
                                                    && dict_simple fl) (c_fields c0)
                    | None => true
                    end) R.

Lemma dk_mem_s_In : forall x l, mem_s x l = true <-> In x l.
Proof.
  intros x l. unfold mem_s. rewrite existsb_exists. split.
  - intros [y [Hy He]]. apply String.eqb_eq in He. subst y. exact Hy.
  - intros H. exists x. split; [exact H|apply String.eqb_refl].
Qed.

Lemma dk_closedb_sound : forall SC R, dk_closedb SC R = true ->
  forall c c0, In c R -> lookup_cls SC c = Some c0 ->
  forall fl, In fl (c_fields c0) -> incl (dk_kind_classes (f_kind fl)) R /\ dict_simple fl = true.
Proof.
  intros SC R H c c0 Hc El fl Hfl. unfold dk_closedb in H. rewrite forallb_forall in H.
  specialize (H c Hc). rewrite El in H. rewrite forallb_forall in H. specialize (H fl Hfl).
  apply andb_true_iff in H. destruct H as [H1 H2]. split; [|exact H2].
  intros x Hx. rewrite forallb_forall in H1. apply dk_mem_s_In. apply H1. exact Hx.
Qed.

(* ------------------------------------------------------------------ the structural layer *)

Lemma parse_scalar_jperm : forall classify k v v', jperm v v' ->
  parse_scalar classify k v = parse_scalar classify k v'.
Proof. intros classify k v v' H. destruct H; try reflexivity; destruct k; reflexivity. Qed.

Lemma forallb_map_fst : forall (A : Type) (p : str -> bool) (a b : list (str * A)),
  map fst a = map fst b -> forallb (fun kv => p (fst kv)) a = forallb (fun kv => p (fst kv)) b.
Proof.
  intros A p a. induction a as [|x r IH]; intros [|y s] E; try discriminate E; [reflexivity|].
  cbn [map] in E. injection E as E1 E2. cbn [forallb]. rewrite E1, (IH s E2). reflexivity.
Qed.

Lemma F2_length : forall (A : Type) (R : A -> A -> Prop) l l', Forall2 R l l' -> List.length l = List.length l'.
Proof. intros A R l l' H. induction H as [|x y l l' _ _ IH]; [reflexivity|]. cbn [List.length]. rewrite IH. reflexivity. Qed.

Section Congruence.
  Variable SC : schema_t.
  Variable classify : N -> cclass.
  Variable pre : string -> json -> bool.
  Variable post : string -> json -> list (string * mval) -> bool.
  Notation pk := (parse_kind SC classify pre post).
  Notation pc := (parse_cls SC classify pre post).

  Variable R : list string.
  Hypothesis closed : forall c c0, In c R -> lookup_cls SC c = Some c0 ->
    forall fl, In fl (c_fields c0) -> incl (dk_kind_classes (f_kind fl)) R /\ dict_simple fl = true.
  Hypothesis Hpre : forall c v v', jperm v v' -> pre c v = pre c v'.
  Hypothesis Hpost : forall c v v' fs fs', In c R -> jperm v v' -> frel fs fs' -> post c v fs = post c v' fs'.

  Definition Pk (f : nat) : Prop :=
    forall k v v', incl (dk_kind_classes k) R -> jperm v v' -> orel (pk f k v) (pk f k v').
  Definition Pc (f : nat) : Prop :=
    forall c v v', In c R -> jperm v v' -> orel (pc f c v) (pc f c v').

  Lemma list_items_jperm : forall f lo hi k v v', Pk f -> incl (dk_kind_classes k) R -> jperm v v' ->
    orel (list_items (pk f) lo hi k v) (list_items (pk f) lo hi k v').
  Proof.
    intros f lo hi k v v' IHk Hk H. destruct H as [|b|z|m e|s|a a' Ha|ms mid ms' Hnd Hm Hp];
      try (apply orel_eq; reflexivity).
    cbn [list_items]. rewrite <- (F2_length _ _ _ _ Ha).
    destruct (len_ok_n lo hi (List.length a)); [|constructor].
    destruct (mapM_F2 _ _ jperm mperm (pk f k) (pk f k) a a' Ha (fun x y Hxy => IHk k x y Hk Hxy)) as [u w Huw|e];
      cbn [bind]; constructor. constructor. exact Huw.
  Qed.

  Lemma dict_jperm : forall f kk k ms mid ms' a b c d a2 b2 c2 d2,
    kk = KStr a b c d -> k = KFormat a2 b2 c2 d2 ->
    Forall2 (mrel jperm) ms mid -> Permutation mid ms' ->
    olrel (@Permutation (str * mval)) (mapM (dict_entry (pk f) kk k) ms) (mapM (dict_entry (pk f) kk k) ms').
  Proof.
    intros f kk k ms mid ms' a b c d a2 b2 c2 d2 -> -> Hm Hp.
    set (g := dict_entry (pk f) (KStr a b c d) (KFormat a2 b2 c2 d2)).
    assert (E : mapM g ms = mapM g mid).
    { clear Hp. induction Hm as [|[k1 v1] [k2 v2] r r' [Hk Hv] _ IH]; [reflexivity|].
      cbn [fst snd] in Hk, Hv. subst k2. cbn [mapM]. rewrite IH.
      assert (Eg : g (k1, v1) = g (k1, v2)).
      { unfold g, dict_entry. cbn [fst snd]. destruct f as [|f']; [reflexivity|].
        rewrite !parse_kind_S. rewrite (parse_scalar_jperm classify _ v1 v2 Hv). reflexivity. }
      rewrite Eg. reflexivity. }
    rewrite E. destruct f as [|f'].
    - (* no fuel: every entry is out of the domain *)
      assert (Hg : forall l, mapM g l = match l with [] => Ok [] | _ => Raise RuntimeError end).
      { intros [|x l]; reflexivity. }
      rewrite !Hg. destruct Hp as [|x l l' Hp|x y l|l l' l'' Hp1 Hp2]; try constructor.
      + apply perm_nil.
      + destruct l as [|x l].
        * apply Permutation_nil in Hp1. subst l'. apply Permutation_nil in Hp2. subst l''. constructor. apply perm_nil.
        * destruct l'' as [|z l'']; [|constructor].
          exfalso. apply Permutation_sym in Hp2. apply Permutation_nil in Hp2. subst l'.
          apply Permutation_sym in Hp1. apply Permutation_nil in Hp1. discriminate Hp1.
    - apply mapM_perm; [|exact Hp].
      intros [k1 v1] e He. unfold g, dict_entry in He. cbn [fst snd] in He. rewrite !parse_kind_S in He.
      cbn [parse_scalar] in He.
      unfold check_str in He.
      destruct (len_ok b c k1 && cs_ok d k1); cbn [bind] in He; [|injection He as <-; reflexivity].
      destruct v1 as [|bb|z|m e1|s|l|members]; try (injection He as <-; reflexivity).
      destruct (len_ok b2 c2 s && cs_ok d2 s && fs_ok classify s); cbn [bind] in He;
        [discriminate He|injection He as <-; reflexivity].
  Qed.

  Lemma parse_value_jperm : forall f fl raw raw', Pk f ->
    incl (dk_kind_classes (f_kind fl)) R -> dict_simple fl = true -> jperm raw raw' ->
    orel (parse_value (pk f) fl raw) (parse_value (pk f) fl raw').
  Proof.
    intros f fl raw raw' IHk Hk Hd H.
    assert (Hnn : forall r, is_null r = false ->
              parse_value (pk f) fl r =
              match f_shape fl with
              | Single => pk f (f_kind fl) r
              | ListOf minl maxl => list_items (pk f) minl maxl (f_kind fl) r
              | DictOf kk =>
                match r with
                | JObj members => do l' <- mapM (dict_entry (pk f) kk (f_kind fl)) members; Ok (MDict l')
                | _ => reject
                end
              end).
    { intros r Hr. destruct r; try reflexivity. discriminate Hr. }
    destruct (is_null raw) eqn:En.
    - destruct H; try discriminate En. apply orel_eq. reflexivity.
    - rewrite (Hnn raw En). rewrite (Hnn raw') by (rewrite <- (jperm_is_null _ _ H); exact En).
      unfold dict_simple in Hd. destruct (f_shape fl) as [|lo hi|kk].
      + apply IHk; assumption.
      + apply list_items_jperm; assumption.
      + destruct kk as [| |a b c d| | | | | | | |]; try discriminate Hd.
        destruct (f_kind fl) as [| | |a2 b2 c2 d2| | | | | | |] eqn:Ek; try discriminate Hd.
        destruct H as [|bb|z|m e|s|l l' Hl|ms mid ms' Hnd Hm Hp]; try (apply orel_eq; reflexivity).
        * destruct (dict_jperm f _ _ ms mid ms' a b c d a2 b2 c2 d2 eq_refl eq_refl Hm Hp) as [u w Huw|e];
            cbn [bind]; constructor.
          apply (MP_dict u u w); [apply mrel_refl_list|exact Huw].
  Qed.

  Lemma disc_res_jget : forall pcf key mp v,
    disc_res pcf key mp v =
    match v with
    | JObj _ =>
      match jget key v with
      | JStr s => match List.find (fun kc => str_eqb (str_of_string (fst kc)) s) mp with
                  | Some (_, c) => pcf c v
                  | None => reject
                  end
      | _ => reject
      end
    | _ => reject
    end.
  Proof.
    intros pcf key mp v. destruct v as [| | | | | |ms]; try reflexivity.
    cbn [disc_res jget]. destruct (assoc (str_of_string key) ms) as [[| | | | | |]|]; reflexivity.
  Qed.

  Lemma extra_bad_jperm : forall c0 ms mid ms', Forall2 (mrel jperm) ms mid -> Permutation mid ms' ->
    extra_bad c0 ms = extra_bad c0 ms'.
  Proof.
    intros c0 ms mid ms' Hm Hp. unfold extra_bad. f_equal. f_equal.
    rewrite <- (forallb_perm _ _ mid ms' Hp).
    apply (forallb_map_fst _ (alias_known (c_fields c0))). apply (F2_keys _ _ _ _ _ Hm).
  Qed.

  Lemma step : forall f, Pk f -> Pc f -> Pk (S f) /\ Pc (S f).
  Proof.
    intros f IHk IHc. split.
    - intros k v v' Hk H. rewrite !parse_kind_S.
      destruct k as [lit|members|strict lo hi cs|c lo hi cs|strict|strict ge le gt|gt| |c|key mp|alts];
        try (apply orel_eq; apply parse_scalar_jperm; exact H).
      + apply IHc; [apply Hk; left; reflexivity|exact H].
      + rewrite !disc_res_jget. pose proof (jperm_jget _ _ H key) as Hj.
        pose proof (jperm_is_obj _ _ H) as Ho.
        destruct v as [| | | | | |ms]; destruct v' as [| | | | | |ms']; try discriminate Ho; try constructor.
        jcase Hj; try constructor.
        destruct (List.find (fun kc => str_eqb (str_of_string (fst kc)) s) mp) as [[k' c']|] eqn:Ef; [|constructor].
        apply IHc; [|exact H]. apply Hk. cbn [dk_kind_classes].
        apply find_some in Ef. destruct Ef as [Hin _]. apply (in_map snd) in Hin. exact Hin.
      + induction alts as [|a r IHa]; [rewrite !try_alts_nil; constructor|].
        rewrite !try_alts_cons. rewrite dk_union_cons in Hk.
        assert (Ha : orel (alt_res (pk f) a v) (alt_res (pk f) a v')).
        { destruct a as [k'|lo hi k']; cbn [alt_res].
          - apply IHk; [|exact H]. intros x Hx. apply Hk. apply in_or_app. left. exact Hx.
          - apply list_items_jperm; [exact IHk| |exact H]. intros x Hx. apply Hk. apply in_or_app. left. exact Hx. }
        destruct Ha as [x y Hxy|e]; [constructor; exact Hxy|].
        assert (Hr : orel (try_alts (pk f) v r) (try_alts (pk f) v' r)).
        { apply IHa. intros x Hx. apply Hk. apply in_or_app. right. exact Hx. }
        destruct e; try exact Hr. constructor.
    - intros c v v' Hc H. rewrite !parse_cls_S.
      destruct (lookup_cls SC c) as [c0|] eqn:El;
        [|destruct H; constructor].
      destruct H as [|b|z|m e|s|l l' Hl|ms mid ms' Hnd Hm Hp]; try constructor.
      assert (HJ : jperm (JObj ms) (JObj ms')) by (econstructor; eassumption).
      rewrite (Hpre c _ _ HJ). destruct (negb (pre c (JObj ms'))); [constructor|].
      rewrite (extra_bad_jperm c0 ms mid ms' Hm Hp). destruct (extra_bad c0 ms'); [constructor|].
      assert (Hf : olrel (Forall2 (mrel mperm))
                         (mapM (parse_field (pk f) ms) (c_fields c0)) (mapM (parse_field (pk f) ms') (c_fields c0))).
      { assert (Hgen : forall fls, incl fls (c_fields c0) ->
                  olrel (Forall2 (mrel mperm)) (mapM (parse_field (pk f) ms) fls) (mapM (parse_field (pk f) ms') fls));
          [|apply Hgen; apply incl_refl].
        induction fls as [|fl r IHr]; intros Hincl; [constructor; constructor|].
        specialize (IHr (fun x Hx => Hincl x (or_intror Hx))).
        assert (Hfl : In fl (c_fields c0)) by (apply Hincl; left; reflexivity).
        cbn [mapM]. unfold parse_field at 1 3.
        destruct (closed c c0 Hc El fl Hfl) as [Hk Hd].
        assert (Hv : orel (parse_value (pk f) fl (field_raw ms fl)) (parse_value (pk f) fl (field_raw ms' fl))).
        { apply parse_value_jperm; try assumption.
          change (jperm (jget (f_alias fl) (JObj ms)) (jget (f_alias fl) (JObj ms'))). apply jperm_jget. exact HJ. }
        destruct Hv as [x y Hxy|e]; cbn [bind]; [|constructor].
        destruct IHr as [u w Huw|e]; cbn [bind]; constructor.
        constructor; [split; [reflexivity|exact Hxy]|exact Huw]. }
      destruct Hf as [u w Huw|e]; cbn [bind]; [|constructor].
      rewrite (Hpost c _ _ u w Hc HJ Huw). destruct (post c (JObj ms') w); constructor.
      constructor. exact Huw.
  Qed.

  Theorem parse_jperm : forall f, Pk f /\ Pc f.
  Proof.
    induction f as [|f [IHk IHc]].
    - split; intros ? ? ? _ _; constructor.
    - apply step; assumption.
  Qed.
End Congruence.

(* ------------------------------------------------------------------ observations of related values *)

Lemma forallb_F2 : forall (A : Type) (R : A -> A -> Prop) (p q : A -> bool) l l',
  Forall2 R l l' -> (forall x y, R x y -> p x = q y) -> forallb p l = forallb q l'.
Proof.
  intros A R p q l l' H Hpq. induction H as [|x y l l' Hxy _ IH]; [reflexivity|].
  cbn [forallb]. rewrite (Hpq x y Hxy), IH. reflexivity.
Qed.

Lemma existsb_F2 : forall (A : Type) (R : A -> A -> Prop) (p q : A -> bool) l l',
  Forall2 R l l' -> (forall x y, R x y -> p x = q y) -> existsb p l = existsb q l'.
Proof.
  intros A R p q l l' H Hpq. induction H as [|x y l l' Hxy _ IH]; [reflexivity|].
  cbn [existsb]. rewrite (Hpq x y Hxy), IH. reflexivity.
Qed.

Lemma map_F2_eq : forall (A B : Type) (R : A -> A -> Prop) (f g : A -> B) l l',
  Forall2 R l l' -> (forall x y, R x y -> f x = g y) -> map f l = map g l'.
Proof.
  intros A B R f g l l' H Hfg. induction H as [|x y l l' Hxy _ IH]; [reflexivity|].
  cbn [map]. rewrite (Hfg x y Hxy), IH. reflexivity.
Qed.

Lemma fget_rel : forall name fs fs', frel fs fs' -> mperm (fget name fs) (fget name fs').
Proof.
  intros name fs fs' H. unfold fget, mfield.
  induction H as [|[k1 v1] [k2 v2] l l' [Hk Hv] _ IH]; [constructor|].
  cbn [fst snd] in Hk, Hv. subst k2. cbn [lookup_s]. destruct (String.eqb k1 name); [exact Hv|exact IH].
Qed.

Lemma mstr_rel : forall a b, mperm a b -> mstr a = mstr b.
Proof. intros a b H. destruct H; reflexivity. Qed.

Lemma num_of_rel : forall a b, mperm a b -> num_of a = num_of b.
Proof. intros a b H. destruct H; reflexivity. Qed.

Lemma is_none_rel : forall a b, mperm a b -> is_none a = is_none b.
Proof. intros a b H. destruct H; reflexivity. Qed.

Lemma mitems_rel : forall a b, mperm a b -> Forall2 mperm (mitems a) (mitems b).
Proof. intros a b H. destruct H; try constructor. assumption. Qed.

Lemma model_fields_rel : forall a b, mperm a b -> frel (model_fields a) (model_fields b).
Proof. intros a b H. destruct H; try constructor. assumption. Qed.

Lemma mitems_length_rel : forall a b, mperm a b -> List.length (mitems a) = List.length (mitems b).
Proof. intros a b H. apply (F2_length _ _ _ _ (mitems_rel a b H)). Qed.

(* [match v with MNone => true | _ => X end] *)
Lemma none_or_rel : forall (a b : mval) (X Y : bool), mperm a b -> X = Y ->
  (match a with MNone => true | _ => X end) = (match b with MNone => true | _ => Y end).
Proof. intros a b X Y H E. destruct H; try reflexivity; exact E. Qed.

(* [match v with MList (_ :: _) => true | _ => false end], [match v with MList [] => false | _ => true end] *)
Lemma nonempty_list_rel : forall a b, mperm a b ->
  (match a with MList (_ :: _) => true | _ => false end) = (match b with MList (_ :: _) => true | _ => false end).
Proof. intros a b H. destruct H as [| | | | | | |l l' Hl| |]; try reflexivity. destruct Hl; reflexivity. Qed.

Lemma empty_list_rel : forall a b, mperm a b ->
  (match a with MList [] => false | _ => true end) = (match b with MList [] => false | _ => true end).
Proof. intros a b H. destruct H as [| | | | | | |l l' Hl| |]; try reflexivity. destruct Hl; reflexivity. Qed.

(* the one validator that looks at a dictionary: Environment, "variables must not be empty" *)
Lemma empty_dict_rel : forall a b, mperm a b ->
  (match a with MDict [] => false | _ => true end) = (match b with MDict [] => false | _ => true end).
Proof.
  intros a b H. destruct H as [| | | | | | | |l mid l' Hm Hp|]; try reflexivity.
  destruct Hm as [|x y r r' _ _].
  - apply Permutation_nil in Hp. subst l'. reflexivity.
  - destruct l' as [|z l']; [|reflexivity]. apply Permutation_sym, Permutation_nil in Hp. discriminate Hp.
Qed.

Lemma names_of_rel : forall a b, mperm a b -> names_of a = names_of b.
Proof.
  intros a b H. unfold names_of. apply (map_F2_eq _ _ mperm); [apply mitems_rel; exact H|].
  intros x y Hxy. apply mstr_rel. apply fget_rel. apply model_fields_rel. exact Hxy.
Qed.

Lemma unique_names_rel : forall a b, mperm a b -> unique_names a = unique_names b.
Proof.
  intros a b H. unfold unique_names. apply none_or_rel; [exact H|]. rewrite (names_of_rel a b H). reflexivity.
Qed.

Lemma dep_names_rel : forall a b, mperm a b -> dep_names a = dep_names b.
Proof.
  intros a b H. unfold dep_names. apply (map_F2_eq _ _ mperm).
  - apply mitems_rel. apply fget_rel. apply model_fields_rel. exact H.
  - intros x y Hxy. apply mstr_rel. apply fget_rel. apply model_fields_rel. exact Hxy.
Qed.

Lemma combine_F2 : forall (I A B : Type) (R : A -> A -> Prop) (Q : B -> B -> Prop) (F G : I * A -> B) l l',
  Forall2 R l l' -> (forall i x y, R x y -> Q (F (i, x)) (G (i, y))) ->
  forall idx, Forall2 Q (map F (combine idx l)) (map G (combine idx l')).
Proof.
  intros I A B R Q F G l l' H HQ. induction H as [|x y l l' E _ IH]; intros [|i idx]; try constructor.
  - apply HQ. exact E.
  - apply IH.
Qed.

Lemma dep_job_rel : forall a b, mperm a b -> dep_job a = dep_job b.
Proof.
  intros a b H. unfold dep_job. rewrite (names_of_rel a b H).
  apply F2_eq. apply (combine_F2 _ _ _ mperm); [apply mitems_rel; exact H|].
  intros i x y Hxy. cbn [fst snd]. rewrite (dep_names_rel x y Hxy). reflexivity.
Qed.

Ltac frel_field Hfs n :=
  match type of Hfs with
  | Forall2 _ ?fs ?fs' =>
    let H := fresh "Hf" in let a := fresh "a" in let b := fresh "b" in
    pose proof (fget_rel n fs fs' Hfs) as H;
    set (a := fget n fs) in *; set (b := fget n fs') in *; clearbody a b
  end.

Section Validators.
  Variable classify : N -> cclass.

  Lemma fmt_items_rel : forall l l', Forall2 mperm l l' ->
    forallb (fun it => match it with MFmt s => has_refs classify s | _ => true end) l
    = forallb (fun it => match it with MFmt s => has_refs classify s | _ => true end) l'.
  Proof. intros l l' H. apply (forallb_F2 _ mperm); [exact H|]. intros x y Hxy. destruct Hxy; reflexivity. Qed.

  Lemma len_within_rel : forall a a' b b' s, mperm a a' -> mperm b b' -> len_within a b s = len_within a' b' s.
  Proof. intros a a' b b' s Ha Hb. unfold len_within. destruct Ha, Hb; reflexivity. Qed.

  Lemma opt_le_rel : forall a a' b b', mperm a a' -> mperm b b' -> opt_le a b = opt_le a' b'.
  Proof. intros a a' b b' Ha Hb. unfold opt_le. rewrite (num_of_rel a a' Ha), (num_of_rel b b' Hb). reflexivity. Qed.

  Lemma num_within_rel : forall a a' b b' v v', mperm a a' -> mperm b b' -> mperm v v' ->
    num_within a b v = num_within a' b' v'.
  Proof.
    intros a a' b b' v v' Ha Hb Hv. unfold num_within.
    rewrite (opt_le_rel a a' v v' Ha Hv), (opt_le_rel v v' b b' Hv Hb). reflexivity.
  Qed.

  Lemma has_allowed_rel : forall fs fs', frel fs fs' -> has_allowed fs = has_allowed fs'.
  Proof. intros fs fs' H. unfold has_allowed. apply nonempty_list_rel. apply fget_rel. exact H. Qed.

  Lemma control_of_rel : forall fs fs', frel fs fs' -> control_of fs = control_of fs'.
  Proof.
    intros fs fs' H. unfold control_of. frel_field H "userInterface".
    destruct Hf as [| | | | | | | | |c u u' Hu]; try reflexivity.
    rewrite (mstr_rel _ _ (fget_rel "control" u u' Hu)). reflexivity.
  Qed.

  Lemma string_param_ok_rel : forall fs fs', frel fs fs' -> string_param_ok fs = string_param_ok fs'.
  Proof.
    intros fs fs' H. unfold string_param_ok. cbv zeta.
    frel_field H "minLength". frel_field H "maxLength". frel_field H "allowedValues". frel_field H "default".
    assert (E1 : (match a with MInt x => (0 <? x)%Z | _ => true end) = (match b with MInt x => (0 <? x)%Z | _ => true end))
      by (destruct Hf; reflexivity).
    assert (E2 : (match a0 with MInt x => (0 <? x)%Z | _ => true end) = (match b0 with MInt x => (0 <? x)%Z | _ => true end))
      by (destruct Hf0; reflexivity).
    rewrite E1, E2, (opt_le_rel a b a0 b0 Hf Hf0).
    assert (E4 : forallb (fun it => len_within a a0 (mstr it)) (mitems a1)
                 = forallb (fun it => len_within b b0 (mstr it)) (mitems b1)).
    { apply (forallb_F2 _ mperm); [apply mitems_rel; exact Hf1|].
      intros x y Hxy. rewrite (mstr_rel x y Hxy). apply len_within_rel; assumption. }
    rewrite E4. f_equal.
    destruct Hf2; try reflexivity.
    rewrite (len_within_rel a b a0 b0 s Hf Hf0). f_equal.
    apply none_or_rel; [exact Hf1|].
    apply (existsb_F2 _ mperm); [apply mitems_rel; exact Hf1|].
    intros x y Hxy. rewrite (mstr_rel x y Hxy). reflexivity.
  Qed.

  Lemma string_ui_ok_rel : forall fs fs', frel fs fs' -> string_ui_ok fs = string_ui_ok fs'.
  Proof.
    intros fs fs' H. unfold string_ui_ok.
    rewrite (control_of_rel fs fs' H), (has_allowed_rel fs fs' H).
    destruct (control_of fs') as [ctl|]; [|reflexivity].
    f_equal. destruct (str_eqb ctl $"CHECK_BOX"); [|reflexivity].
    frel_field H "allowedValues".
    assert (E : map (fun it => upper_s (mstr it)) (mitems a) = map (fun it => upper_s (mstr it)) (mitems b)).
    { apply (map_F2_eq _ _ mperm); [apply mitems_rel; exact Hf|].
      intros x y Hxy. rewrite (mstr_rel x y Hxy). reflexivity. }
    destruct Hf; try reflexivity; cbv zeta; rewrite E; reflexivity.
  Qed.

  Lemma path_ui_ok_rel : forall fs fs', frel fs fs' -> path_ui_ok fs = path_ui_ok fs'.
  Proof.
    intros fs fs' H. unfold path_ui_ok. rewrite (has_allowed_rel fs fs' H).
    rewrite (mstr_rel _ _ (fget_rel "objectType" fs fs' H)).
    frel_field H "userInterface".
    destruct Hf as [| | | | | | | | |c u u' Hu]; try reflexivity.
    cbv zeta.
    rewrite (mstr_rel _ _ (fget_rel "control" u u' Hu)).
    rewrite (nonempty_list_rel _ _ (fget_rel "fileFilters" u u' Hu)).
    rewrite (is_none_rel _ _ (fget_rel "fileFilterDefault" u u' Hu)). reflexivity.
  Qed.

  Lemma num_param_ok_rel : forall fs fs', frel fs fs' -> num_param_ok fs = num_param_ok fs'.
  Proof.
    intros fs fs' H. unfold num_param_ok. cbv zeta.
    frel_field H "minValue". frel_field H "maxValue". frel_field H "allowedValues". frel_field H "default".
    rewrite (opt_le_rel a b a0 b0 Hf Hf0).
    assert (E2 : forallb (num_within a a0) (mitems a1) = forallb (num_within b b0) (mitems b1)).
    { apply (forallb_F2 _ mperm); [apply mitems_rel; exact Hf1|].
      intros x y Hxy. apply num_within_rel; assumption. }
    rewrite E2. f_equal.
    rewrite (num_of_rel a2 b2 Hf2). destruct (num_of b2) as [d|]; [|reflexivity].
    rewrite (num_within_rel a b a0 b0 a2 b2 Hf Hf0 Hf2). f_equal.
    apply none_or_rel; [exact Hf1|].
    apply (existsb_F2 _ mperm); [apply mitems_rel; exact Hf1|].
    intros x y Hxy. rewrite (num_of_rel x y Hxy). reflexivity.
  Qed.

  Lemma num_ui_ok_rel : forall fs fs', frel fs fs' -> num_ui_ok fs = num_ui_ok fs'.
  Proof.
    intros fs fs' H. unfold num_ui_ok. rewrite (has_allowed_rel fs fs' H).
    frel_field H "userInterface".
    destruct Hf as [| | | | | | | | |c u u' Hu]; try reflexivity.
    cbv zeta.
    rewrite (mstr_rel _ _ (fget_rel "control" u u' Hu)).
    rewrite (num_of_rel _ _ (fget_rel "singleStepDelta" u u' Hu)). reflexivity.
  Qed.

  Lemma attribute_list_ok_rel : forall n n' v v' f, mperm n n' -> mperm v v' ->
    attribute_list_ok classify n v f = attribute_list_ok classify n' v' f.
  Proof.
    intros n n' v v' f Hn Hv. unfold attribute_list_ok. apply none_or_rel; [exact Hv|].
    destruct Hn; try reflexivity. cbv zeta.
    destruct (List.find (fun e => str_eqb (lower_s s) (str_of_string (fst e))) std_attr_caps) as [[k [values multivalued]]|].
    - rewrite (mitems_length_rel v v' Hv). f_equal.
      apply (forallb_F2 _ mperm); [apply mitems_rel; exact Hv|].
      intros x y Hxy. rewrite (mstr_rel x y Hxy). reflexivity.
    - apply (forallb_F2 _ mperm); [apply mitems_rel; exact Hv|].
      intros x y Hxy. rewrite (mstr_rel x y Hxy). reflexivity.
  Qed.

  Lemma job_template_ok_rel : forall raw raw' fs fs', jperm raw raw' -> frel fs fs' ->
    job_template_ok classify raw fs = job_template_ok classify raw' fs'.
  Proof.
    intros raw raw' fs fs' Hr H. unfold job_template_ok. cbv zeta.
    pose proof (fget_rel "steps" fs fs' H) as Hs.
    pose proof (fget_rel "jobEnvironments" fs fs' H) as He.
    rewrite (names_of_rel _ _ Hs), (dep_job_rel _ _ Hs).
    rewrite (unique_names_rel _ _ (fget_rel "parameterDefinitions" fs fs' H)).
    rewrite (unique_names_rel _ _ He).
    unfold env_names. rewrite (names_of_rel _ _ He).
    change (match prevalidate schema (fs_refs classify) "JobTemplate" raw with [] => true | _ => false end)
      with (no_errors (prevalidate schema (fs_refs classify) "JobTemplate" raw)).
    change (match prevalidate schema (fs_refs classify) "JobTemplate" raw' with [] => true | _ => false end)
      with (no_errors (prevalidate schema (fs_refs classify) "JobTemplate" raw')).
    rewrite (no_errors_perm _ _ (proj1 (prevalidate_jperm (fs_refs classify) raw raw' Hr))).
    f_equal; [f_equal|].
    - apply (forallb_F2 _ mperm); [apply mitems_rel; exact Hs|].
      intros x y Hxy. rewrite (dep_names_rel x y Hxy). reflexivity.
    - apply (forallb_F2 _ mperm); [apply mitems_rel; exact Hs|].
      intros x y Hxy.
      rewrite (names_of_rel _ _ (fget_rel "stepEnvironments" _ _ (model_fields_rel x y Hxy))). reflexivity.
  Qed.

  Lemma pre_hook_jperm : forall c v v', jperm v v' -> pre_hook c v = pre_hook c v'.
  Proof.
    intros c v v' H. unfold pre_hook.
    assert (Hnull : forall n, is_null (jget n v) = is_null (jget n v')).
    { intros n. apply jperm_is_null. apply jperm_jget. exact H. }
    assert (Harr : forall p n, (forall x y, jperm x y -> p x = p y) ->
              (match jget n v with JArr items => forallb p items | _ => true end)
              = (match jget n v' with JArr items => forallb p items | _ => true end)).
    { intros p n Hp. pose proof (jperm_jget v v' H n) as Hn. jcase Hn; try reflexivity.
      apply (forallb_F2 _ jperm); assumption. }
    assert (Hnor : forall p n, (forall x y, jperm x y -> p x = p y) ->
              raw_null_or p (jget n v) = raw_null_or p (jget n v')).
    { intros p n Hp. pose proof (jperm_jget v v' H n) as Hn. unfold raw_null_or.
      rewrite (Hp _ _ Hn). jcase Hn; reflexivity. }
    assert (Hi : forall x y, jperm x y -> raw_int_or_str x = raw_int_or_str y) by (intros x y Hxy; destruct Hxy; reflexivity).
    assert (Hn : forall x y, jperm x y -> raw_num_or_str x = raw_num_or_str y) by (intros x y Hxy; destruct Hxy; reflexivity).
    rewrite !Hnull. rewrite !(Harr _ _ Hi). rewrite !(Harr _ _ Hn). rewrite !(Hnor _ _ Hi). reflexivity.
  Qed.

  (* every post validator of Validators.v, on jperm-related raw objects and mperm-related parsed
     fields.  The one class left out, StepParameterSpace, is a job-side target class (it is not
     below the template roots): its validator looks dictionary members up BY KEY, which is
     order-insensitive only for distinct keys, and [mperm] does not record distinctness. *)
  Theorem post_hook_mperm : forall c raw raw' fs fs', c <> "StepParameterSpace" ->
    jperm raw raw' -> frel fs fs' -> post_hook classify c raw fs = post_hook classify c raw' fs'.
  Proof.
    intros c raw raw' fs fs' Hc Hr H. unfold post_hook.
    destruct (String.eqb c "StepScript" || String.eqb c "EnvironmentScript").
    { apply unique_names_rel. apply fget_rel. exact H. }
    destruct (String.eqb c "IntTaskParameterDefinition").
    { frel_field H "range". destruct Hf; try reflexivity. apply fmt_items_rel. assumption. }
    destruct (String.eqb c "FloatTaskParameterDefinition").
    { apply fmt_items_rel. apply mitems_rel. apply fget_rel. exact H. }
    destruct (String.eqb c "StepParameterSpaceDefinition").
    { cbv zeta. rewrite (names_of_rel _ _ (fget_rel "taskParameterDefinitions" fs fs' H)). f_equal.
      frel_field H "combination". destruct Hf; reflexivity. }
    destruct (String.eqb c "Environment").
    { apply empty_dict_rel. apply fget_rel. exact H. }
    destruct (String.eqb c "JobStringParameterDefinition").
    { rewrite (string_param_ok_rel fs fs' H), (string_ui_ok_rel fs fs' H). reflexivity. }
    destruct (String.eqb c "JobPathParameterDefinition").
    { rewrite (string_param_ok_rel fs fs' H), (path_ui_ok_rel fs fs' H). reflexivity. }
    destruct (String.eqb c "JobIntParameterDefinition" || String.eqb c "JobFloatParameterDefinition").
    { rewrite (num_param_ok_rel fs fs' H), (num_ui_ok_rel fs fs' H). reflexivity. }
    destruct (String.eqb c "AmountRequirementTemplate").
    { rewrite (mstr_rel _ _ (fget_rel "name" fs fs' H)).
      rewrite (num_of_rel _ _ (fget_rel "min" fs fs' H)), (num_of_rel _ _ (fget_rel "max" fs fs' H)).
      rewrite (opt_le_rel _ _ _ _ (fget_rel "min" fs fs' H) (fget_rel "max" fs fs' H)). reflexivity. }
    destruct (String.eqb c "AttributeRequirementTemplate").
    { rewrite (mstr_rel _ _ (fget_rel "name" fs fs' H)).
      rewrite (attribute_list_ok_rel _ _ _ _ false (fget_rel "name" fs fs' H) (fget_rel "anyOf" fs fs' H)).
      rewrite (attribute_list_ok_rel _ _ _ _ true (fget_rel "name" fs fs' H) (fget_rel "allOf" fs fs' H)).
      reflexivity. }
    destruct (String.eqb c "HostRequirementsTemplate").
    { cbv zeta.
      pose proof (fget_rel "amounts" fs fs' H) as Ha. pose proof (fget_rel "attributes" fs fs' H) as Hb.
      rewrite (empty_list_rel _ _ Ha), (empty_list_rel _ _ Hb), (is_none_rel _ _ Ha), (is_none_rel _ _ Hb).
      rewrite (mitems_length_rel _ _ Ha), (mitems_length_rel _ _ Hb). reflexivity. }
    destruct (String.eqb c "StepTemplate").
    { cbv zeta.
      assert (Hm : mperm (MModel c fs) (MModel c fs')) by (constructor; exact H).
      rewrite (dep_names_rel _ _ Hm).
      rewrite (unique_names_rel _ _ (fget_rel "stepEnvironments" fs fs' H)).
      rewrite (mstr_rel _ _ (fget_rel "name" fs fs' H)). reflexivity. }
    destruct (String.eqb c "RangeExpressionTaskParameterDefinition").
    { rewrite (mstr_rel _ _ (fget_rel "range" fs fs' H)). reflexivity. }
    destruct (String.eqb c "IntRangeListTaskParameterDefinition").
    { apply (forallb_F2 _ mperm); [apply mitems_rel; apply fget_rel; exact H|].
      intros x y Hxy. rewrite (mstr_rel x y Hxy). reflexivity. }
    destruct (String.eqb c "FloatRangeListTaskParameterDefinition").
    { apply (forallb_F2 _ mperm); [apply mitems_rel; apply fget_rel; exact H|].
      intros x y Hxy. rewrite (mstr_rel x y Hxy). reflexivity. }
    destruct (String.eqb c "StepParameterSpace") eqn:E.
    { apply String.eqb_eq in E. contradiction. }
    destruct (String.eqb c "JobTemplate").
    { apply job_template_ok_rel; assumption. }
    destruct (String.eqb c "EnvironmentTemplate").
    { rewrite (unique_names_rel _ _ (fget_rel "parameterDefinitions" fs fs' H)). f_equal.
      change (no_errors (prevalidate schema (fs_refs classify) "EnvironmentTemplate" raw)
              = no_errors (prevalidate schema (fs_refs classify) "EnvironmentTemplate" raw')).
      apply no_errors_perm. apply (prevalidate_jperm (fs_refs classify) raw raw' Hr). }
    reflexivity.
  Qed.
End Validators.

(* ------------------------------------------------------------------ the live schema *)

(* the classes below the two template roots: least set containing the roots and closed under
   "class of a field", computed from Generated.schema *)
Definition field_classes (SC : schema_t) (c : string) : list string :=
  match lookup_cls SC c with
  | Some c0 => flat_map (fun fl => dk_kind_classes (f_kind fl)) (c_fields c0)
  | None => []
  end.

Fixpoint add_new (acc l : list string) : list string :=
  match l with
  | [] => acc
  | x :: r => if mem_s x acc then add_new acc r else add_new (acc ++ [x]) r
  end.

Fixpoint reach (SC : schema_t) (fuel : nat) (acc : list string) : list string :=
  match fuel with
  | O => acc
  | S f => reach SC f (add_new acc (flat_map (field_classes SC) acc))
  end.

Definition RT : list string := reach Generated.schema (List.length Generated.schema) ["JobTemplate"; "EnvironmentTemplate"].

Lemma RT_closed : dk_closedb Generated.schema RT = true.
Proof. vm_compute. reflexivity. Qed.

Lemma RT_roots : In "JobTemplate" RT /\ In "EnvironmentTemplate" RT.
Proof. split; apply (proj1 (dk_mem_s_In _ _)); vm_compute; reflexivity. Qed.

Lemma RT_no_sps : mem_s "StepParameterSpace" RT = false.
Proof. vm_compute. reflexivity. Qed.

Section Live.
  Variable classify : N -> cclass.
  Notation pk := (parse_kind Generated.schema classify pre_hook (post_hook classify)).
  Notation pc := (parse_cls Generated.schema classify pre_hook (post_hook classify)).

  Lemma live_parse_jperm : forall f,
    Pk Generated.schema classify pre_hook (post_hook classify) RT f /\
    Pc Generated.schema classify pre_hook (post_hook classify) RT f.
  Proof.
    apply parse_jperm.
    - apply dk_closedb_sound. exact RT_closed.
    - apply pre_hook_jperm.
    - intros c v v' fs fs' Hc Hv Hfs. apply post_hook_mperm; try assumption.
      intros ->. apply (proj2 (dk_mem_s_In _ _)) in Hc. rewrite RT_no_sps in Hc. discriminate Hc.
  Qed.

  Lemma version_ok_jperm : forall vs j j', jperm j j' -> version_ok vs j = version_ok vs j'.
  Proof.
    intros vs j j' H. unfold version_ok. pose proof (jperm_jget j j' H "specificationVersion") as Hn.
    jcase Hn; reflexivity.
  Qed.

  Lemma parse_template_jperm : forall root j j', In root RT -> jperm j j' ->
    orel (parse_template classify root j) (parse_template classify root j').
  Proof.
    intros root j j' Hroot H. unfold parse_template, parse_root, parse_fuel.
    rewrite (json_depth_jperm j j' H). apply (proj2 (live_parse_jperm _)); assumption.
  Qed.

  Theorem decode_job_jperm : forall j j', jperm j j' -> orel (decode_job classify j) (decode_job classify j').
  Proof.
    intros j j' H. unfold decode_job. rewrite (version_ok_jperm _ j j' H).
    pose proof (parse_template_jperm "JobTemplate" j j' (proj1 RT_roots) H) as Hp.
    destruct H; try constructor.
    match goal with |- context [version_ok ?a ?b] => destruct (version_ok a b) end; [exact Hp|constructor].
  Qed.

  Theorem decode_env_jperm : forall j j', jperm j j' -> orel (decode_env classify j) (decode_env classify j').
  Proof.
    intros j j' H. unfold decode_env. rewrite (version_ok_jperm _ j j' H).
    pose proof (parse_template_jperm "EnvironmentTemplate" j j' (proj2 RT_roots) H) as Hp.
    destruct H; try constructor.
    match goal with |- context [version_ok ?a ?b] => destruct (version_ok a b) end; [exact Hp|constructor].
  Qed.
End Live.

(* ------------------------------------------------------------------ summary statements *)

Theorem deep_key_order_walk : forall refs j j', jperm j j' ->
  Permutation (spec_job_template refs j) (spec_job_template refs j') /\
  Permutation (spec_env_template refs j) (spec_env_template refs j') /\
  Permutation (prevalidate Generated.schema refs "JobTemplate" j) (prevalidate Generated.schema refs "JobTemplate" j') /\
  Permutation (prevalidate Generated.schema refs "EnvironmentTemplate" j)
              (prevalidate Generated.schema refs "EnvironmentTemplate" j').
Proof.
  intros refs j j' H. split; [apply spec_job_jperm; exact H|].
  split; [apply spec_env_template_jperm; exact H|]. apply prevalidate_jperm. exact H.
Qed.

Lemma perm_nil_iff : forall (A : Type) (l l' : list A), Permutation l l' -> (l = [] <-> l' = []).
Proof.
  intros A l l' H. split; intros ->.
  - apply Permutation_nil. exact H.
  - apply Permutation_nil. apply Permutation_sym. exact H.
Qed.

Theorem deep_key_order_walk_verdict : forall refs j j', jperm j j' ->
  (prevalidate Generated.schema refs "JobTemplate" j = [] <-> prevalidate Generated.schema refs "JobTemplate" j' = []) /\
  (prevalidate Generated.schema refs "EnvironmentTemplate" j = []
   <-> prevalidate Generated.schema refs "EnvironmentTemplate" j' = []).
Proof.
  intros refs j j' H. destruct (prevalidate_jperm refs j j' H) as [H1 H2].
  split; apply perm_nil_iff; assumption.
Qed.

Theorem deep_key_order_decode : forall classify j j', jperm j j' ->
  orel (decode_job classify j) (decode_job classify j') /\
  orel (decode_env classify j) (decode_env classify j').
Proof. intros classify j j' H. split; [apply decode_job_jperm|apply decode_env_jperm]; exact H. Qed.

Theorem deep_key_order_verdict : forall classify j j', jperm j j' ->
  is_ok (decode_job classify j) = is_ok (decode_job classify j') /\
  is_ok (decode_env classify j) = is_ok (decode_env classify j').
Proof.
  intros classify j j' H. destruct (deep_key_order_decode classify j j' H) as [H1 H2].
  split; eapply olrel_is_ok; eassumption.
Qed.

(* ------------------------------------------------------------------ a canonical instance: reverse every object *)

Fixpoint jrev (j : json) : json :=
  match j with
  | JArr l => JArr (map jrev l)
  | JObj ms => JObj (rev (map (fun kv => (fst kv, jrev (snd kv))) ms))
  | _ => j
  end.

(* every object of the document has distinct keys *)
Fixpoint keys_ok (j : json) : bool :=
  match j with
  | JArr l => forallb keys_ok l
  | JObj ms => nodupb (map fst ms) && forallb (fun kv => keys_ok (snd kv)) ms
  | _ => true
  end.

Lemma mem_str_In : forall x l, mem_str x l = false -> ~ In x l.
Proof.
  intros x l. induction l as [|y r IH]; intros H Hin; [exact Hin|].
  cbn [mem_str] in H. apply orb_false_iff in H. destruct H as [H1 H2].
  destruct Hin as [<-|Hin]; [rewrite gl_str_eqb_refl in H1; discriminate H1|exact (IH H2 Hin)].
Qed.

Lemma nodupb_NoDup : forall l, nodupb l = true -> NoDup l.
Proof.
  induction l as [|x r IH]; intros H; [constructor|].
  cbn [nodupb] in H. apply andb_true_iff in H. destruct H as [H1 H2].
  constructor; [apply mem_str_In; destruct (mem_str x r); [discriminate H1|reflexivity]|exact (IH H2)].
Qed.

Theorem jperm_jrev : forall j, keys_ok j = true -> jperm j (jrev j).
Proof.
  intros j. induction j as [|b|z|m e|s|l IH|ms IH] using json_ind2; intros H; try constructor.
  - cbn [keys_ok] in H. induction IH as [|x r Px _ IHr]; [constructor|].
    cbn [forallb] in H. apply andb_true_iff in H. destruct H as [H1 H2].
    cbn [map]. constructor; [exact (Px H1)|exact (IHr H2)].
  - cbn [keys_ok] in H. apply andb_true_iff in H. destruct H as [Hnd Hall].
    cbn [jrev]. apply (JP_obj ms (map (fun kv => (fst kv, jrev (snd kv))) ms)).
    + apply nodupb_NoDup. exact Hnd.
    + clear Hnd. induction IH as [|x r Px _ IHr]; [constructor|].
      cbn [forallb] in Hall. apply andb_true_iff in Hall. destruct Hall as [H1 H2].
      cbn [map]. constructor; [split; [reflexivity|exact (Px H1)]|exact (IHr H2)].
    + apply Permutation_rev.
Qed.

(* ------------------------------------------------------------------ the remaining validator *)
(* StepParameterSpace (job side; not run by decoding): the range lengths are looked up BY KEY in
   the dictionary of task parameters, so the result does not depend on member order as long as the
   keys are distinct — which [mperm] does not record, hence the explicit premise. *)
Section SPS.
  Variable classify : N -> cclass.

  Definition sps_entry (kv : str * mval) : list (str * N) :=
    match fget "range" (model_fields (snd kv)) with
    | MList items => [(fst kv, N.of_nat (List.length items))]
    | MFmt r | MStr r =>
      match RangeExpr.from_str false false classify r with
      | Ok e => if Z.ltb (RangeExpr.elen e) (2 ^ 63) then [(fst kv, Z.to_N (RangeExpr.elen e))] else []
      | Raise _ => []
      end
    | _ => []
    end.

  Definition sps_ok (fs : list (string * mval)) : bool :=
    match fget "combination" fs with
    | MStr s =>
      match Comb.dims_str classify
              (Comb.lookup_len (flat_map sps_entry (match fget "taskParameterDefinitions" fs with MDict l => l | _ => [] end))) s with
      | Ok _ => true
      | Raise _ => false
      end
    | _ => true
    end.

  Lemma post_hook_sps_eq : forall raw fs, post_hook classify "StepParameterSpace" raw fs = sps_ok fs.
  Proof. reflexivity. Qed.

  Lemma sps_entry_rel : forall kv kv', mrel mperm kv kv' -> sps_entry kv = sps_entry kv'.
  Proof.
    intros [k v] [k' v'] [Hk Hv]. cbn [fst snd] in Hk, Hv. subst k'. unfold sps_entry. cbn [fst snd].
    pose proof (fget_rel "range" _ _ (model_fields_rel v v' Hv)) as Hr.
    set (a := fget "range" (model_fields v)) in *. set (b := fget "range" (model_fields v')) in *. clearbody a b.
    destruct Hr as [| | | | | | |l l' Hl| |]; try reflexivity. rewrite (F2_length _ _ _ _ Hl). reflexivity.
  Qed.

  Lemma sps_entry_keys : forall kv k, In k (map fst (sps_entry kv)) -> k = fst kv.
  Proof.
    intros kv k H. unfold sps_entry in H.
    destruct (fget "range" (model_fields (snd kv))) as [| | | | |r|r|items| |]; try contradiction.
    - destruct (RangeExpr.from_str false false classify r) as [e|e]; [|contradiction].
      destruct (Z.ltb (RangeExpr.elen e) (2 ^ 63)); [|contradiction]. destruct H as [<-|[]]. reflexivity.
    - destruct (RangeExpr.from_str false false classify r) as [e|e]; [|contradiction].
      destruct (Z.ltb (RangeExpr.elen e) (2 ^ 63)); [|contradiction]. destruct H as [<-|[]]. reflexivity.
    - destruct H as [<-|[]]. reflexivity.
  Qed.

  Lemma sps_entry_small : forall kv, sps_entry kv = [] \/ exists n, sps_entry kv = [(fst kv, n)].
  Proof.
    intros kv. unfold sps_entry.
    destruct (fget "range" (model_fields (snd kv))) as [| | | | |r|r|items| |]; try (left; reflexivity).
    - destruct (RangeExpr.from_str false false classify r) as [e|e]; [|left; reflexivity].
      destruct (Z.ltb (RangeExpr.elen e) (2 ^ 63)); [right; eexists; reflexivity|left; reflexivity].
    - destruct (RangeExpr.from_str false false classify r) as [e|e]; [|left; reflexivity].
      destruct (Z.ltb (RangeExpr.elen e) (2 ^ 63)); [right; eexists; reflexivity|left; reflexivity].
    - right. eexists. reflexivity.
  Qed.

  Lemma sps_keys_in : forall l k, In k (map fst (flat_map sps_entry l)) -> In k (map fst l).
  Proof.
    induction l as [|kv r IH]; intros k H; [exact H|].
    cbn [flat_map] in H. rewrite map_app in H. apply in_app_or in H. destruct H as [H|H].
    - left. symmetry. apply sps_entry_keys. exact H.
    - right. apply IH. exact H.
  Qed.

  Lemma sps_keys_nodup : forall l, NoDup (map fst l) -> NoDup (map fst (flat_map sps_entry l)).
  Proof.
    induction l as [|kv r IH]; intros H; [constructor|].
    cbn [map] in H. inversion H as [|? ? Hnot Hr]; subst. cbn [flat_map].
    destruct (sps_entry_small kv) as [->|[n ->]]; cbn [app map fst]; [exact (IH Hr)|].
    constructor; [|exact (IH Hr)]. intros Hin. apply Hnot. apply sps_keys_in. exact Hin.
  Qed.

  Lemma lookup_len_assoc : forall al s, Comb.lookup_len al s = assoc s al.
  Proof. induction al as [|[k v] r IH]; intros s; [reflexivity|]. cbn [Comb.lookup_len assoc]. rewrite IH. reflexivity. Qed.

  Lemma map_o_ext : forall (f g : Comb.ctree -> outcome N) cs,
    Forall (fun c => f c = g c) cs -> Comb.map_o f cs = Comb.map_o g cs.
  Proof.
    intros f g cs H. induction H as [|c r Hc _ IH]; [reflexivity|].
    cbn [Comb.map_o]. rewrite Hc, IH. reflexivity.
  Qed.

  Lemma dims_ext : forall lens lens', (forall s, lens s = lens' s) ->
    forall t, Comb.dims lens t = Comb.dims lens' t.
  Proof.
    intros lens lens' H t. induction t as [s|cs IH|cs IH] using CombProofs.ctree_ind'.
    - cbn [Comb.dims]. rewrite H. reflexivity.
    - cbn [Comb.dims]. rewrite (map_o_ext _ _ cs IH). reflexivity.
    - cbn [Comb.dims]. rewrite (map_o_ext _ _ cs IH). reflexivity.
  Qed.

  Theorem post_hook_sps : forall raw raw' fs fs' l,
    frel fs fs' -> fget "taskParameterDefinitions" fs = MDict l -> NoDup (map fst l) ->
    post_hook classify "StepParameterSpace" raw fs = post_hook classify "StepParameterSpace" raw' fs'.
  Proof.
    intros raw raw' fs fs' l H El Hnd. rewrite !post_hook_sps_eq. unfold sps_ok.
    pose proof (fget_rel "combination" fs fs' H) as Hc.
    pose proof (fget_rel "taskParameterDefinitions" fs fs' H) as Ht. rewrite El in *.
    set (a := fget "combination" fs) in *. set (b := fget "combination" fs') in *. clearbody a b.
    destruct Hc; try reflexivity.
    set (t' := fget "taskParameterDefinitions" fs') in *. clearbody t'.
    inversion Ht as [| | | | | | | |l0 mid l' Hm Hp|]; subst.
    unfold Comb.dims_str. destruct (Comb.parse_str classify s) as [t|e]; [|reflexivity]. cbn [bind].
    assert (E : forall x, Comb.lookup_len (flat_map sps_entry l) x = Comb.lookup_len (flat_map sps_entry l') x).
    { intros x. rewrite !lookup_len_assoc.
      assert (E1 : flat_map sps_entry l = flat_map sps_entry mid).
      { apply (flat_map_F2_eq _ _ (mrel mperm)); [exact Hm|]. intros u w Huw. apply sps_entry_rel. exact Huw. }
      apply assoc_perm.
      - apply sps_keys_nodup. exact Hnd.
      - rewrite E1. rewrite !flat_map_concat_map. apply perm_concat_map. exact Hp. }
    rewrite (dims_ext _ _ E t). reflexivity.
  Qed.
End SPS.
