(* Extraction of the length-tree index arithmetic of the parameter space (C07, spaces too large to
   enumerate; props/C07xv.v).  ExtrOcamlBasic only.  [length] is listed only so that Datatypes.nat,
   which ocaml/conv.ml mentions, is part of the extracted module. *)
From Coq Require Import Extraction ExtrOcamlBasic List NArith ZArith.
Require Import OJD.Base OJD.ParamSpaceIdx.
Extraction Language OCaml.
Extraction "Model.ml"
  exn_eqb llen lindex radix zprod horner lprod_of length.
