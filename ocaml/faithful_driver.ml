(* faithful_driver.ml — serves the decision function of "same document up to numeric formatting" (C17 faithful):
     (jequiv a b)   ->  (ok true) | (ok false)        a, b in the json wire format of convjson.ml
     (asnum a)      ->  (some (m e)) | none           the finite number a scalar reads as *)
open Sx
open Model
open Conv
open Convjson

let handle (req : Sx.t) : Sx.t =
  match req with
  | L [A "jequiv"; a; b] -> sx_of_outcome sx_of_bool (jequiv_verdict (json_of_sx a) (json_of_sx b))
  | L [A "asnum"; a] ->
    sx_of_opt (fun x -> L [sx_of_z x.mant; sx_of_z x.expo]) (as_num (json_of_sx a))
  | L [A "depth"; a] -> sx_of_nat (jdepth (json_of_sx a))
  | _ -> failwith "unknown-request"

let () = serve handle
