(* CreateJobExactHost.v — C05_exact: a step's hostRequirements.  Names and attribute values are
   substituted, amount bounds are written as text (str(Decimal)).  A bound given as a STRING is stored as
   the Decimal it denotes and written back with str(): it must be in the form str() prints
   ([canon_host], same condition as for FLOAT range items). *)
From Coq Require Import List NArith ZArith Bool String Lia.
Import ListNotations.
Require Import OJD.Base OJD.Lexer OJD.Json OJD.Schema OJD.Generated OJD.Charsets OJD.Numerals OJD.NumPrint OJD.NumRoundtrip
               OJD.FormatStr OJD.CreateJob OJD.CreateJobProofs OJD.CreateJobSpec OJD.Parse OJD.Validators OJD.Accept
               OJD.ExportProofs OJD.AcceptMono OJD.DecodeInv OJD.JsonEquiv OJD.CreateJobExactLib OJD.CreateJobExactCarried
               OJD.CreateJobExactParams OJD.CreateJobExactSteps OJD.CreateJobExactSpace.
Local Open Scope string_scope.
Local Open Scope list_scope.

Definition canon_amount (a : json) : bool := canon_dec_item (jget "min" a) && canon_dec_item (jget "max" a).
Definition canon_host (h : json) : bool := forallb canon_amount (items (jget "amounts" h)).

Section Host.
  Variable classify : N -> cclass.
  Hypothesis Hascii : ascii_ok classify = true.
  Variable sigma : symtab.
  Notation resolve := (CreateJobProofs.fs_resolve classify).
  Notation pk := (parse_kind G classify pre_hook (post_hook classify)).
  Notation pc := (parse_cls G classify pre_hook (post_hook classify)).

  (* an optional Decimal bound *)
  Lemma dec_bound : forall f raw v,
    (raw = JNull /\ v = MNone \/ raw <> JNull /\ pk f KDec raw = Ok v) -> canon_dec_item raw = true ->
    leaf v = true /\ as_text resolve sigma raw = Ok (tobj G v).
  Proof.
    intros f raw v [[-> ->]|[Hn H]] Hc; [split; reflexivity|].
    destruct f as [|f]; [discriminate H|]. rewrite parse_kind_S in H. cbn [parse_scalar] in H.
    destruct raw as [| |z|a e|s| |]; try discriminate H.
    - injection H as <-. split; [reflexivity|]. cbn [as_text tobj]. rewrite print_dec_int. reflexivity.
    - injection H as <-. split; reflexivity.
    - destruct (parse_dec s) as [[a e| |]|] eqn:Ep; try discriminate H. injection H as <-.
      cbn [canon_dec_item] in Hc. rewrite Ep in Hc. apply je_str_eqb_eq in Hc. subst s. split; [reflexivity|].
      cbn [as_text CreateJobSpec.subst tobj]. rewrite (resolve_plain classify Hascii sigma _ (print_dec_okc a e)). reflexivity.
  Qed.

  (* a list of format strings, resolved *)
  Lemma fmt_list_spec : forall f rec c lo hi cs its l l2,
    Forall2 (fun it m => pk f (KFormat c lo hi cs) it = Ok m) its l ->
    mapM (res_elem resolve sigma rec) l = Ok l2 ->
    mapM (CreateJobSpec.subst resolve sigma) its = Ok (map (jobj G) l2).
  Proof.
    intros f rec c lo hi cs its l l2 HF. revert l2. induction HF as [|it m r r' Hp _ IH]; intros l2 H.
    - injection H as <-. reflexivity.
    - cbn [mapM] in H. destruct (res_elem resolve sigma rec m) as [y|e] eqn:Ey; cbn [bind] in H; [|discriminate H].
      destruct (mapM _ r') as [ys|e] eqn:Er; cbn [bind] in H; [|discriminate H]. injection H as <-.
      apply fmt_item_inv in Hp. destruct Hp as [s [-> ->]]. cbn [res_elem] in Ey.
      cbn [mapM map CreateJobSpec.subst]. rewrite (IH ys eq_refl).
      destruct (resolve sigma s) as [t|e]; cbn [bind] in Ey |- *; [|discriminate Ey]. injection Ey as <-. reflexivity.
  Qed.

  (* an optional list of format strings: the field value, resolved, against [map_arr subst] *)
  Lemma fmt_field_spec : forall f rec c lo hi cs raw v v',
    (raw = JNull /\ v = MNone \/
     exists its l, raw = JArr its /\ v = MList l /\ Forall2 (fun it m => pk f (KFormat c lo hi cs) it = Ok m) its l) ->
    res_elems resolve sigma rec v = Ok v' ->
    opt_list v = true /\ map_arr (CreateJobSpec.subst resolve sigma) raw = Ok (jobj G v').
  Proof.
    intros f rec c lo hi cs raw v v' [[-> ->]|[its [l [-> [-> HF]]]]] H.
    - cbn [res_elems] in H. injection H as <-. split; reflexivity.
    - cbn [res_elems] in H. destruct (mapM _ l) as [l2|e] eqn:El; cbn [bind] in H; [|discriminate H]. injection H as <-.
      split; [reflexivity|]. cbn [map_arr]. rewrite (fmt_list_spec f rec c lo hi cs its l l2 HF El). reflexivity.
  Qed.

  Lemma amount_equiv : forall f a x F y,
    pk f (KModel "AmountRequirementTemplate") a = Ok x -> canon_amount a = true -> mval_depth x < F ->
    inst G resolve sigma F x = Ok y ->
    exists s, amount resolve sigma a = Ok s /\ json_equiv (jobj G y) s.
  Proof.
    intros f a x F y H Hc HF Hy. destruct f as [|f]; [discriminate H|]. rewrite parse_kind_S in H.
    cls_open H. subst a x.
    next_field Hm y1 r1 H1. next_field Hm y2 r2 H2. next_field Hm y3 r3 H3. injection Hm as <-.
    apply format_field_inv in H1. destruct H1 as [s [-> [Hs _]]].
    apply field_single_inv in H2; [|reflexivity]. destruct H2 as [mn [-> Hmn]].
    apply field_single_inv in H3; [|reflexivity]. destruct H3 as [mx [-> Hmx]].
    cbn [f_name f_kind f_required] in *.
    set (am := JObj ms) in *.
    assert (Hname : jget "name" am = JStr s) by (cbn [jget am]; rewrite Hs; reflexivity).
    match type of Hmn with context [field_raw ms ?fl] => change (field_raw ms fl) with (jget "min" am) in * end.
    match type of Hmx with context [field_raw ms ?fl] => change (field_raw ms fl) with (jget "max" am) in * end.
    unfold canon_amount in Hc. apply andb_true_iff in Hc. destruct Hc as [Hc1 Hc2].
    destruct (dec_bound f' (jget "min" am) mn) as [Lmn Tmn]; [destruct Hmn as [[E1 [E2 _]]|[E1 E2]]; [left|right]; split; assumption|exact Hc1|].
    destruct (dec_bound f' (jget "max" am) mx) as [Lmx Tmx]; [destruct Hmx as [[E1 [E2 _]]|[E1 E2]]; [left|right]; split; assumption|exact Hc2|].
    destruct F as [|F]; [lia|].
    rewrite shape_Amount in Hy by assumption.
    destruct (resolve sigma s) as [rs|e] eqn:Ers; cbn [bind] in Hy; [|discriminate Hy]. injection Hy as <-.
    unfold amount. rewrite Hname. cbn [CreateJobSpec.subst]. rewrite Ers. cbn [bind]. rewrite Tmn, Tmx. cbn [bind].
    eexists. split; [reflexivity|].
    model_members. rewrite (leaf_jobj G mn Lmn), (leaf_jobj G mx Lmx).
    eapply json_equiv_meq_r; [cbn [app]; meq_tac|].
    apply (json_equiv_obj_keys [$"name"; $"min"; $"max"]); [incl_tac|incl_tac|].
    keys_split; jf; apply onn_equiv; apply json_equiv_refl.
  Qed.

  Lemma attribute_equiv : forall f a x F y,
    pk f (KModel "AttributeRequirementTemplate") a = Ok x -> mval_depth x < F ->
    inst G resolve sigma F x = Ok y ->
    exists s, attribute resolve sigma a = Ok s /\ json_equiv (jobj G y) s.
  Proof.
    intros f a x F y H HF Hy. destruct f as [|f]; [discriminate H|]. rewrite parse_kind_S in H.
    cls_open H. subst a x.
    next_field Hm y1 r1 H1. next_field Hm y2 r2 H2. next_field Hm y3 r3 H3. injection Hm as <-.
    apply format_field_inv in H1. destruct H1 as [s [-> [Hs _]]].
    apply (field_list_inv classify _ _ _ (Some 1%N) (Some 50%N)) in H2; [|reflexivity]. destruct H2 as [any [-> Hany]].
    apply (field_list_inv classify _ _ _ (Some 1%N) (Some 50%N)) in H3; [|reflexivity]. destruct H3 as [all [-> Hall]].
    cbn [f_name f_kind f_required] in *.
    set (at_ := JObj ms) in *.
    assert (Hname : jget "name" at_ = JStr s) by (cbn [jget at_]; rewrite Hs; reflexivity).
    match type of Hany with context [field_raw ms ?fl] => change (field_raw ms fl) with (jget "anyOf" at_) in * end.
    match type of Hall with context [field_raw ms ?fl] => change (field_raw ms fl) with (jget "allOf" at_) in * end.
    destruct F as [|F]; [lia|].
    assert (Oany : opt_list any = true) by (destruct Hany as [[_ [-> _]]|[its [l [_ [-> _]]]]]; reflexivity).
    assert (Oall : opt_list all = true) by (destruct Hall as [[_ [-> _]]|[its [l [_ [-> _]]]]]; reflexivity).
    rewrite shape_Attribute in Hy by assumption.
    destruct (resolve sigma s) as [rs|e] eqn:Ers; cbn [bind] in Hy; [|discriminate Hy].
    destruct (res_elems resolve sigma (inst G resolve sigma F) any) as [any'|e] eqn:Eany; cbn [bind] in Hy; [|discriminate Hy].
    destruct (res_elems resolve sigma (inst G resolve sigma F) all) as [all'|e] eqn:Eall; cbn [bind] in Hy; [|discriminate Hy].
    injection Hy as <-.
    destruct (fmt_field_spec f' (inst G resolve sigma F) "AttributeCapabilityValue" (Some 1%N) None CS_any (jget "anyOf" at_) any any') as [_ Sany];
      [destruct Hany as [[E1 [E2 _]]|E]; [left; split; assumption|right; exact E]|exact Eany|].
    destruct (fmt_field_spec f' (inst G resolve sigma F) "AttributeCapabilityValue" (Some 1%N) None CS_any (jget "allOf" at_) all all') as [_ Sall];
      [destruct Hall as [[E1 [E2 _]]|E]; [left; split; assumption|right; exact E]|exact Eall|].
    unfold attribute. rewrite Hname. cbn [CreateJobSpec.subst]. rewrite Ers. cbn [bind]. rewrite Sany, Sall. cbn [bind].
    eexists. split; [reflexivity|].
    model_members.
    eapply json_equiv_meq_r; [cbn [app]; meq_tac|].
    apply (json_equiv_obj_keys [$"name"; $"anyOf"; $"allOf"]); [incl_tac|incl_tac|].
    keys_split; jf; apply onn_equiv; apply json_equiv_refl.
  Qed.

  (* an optional list of models, each instantiated *)
  Lemma models_field_spec : forall f F c (P : json -> bool) (spec : json -> outcome json) raw v v',
    (forall a x y, pk f (KModel c) a = Ok x -> P a = true -> mval_depth x < F -> inst G resolve sigma F x = Ok y ->
                   exists s, spec a = Ok s /\ json_equiv (jobj G y) s) ->
    (raw = JNull /\ v = MNone \/
     exists its l, raw = JArr its /\ v = MList l /\ Forall2 (fun it m => pk f (KModel c) it = Ok m) its l) ->
    forallb P (items raw) = true -> mval_depth v <= F ->
    elems (inst G resolve sigma F) v = Ok v' ->
    exists s, map_arr spec raw = Ok s /\ opt_rel json_equiv (onn (jobj G v')) (onn s).
  Proof.
    intros f F c P spec raw v v' Hitem [[-> ->]|[its [l [-> [-> HF]]]]] HP Hd H.
    - cbn [elems] in H. injection H as <-. exists JNull. split; [reflexivity|constructor].
    - cbn [elems] in H. destruct (mapM _ l) as [l2|e] eqn:El; cbn [bind] in H; [|discriminate H]. injection H as <-.
      cbn [items] in HP.
      assert (Hdl : forall m, In m l -> mval_depth m < F) by (intros m Hm; pose proof (item_depth l m Hm); lia).
      assert (K : exists ss, mapM spec its = Ok ss /\ Forall2 json_equiv (map (jobj G) l2) ss).
      { clear Hd. revert l2 El HP Hdl. induction HF as [|it m r r' Hp _ IH]; intros l2 El HP Hdl.
        - injection El as <-. exists []. split; [reflexivity|constructor].
        - cbn [mapM] in El. destruct (inst_elem (inst G resolve sigma F) m) as [y|e] eqn:Ey; cbn [bind] in El; [|discriminate El].
          destruct (mapM _ r') as [ys|e] eqn:Er; cbn [bind] in El; [|discriminate El]. injection El as <-.
          cbn [forallb] in HP. apply andb_true_iff in HP. destruct HP as [HP1 HP2].
          destruct (pk_model_shape classify f _ _ _ Hp) as [fs Em]. rewrite Em in Ey. cbn [inst_elem] in Ey. rewrite <- Em in Ey.
          destruct (Hitem it m y Hp HP1 (Hdl m (or_introl eq_refl)) Ey) as [s [Hs He]].
          destruct (IH ys eq_refl HP2 (fun m' Hm' => Hdl m' (or_intror Hm'))) as [ss [Hss HF2]].
          exists (s :: ss). split; [cbn [mapM]; rewrite Hs; cbn [bind]; rewrite Hss; reflexivity|].
          cbn [map]. constructor; assumption. }
      destruct K as [ss [Hss HF2]]. exists (JArr ss). split; [cbn [map_arr]; rewrite Hss; reflexivity|].
      apply onn_equiv. rewrite jobj_list. constructor. exact HF2.
  Qed.

  Theorem host_req_equiv : forall f raw x F y,
    raw <> JNull -> canon_host raw = true ->
    pk f (KModel "HostRequirementsTemplate") raw = Ok x -> mval_depth x < F -> inst G resolve sigma F x = Ok y ->
    exists s, host_req resolve sigma raw = Ok s /\ json_equiv (jobj G y) s /\ y <> MNone /\ s <> JNull.
  Proof.
    intros f raw x F y _ Hc H HF Hy. destruct f as [|f]; [discriminate H|]. rewrite parse_kind_S in H.
    cls_open H. subst raw x.
    next_field Hm y1 r1 H1. next_field Hm y2 r2 H2. injection Hm as <-.
    apply (field_list_inv classify _ _ _ None None) in H1; [|reflexivity]. destruct H1 as [am [-> Ham]].
    apply (field_list_inv classify _ _ _ None None) in H2; [|reflexivity]. destruct H2 as [at_ [-> Hat]].
    cbn [f_name f_kind f_required] in *.
    set (h := JObj ms) in *.
    match type of Ham with context [field_raw ms ?fl] => change (field_raw ms fl) with (jget "amounts" h) in * end.
    match type of Hat with context [field_raw ms ?fl] => change (field_raw ms fl) with (jget "attributes" h) in * end.
    destruct F as [|F]; [lia|].
    set (t := MModel "HostRequirementsTemplate" _) in *.
    assert (Dam : mval_depth am < mval_depth t) by (apply (field_depth_lt _ _ "amounts"); in_tac).
    assert (Dat : mval_depth at_ < mval_depth t) by (apply (field_depth_lt _ _ "attributes"); in_tac).
    subst t.
    assert (Oam : opt_list am = true) by (destruct Ham as [[_ [-> _]]|[its [l [_ [-> _]]]]]; reflexivity).
    assert (Oat : opt_list at_ = true) by (destruct Hat as [[_ [-> _]]|[its [l [_ [-> _]]]]]; reflexivity).
    rewrite shape_HostReq in Hy by assumption.
    destruct (elems (inst G resolve sigma F) am) as [am'|e] eqn:Eam; cbn [bind] in Hy; [|discriminate Hy].
    destruct (elems (inst G resolve sigma F) at_) as [at'|e] eqn:Eat; cbn [bind] in Hy; [|discriminate Hy].
    injection Hy as <-.
    destruct (models_field_spec f' F "AmountRequirementTemplate" canon_amount (amount resolve sigma)
                                (jget "amounts" h) am am') as [sam [Sam Ram]].
    { intros a x y Hp Hca Hd Hi. exact (amount_equiv f' a x F y Hp Hca Hd Hi). }
    { destruct Ham as [[E1 [E2 _]]|E]; [left; split; assumption|right; exact E]. }
    { exact Hc. }
    { lia. }
    { exact Eam. }
    destruct (models_field_spec f' F "AttributeRequirementTemplate" (fun _ => true) (attribute resolve sigma)
                                (jget "attributes" h) at_ at') as [sat [Sat Rat]].
    { intros a x y Hp _ Hd Hi. exact (attribute_equiv f' a x F y Hp Hd Hi). }
    { destruct Hat as [[E1 [E2 _]]|E]; [left; split; assumption|right; exact E]. }
    { apply forallb_forall. intros a _. reflexivity. }
    { lia. }
    { exact Eat. }
    unfold host_req. change (match h with JNull => Ok JNull | _ => ?b end) with b.
    rewrite Sam. cbn [bind]. rewrite Sat. cbn [bind].
    eexists. split; [reflexivity|]. split; [|split; discriminate].
    model_members.
    eapply json_equiv_meq_r; [meq_tac|].
    apply (json_equiv_obj_keys [$"amounts"; $"attributes"]); [incl_tac|incl_tac|].
    keys_split; jf; assumption.
  Qed.
End Host.
