(* LexerProofs.v — blanks and the shared lexer (Lexer.v): the token list depends only on WHERE the
   runs of Space-class characters are, not on which characters they are or how long the runs are,
   and not on leading / trailing blanks.  This is what TokenStream.__init__'s
   re.sub(r"\s+", " ", expr).strip() achieves.  No premise on the class table. *)
From Coq Require Import List NArith ZArith Bool.
Import ListNotations.
Require Import OJD.Base OJD.Lexer.
Local Open Scope list_scope.

Section Blanks.
  Variable classify : N -> cclass.
  Notation go := (lex_go classify).

  (* a blank ends the pending token and leaves the lexer in its initial state *)
  Lemma lex_go_blank : forall st b s, classify b = CSpace ->
    go st (b :: s) = cons_toks (flush st) (go LNone s).
  Proof.
    intros st b s Hb. cbn [lex_go]. rewrite Hb.
    destruct st as [|acc|v]; cbn [flush cons_toks app]; try reflexivity.
    destruct (go LNone s); reflexivity.
  Qed.

  Lemma lex_go_blank_none : forall b s, classify b = CSpace -> go LNone (b :: s) = go LNone s.
  Proof. intros b s Hb. cbn [lex_go]. rewrite Hb. reflexivity. Qed.

  (* congruence: the lexer's result on [s1 ++ t] is determined by its results on [t] from LNone-or-any state *)
  Lemma lex_go_app_cong : forall s1 t t' st,
    (forall st', go st' t = go st' t') -> go st (s1 ++ t) = go st (s1 ++ t').
  Proof.
    induction s1 as [|c r IH]; intros t t' st H; [exact (H st)|].
    assert (E : forall st0, go st0 (r ++ t) = go st0 (r ++ t')) by (intros st0; apply IH; exact H).
    cbn [app lex_go]. destruct st as [|acc|v]; destruct (classify c); rewrite ?E; reflexivity.
  Qed.

  Theorem lex_leading_blank : forall b s, classify b = CSpace -> lex classify (b :: s) = lex classify s.
  Proof. intros b s Hb. unfold lex. apply lex_go_blank_none. exact Hb. Qed.

  Lemma lex_go_trailing : forall s st b, classify b = CSpace -> go st (s ++ [b]) = go st s.
  Proof.
    intros s st b Hb. rewrite <- (app_nil_r s) at 2. apply lex_go_app_cong. intros st'.
    rewrite lex_go_blank by exact Hb. cbn [lex_go cons_toks]. rewrite app_nil_r. reflexivity.
  Qed.

  Theorem lex_trailing_blank : forall b s, classify b = CSpace -> lex classify (s ++ [b]) = lex classify s.
  Proof. intros b s Hb. unfold lex. apply lex_go_trailing. exact Hb. Qed.

  (* a run of two blanks is one blank *)
  Theorem lex_blank_run : forall b b' s1 s2, classify b = CSpace -> classify b' = CSpace ->
    lex classify (s1 ++ b :: b' :: s2) = lex classify (s1 ++ b :: s2).
  Proof.
    intros b b' s1 s2 Hb Hb'. unfold lex. apply lex_go_app_cong. intros st'.
    rewrite (lex_go_blank st' b (b' :: s2) Hb), (lex_go_blank st' b s2 Hb), (lex_go_blank_none b' s2 Hb').
    reflexivity.
  Qed.

  (* which blank character it is does not matter *)
  Theorem lex_blank_kind : forall b b' s1 s2, classify b = CSpace -> classify b' = CSpace ->
    lex classify (s1 ++ b :: s2) = lex classify (s1 ++ b' :: s2).
  Proof.
    intros b b' s1 s2 Hb Hb'. unfold lex. apply lex_go_app_cong. intros st'.
    rewrite (lex_go_blank st' b) by exact Hb. rewrite (lex_go_blank st' b') by exact Hb'. reflexivity.
  Qed.

  (* a blank next to a single-character (punctuation) token is immaterial: "a , b" = "a,b" *)
  Definition is_punct (c : N) : bool := match punct (classify c) with Some _ => true | None => false end.

  Lemma lex_go_punct : forall st c s, is_punct c = true ->
    go st (c :: s) = cons_toks (flush st) (go LNone (c :: s)).
  Proof.
    intros st c s Hp. unfold is_punct in Hp. cbn [lex_go].
    destruct (classify c); cbn [punct] in Hp; try discriminate Hp;
      destruct st as [|acc|v]; cbn [flush cons_toks app punct]; try reflexivity;
      destruct (go LNone s); reflexivity.
  Qed.

  Lemma lex_go_punct_next : forall c s, is_punct c = true ->
    exists t, punct (classify c) = Some t /\ go LNone (c :: s) = cons_toks [t] (go LNone s).
  Proof.
    intros c s Hp. unfold is_punct in Hp. cbn [lex_go].
    destruct (classify c); cbn [punct] in *; try discriminate Hp; eexists; split; reflexivity.
  Qed.

  Theorem lex_blank_before_punct : forall b c s1 s2, classify b = CSpace -> is_punct c = true ->
    lex classify (s1 ++ b :: c :: s2) = lex classify (s1 ++ c :: s2).
  Proof.
    intros b c s1 s2 Hb Hp. unfold lex. apply lex_go_app_cong. intros st'.
    rewrite lex_go_blank by exact Hb. symmetry. apply lex_go_punct. exact Hp.
  Qed.

  Theorem lex_blank_after_punct : forall b c s1 s2, classify b = CSpace -> is_punct c = true ->
    lex classify (s1 ++ c :: b :: s2) = lex classify (s1 ++ c :: s2).
  Proof.
    intros b c s1 s2 Hb Hp. unfold lex. apply lex_go_app_cong. intros st'.
    rewrite !(lex_go_punct st' c) by exact Hp.
    destruct (lex_go_punct_next c (b :: s2) Hp) as [t [Ht E1]].
    destruct (lex_go_punct_next c s2 Hp) as [t' [Ht' E2]].
    rewrite E1, E2. rewrite Ht in Ht'. injection Ht' as <-.
    rewrite lex_go_blank_none by exact Hb. reflexivity.
  Qed.

  (* the same for the parser front end: a token-kind filter looks at the tokens only *)
  Lemma lex_for_cong : forall kinds s s', lex classify s = lex classify s' ->
    lex_for classify kinds s = lex_for classify kinds s'.
  Proof. intros kinds s s' H. unfold lex_for. rewrite H. reflexivity. Qed.
End Blanks.
