(* CreateJobProofs.v — lemmas for C05. *)
From Coq Require Import List NArith ZArith Bool String Lia.
Import ListNotations.
Require Import OJD.Base OJD.Json OJD.Schema OJD.Generated OJD.NumPrint OJD.CreateJob.
Local Open Scope string_scope.
Local Open Scope list_scope.

Definition jcm_is_trivial (j : jcm) : bool :=
  match j with
  | mkJcm [] [] [] [] CreateSelf false => true
  | _ => false
  end.

(* the classes whose creation metadata does anything, with that metadata *)
Definition nontrivial_jcm (s : schema_t) : list (string * jcm) :=
  flat_map (fun nc => if jcm_is_trivial (c_jcm (snd nc)) then [] else [(fst nc, c_jcm (snd nc))]) s.

(* The 2023-09 table, written from the property text:
   - job name, task-parameter ranges, host-requirement names / attribute values are resolved;
   - job parameters become {type, description, value}; task parameters lose their name and are
     keyed by it; the template loses specificationVersion and $schema;
   - nothing else is resolved, excluded, renamed or reshaped. *)
Definition param_excl_sp : list string := ["allowedValues"; "default"; "maxLength"; "minLength"; "name"; "userInterface"].
Definition param_excl_num : list string := ["allowedValues"; "default"; "maxValue"; "minValue"; "name"; "userInterface"].

Definition expected_jcm_table : list (string * jcm) := [
  ("IntTaskParameterDefinition",
   mkJcm ["range"] ["name"] [] [] (CreateIntRange "RangeExpressionTaskParameterDefinition" "IntRangeListTaskParameterDefinition") false);
  ("FloatTaskParameterDefinition", mkJcm ["range"] ["name"] [] [] (CreateModel "FloatRangeListTaskParameterDefinition") false);
  ("StringTaskParameterDefinition", mkJcm ["range"] ["name"] [] [] (CreateModel "RangeListTaskParameterDefinition") false);
  ("PathTaskParameterDefinition", mkJcm ["range"] ["name"] [] [] (CreateModel "RangeListTaskParameterDefinition") false);
  ("StepParameterSpaceDefinition", mkJcm [] [] [] [("taskParameterDefinitions", "name")] (CreateModel "StepParameterSpace") false);
  ("JobStringParameterDefinition", mkJcm [] param_excl_sp [] [] (CreateModel "JobParameter") true);
  ("JobPathParameterDefinition",
   mkJcm [] ["allowedValues"; "dataFlow"; "default"; "maxLength"; "minLength"; "name"; "objectType"; "userInterface"] [] [] (CreateModel "JobParameter") true);
  ("JobIntParameterDefinition", mkJcm [] param_excl_num [] [] (CreateModel "JobParameter") true);
  ("JobFloatParameterDefinition", mkJcm [] param_excl_num [] [] (CreateModel "JobParameter") true);
  ("AmountRequirementTemplate", mkJcm ["name"] [] [] [] (CreateModel "AmountRequirement") false);
  ("AttributeRequirementTemplate", mkJcm ["allOf"; "anyOf"; "name"] [] [] [] (CreateModel "AttributeRequirement") false);
  ("HostRequirementsTemplate", mkJcm [] [] [] [] (CreateModel "HostRequirements") false);
  ("StepTemplate", mkJcm [] [] [] [] (CreateModel "Step") false);
  ("JobTemplate",
   mkJcm ["name"] ["schemaStr"; "specificationVersion"] [("parameterDefinitions", "parameters")] [("parameterDefinitions", "name")]
         (CreateModel "Job") false)
].

Lemma meta_table_ok : nontrivial_jcm Generated.schema = expected_jcm_table.
Proof. vm_compute. reflexivity. Qed.
