(* scope_driver.ml — serves the extracted scope walker (C03) and its spec oracle. *)
open Sx
open Model
open Conv
open Convjson

let table : (int, cclass) Hashtbl.t = Hashtbl.create 64
let class_of_name = function
  | "space" -> CSpace | "namestart" -> CNameStart | "digit" -> CDigit | "udigit" -> CUDigit
  | "dot" -> CDot | "star" -> CStar | "lparen" -> CLParen | "rparen" -> CRParen
  | "comma" -> CComma | "hyphen" -> CHyphen | "colon" -> CColon | "other" -> COther
  | s -> failwith ("class " ^ s)
let classify (c : n) : cclass =
  let i = match c with N0 -> 0 | Npos p -> (match int_of_pos p with Some v -> v | None -> -1) in
  match Hashtbl.find_opt table i with
  | Some cl -> cl
  | None -> if i >= 0 && i < 128 then ascii_class c else COther

let sx_of_loc l = L (List.map (function LKey k -> L [A "k"; sx_of_str k] | LIdx i -> L [A "i"; sx_of_nat i]) l)
let sx_of_err = function
  | ERef (l, name) -> L [A "ref"; sx_of_loc l; sx_of_str name]
  | EFuel -> A "fuel"

let handle (req : Sx.t) : Sx.t =
  match req with
  | L (A "table" :: entries) ->
    Hashtbl.reset table;
    List.iter (function L [A cp; A cl] -> Hashtbl.replace table (int_of_string cp) (class_of_name cl) | _ -> failwith "table") entries;
    L [A "table-ok"; sx_of_bool (ascii_ok classify)]
  | L [A "model_job"; j] -> sx_of_list sx_of_err (model_job classify (json_of_sx j))
  | L [A "model_env"; j] -> sx_of_list sx_of_err (model_envt classify (json_of_sx j))
  | L [A "spec_job"; j] -> sx_of_list sx_of_err (spec_job classify (json_of_sx j))
  | L [A "spec_env"; j] -> sx_of_list sx_of_err (spec_envt classify (json_of_sx j))
  | L [A "refs"; s] -> sx_of_opt (sx_of_list sx_of_str) (fs_refs classify (str_of_sx s))
  | _ -> failwith "unknown-request"

let () = serve handle
