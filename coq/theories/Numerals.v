(* Numerals.v — models of Python's  int(str)  and  decimal.Decimal(str)  on code-point lists,
   and exact comparison of finite decimals.  Definitions only.

   WHAT IS MODELLED (CPython 3.12, C _decimal / libmpdec 2.5.1), and on which strings:

   Domain: every code point of the string is either ASCII (< 128) or one of the non-ASCII
   white-space characters of [uni_space], or a non-ASCII character that is NOT a Unicode
   decimal digit (str.isdecimal() false).  Non-ASCII decimal digits (e.g. U+0663, U+FF15) are
   OUT of the domain: Python maps them to ASCII digits before parsing, this model rejects them.
   The harness generates only strings of the domain and checks this model against Python's own
   int()/Decimal() on a large sample each run (a numeral-model disagreement is a harness
   error, never a VIOLATION).  Further limits of the domain, none of them visible to
   [parse_int]/[parse_dec] but needed for Python to agree: fewer than 4300 digits for int()
   (sys.int_max_str_digits), decimal exponents of at most 9 digits (libmpdec MAX_EMAX).

   int(s): PyLong_FromUnicodeObject -> _PyUnicode_TransformDecimalAndSpaceToASCII (non-ASCII
   white space becomes ' ', ASCII is left alone) -> PyLong_FromString(base 10): skip leading
   Py_ISSPACE characters (\t \n \v \f \r and space; NOT \x1c..\x1f), optional sign, decimal
   digits with single underscores strictly between digits, skip trailing white space, end.

   Decimal(s): PyDec_FromUnicode -> numeric_as_ascii(strip_ws, ignore_underscores): leading and
   trailing Py_UNICODE_ISSPACE characters (here \x1c..\x1f DO count) are stripped, then EVERY
   underscore is deleted wherever it stands, then mpd_qset_string: optional sign, then one of
   "inf" / "infinity", "nan"digits*, "snan"digits* (letters in either case), or
   digits* [. digits*] with at least one digit, optionally followed by  e|E [sign] digits+ . *)
From Coq Require Import List NArith ZArith Bool.
Import ListNotations.
Require Import OJD.Base.
Local Open Scope N_scope.

(* ---------- character classes ---------- *)

Definition is_digit (c : N) : bool := (48 <=? c) && (c <=? 57).
Definition digit_val (c : N) : Z := Z.of_N (c - 48).

(* the non-ASCII characters with Py_UNICODE_ISSPACE *)
Definition uni_space (c : N) : bool :=
  (c =? 133) || (c =? 160) || (c =? 5760) || ((8192 <=? c) && (c <=? 8202))
  || (c =? 8232) || (c =? 8233) || (c =? 8239) || (c =? 8287) || (c =? 12288).

(* white space skipped by int(): Py_ISSPACE on the transformed string *)
Definition int_space (c : N) : bool := ((9 <=? c) && (c <=? 13)) || (c =? 32) || uni_space c.

(* white space stripped by Decimal(): Py_UNICODE_ISSPACE *)
Definition dec_space (c : N) : bool := int_space c || ((28 <=? c) && (c <=? 31)).

Fixpoint drop_while (p : N -> bool) (s : str) : str :=
  match s with
  | [] => []
  | c :: r => if p c then drop_while p r else s
  end.

Definition strip (p : N -> bool) (s : str) : str :=
  rev (drop_while p (rev (drop_while p s))).

(* ---------- int(str) ---------- *)

(* digits with single underscores strictly between digits; [prev] = the previous character
   was a digit *)
Fixpoint int_digits (acc : Z) (prev : bool) (s : str) : option Z :=
  match s with
  | [] => if prev then Some acc else None
  | c :: r =>
    if is_digit c then int_digits (acc * 10 + digit_val c)%Z true r
    else if (c =? 95) && prev then int_digits acc false r
    else None
  end.

(* optional sign: (negative?, rest) *)
Definition split_sign (t : str) : bool * str :=
  match t with
  | c :: r => if c =? 43 then (false, r) else if c =? 45 then (true, r) else (false, t)
  | [] => (false, t)
  end.

Definition parse_int (s : str) : option Z :=
  let '(neg, r) := split_sign (strip int_space s) in
  match int_digits 0%Z false r with
  | Some z => Some (if neg then Z.opp z else z)
  | None => None
  end.

(* ---------- Decimal(str) ---------- *)

Inductive dec : Type :=
| Fin (m e : Z)          (* the finite value m * 10^e (the sign of a zero is not kept) *)
| Inf (neg : bool)
| NaN.                   (* quiet or signalling, any payload *)

Definition lower (c : N) : N := if (65 <=? c) && (c <=? 90) then c + 32 else c.

(* maximal run of ASCII digits: (accumulated value, number of digits, rest) *)
Fixpoint take_digits (acc : Z) (n : Z) (s : str) : Z * Z * str :=
  match s with
  | [] => (acc, n, [])
  | c :: r => if is_digit c then take_digits (acc * 10 + digit_val c)%Z (n + 1)%Z r else (acc, n, s)
  end.

Fixpoint is_prefix (p s : str) : bool :=
  match p, s with
  | [], _ => true
  | x :: p', y :: s' => (x =? y) && is_prefix p' s'
  | _ :: _, [] => false
  end.

Definition s_inf : str := [105; 110; 102].
Definition s_infinity : str := [105; 110; 102; 105; 110; 105; 116; 121].
Definition s_nan : str := [110; 97; 110].
Definition s_snan : str := [115; 110; 97; 110].

Definition is_nil {A} (l : list A) : bool := match l with [] => true | _ => false end.

(* optional fraction after the integer digits [ip]: (mantissa, number of fraction digits, rest) *)
Definition take_fraction (ip : Z) (r1 : str) : Z * Z * str :=
  match r1 with
  | c :: r => if c =? 46 then take_digits ip 0%Z r else (ip, 0%Z, r1)
  | [] => (ip, 0%Z, r1)
  end.

(* optional exponent part: None = syntax error, Some x = the exponent (0 when absent) *)
Definition take_exponent (r2 : str) : option Z :=
  match r2 with
  | [] => Some 0%Z
  | c :: r3 =>
    if (c =? 101) || (c =? 69) then
      let '(neg, r4) := split_sign r3 in
      let '(x, nx, r5) := take_digits 0%Z 0%Z r4 in
      if (nx =? 0)%Z || negb (is_nil r5) then None
      else Some (if neg then Z.opp x else x)
    else None
  end.

(* after the sign; [neg] is the sign read *)
Definition parse_unsigned (neg : bool) (t : str) : option dec :=
  let l := map lower t in
  if str_eqb l s_inf || str_eqb l s_infinity then Some (Inf neg)
  else if is_prefix s_nan l then (if forallb is_digit (skipn 3 t) then Some NaN else None)
  else if is_prefix s_snan l then (if forallb is_digit (skipn 4 t) then Some NaN else None)
  else
    let '(ip, ni, r1) := take_digits 0%Z 0%Z t in
    let '(m, nf, r2) := take_fraction ip r1 in
    if (ni + nf =? 0)%Z then None
    else match take_exponent r2 with
         | None => None
         | Some x => Some (Fin (if neg then Z.opp m else m) (x - nf)%Z)
         end.

Definition parse_dec (s : str) : option dec :=
  let '(neg, r) := split_sign (filter (fun c => negb (c =? 95)) (strip dec_space s)) in
  parse_unsigned neg r.

(* ---------- finite decimal numbers and their exact order ---------- *)

(* mant * 10^expo ; integers are the numbers with expo = 0 *)
Record num : Type := mkNum { mant : Z; expo : Z }.

Definition num_of_Z (z : Z) : num := mkNum z 0.

(* exact comparison: both mantissas are scaled to the smaller exponent *)
Definition num_cmp (a b : num) : comparison :=
  let k := Z.min (expo a) (expo b) in
  Z.compare (mant a * 10 ^ (expo a - k))%Z (mant b * 10 ^ (expo b - k))%Z.

Definition num_ltb (a b : num) : bool := match num_cmp a b with Lt => true | _ => false end.
Definition num_leb (a b : num) : bool := match num_cmp a b with Gt => false | _ => true end.
Definition num_eqb (a b : num) : bool := match num_cmp a b with Eq => true | _ => false end.

Fixpoint mem_num (x : num) (l : list num) : bool :=
  match l with [] => false | y :: ys => num_eqb x y || mem_num x ys end.

(* Python truthiness of an int / Decimal *)
Definition num_truthy (a : num) : bool := negb (mant a =? 0)%Z.

(* max(a, b) and min(a, b) as Python computes them: the first argument wins ties *)
Definition num_max (a b : num) : num := if num_ltb a b then b else a.
Definition num_min (a b : num) : num := if num_ltb b a then b else a.
