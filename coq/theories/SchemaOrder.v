(* SchemaOrder.v — a boolean pre-order on schema tables (C01/C02, part A).  Definitions only.

   [schema_le S1 S2 = true] is meant to say: every document the structural layer accepts under
   the table S1 it accepts under S2, WITH THE SAME STORED VALUE (AcceptProofs.parse_monotone
   proves exactly that, for any hooks and any fuel).  The two directions are compared
   separately:
       C01_table : schema_le Generated.schema spec_schema = true   (the code accepts no more)
       C02_table : schema_le spec_schema Generated.schema = true   (the code accepts no less)
   so a limit LOOSENED in the code breaks only the first and a limit TIGHTENED only the second.

   One place cannot be monotone: the alternatives of an ordered union that are not the last one.
   "First match wins": if alternative i is loosened, a value that used to fall through to
   alternative j > i is now caught by i and stored differently (Union[conint(ge=5), str] vs
   Union[int, str] on the value 3).  For those alternatives the order therefore demands
     - either that the two alternatives are syntactically the same and mention only classes of
       the RIGID set R (classes whose definitions, transitively, are the same in both tables:
       then both tables give the same outcome on every value, errors included),
     - or that the alternative is a list alternative while every later alternative is a scalar
       kind other than a union (a list alternative only ever accepts a JSON array, those never
       do: the alternatives are disjoint, and the list alternative may then be compared with
       the order itself — this keeps the 1..1024 limit of the INT range list separated).
   A change inside a non-last alternative of the first sort breaks both tables, which is the
   honest answer: such a change alters acceptance in both directions in general. *)
From Coq Require Import List NArith ZArith Bool String.
Import ListNotations.
Require Import OJD.Base OJD.Json OJD.Schema.
Local Open Scope string_scope.
Local Open Scope list_scope.

(* ---------- bounds ---------- *)

(* lower length bound: whatever satisfies [a] satisfies [b]  (None = unbounded, lengths are >= 0) *)
Definition lo_le (a b : option N) : bool :=
  match b with
  | None => true
  | Some y => match a with Some x => (y <=? x)%N | None => (y =? 0)%N end
  end.

(* upper length bound *)
Definition hi_le (a b : option N) : bool :=
  match b with
  | None => true
  | Some y => match a with Some x => (x <=? y)%N | None => false end
  end.

(* integer bounds: each bound of the second is implied by the corresponding bound of the first *)
Definition zlo_le (a b : option Z) : bool :=       (* ge / gt *)
  match b with
  | None => true
  | Some y => match a with Some x => (y <=? x)%Z | None => false end
  end.
Definition zhi_le (a b : option Z) : bool :=       (* le *)
  match b with
  | None => true
  | Some y => match a with Some x => (x <=? y)%Z | None => false end
  end.

Definition optN_eqb (a b : option N) : bool :=
  match a, b with
  | None, None => true
  | Some x, Some y => (x =? y)%N
  | _, _ => false
  end.
Definition optZ_eqb (a b : option Z) : bool :=
  match a, b with
  | None, None => true
  | Some x, Some y => (x =? y)%Z
  | _, _ => false
  end.

Fixpoint strs_eqb (a b : list string) : bool :=
  match a, b with
  | [], [] => true
  | x :: r, y :: s => String.eqb x y && strs_eqb r s
  | _, _ => false
  end.

Fixpoint mapping_eqb (a b : list (string * string)) : bool :=
  match a, b with
  | [], [] => true
  | (k, c) :: r, (k', c') :: s => String.eqb k k' && String.eqb c c' && mapping_eqb r s
  | _, _ => false
  end.

(* the first mapping is a sub-mapping of the second: every key of the first selects, in the
   second (with the parser's own look-up), the same class *)
Definition mapping_sub (m1 m2 : list (string * string)) : bool :=
  forallb (fun kc =>
             match List.find (fun kc' => str_eqb (str_of_string (fst kc')) (str_of_string (fst kc))) m2 with
             | Some (_, c') => String.eqb c' (snd kc)
             | None => false
             end) m1.

(* a scalar kind that is not a union: it never accepts a JSON array *)
Definition not_union (k : kind) : bool := match k with KUnion _ => false | _ => true end.
Definition scalar_noarr (a : ualt) : bool := match a with UScalar k => not_union k | UList _ _ _ => false end.
Definition is_ulist (a : ualt) : bool := match a with UList _ _ _ => true | UScalar _ => false end.

(* ---------- "the same, and mentioning only rigid classes" ---------- *)
Section Same.
  Variable R : list string.          (* the rigid class names *)

  Fixpoint kind_same (k1 k2 : kind) {struct k1} : bool :=
    match k1, k2 with
    | KLiteral a, KLiteral b => String.eqb a b
    | KEnum a, KEnum b => strs_eqb a b
    | KStr s1 lo1 hi1 c1, KStr s2 lo2 hi2 c2 =>
      Bool.eqb s1 s2 && optN_eqb lo1 lo2 && optN_eqb hi1 hi2 && charset_eqb c1 c2
    | KFormat n1 lo1 hi1 c1, KFormat n2 lo2 hi2 c2 =>
      String.eqb n1 n2 && optN_eqb lo1 lo2 && optN_eqb hi1 hi2 && charset_eqb c1 c2
    | KBool s1, KBool s2 => Bool.eqb s1 s2
    | KInt s1 g1 l1 t1, KInt s2 g2 l2 t2 =>
      Bool.eqb s1 s2 && optZ_eqb g1 g2 && optZ_eqb l1 l2 && optZ_eqb t1 t2
    | KFloat t1, KFloat t2 => optZ_eqb t1 t2
    | KDec, KDec => true
    | KModel c1, KModel c2 => String.eqb c1 c2 && mem_s c1 R
    | KDisc key1 m1, KDisc key2 m2 =>
      String.eqb key1 key2 && mapping_eqb m1 m2 && forallb (fun kc => mem_s (snd kc) R) m1
    | KUnion a1, KUnion a2 =>
      (fix alts_same (l1 l2 : list ualt) {struct l1} : bool :=
         match l1, l2 with
         | [], [] => true
         | x :: r1, y :: r2 => ualt_same x y && alts_same r1 r2
         | _, _ => false
         end) a1 a2
    | _, _ => false
    end
  with ualt_same (a1 a2 : ualt) {struct a1} : bool :=
    match a1, a2 with
    | UScalar k1, UScalar k2 => kind_same k1 k2
    | UList lo1 hi1 k1, UList lo2 hi2 k2 => optN_eqb lo1 lo2 && optN_eqb hi1 hi2 && kind_same k1 k2
    | _, _ => false
    end.

  Fixpoint alts_same (l1 l2 : list ualt) {struct l1} : bool :=
    match l1, l2 with
    | [], [] => true
    | x :: r1, y :: r2 => ualt_same x y && alts_same r1 r2
    | _, _ => false
    end.

  Definition shape_same (s1 s2 : shape) : bool :=
    match s1, s2 with
    | Single, Single => true
    | ListOf lo1 hi1, ListOf lo2 hi2 => optN_eqb lo1 lo2 && optN_eqb hi1 hi2
    | DictOf k1, DictOf k2 => kind_same k1 k2
    | _, _ => false
    end.

  Definition field_same (f1 f2 : field) : bool :=
    String.eqb (f_name f1) (f_name f2) && String.eqb (f_alias f1) (f_alias f2)
    && Bool.eqb (f_required f1) (f_required f2)
    && shape_same (f_shape f1) (f_shape f2) && kind_same (f_kind f1) (f_kind f2).

  Fixpoint fields_same (l1 l2 : list field) : bool :=
    match l1, l2 with
    | [], [] => true
    | a :: r1, b :: r2 => field_same a b && fields_same r1 r2
    | _, _ => false
    end.

  Definition cls_same (c1 c2 : cls) : bool :=
    Bool.eqb (c_extra_forbid c1) (c_extra_forbid c2) && fields_same (c_fields c1) (c_fields c2).

  (* R is closed: each of its classes is defined in both tables (or in neither), the same way,
     mentioning only classes of R *)
  Definition rigid_ok (S1 S2 : schema_t) : bool :=
    forallb (fun n =>
               match lookup_cls S1 n, lookup_cls S2 n with
               | Some c1, Some c2 => cls_same c1 c2
               | None, None => true
               | _, _ => false
               end) R.

  (* ---------- the order ---------- *)

  (* a non-last alternative [x] (first table) / [y] (second), [r1] = the later alternatives of
     the first table *)
  Definition nonlast_ok (ualt_le : ualt -> ualt -> bool) (x y : ualt) (r1 : list ualt) : bool :=
    ualt_same x y || (is_ulist x && ualt_le x y && forallb scalar_noarr r1).

  Fixpoint kind_le (k1 k2 : kind) {struct k1} : bool :=
    match k1, k2 with
    | KLiteral a, KLiteral b => String.eqb a b
    | KEnum a, KEnum b => forallb (fun m => mem_s m b) a
    | KStr s1 lo1 hi1 c1, KStr s2 lo2 hi2 c2 =>
      Bool.eqb s1 s2 && lo_le lo1 lo2 && hi_le hi1 hi2 && charset_eqb c1 c2
    | KFormat n1 lo1 hi1 c1, KFormat n2 lo2 hi2 c2 =>
      String.eqb n1 n2 && lo_le lo1 lo2 && hi_le hi1 hi2 && charset_eqb c1 c2
    | KBool s1, KBool s2 => Bool.eqb s1 s2
    | KInt s1 g1 l1 t1, KInt s2 g2 l2 t2 =>
      Bool.eqb s1 s2 && zlo_le g1 g2 && zhi_le l1 l2 && zlo_le t1 t2
    | KFloat t1, KFloat t2 => zlo_le t1 t2
    | KDec, KDec => true
    | KModel c1, KModel c2 => String.eqb c1 c2
    | KDisc key1 m1, KDisc key2 m2 => String.eqb key1 key2 && mapping_sub m1 m2
    | KUnion a1, KUnion a2 =>
      (fix alts_le (l1 l2 : list ualt) {struct l1} : bool :=
         match l1, l2 with
         | [], [] => true
         | x :: r1, y :: r2 =>
           match r1 with
           | [] => ualt_le x y
           | _ :: _ => nonlast_ok ualt_le x y r1
           end && alts_le r1 r2
         | _, _ => false
         end) a1 a2
    | _, _ => false
    end
  with ualt_le (a1 a2 : ualt) {struct a1} : bool :=
    match a1, a2 with
    | UScalar k1, UScalar k2 => kind_le k1 k2
    | UList lo1 hi1 k1, UList lo2 hi2 k2 => lo_le lo1 lo2 && hi_le hi1 hi2 && kind_le k1 k2
    | _, _ => false
    end.

  Fixpoint alts_le (l1 l2 : list ualt) {struct l1} : bool :=
    match l1, l2 with
    | [], [] => true
    | x :: r1, y :: r2 =>
      match r1 with
      | [] => ualt_le x y
      | _ :: _ => nonlast_ok ualt_le x y r1
      end && alts_le r1 r2
    | _, _ => false
    end.

  Definition shape_le (s1 s2 : shape) : bool :=
    match s1, s2 with
    | Single, Single => true
    | ListOf lo1 hi1, ListOf lo2 hi2 => lo_le lo1 lo2 && hi_le hi1 hi2
    | DictOf k1, DictOf k2 => kind_le k1 k2
    | _, _ => false
    end.

  (* same attribute name and input key; required in the second -> required in the first *)
  Definition field_le (f1 f2 : field) : bool :=
    String.eqb (f_name f1) (f_name f2) && String.eqb (f_alias f1) (f_alias f2)
    && implb (f_required f2) (f_required f1)
    && shape_le (f_shape f1) (f_shape f2) && kind_le (f_kind f1) (f_kind f2).

  Fixpoint fields_le (l1 l2 : list field) : bool :=
    match l1, l2 with
    | [], [] => true
    | a :: r1, b :: r2 => field_le a b && fields_le r1 r2
    | _, _ => false
    end.

  (* the second forbids unknown keys -> the first does; same fields in the same order *)
  Definition cls_le (c1 c2 : cls) : bool :=
    implb (c_extra_forbid c2) (c_extra_forbid c1) && fields_le (c_fields c1) (c_fields c2).
End Same.

(* ---------- the rigid set: greatest set of class names closed under [cls_same] ---------- *)
Definition rigid_step (S1 S2 : schema_t) (R : list string) : list string :=
  filter (fun n =>
            match lookup_cls S1 n, lookup_cls S2 n with
            | Some c1, Some c2 => cls_same R c1 c2
            | _, _ => false
            end) R.

Definition rigid_set (S1 S2 : schema_t) : list string :=
  Nat.iter (List.length S1) (rigid_step S1 S2) (map fst S1).

(* every class of S1 exists in S2 and is below it; same class names, same order *)
Definition schema_le (S1 S2 : schema_t) : bool :=
  let R := rigid_set S1 S2 in
  rigid_ok R S1 S2
  && forallb (fun nc => match lookup_cls S2 (fst nc) with
                        | Some c2 => cls_le R (snd nc) c2
                        | None => false
                        end) S1
  && strs_eqb (map fst S1) (map fst S2).
