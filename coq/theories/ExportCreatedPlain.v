(* ExportCreatedPlain.v — p17j: the export of a CREATED Job is plain data (no null, JSON scalars only).

   ExportProofs.to_object_plain needs [no_none_items]: no None as a list item (None fields / dictionary values are
   dropped by model_to_object).  It holds of every decoded template (ExportProofs.parse_nn), instantiate_model keeps
   it ([inst_nn]: an item is a model, a format string or kept as it is; the reshaped dictionaries hold instantiated
   items), and so does the job-side coercion ([coerce_nn]: a number becomes its text). *)
From Coq Require Import List NArith ZArith Bool String Lia.
Import ListNotations.
Require Import OJD.Base OJD.Lexer OJD.Json OJD.Schema OJD.Generated OJD.CreateJob OJD.CreateJobProofs OJD.Parse
               OJD.Validators OJD.Accept OJD.Export OJD.ExportProofs OJD.CreateJobExactLib OJD.ConformLib OJD.ConformInst.
Local Open Scope string_scope.
Local Open Scope list_scope.

(* an optional value: None, or without None items *)
Definition onn_ok (x : mval) : bool := mnone x || no_none_items x.

Lemma nn_onn : forall x, no_none_items x = true -> onn_ok x = true.
Proof. intros x H. unfold onn_ok. rewrite H. apply orb_true_r. Qed.

Lemma onn_nn : forall x, onn_ok x = true -> mnone x = false -> no_none_items x = true.
Proof. intros x H Hn. unfold onn_ok in H. rewrite Hn in H. exact H. Qed.

Section InstNN.
  Variable resolve : symtab -> str -> outcome str.
  Variable sigma : symtab.
  Variable rec : mval -> outcome mval.
  Variable j : jcm.
  Hypothesis Hrec : forall a b, rec a = Ok b -> no_none_items a = true -> no_none_items b = true.

  Lemma inst_item_nn : forall fn x y, inst_item resolve sigma rec j fn x = Ok y ->
    no_none_items x = true -> no_none_items y = true.
  Proof.
    intros fn x y H Hx. destruct x; cbn [inst_item] in H; try (injection H as <-; exact Hx).
    - destruct (mem_s fn (j_resolve j)); [|injection H as <-; exact Hx].
      destruct (resolve sigma s) as [r|e]; cbn [bind] in H; [|discriminate H]. injection H as <-. reflexivity.
    - eapply Hrec; eassumption.
  Qed.

  Lemma reshape_fold_nn : forall fn kf items acc d,
    fold_left (reshape_step resolve sigma rec j fn kf) items (Ok acc) = Ok d ->
    forallb no_none_items items = true ->
    (forall kv, In kv acc -> onn_ok (snd kv) = true) ->
    forall kv, In kv d -> onn_ok (snd kv) = true.
  Proof.
    intros fn kf. induction items as [|x r IH]; intros acc d H Hi Ha kv Hkv.
    - cbn [fold_left] in H. injection H as <-. apply Ha. exact Hkv.
    - cbn [fold_left] in H. cbn [forallb] in Hi. apply andb_true_iff in Hi. destruct Hi as [Hx Hr].
      unfold reshape_step at 2 in H. cbn [bind] in H.
      destruct (key_of x kf) as [k|e] eqn:Ek; cbn [bind] in H.
      2:{ exfalso. clear - H. induction r as [|z r IHr]; [discriminate H|]. cbn [fold_left] in H. apply IHr. exact H. }
      destruct (inst_item resolve sigma rec j fn x) as [y|e] eqn:Ey; cbn [bind] in H.
      2:{ exfalso. clear - H. induction r as [|z r IHr]; [discriminate H|]. cbn [fold_left] in H. apply IHr. exact H. }
      apply (IH _ _ H Hr); [|exact Hkv].
      intros kv' Hkv'. apply dict_set_in in Hkv'. destruct Hkv' as [->|Hkv']; [|apply Ha; exact Hkv'].
      cbn [snd]. apply nn_onn. eapply inst_item_nn; eassumption.
  Qed.

  Lemma inst_val_nn : forall fn x y, inst_val resolve sigma rec j fn x = Ok y -> onn_ok x = true -> onn_ok y = true.
  Proof.
    intros fn x y H Hx. destruct x as [ | | | | | | |items|members|c fs].
    1-7: cbn [inst_val inst_item] in H.
    - injection H as <-. reflexivity.
    - injection H as <-. reflexivity.
    - injection H as <-. reflexivity.
    - injection H as <-. reflexivity.
    - injection H as <-. reflexivity.
    - injection H as <-. reflexivity.
    - destruct (mem_s fn (j_resolve j)); [|injection H as <-; reflexivity].
      destruct (resolve sigma s) as [r|e]; cbn [bind] in H; [|discriminate H]. injection H as <-. reflexivity.
    - (* a list *)
      assert (Hi : forallb no_none_items items = true) by (apply (onn_nn _ Hx); reflexivity).
      cbn [inst_val] in H. destruct (lookup_s fn (j_reshape j)) as [kf|].
      + destruct (fold_left _ items (Ok [])) as [d|e] eqn:Ef; cbn [bind] in H; [|discriminate H]. injection H as <-.
        apply nn_onn. cbn [no_none_items]. rewrite forallb_forall. intros kv Hkv.
        apply (reshape_fold_nn fn kf items [] d Ef Hi); [intros kv' []|exact Hkv].
      + destruct (mapM (inst_item resolve sigma rec j fn) items) as [l|e] eqn:Em; cbn [bind] in H; [|discriminate H].
        injection H as <-. apply nn_onn. cbn [no_none_items]. rewrite forallb_forall. intros y Hy.
        destruct (cf_mapM_in_bwd _ _ _ _ _ Em y Hy) as [x [Hx' Hr]]. rewrite forallb_forall in Hi.
        eapply inst_item_nn; [exact Hr|apply Hi; exact Hx'].
    - (* a dictionary *)
      assert (Hi : forallb (fun kv : str * mval => onn_ok (snd kv)) members = true) by (apply (onn_nn _ Hx); reflexivity).
      cbn [inst_val] in H. destruct (mapM (inst_member resolve sigma rec j) members) as [l|e] eqn:Em; cbn [bind] in H; [|discriminate H].
      injection H as <-. apply nn_onn. cbn [no_none_items]. rewrite forallb_forall. intros kv Hkv.
      destruct (cf_mapM_in_bwd _ _ _ _ _ Em kv Hkv) as [kv0 [Hkv0 Hr]]. rewrite forallb_forall in Hi.
      specialize (Hi kv0 Hkv0). unfold inst_member in Hr.
      destruct (snd kv0) as [ | | | | | |s| | |c fs] eqn:Es;
        try (cbn [bind] in Hr; injection Hr as <-; cbn [snd]; exact Hi).
      * destruct (existsb _ (j_resolve j)).
        -- destruct (resolve sigma s) as [r|e]; cbn [bind] in Hr; [|discriminate Hr]. injection Hr as <-. reflexivity.
        -- cbn [bind] in Hr. injection Hr as <-. reflexivity.
      * destruct (rec (MModel c fs)) as [y|e] eqn:Ey; cbn [bind] in Hr; [|discriminate Hr]. injection Hr as <-.
        cbn [snd]. apply nn_onn. eapply Hrec; [exact Ey|]. apply (onn_nn _ Hi). reflexivity.
    - (* a model *)
      cbn [inst_val inst_item] in H. apply nn_onn. eapply Hrec; [exact H|]. apply (onn_nn _ Hx). reflexivity.
  Qed.
End InstNN.

Theorem inst_nn : forall SC resolve sigma f v y,
  inst SC resolve sigma f v = Ok y -> no_none_items v = true -> no_none_items y = true.
Proof.
  intros SC resolve sigma. induction f as [|f IH]; intros v y H Hv; [rewrite inst_O in H; discriminate H|].
  rewrite inst_S in H. destruct v as [ | | | | | | | | |c fields]; try (injection H as <-; exact Hv).
  unfold inst_model in H.
  destruct (mapM (inst_field resolve sigma (inst SC resolve sigma f) (jcm_of SC c)) fields) as [fss|e] eqn:Em;
    cbn [bind] in H; [|discriminate H].
  destruct (add_value sigma (jcm_of SC c) fields (List.concat fss)) as [fs'|e] eqn:Ea; cbn [bind] in H; [|discriminate H].
  injection H as <-. cbn [no_none_items] in Hv |- *. rewrite forallb_forall in Hv |- *.
  assert (Hc : forall kv, In kv (List.concat fss) -> onn_ok (snd kv) = true).
  { intros kv Hkv. apply in_concat in Hkv. destruct Hkv as [fs1 [Hfs1 Hkv]].
    destruct (cf_mapM_in_bwd _ _ _ _ _ Em fs1 Hfs1) as [[fn x] [Hin Hr]]. unfold inst_field in Hr.
    destruct (mem_s fn (j_exclude (jcm_of SC c))); [injection Hr as <-; destruct Hkv|].
    destruct (inst_val resolve sigma (inst SC resolve sigma f) (jcm_of SC c) fn x) as [y|e] eqn:Ey; cbn [bind] in Hr; [|discriminate Hr].
    injection Hr as <-. destruct Hkv as [<-|[]]. cbn [snd].
    eapply inst_val_nn; [exact IH|exact Ey|]. exact (Hv (fn, x) Hin). }
  intros kv Hkv. unfold add_value in Ea. destruct (j_adds_value (jcm_of SC c)).
  - destruct (mfield "name" fields); try discriminate Ea.
    destruct (st_lookup sigma _); [|discriminate Ea]. injection Ea as <-.
    apply in_app_or in Hkv. destruct Hkv as [Hkv|[<-|[]]]; [apply Hc; exact Hkv|reflexivity].
  - injection Ea as <-. apply Hc. exact Hkv.
Qed.

Lemma coerce_item_nn : forall x, no_none_items x = true -> no_none_items (coerce_range_item x) = true.
Proof. intros x H. destruct x; try exact H; reflexivity. Qed.

Lemma coerce_mnone : forall x, mnone (coerce x) = mnone x.
Proof. intros x. destruct x; reflexivity. Qed.

Theorem coerce_nn : forall v, no_none_items v = true -> no_none_items (coerce v) = true.
Proof.
  induction v as [ | | | | | | |l IH|l IH|c fs IH] using mval_ind3; intros H; try exact H.
  - cbn [coerce no_none_items] in *. rewrite forallb_forall in *. intros y Hy. apply in_map_iff in Hy.
    destruct Hy as [x [<- Hx]]. rewrite Forall_forall in IH. apply (IH x Hx). apply H. exact Hx.
  - cbn [coerce no_none_items] in *. rewrite forallb_forall in *. intros kv Hkv. apply in_map_iff in Hkv.
    destruct Hkv as [kv0 [<- Hkv0]]. cbn [snd]. specialize (H kv0 Hkv0). rewrite coerce_mnone.
    destruct (mnone (snd kv0)) eqn:En; [reflexivity|]. cbn [orb] in H |- *. rewrite Forall_forall in IH. apply (IH kv0 Hkv0). exact H.
  - cbn [coerce no_none_items] in *. rewrite forallb_forall in *. intros kv Hkv. apply in_map_iff in Hkv.
    destruct Hkv as [kv0 [<- Hkv0]]. specialize (H kv0 Hkv0). destruct (String.eqb (fst kv0) "range").
    + destruct (snd kv0) as [ | | | | | | |items| | ] eqn:Es; cbn [snd]; try exact H.
      cbn [mnone orb no_none_items] in H |- *. rewrite forallb_forall in *. intros y Hy. apply in_map_iff in Hy.
      destruct Hy as [x [<- Hx]]. apply coerce_item_nn. apply H. exact Hx.
    + cbn [snd]. rewrite coerce_mnone. destruct (mnone (snd kv0)) eqn:En; [reflexivity|]. cbn [orb] in H |- *.
      rewrite Forall_forall in IH. apply (IH kv0 Hkv0). exact H.
Qed.

Theorem decode_job_nn : forall classify j t, decode_job classify j = Ok t -> no_none_items t = true.
Proof.
  intros classify j t H. unfold decode_job in H.
  destruct j as [| | | | | |ms]; try discriminate H.
  destruct (version_ok Generated.job_template_versions (JObj ms)); [|discriminate H].
  unfold parse_template, parse_root in H.
  exact (proj2 (parse_nn Generated.schema classify pre_hook (post_hook classify) _) _ _ _ H).
Qed.
