(* pspaceidx_driver.ml — serves the extracted length-tree index arithmetic of the parameter space
   (ParamSpaceIdx.llen / ParamSpaceIdx.lindex; props/C07xv.v).  Integers travel in arbitrary
   precision (conv.ml: decimal when they fit OCaml's int, b<binary digits> / b-<binary digits>
   otherwise, both directions).

   request:  (llen <ltree>)
             (lindex <ltree> (<i> ...))
             (radix (<len> ...) <j>)
     ltree = (leaf <name> <len>) | (prod <ltree> ...) | (assoc <ltree> ...)
     name  = (<code point> ...)
   reply:    (llen ...)    ->  (ok <z>) | (raise <exn>)
             (lindex ...)  ->  (<len> (<item> ...))      one item per index, in order
                 len  = (ok <z>) | (raise <exn>)
                 item = (ok ((<name> <position>) ...)) | (raise <exn>)
                        (dict order of the code: the order of the result.update calls)
             (radix ...)   ->  (<digit> ...)             closed form of C07xv_product *)
open Sx
open Model
open Conv

let rec ltree_of_sx = function
  | L [A "leaf"; n; l] -> LLeaf (str_of_sx n, z_of_sx l)
  | L (A "prod" :: cs) -> LProd (List.map ltree_of_sx cs)
  | L (A "assoc" :: cs) -> LAssoc (List.map ltree_of_sx cs)
  | _ -> failwith "ltree"

let sx_of_penv (e : (n list * z) list) : Sx.t =
  sx_of_list (fun (n, p) -> L [sx_of_str n; sx_of_z p]) e

let handle (req : Sx.t) : Sx.t =
  match req with
  | L [A "llen"; t] -> sx_of_outcome sx_of_z (llen (ltree_of_sx t))
  | L [A "lindex"; t; idx] ->
    let t = ltree_of_sx t in
    L [sx_of_outcome sx_of_z (llen t);
       L (list_of_sx (fun i -> sx_of_outcome sx_of_penv (lindex t (z_of_sx i))) idx)]
  | L [A "radix"; lens; j] -> sx_of_list sx_of_z (radix (list_of_sx z_of_sx lens) (z_of_sx j))
  | _ -> failwith "unknown-request"

let () = serve handle
